#!/usr/bin/env python3
"""Regenerates /verif/MANIFEST.json from the list of built checks (hv list) and
the per-property texts below."""
import json, subprocess, os

ALL = ["C%02d" % i for i in range(1, 21)]

TEXT = {
 "C01": ("Structural necessary conditions of 'no proxying before auth', decided for every path: gate-flag writer census (only `true`, only behind the Authenticate true-edge, under the mutex), no re-evaluation, flag per connection, and call-graph gating of every Outbound.TCP/UDP/CheckUDP site behind the dispatcher/auth-ok edges; dispatcher silent before the gate. Right level because the property quantifies over histories and schedules that only an all-paths argument covers; not a proof of the behaviour (library dispatch and payload relay are outside).",
         "go/types+go/ssa model of the source; VTA call graph for dynamic calls inside the repo; quic-go http3 calls handler/dispatcher of the same connection; unsynchronised flag read not judged",
         "SSA edge-guard reachability, field-writer census, lockset, VTA call-graph gating"),
}

NA_REASON = {}

def main():
    built = subprocess.run(["/verif/bin/hv", "list"], capture_output=True, text=True).stdout.split()
    checks = []
    na = []
    for pid in ALL:
        if pid in built and pid in TEXT:
            text, note, tech = TEXT[pid]
            checks.append({
                "property_id": pid,
                "quick_cmd": "/verif/bin/hv check %s --tier quick" % pid,
                "thorough_cmd": "/verif/bin/hv check %s --tier thorough" % pid,
                "evidence_file": "/verif/evidence/%s.json" % pid,
                "replay_cmd_template": "/verif/bin/hv explain {path}",
                "engine": "hv",
                "level_claimed": {"category": "other", "text": text, "design_ref": "DESIGN.md §2 " + pid},
                "level_note": note,
                "technique": "static analysis: " + tech,
            })
        else:
            na.append({"property_id": pid, "reason": NA_REASON.get(pid, "no static check registered yet for this property in the current state of /verif (work in progress; see DESIGN.md §2 for the planned structural clauses)")})
    m = {
        "version": 1,
        "setup_cmd": "cd /verif/hv && GOFLAGS=-mod=mod GOPROXY=off go build -o /verif/bin/hv .",
        "hooks": {
            "guard": "verif",
            "enable": "no hooks: the checks are static (go/packages + go/ssa over /repo's working tree); nothing in /repo is built with a tag",
            "baseline_off_cmd": "for m in app core extras; do (cd /repo/$m && go test -vet=off -count=1 -timeout 25m ./...); done",
            "source_commits": [],
            "add_only": True,
        },
        "engines": [{"name": "hv", "path": "/verif/hv", "serves_properties": [c["property_id"] for c in checks],
                     "kind_free_text": "repository-specific static analyser (Go, golang.org/x/tools v0.29.0: go/packages, go/ssa, callgraph/vta): edge-guard reachability, field censuses, locksets, may-write taint, sibling agreement"}],
        "checks": checks,
        "not_applicable": na,
        "notes": "All checks are static analysis of /repo's current working tree; level 'other' = structural necessary conditions decided for all paths, see DESIGN.md.",
    }
    json.dump(m, open("/verif/MANIFEST.json", "w"), indent=1)
    print("checks:", [c["property_id"] for c in checks], "na:", len(na))

main()

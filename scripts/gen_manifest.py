#!/usr/bin/env python3
"""Regenerates /verif/MANIFEST.json from the checks registered in the hv binary
(`hv describe`): every registered property is claimed at level 'other'; the
rest goes under not_applicable with the reason given below."""
import json, subprocess

ALL = ["C%02d" % i for i in range(1, 21)]

NA_REASON = {}
DEFAULT_NA = "no static check registered yet for this property in the current state of /verif (work in progress; DESIGN.md §2 lists the planned structural clauses)"

def main():
    desc = json.loads(subprocess.run(["/verif/bin/hv", "describe"], capture_output=True, text=True, check=True).stdout)
    by = {d["id"]: d for d in desc}
    checks, na = [], []
    for pid in ALL:
        d = by.get(pid)
        if d is None:
            na.append({"property_id": pid, "reason": NA_REASON.get(pid, DEFAULT_NA)})
            continue
        text = ("Structural necessary conditions of the property, decided on every path of /repo's current source (not on sampled runs): "
                + d["explanation"] + " This is the right level because the property quantifies over inputs/histories/schedules that only an all-paths argument reaches; it is NOT a proof of the behaviour: "
                + "not decided: " + "; ".join(d["not_decided"]) + ".")
        note = "Trusted base: go/types + go/ssa (x/tools v0.29.0) model of the source, hv's rule code; assumptions: " + ("; ".join(d["assumptions"]) if d["assumptions"] else "none beyond the trusted base") + "."
        checks.append({
            "property_id": pid,
            "quick_cmd": "/verif/bin/hv check %s --tier quick" % pid,
            "thorough_cmd": "/verif/bin/hv check %s --tier thorough" % pid,
            "evidence_file": "/verif/evidence/%s.json" % pid,
            "replay_cmd_template": "/verif/bin/hv explain {path}",
            "engine": "hv",
            "level_claimed": {"category": "other", "text": text, "design_ref": "DESIGN.md §2 " + pid},
            "level_note": note,
            "technique": d["technique"],
        })
    m = {
        "version": 1,
        "setup_cmd": "cd /verif/hv && GOFLAGS=-mod=mod GOPROXY=off go build -o /verif/bin/hv .",
        "hooks": {
            "guard": "verif",
            "enable": "no hooks: the checks are static (go/packages + go/ssa over /repo's working tree); nothing in /repo is built with a tag",
            "baseline_off_cmd": "for m in app core extras; do (cd /repo/$m && go test -vet=off -count=1 -timeout 25m ./...); done",
            "source_commits": [],
            "add_only": True,
        },
        "engines": [{"name": "hv", "path": "/verif/hv", "serves_properties": [c["property_id"] for c in checks],
                     "kind_free_text": "repository-specific static analyser (Go, golang.org/x/tools v0.29.0: go/packages, go/ssa, callgraph/vta): edge-guard reachability, field censuses, locksets, ownership/overwrite rule, may-write taint, sibling agreement; thorough tier adds 4 more GOOS/GOARCH configurations and replays seeded breakages / behaviour-preserving refactors on scratch copies"}],
        "checks": checks,
        "not_applicable": na,
        "notes": "All checks are static analysis of /repo's current working tree; level 'other' = structural necessary conditions decided for all paths, see DESIGN.md. Genuine defects found were repaired by fix: commits in /repo and are listed as fixed: in /verif/known_findings.txt.",
    }
    json.dump(m, open("/verif/MANIFEST.json", "w"), indent=1)
    print("checks:", [c["property_id"] for c in checks], "na:", len(na))

main()

#!/usr/bin/env python3
"""Prints the prompt for an independent 'seeded breakage' sub-agent: only the
property text and a scratch worktree; nothing from /verif's machinery."""
import json, sys

pid, tag = sys.argv[1], sys.argv[2]
# optional: ideas other engineers already used for this property (to get different ones)
avoid = sys.argv[3] if len(sys.argv) > 3 else ""
prop = None
for l in open("/verif/properties.jsonl"):
    p = json.loads(l)
    if p["id"] == pid:
        prop = p
wt = "/tmp/seed/%s-%s" % (pid, tag)
print(f"""You are helping to evaluate a verification effort for the open-source project apernet/hysteria
(Hysteria 2, a QUIC-based proxy written in Go). Your job is to play the role of a developer who makes a
plausible-looking change that silently BREAKS one stated semantic property of the system while everything
still compiles and the existing test-suite still passes.

The property (this JSON record is all you are told about the verification side):

{json.dumps(prop, indent=1)}

Your scratch copy of the repository is the git worktree {wt} (three Go modules: app/, core/, extras/,
joined by go.work). Work ONLY there. Do not read or write anything under /verif or /repo and do not look
for verification tooling – what you write must be independent of it. No network is available.
Go environment for every shell call: `export GOFLAGS= GOPROXY=off` and run go commands inside the module
directory ({wt}/core, {wt}/extras or {wt}/app); do NOT set GOSUMDB. `go build ./... && go test ./<pkg>/...` work offline.
(`git status` may show `extras/outbounds/acl/v2geo/geoip.dat` as modified – ignore that file, never include it in a diff.)

{("Other engineers already produced changes based on these ideas – do NOT reuse them, find different clauses of the property and different code sites: " + avoid) if avoid else ""}

Produce TWO different changes (different mechanism / different code site), each one:
 * is a realistic edit a maintainer could make (an optimisation, a refactor gone wrong, a "simplification",
   a feature tweak) – small (typically 1–15 changed lines), touching only non-test source files;
 * breaks the property above for SOME input / schedule / fault sequence / history – and needs something
   specific to manifest: a particular interleaving, a fault at a particular point, a multi-step sequence of
   operations, an unusual input, or two cooperating sites that each look fine alone. NOT something ordinary
   use or the existing tests would expose at once;
 * still compiles (`go build ./...` in each touched module, also `go vet` clean is nice) and the existing tests
   of the touched package(s) still pass (for core/server or core/client changes also run
   `go test ./internal/integration_tests/ -run 'TestClientServerTCPEcho|TestClientServerUDPEcho|TestClientServerHookTCP|TestClientServerHookUDP|TestClientServerBadAuth|TestServerMasquerade|TestClientServerUDPIdleTimeout' -count=1` in core);
 * comes with a demonstration: a new Go test file (or small program) that FAILS with your change applied and
   PASSES on the unchanged code. The demonstration may use internal APIs (put the _test.go file in the package).
   It must be deterministic (or at least fail reliably, e.g. >9/10 runs) and finish in under a minute.

For each change k in {{1,2}} leave these files in {wt}/../{pid}-{tag}-out/k/ (create the directory):
   patch.diff   – `git diff` of the source change only (no test files, no geoip.dat), applies with `git apply` at the repo root
   demo/        – the demonstration file(s) with their intended path relative to the repo root preserved
                  (e.g. demo/core/server/zz_seed_test.go)
   README.md    – what the change is, why it looks innocent, exactly what is needed for the breakage to manifest,
                  how to run the demonstration (command, cwd), its output with and without the change,
                  and which existing tests you ran (with results).
After saving change 1, reset the worktree (`git checkout -- . && git clean -fdq -e geoip.dat`) before making change 2 (never use `git stash`: the stash is shared with other engineers' worktrees), and
leave the worktree clean at the end. Verify each patch.diff applies to a clean tree and reproduces your results.
Your final message: for each change, three lines (what, what it needs to manifest, demo command) – nothing else.
""")

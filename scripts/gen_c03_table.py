#!/usr/bin/env python3
"""Builds /verif/hv/tables/c03.json from a dump of the sites hv's prover could not
discharge (HV_C03_DUMP=<file> hv check C03) and the reviewed reasons below.
A site of a function without a reviewed reason is NOT put into the table, so the
check reports it.  Reasons were written after reading each site on the pinned tree
(/repo @ 8880efa); they are the trusted part of C03 and are echoed in the evidence."""
import json, sys

dump = json.load(open(sys.argv[1]))

# function preconditions (verified by hv at every call site inside the repository)
CONTRACTS = {
    "(*PacketProtector).UnProtect": ["0 <= p2"],
    "(*salamanderObfuscator).keyLocked": ["8 <= cap(p1)"],
}

# reviewed justifications: (function name, kind or '*') -> reason
R = {
 ("varintPut", "*"): "writer-side helper: every caller passes a tail of a buffer it sized itself as the sum of quicvarint.Len() of the values it then writes (WriteTCPRequest/WriteTCPResponse) or checked with len(buf) >= m.Size() (Serialize); the final panic is unreachable because the values are lengths < 2^62",
 ("WriteTCPRequest", "bounds"): "buf is make(sz) with sz = sum of the widths written; each offset is the running sum of those same widths (varintPut returns quicvarint.Len of its argument, copy returns len(addr))",
 ("WriteTCPResponse", "bounds"): "buf is make(sz) with sz = 1 + sum of the widths written; offsets are running sums of the same widths",
 ("(*UDPMessage).Serialize", "bounds"): "dominated by the `len(buf) < m.Size()` return; Size() = 8 + varint + len(Addr) + len(Data) >= 8 and the offsets are running sums of exactly those widths",
 ("(*udpIOImpl).SendMessage", "bounds"): "Serialize returns -1 (rejected by the `msgN < 0` guard) or 8+i with i bounded by len(buf) through its own size guard",
 ("(*Defragger).Feed", "*"): "d.size is the sum of len(Data) of the stored fragments (added once per accepted fragment under the nil-slot guard, reset with the table); the copy offsets advance by copy() counts whose total is d.size",
 ("FragUDPMessage", "bounds"): "off < len(payload) is the loop condition and payloadSize = min(len-off, budget) with budget > 0 checked before the loop; fragID < fragCount because fragCount = ceil(len/budget) <= 255 is checked before the narrowing (fix 6f36f0d) and one fragment is produced per budget-sized step",
 ("(*AtomicTime).Get", "assert"): "the atomic.Value is only ever stored a time.Time (NewAtomicTime/Set are its only writers)",
 ("(*Atomic[string]).Load[string]", "assert"): "the atomic.Value only ever holds T (Store is the only writer)",
 ("copyBufferLog", "assert"): "copyBufPool.New returns *[]byte and only *[]byte values are Put back",
 ("(*udpHopPacketConn).recvLoop", "assert"): "bufPool.New returns []byte and only []byte values are Put back",
 ("(*geckoPacketConn).acceptChunk", "bounds"): "the output buffer is make(total) where total is the sum of the stored chunk lengths; the copy offsets advance by those same lengths",
 ("(*geckoPacketConn).writeFragmented", "*"): "start = i*chunkSize with i < chunks and chunkSize = len(p)/chunks, so start <= end <= len(p); buf is sized header+pad+len(chunk) which is what encodeFrame (size-checked itself) reports as n; randomPadLen returns a uint16",
 ("(*obfsPacketConn).WriteTo", "bounds"): "Obfuscate returns 0 or len(in)+saltLen after checking len(out) >= that value",
 ("(*salamanderObfuscator).keyLocked", "bounds"): "keyInput is allocated once in the constructor as make(len(PSK)+smSaltLen); PSK is never reassigned",
 ("(*httpOutbound).TCP", "make"): "bufio.Reader.Buffered() is non-negative",
 ("(*Client).Download", "bounds"): "the chunk size is clamped to the 64 KiB buffer length before slicing",
 ("(*Client).Upload", "bounds"): "the chunk size is clamped to the 64 KiB buffer length before slicing",
 ("(*Resolver).LookupA", "assert"): "the answer's header type was compared with TypeA on the dominating edge; dnsmessage guarantees the body type for that header type",
 ("(*Resolver).LookupAAAA", "assert"): "the answer's header type was compared with TypeAAAA on the dominating edge; dnsmessage guarantees the body type",
 ("(*Sniffer).TCP", "*"): "pre is a fixed 1024-byte array: pre[:3+n] with n <= 2 from io.ReadFull(pre[3:5]); the TLS record length is a 16-bit value built from two bytes, so make() gets 0..65535 and the appended slice has length 5+that",
 ("(*ProtectionKey).nonce", "bounds"): "iv is the 12-byte AEAD IV derived by hkdfExpandLabel(.., 12) in newProtectionKey, so len(nonce)-8 = 4",
 ("(*udpHopPacketConn).ReadFrom", "bounds"): "the queue element's N is the count returned by ReadFrom into that same Buf in recvLoop",
 ("(*udpHopPacketConn).WriteTo", "bounds"): "addrIndex is only ever stored as rand.Intn(len(Addrs)) and Addrs is immutable and non-empty after construction (C19.R4)",
 ("(*udpHopPacketConn).hop", "*"): "addrIndex is only ever stored as rand.Intn(len(Addrs)); Addrs is non-empty: the constructor rejects an empty port set",
 ("NewUDPHopPacketConn", "rand"): "addrs() returns one address per port of a parsed, non-empty port union (ParsePortUnion never yields an empty union)",
 ("(*udpHopPacketConn).nextHopInterval", "rand"): "HopIntervalConfig.Normalized() enforces Min <= Max, so Max-Min+1 >= 1",
 ("(padding).String", "*"): "the four padding ranges are package-level literals with Min < Max (C04.R5 checks them against the reader's limits)",
 ("randIntn", "div"): "n > 1 on this path and every caller passes a small positive constant-derived bound, so uint32(n) != 0",
 ("socks5AddrToAddrEx", "bounds"): "for ATYP domain the socks5 library stores the length byte first; the slice [1:] is taken after the library parsed a non-empty address",
 ("EncodePunchPacket", "*"): "paddingLength comes from crypto/rand.Int(.., MaxPunchPadding+1) and is therefore in [0, MaxPunchPadding]; plain is make(25+padding) so the constant offsets 8, 9:25 are in range",
 ("xorPunchPacket", "*"): "mask is a SHA-256 sum: 32 bytes, never empty",
 ("ReadCryptoPayload", "bounds"): "offset is len(data)-Reader.Len() >= 0 and hdr.Length is a QUIC varint (< 2^62) read into an int64, so offset+Length >= 0; the upper bound is the dominating `len(packet) < offset+Length` return",
 ("ReadCryptoPayload", "contract"): "offset = len(data) - bytes.Reader.Len() which is non-negative by the Reader's invariant (0 <= Len() <= len(data))",
 ("assembleCryptoFrames", "bounds"): "frame offsets are QUIC varints (non-negative) and the buffer is sized to the last frame's Offset+len(Data) after sorting by Offset",
 ("assembleCryptoFrames$1", "bounds"): "sort.Slice callback: i and j are valid indexes of the sorted slice by the sort package's contract",
 ("hkdfExpandLabel", "*"): "length is a small positive constant (12, 16, 32) or crypto.SHA256.Size() at every call site; HKDF expansion of <= 255*HashLen bytes cannot fail, so the panic is unreachable",
 ("newProtectionKey", "panic"): "aes.NewCipher / cipher.NewGCM fail only for invalid key sizes; the key is always 16 bytes (hkdfExpandLabel(.., 16))",
 ("newProtectionKey$1", "make"): "cipher.Block.BlockSize() is a positive constant (16 for AES)",
 ("newProtectionKey$2", "*"): "the ChaCha20 header-protection closure is only called with the 16-byte sample UnProtect slices out after its length guard; NewUnauthenticatedCipher fails only for wrong key/nonce sizes (32/12 here)",
 ("(*PacketProtector).UnProtect", "bounds"): "only the mask[...] indexes: mask comes from the header-protection closure (a 16-byte AES block or a 5-byte ChaCha20 keystream) and pnLen = (b&3)+1 <= 4, so mask[1+i] with i < pnLen is below 5; all packet[...] sites of this function are proved by hv from the length guard and the contract 0 <= pnOffset",
 ("(*RingBuffer", "make"): "BBR bookkeeping: Init is called with the constant initial capacity",
}

def reason_for(fn, kind):
    for (f, k), r in R.items():
        if (fn == f or (f.endswith("[") is False and f == "(*RingBuffer" and fn.startswith("(*RingBuffer["))) and (k == "*" or k == kind):
            return r
    return None

just, missing = [], []
for s in dump:
    r = reason_for(s["fn"], s["kind"])
    if r is None:
        missing.append(s)
        continue
    just.append({"fn": s["fn"], "kind": s["kind"], "site": s["site"], "reason": r})

# contract call sites that the prover cannot discharge (reviewed)
just.append({"fn": "ReadCryptoPayload", "kind": "contract", "site": "(*PacketProtector).UnProtect:0 <= p2", "reason": R[("ReadCryptoPayload", "contract")]})

json.dump({"contracts": CONTRACTS, "justified": just}, open("/verif/hv/tables/c03.json", "w"), indent=1)
print("justified:", len(just), "contracts:", sum(len(v) for v in CONTRACTS.values()))
for m in missing:
    print("NO REASON:", m["fn"], "|", m["kind"], "|", m["site"][:100], "|", m["reason"])

#!/usr/bin/env python3
"""Prompt for an independent 'behaviour-preserving refactor' sub-agent: only the
property records (for the anchored files) and a scratch worktree."""
import json, sys

tag = sys.argv[1]
pids = sys.argv[2:]
props = []
for l in open("/verif/properties.jsonl"):
    p = json.loads(l)
    if p["id"] in pids:
        props.append(p)
wt = "/tmp/seed/R-%s" % tag
files = sorted({f for p in props for f in p["anchors"]["files"] if f.endswith(".go")})
print(f"""You are helping to evaluate a static-analysis based verification effort for the open-source project
apernet/hysteria (Hysteria 2, a QUIC-based proxy written in Go). The analysers must NOT raise alarms on code whose
behaviour is unchanged. Your job: play a maintainer who REFACTORS code without changing its behaviour in any way.

The code in question implements these semantic properties (records below, for orientation only – your changes must
keep every one of them true, including under concurrency, faults and unusual inputs):

{json.dumps([{k: p[k] for k in ("id", "title", "statement")} for p in props], indent=1)}

Files to refactor (you may also touch their direct callers/callees when a refactor needs it): {", ".join(files)}

Your scratch copy of the repository is the git worktree {wt} (Go modules app/, core/, extras/ joined by go.work).
Work ONLY there; do not read or write anything under /verif or /repo; never use `git stash`. No network.
Go environment: `export GOFLAGS= GOPROXY=off`, run go commands inside the module directory; do NOT set GOSUMDB.
(`git status` may show extras/outbounds/acl/v2geo/geoip.dat as modified – ignore it, never include it in a diff.)
The integration tests in core/internal/integration_tests use fixed UDP ports: only one run at a time on this machine
(retry on "address already in use"), always with a -run filter, never the whole package.

Produce SIX independent refactoring patches (each applies on its own to the clean tree), spread over the files above,
of the kinds real maintainers do – mix them, and make some of them non-trivial:
 * rename receivers / locals / parameters / unexported fields, constants or functions (consistently, all uses);
 * extract a helper function or method (or inline one), move code between functions or into a new file of the package;
 * invert conditions and reorder branches (`if a {{X}} else {{Y}}` <-> `if !a {{Y}} else {{X}}`), early return vs nested if,
   `switch` instead of an if-chain, combine or split guards (`if a || b` <-> two ifs) without changing what is checked;
 * `defer mu.Unlock()` <-> explicit unlocks on every path (keeping exactly the same critical sections);
 * builtin min()/max() <-> clamp by assignment; named results; temporary variables; loop form (`for i := range n` <-> classic);
 * replace a composite literal by field-wise assignment or a small constructor; reorder independent statements.
Each patch: 10–80 changed lines, touching only non-test source files, must compile (`go build ./...` in every touched module,
`go vet` of the touched packages clean) and the existing tests of the touched packages must still pass. Behaviour must be
IDENTICAL: same outputs, same errors, same side effects in the same order where the order is observable, same locking
discipline, no new panics, no change in what is validated or rejected. Do not "fix" or "improve" anything.

For each patch k in 1..6 write to {wt}/../R-{tag}-out/k/ : patch.diff (`git diff` of the source change only; applies with
`git apply` at the repo root) and README.md (what was refactored, which tests you ran). After saving a patch reset the
worktree (`git checkout -- . && git clean -fdq -e geoip.dat`). Leave the worktree clean at the end.
Your final message: one line per patch (files touched + kind of refactoring) – nothing else.
""")

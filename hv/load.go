package main

import (
	"fmt"
	"go/token"
	"go/types"
	"os"
	"path/filepath"
	"sort"
	"strings"
	"time"

	"golang.org/x/tools/go/callgraph"
	"golang.org/x/tools/go/callgraph/cha"
	"golang.org/x/tools/go/callgraph/vta"
	"golang.org/x/tools/go/packages"
	"golang.org/x/tools/go/ssa"
	"golang.org/x/tools/go/ssa/ssautil"
)

// Package path shorthands used by the rules.
const (
	modCore   = "github.com/apernet/hysteria/core/v2"
	modExtras = "github.com/apernet/hysteria/extras/v2"
	modApp    = "github.com/apernet/hysteria/app/v2"

	pServer     = modCore + "/server"
	pClient     = modCore + "/client"
	pProtocol   = modCore + "/internal/protocol"
	pFrag       = modCore + "/internal/frag"
	pUtils      = modCore + "/internal/utils"
	pCongestion = modCore + "/internal/congestion"
	pBBR        = modCore + "/internal/congestion/bbr"
	pBrutal     = modCore + "/internal/congestion/brutal"
	pCommon     = modCore + "/internal/congestion/common"
	pSniff      = modExtras + "/sniff"
	pSniffQUIC  = modExtras + "/sniff/internal/quic"
	pObfs       = modExtras + "/obfs"
	pRealm      = modExtras + "/realm"
	pTraffic    = modExtras + "/trafficlogger"
	pUDPHop     = modExtras + "/transport/udphop"
	pEUtils     = modExtras + "/utils"
	pOutbounds  = modExtras + "/outbounds"
	pACL        = modExtras + "/outbounds/acl"
	pSpeedtest  = modExtras + "/outbounds/speedtest"
	pSocks5     = modApp + "/internal/socks5"
	pHTTP       = modApp + "/internal/http"
	pMux        = modApp + "/internal/proxymux"
	pAppCmd     = modApp + "/cmd"
	pQUIC       = "github.com/apernet/quic-go"
)

var repoRoot = envOr("HV_REPO", "/repo")

func envOr(k, d string) string {
	if v := os.Getenv(k); v != "" {
		return v
	}
	return d
}

// BuildCfg is one build configuration (GOOS/GOARCH).
type BuildCfg struct{ GOOS, GOARCH string }

func (b BuildCfg) String() string { return b.GOOS + "/" + b.GOARCH }

type Prog struct {
	Cfg      BuildCfg
	Pkgs     []*packages.Package
	Fset     *token.FileSet
	SSA      *ssa.Program
	AllDeps  bool
	byPath   map[string]*packages.Package
	ssaPkg   map[string]*ssa.Package
	fnIndex  map[string]*ssa.Function
	RepoFns  []*ssa.Function // every function (incl. anonymous, methods) declared in repo packages, mocks excluded
	AllFns   map[*ssa.Function]bool
	cgCHA    *callgraph.Graph
	cgVTA    *callgraph.Graph
	LoadSecs float64
	genFiles map[string]bool // generated (mockery) files
}

// ensureWork writes the out-of-tree go.work so that the go command never
// touches /repo/go.work.sum.
func ensureWork() (string, error) {
	dir := filepath.Join(verifRoot(), ".work")
	if repoRoot != "/repo" {
		// scratch copies get their own work file, next to the copy
		dir = filepath.Join(filepath.Dir(repoRoot), ".work-"+filepath.Base(repoRoot))
	}
	if err := os.MkdirAll(dir, 0o755); err != nil {
		return "", err
	}
	w := "go 1.25.0\n\nuse (\n\t" + repoRoot + "/app\n\t" + repoRoot + "/core\n\t" + repoRoot + "/extras\n)\n"
	if err := os.WriteFile(filepath.Join(dir, "go.work"), []byte(w), 0o644); err != nil {
		return "", err
	}
	if b, err := os.ReadFile(filepath.Join(repoRoot, "go.work.sum")); err == nil {
		_ = os.WriteFile(filepath.Join(dir, "go.work.sum"), b, 0o644)
	}
	return filepath.Join(dir, "go.work"), nil
}

func verifRoot() string { return envOr("HV_VERIF", "/verif") }

func goEnv(cfg BuildCfg, work string) []string {
	var env []string
	for _, e := range os.Environ() {
		k := strings.SplitN(e, "=", 2)[0]
		switch k {
		case "GOFLAGS", "GOWORK", "GOOS", "GOARCH", "GOSUMDB", "GOTOOLCHAIN", "CGO_ENABLED", "GOPROXY":
			continue
		}
		env = append(env, e)
	}
	env = append(env, "GOFLAGS=-trimpath", "GOWORK="+work, "GOPROXY=off", "GOOS="+cfg.GOOS, "GOARCH="+cfg.GOARCH, "CGO_ENABLED=0")
	return env
}

// Load type-checks the three modules and builds SSA. With allDeps the
// dependencies (quic-go, x/crypto, pion, the standard library) are loaded from
// source as well so that their function bodies are available.
func Load(cfg BuildCfg, allDeps bool) (*Prog, error) {
	t0 := time.Now()
	work, err := ensureWork()
	if err != nil {
		return nil, err
	}
	mode := packages.LoadSyntax
	if allDeps {
		mode = packages.LoadAllSyntax
	}
	pc := &packages.Config{
		Mode:  mode | packages.NeedModule,
		Dir:   repoRoot,
		Env:   goEnv(cfg, work),
		Tests: false,
	}
	pkgs, err := packages.Load(pc, "./app/...", "./core/...", "./extras/...")
	if err != nil {
		return nil, fmt.Errorf("packages.Load: %w", err)
	}
	nerr := 0
	packages.Visit(pkgs, nil, func(p *packages.Package) {
		for _, e := range p.Errors {
			if nerr < 10 {
				fmt.Fprintf(os.Stderr, "load error: %s: %v\n", p.PkgPath, e)
			}
			nerr++
		}
	})
	if nerr > 0 {
		return nil, fmt.Errorf("%d package load/type errors under %s", nerr, cfg)
	}
	if len(pkgs) < 40 {
		return nil, fmt.Errorf("only %d root packages loaded (expected >= 40)", len(pkgs))
	}
	p := &Prog{Cfg: cfg, Pkgs: pkgs, AllDeps: allDeps, byPath: map[string]*packages.Package{}, ssaPkg: map[string]*ssa.Package{}, fnIndex: map[string]*ssa.Function{}, genFiles: map[string]bool{}}
	p.Fset = pkgs[0].Fset
	prog, _ := ssautil.AllPackages(pkgs, ssa.InstantiateGenerics)
	prog.Build()
	p.SSA = prog
	packages.Visit(pkgs, nil, func(pp *packages.Package) { p.byPath[pp.PkgPath] = pp })
	for _, sp := range prog.AllPackages() {
		p.ssaPkg[sp.Pkg.Path()] = sp
	}
	// generated files
	for _, pp := range pkgs {
		for _, f := range pp.Syntax {
			gen := false
			for _, cg := range f.Comments {
				if cg.Pos() > f.Package {
					break
				}
				if strings.Contains(cg.Text(), "Code generated") {
					gen = true
				}
			}
			if gen {
				p.genFiles[p.Fset.Position(f.Pos()).Filename] = true
			}
		}
	}
	p.AllFns = ssautil.AllFunctions(prog)
	// AllFunctions is reachability based: add every method of every named type
	// declared in the repository so that rules see unreferenced methods too.
	var addFn func(fn *ssa.Function)
	addFn = func(fn *ssa.Function) {
		if fn == nil || p.AllFns[fn] {
			return
		}
		p.AllFns[fn] = true
		for _, an := range fn.AnonFuncs {
			addFn(an)
		}
	}
	for _, sp := range prog.AllPackages() {
		if !isRepoPath(sp.Pkg.Path()) {
			continue
		}
		for _, mem := range sp.Members {
			switch m := mem.(type) {
			case *ssa.Function:
				addFn(m)
			case *ssa.Type:
				for _, T := range []types.Type{m.Type(), types.NewPointer(m.Type())} {
					if types.IsInterface(T) {
						continue
					}
					ms := prog.MethodSets.MethodSet(T)
					for i := 0; i < ms.Len(); i++ {
						addFn(prog.MethodValue(ms.At(i)))
					}
				}
			}
		}
	}
	for fn := range p.AllFns {
		p.fnIndex[fn.String()] = fn
		if p.IsRepoFn(fn) {
			p.RepoFns = append(p.RepoFns, fn)
		}
	}
	sort.Slice(p.RepoFns, func(i, j int) bool { return p.RepoFns[i].String() < p.RepoFns[j].String() })
	p.LoadSecs = time.Since(t0).Seconds()
	return p, nil
}

func isRepoPath(path string) bool {
	return strings.HasPrefix(path, "github.com/apernet/hysteria/")
}

// fnPkg returns the package a function (or its outermost parent) belongs to.
func fnPkg(fn *ssa.Function) *ssa.Package {
	for fn.Parent() != nil {
		fn = fn.Parent()
	}
	if fn.Pkg != nil {
		return fn.Pkg
	}
	if o := fn.Origin(); o != nil && o.Pkg != nil {
		return o.Pkg
	}
	return nil
}

// IsRepoFn reports whether fn is declared in a (non generated, non test-util)
// file of the repository.
func (p *Prog) IsRepoFn(fn *ssa.Function) bool {
	pk := fnPkg(fn)
	if pk == nil || !isRepoPath(pk.Pkg.Path()) {
		return false
	}
	if fn.Synthetic != "" && fn.Parent() == nil {
		// wrappers, bound methods, thunks, init: no source of their own
		if !strings.HasPrefix(fn.Synthetic, "instance of") {
			return false
		}
	}
	path := pk.Pkg.Path()
	if strings.Contains(path, "/internal/mocks") || strings.HasSuffix(path, "/utils_test") || strings.Contains(path, "/internal/utils_test") {
		return false
	}
	if fn.Pos().IsValid() {
		if p.genFiles[p.Fset.Position(fn.Pos()).Filename] {
			return false
		}
	}
	return true
}

// Fn resolves "pkgpath", "(*T).M" | "T.M" | "F" | "F$1" to an SSA function.
func (p *Prog) Fn(pkg, name string) *ssa.Function {
	fn := p.fnByName(pkg, name)
	if fn != nil {
		p.recordFn(pkg, name, fn)
		return fn
	}
	return p.renamedFn(pkg, name)
}

func (p *Prog) fnByName(pkg, name string) *ssa.Function {
	var key string
	switch {
	case strings.HasPrefix(name, "(*"):
		rest := name[2:]
		key = "(*" + pkg + "." + rest
	case strings.HasPrefix(name, "("):
		key = "(" + pkg + "." + name[1:]
	default:
		key = pkg + "." + name
	}
	if fn := p.fnIndex[key]; fn != nil {
		return fn
	}
	// value-receiver method written as T.M
	if i := strings.Index(name, "."); i > 0 && !strings.HasPrefix(name, "(") {
		if fn := p.fnIndex["("+pkg+"."+name[:i]+")"+name[i:]]; fn != nil {
			return fn
		}
	}
	return nil
}

// Named looks up a named type.
func (p *Prog) Named(pkg, name string) *types.Named {
	pp := p.byPath[pkg]
	if pp == nil || pp.Types == nil {
		return nil
	}
	o := pp.Types.Scope().Lookup(name)
	if o == nil {
		return nil
	}
	n, _ := o.Type().(*types.Named)
	return n
}

// Field looks up a struct field object.
func (p *Prog) Field(pkg, typ, field string) *types.Var {
	n := p.Named(pkg, typ)
	if n == nil {
		return nil
	}
	st, ok := n.Underlying().(*types.Struct)
	if !ok {
		return nil
	}
	for i := 0; i < st.NumFields(); i++ {
		if st.Field(i).Name() == field {
			p.recordField(pkg, typ, field, st.Field(i), st)
			return st.Field(i)
		}
	}
	return p.renamedField(pkg, typ, field, st)
}

// FieldLike resolves a struct field by name, or -- when a maintainer renamed
// it -- as the only field of the struct whose type typeOK accepts.
func (p *Prog) FieldLike(pkg, typ, field string, typeOK func(types.Type) bool) *types.Var {
	if f := p.Field(pkg, typ, field); f != nil && typeOK(f.Type()) {
		return f
	}
	n := p.Named(pkg, typ)
	if n == nil {
		return nil
	}
	st, ok := n.Underlying().(*types.Struct)
	if !ok {
		return nil
	}
	var found *types.Var
	for i := 0; i < st.NumFields(); i++ {
		if typeOK(st.Field(i).Type()) {
			if found != nil {
				return nil
			}
			found = st.Field(i)
		}
	}
	return found
}

func isMutexType(t types.Type) bool {
	s := t.String()
	return s == "sync.Mutex" || s == "sync.RWMutex"
}

func isBoolType(t types.Type) bool {
	b, ok := t.Underlying().(*types.Basic)
	return ok && b.Kind() == types.Bool
}

// Const returns a package-level constant object.
func (p *Prog) Const(pkg, name string) *types.Const {
	pp := p.byPath[pkg]
	if pp == nil || pp.Types == nil {
		return nil
	}
	c, _ := pp.Types.Scope().Lookup(name).(*types.Const)
	if c != nil {
		p.recordConst(pkg, name, c, pp.Types)
		return c
	}
	if pp.Types.Scope().Lookup(name) != nil {
		return nil
	}
	return p.renamedConst(pkg, name, pp.Types)
}

func (p *Prog) Pos(pos token.Pos) string {
	if !pos.IsValid() {
		return "-"
	}
	ps := p.Fset.Position(pos)
	f := ps.Filename
	if strings.HasPrefix(f, repoRoot+"/") {
		f = f[len(repoRoot)+1:]
	}
	return fmt.Sprintf("%s:%d", f, ps.Line)
}

// InstrPos gives the best available position for an instruction.
func (p *Prog) InstrPos(in ssa.Instruction) string {
	if in == nil {
		return "-"
	}
	if in.Pos().IsValid() {
		return p.Pos(in.Pos())
	}
	// fall back to neighbouring instructions of the block
	if b := in.Block(); b != nil {
		for _, x := range b.Instrs {
			if x.Pos().IsValid() {
				return p.Pos(x.Pos()) + "~"
			}
		}
	}
	if in.Parent() != nil {
		return p.Pos(in.Parent().Pos()) + "~"
	}
	return "-"
}

// CHA returns the class-hierarchy call graph.
func (p *Prog) CHA() *callgraph.Graph {
	if p.cgCHA == nil {
		p.cgCHA = cha.CallGraph(p.SSA)
	}
	return p.cgCHA
}

// VTA returns the variable-type-analysis call graph seeded by CHA.
func (p *Prog) VTA() *callgraph.Graph {
	if p.cgVTA == nil {
		p.cgVTA = vta.CallGraph(p.AllFns, p.CHA())
	}
	return p.cgVTA
}

// Implementations returns the non-generated repo named types whose method set
// (of T or *T) satisfies the interface.
func (p *Prog) Implementations(iface *types.Interface) []types.Type {
	var out []types.Type
	seen := map[string]bool{}
	for _, pp := range p.Pkgs {
		if !isRepoPath(pp.PkgPath) || strings.Contains(pp.PkgPath, "/internal/mocks") {
			continue
		}
		sc := pp.Types.Scope()
		for _, n := range sc.Names() {
			tn, ok := sc.Lookup(n).(*types.TypeName)
			if !ok || tn.IsAlias() {
				continue
			}
			if p.genFiles[p.Fset.Position(tn.Pos()).Filename] {
				continue
			}
			t := tn.Type()
			if types.IsInterface(t) {
				continue
			}
			var impl types.Type
			if types.Implements(t, iface) {
				impl = t
			} else if types.Implements(types.NewPointer(t), iface) {
				impl = types.NewPointer(t)
			}
			if impl != nil && !seen[impl.String()] {
				seen[impl.String()] = true
				out = append(out, impl)
			}
		}
	}
	sort.Slice(out, func(i, j int) bool { return out[i].String() < out[j].String() })
	return out
}

// MethodOf returns the SSA function implementing method name on type t.
func (p *Prog) MethodOf(t types.Type, name string) *ssa.Function {
	ms := p.SSA.MethodSets.MethodSet(t)
	for i := 0; i < ms.Len(); i++ {
		if ms.At(i).Obj().Name() == name {
			return p.SSA.MethodValue(ms.At(i))
		}
	}
	return nil
}

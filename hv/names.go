package main

import (
	"encoding/json"
	"fmt"
	"go/types"
	"os"
	"path/filepath"
	"sort"
	"strings"
	"sync"

	"golang.org/x/tools/go/ssa"
)

// Rename tolerance for anchors resolved by name (Prog.Fn / Prog.Field /
// Prog.Const). tables/names.json records, for every anchor the checks look up
// on the pinned tree, its type (signature, field type, constant type and
// value) together with the complete list of names that existed next to it.
// When a lookup by name fails on a later tree, the anchor is taken to be
// renamed iff exactly one *new* name (one the pinned tree did not have) in the
// same scope has the recorded type; otherwise the lookup fails as before and
// the check reports the anchor as unresolved. `HV_NAMES_RECORD=<file> hv check
// all` regenerates the table (run it on the pinned tree only).

type nameTable struct {
	Fields    map[string]string   `json:"fields"`     // pkg|Type|field -> field type
	Structs   map[string][]string `json:"structs"`    // pkg|Type -> field names
	Fns       map[string]string   `json:"fns"`        // pkg|name -> signature
	PkgFns    map[string][]string `json:"pkg_fns"`    // pkg -> function keys
	Consts    map[string]string   `json:"consts"`     // pkg|name -> type = value
	PkgConsts map[string][]string `json:"pkg_consts"` // pkg -> constant names
}

var (
	namesMu     sync.Mutex
	namesRec    *nameTable
	namesLoaded *nameTable
	namesOnce   sync.Once
	namesNoted  = map[string]bool{}
)

func newNameTable() *nameTable {
	return &nameTable{Fields: map[string]string{}, Structs: map[string][]string{}, Fns: map[string]string{}, PkgFns: map[string][]string{}, Consts: map[string]string{}, PkgConsts: map[string][]string{}}
}

func namesTable() *nameTable {
	namesOnce.Do(func() {
		if os.Getenv("HV_NAMES_RECORD") != "" {
			namesRec = newNameTable()
		}
		b, err := os.ReadFile(filepath.Join(tablesDir(), "names.json"))
		if err != nil {
			return
		}
		t := newNameTable()
		if json.Unmarshal(b, t) == nil {
			namesLoaded = t
		}
	})
	return namesLoaded
}

func namesNote(msg string) {
	if !namesNoted[msg] {
		namesNoted[msg] = true
		fmt.Fprintln(os.Stderr, "hv: note: "+msg)
	}
}

func typeStr(t types.Type) string {
	return types.TypeString(t, func(p *types.Package) string { return p.Path() })
}

func sigStr(fn *ssa.Function) string {
	s := fn.Signature
	return typeStr(types.NewSignatureType(nil, nil, nil, s.Params(), s.Results(), s.Variadic()))
}

// fnScopeKey splits "(*pkg.T).M" / "pkg.F" into the part that must stay the
// same under a rename of the function itself ("(*pkg.T)." / "pkg.").
func fnScopePrefix(full string) string {
	if strings.HasPrefix(full, "(") {
		if i := strings.Index(full, ")."); i > 0 {
			return full[:i+2]
		}
	}
	if i := strings.LastIndex(full, "."); i > 0 {
		return full[:i+1]
	}
	return ""
}

func (p *Prog) pkgFnKeys(pkg string) []string {
	var out []string
	for k, fn := range p.fnIndex {
		if pk := fnPkg(fn); pk != nil && pk.Pkg.Path() == pkg && fn.Parent() == nil && fn.Synthetic == "" {
			out = append(out, k)
		}
	}
	sort.Strings(out)
	return out
}

func (p *Prog) recordFn(pkg, name string, fn *ssa.Function) {
	namesTable()
	if namesRec == nil || fn == nil || fn.Parent() != nil {
		return
	}
	namesMu.Lock()
	defer namesMu.Unlock()
	namesRec.Fns[pkg+"|"+name] = fn.String() + " " + sigStr(fn)
	if _, ok := namesRec.PkgFns[pkg]; !ok {
		namesRec.PkgFns[pkg] = p.pkgFnKeys(pkg)
	}
}

// renamedFn: the unique function with a name the pinned tree did not have, in
// the same scope (package / receiver type) and with the recorded signature.
func (p *Prog) renamedFn(pkg, name string) *ssa.Function {
	t := namesTable()
	if t == nil {
		return nil
	}
	rec, ok := t.Fns[pkg+"|"+name]
	if !ok {
		return nil
	}
	i := strings.Index(rec, " ")
	if i < 0 {
		return nil
	}
	oldFull, sig := rec[:i], rec[i+1:]
	if _, still := p.fnIndex[oldFull]; still {
		return nil
	}
	prefix := fnScopePrefix(oldFull)
	old := map[string]bool{}
	for _, k := range t.PkgFns[pkg] {
		old[k] = true
	}
	var found *ssa.Function
	for _, k := range p.pkgFnKeys(pkg) {
		if old[k] || fnScopePrefix(k) != prefix {
			continue
		}
		fn := p.fnIndex[k]
		if sigStr(fn) != sig {
			continue
		}
		if found != nil {
			return nil
		}
		found = fn
	}
	if found != nil {
		namesNote(fmt.Sprintf("%s no longer exists; %s (new name, same scope and signature) is taken to be its renamed successor", oldFull, found.String()))
	}
	return found
}

func structFieldNames(st *types.Struct) []string {
	var out []string
	for i := 0; i < st.NumFields(); i++ {
		out = append(out, st.Field(i).Name())
	}
	return out
}

func (p *Prog) recordField(pkg, typ, field string, f *types.Var, st *types.Struct) {
	namesTable()
	if namesRec == nil || f == nil {
		return
	}
	namesMu.Lock()
	defer namesMu.Unlock()
	namesRec.Fields[pkg+"|"+typ+"|"+field] = typeStr(f.Type())
	namesRec.Structs[pkg+"|"+typ] = structFieldNames(st)
}

func (p *Prog) renamedField(pkg, typ, field string, st *types.Struct) *types.Var {
	t := namesTable()
	if t == nil {
		return nil
	}
	want, ok := t.Fields[pkg+"|"+typ+"|"+field]
	if !ok {
		return nil
	}
	old := map[string]bool{}
	for _, n := range t.Structs[pkg+"|"+typ] {
		old[n] = true
	}
	var found *types.Var
	for i := 0; i < st.NumFields(); i++ {
		f := st.Field(i)
		if old[f.Name()] || typeStr(f.Type()) != want {
			continue
		}
		if found != nil {
			return nil
		}
		found = f
	}
	if found != nil {
		namesNote(fmt.Sprintf("field %s.%s.%s no longer exists; %s (new name, same type) is taken to be its renamed successor", pkg, typ, field, found.Name()))
	}
	return found
}

func pkgConstNames(pk *types.Package) []string {
	var out []string
	for _, n := range pk.Scope().Names() {
		if _, ok := pk.Scope().Lookup(n).(*types.Const); ok {
			out = append(out, n)
		}
	}
	return out
}

func constRec(c *types.Const) string { return typeStr(c.Type()) + " = " + c.Val().ExactString() }

func (p *Prog) recordConst(pkg, name string, c *types.Const, pk *types.Package) {
	namesTable()
	if namesRec == nil || c == nil {
		return
	}
	namesMu.Lock()
	defer namesMu.Unlock()
	namesRec.Consts[pkg+"|"+name] = constRec(c)
	namesRec.PkgConsts[pkg] = pkgConstNames(pk)
}

func (p *Prog) renamedConst(pkg, name string, pk *types.Package) *types.Const {
	t := namesTable()
	if t == nil {
		return nil
	}
	want, ok := t.Consts[pkg+"|"+name]
	if !ok {
		return nil
	}
	old := map[string]bool{}
	for _, n := range t.PkgConsts[pkg] {
		old[n] = true
	}
	var found *types.Const
	for _, n := range pkgConstNames(pk) {
		if old[n] {
			continue
		}
		c := pk.Scope().Lookup(n).(*types.Const)
		if constRec(c) != want {
			continue
		}
		if found != nil {
			return nil
		}
		found = c
	}
	if found != nil {
		namesNote(fmt.Sprintf("constant %s.%s no longer exists; %s (new name, same type and value) is taken to be its renamed successor", pkg, name, found.Name()))
	}
	return found
}

// dumpNames writes the recorded table (HV_NAMES_RECORD).
func dumpNames() {
	namesTable()
	if namesRec == nil {
		return
	}
	namesMu.Lock()
	defer namesMu.Unlock()
	b, _ := json.MarshalIndent(namesRec, "", " ")
	_ = os.WriteFile(os.Getenv("HV_NAMES_RECORD"), b, 0o644)
}

package main

import (
	"fmt"
	"go/token"
	"go/types"

	"golang.org/x/tools/go/ssa"
)

func init() {
	register(&propDef{
		ID:        "C07",
		Run:       checkC07,
		Technique: "static analysis: field typestate under a lockset, edge-guard reachability with call-site lifting, ownership of opener results, map-operation census, reaching definitions of the dispatched entry, must-pass-through on exit paths, goroutine-root census (go/ssa)",
		Explanation: "Decides for every path and interleaving the structural necessary conditions of 'server UDP sessions are isolated, expire when idle and never leak': " +
			"R1 the session socket field is written only under connLock, behind the `closed == false` edge read in the same critical section, never over a live socket, and `closed` is only ever set to true under that lock; " +
			"R2 every Close() of the session socket is behind the first-close edge (`closed == false` read under connLock in the critical section that sets closed = true) and closes the socket read in that section or after it; the first close closes the socket unless it is nil and calls ExitFunc, which is reachable only over the first-close edge; " +
			"R3 every value returned by a call that yields a server.UDPConn is closed, stored in the session's socket field or returned on every path, the socket field only receives such a call's result and the dial closure returns nothing but the socket it just opened; " +
			"R4 every operation on the session table holds the table mutex (write mode for insert/delete), the session close is never called with the table mutex held, and the exit closure deletes exactly the entry it was created for; " +
			"R5 datagrams are dispatched to the entry found (or created) under the datagram's own session ID and inserted under that ID, replies are read from the receiver's own socket, carry the receiver's ID and the bytes just read, and leave through the IO the entry was created with (the manager's); " +
			"R6 the reply loop closes the session before every return and can leave on a read error; the manager loop can leave on a receive error, closes all sessions and stops the sweeper on every exit; the sweeper observes the stop channel and returns; the sweep selects an entry only over the `now - Last > idleTimeout` edge while the exit cleanup selects every entry; Last is refreshed with time.Now() before every forwarded datagram and between every socket read and its reply; the exit cleanup reaches its table scan on every path (an early return is accepted only behind a test of the table itself); R10 AtomicTime.Set stores the instant it is given and never a rounding of it; " +
			"R7 the only goroutine roots of the session code are the reply loop (started after the socket is stored, on every such path) and the sweeper (handed the channel the manager closes).",
		NotDecided: []string{
			"timing bounds (closed within one sweep interval; the sweep period itself)",
			"that a failed dial removes the entry immediately (an entry without socket is swept when idle; not a leak)",
			"races between the manager's miss→insert and a concurrent close of the same ID beyond lock discipline",
			"'goroutines gone' as an end-to-end fact; behaviour of the sockets / quic connection themselves",
			"unsynchronised reads of the socket field by the single feeding goroutine and the reply loop (Go memory model)",
		},
		Assumptions: []string{
			"one goroutine (the manager's Run loop) feeds all entries of a manager",
			"a method called on a freshly allocated receiver inside its constructor runs before the object escapes",
			"helpers are lifted to their call sites only when they are unexported, never used as values and do not release the lock themselves",
		},
	})
}

type c07ctx struct {
	c  *Check
	p  *Prog
	la *LockAnalysis

	entT, mgrT, udpConnT, udpIOT                             *types.Named
	fConn, fConnLock, fClosed, fID, fLast, fIO, fDial, fExit *types.Var
	fM, fMutex, fIdle, fMgrIO                                *types.Var
	fSessID, fMsgData                                        *types.Var
	setFn, getFn                                             *ssa.Function
	srvFns                                                   []*ssa.Function
	closeFns                                                 map[*ssa.Function]*ssa.Store // functions performing `closed = true` (session close)
	sessClose                                                map[*ssa.Function]bool       // closeFns + wrappers that always call one on their receiver
	selMemo                                                  map[*ssa.Function]*c07sel
	keySeen                                                  map[string]int
}

// ---------------------------------------------------------------------------
// small helpers (all prefixed c07)

func c07fresh(addr ssa.Value, fn *ssa.Function) bool {
	al, ok := accessPath(addr).Root.(*ssa.Alloc)
	return ok && al.Parent() == fn
}

func c07exported(fn *ssa.Function) bool {
	return fn.Object() != nil && fn.Object().Exported()
}

// uniq makes an obligation key unique: the 2nd, 3rd ... instance of the same
// construct inside one function (in SSA order) gets an ordinal suffix.
func (x *c07ctx) uniq(key string) string {
	x.keySeen[key]++
	if n := x.keySeen[key]; n > 1 {
		return fmt.Sprintf("%s#%d", key, n)
	}
	return key
}

// c07touches: fn contains a (non deferred) Lock/Unlock of the mutex.
func c07touches(fn *ssa.Function, mu *types.Var) bool {
	found := false
	allInstrs(fn, func(in ssa.Instruction) {
		if call, ok := in.(*ssa.Call); ok {
			if f, _ := lockOp(call); f == mu {
				found = true
			}
		}
	})
	return found
}

func (x *c07ctx) liftable(fn *ssa.Function) bool {
	return len(x.la.callers[fn]) > 0 && !x.la.escaped[fn] && !c07exported(fn)
}

// atSites: f holds at `in`, or `in` lives in a helper that is only called
// directly and f holds at every call site (transitively).  With mu != nil the
// helper must neither lock nor unlock mu (the caller's critical section
// continues through it).
func (x *c07ctx) atSites(in ssa.Instruction, mu *types.Var, depth int, f func(site ssa.Instruction) bool) bool {
	if f(in) {
		return true
	}
	fn := in.Parent()
	if depth >= 3 || !x.liftable(fn) || (mu != nil && c07touches(fn, mu)) {
		return false
	}
	for _, cs := range x.la.callers[fn] {
		site, ok := cs.(ssa.Instruction)
		if !ok || !x.atSites(site, mu, depth+1, f) {
			return false
		}
	}
	return true
}

// valueUp: pred holds for v, or v is a parameter of a liftable helper and pred
// holds for the corresponding argument at every call site.
func (x *c07ctx) valueUp(v ssa.Value, depth int, pred func(ssa.Value) bool) bool {
	if pred(v) {
		return true
	}
	prm, ok := resolve(v).(*ssa.Parameter)
	if !ok || depth >= 3 {
		return false
	}
	fn := prm.Parent()
	if !x.liftable(fn) {
		return false
	}
	idx := -1
	for i, q := range fn.Params {
		if q == prm {
			idx = i
		}
	}
	if idx < 0 {
		return false
	}
	for _, cs := range x.la.callers[fn] {
		args := cs.Common().Args
		if idx >= len(args) || !x.valueUp(args[idx], depth+1, pred) {
			return false
		}
	}
	return true
}

// closedLoadOK: the load of `closed` behind cond is performed under connLock in
// the same critical section as target.
func (x *c07ctx) closedFalse(target ssa.Instruction) EdgePred {
	return func(cond ssa.Value, pol bool) bool {
		if pol || !isLoadOfField(cond, x.fClosed) {
			return false
		}
		l, ok := resolve(cond).(ssa.Instruction)
		if !ok || l.Parent() != target.Parent() {
			return false
		}
		return x.la.sameRegion(l, target, x.fConnLock, lockW)
	}
}

// firstCloseEdge: `closed == false` read under connLock in the critical section
// that also sets closed = true (only one caller ever crosses it) – or, when that
// section lives in a helper reporting its outcome (`if !e.markClosed() { return }`),
// the edge on which the helper's result has a value the helper returns only
// from behind its own first-close edge.
func (x *c07ctx) firstCloseEdge(cond ssa.Value, pol bool) bool {
	return x.firstCloseEdgeD(cond, pol, 0)
}

func (x *c07ctx) firstCloseEdgeD(cond ssa.Value, pol bool, depth int) bool {
	if call, idx := c07callResult(cond); call != nil {
		callee := staticCallee(call)
		if callee == nil || depth >= 2 || len(callee.Blocks) == 0 || !x.p.IsRepoFn(callee) {
			return false
		}
		return x.resultOnlyBehind(callee, idx, pol, func(c ssa.Value, p bool) bool { return x.firstCloseEdgeD(c, p, depth+1) })
	}
	if pol || !isLoadOfField(cond, x.fClosed) {
		return false
	}
	l, ok := resolve(cond).(ssa.Instruction)
	if !ok {
		return false
	}
	st := x.closeFns[l.Parent()]
	return st != nil && x.la.sameRegion(l, st, x.fConnLock, lockW)
}

// c07callResult: v is the (idx-th) result of a static call.
func c07callResult(v ssa.Value) (*ssa.Call, int) {
	switch y := resolve(v).(type) {
	case *ssa.Call:
		if y.Call.Signature() != nil && y.Call.Signature().Results().Len() == 1 {
			return y, 0
		}
	case *ssa.Extract:
		if call, ok := y.Tuple.(*ssa.Call); ok {
			return call, y.Index
		}
	}
	return nil, -1
}

// resultOnlyBehind: the boolean result #idx of fn has the value `val` on at
// least one return, and every return on which it may have that value (i.e. is
// not the constant !val) lies behind an edge accepted by pred.
func (x *c07ctx) resultOnlyBehind(fn *ssa.Function, idx int, val bool, pred EdgePred) bool {
	any := false
	good := true
	allInstrs(fn, func(in ssa.Instruction) {
		r, isRet := in.(*ssa.Return)
		if !isRet || r.Block() == fn.Recover {
			return
		}
		res := retResults(r)
		if idx >= len(res) || res[idx] == nil {
			good = false
			return
		}
		if isConstBool(res[idx], !val) {
			return
		}
		any = true
		if !guardedBy(r, pred) {
			good = false
		}
	})
	return any && good
}

// defIs: v is target, seen through conversions and loads of local variables
// (named results spilled by defer have several stores: reaching definitions).
func c07defIs(v, target ssa.Value) bool {
	if target == nil {
		return false
	}
	if resolve(v) == target {
		return true
	}
	defs, ok := c07defs(v)
	if !ok || len(defs) == 0 {
		return false
	}
	for _, d := range defs {
		if resolve(d) != target {
			return false
		}
	}
	return true
}

func (x *c07ctx) connNilEdge(cond ssa.Value, pol bool) bool {
	v, isNil, ok := nilTest(cond, pol)
	return ok && isNil && isLoadOfField(v, x.fConn)
}

func (x *c07ctx) isConnLoad(v ssa.Value) bool { return isLoadOfField(v, x.fConn) }

// recvRooted: v is a load of field f whose access path is rooted at the method
// receiver (of the enclosing method, also from inside its closures).
func (x *c07ctx) recvRooted(v ssa.Value, f *types.Var, T *types.Named) bool {
	if !isLoadOfField(v, f) {
		return false
	}
	return x.isReceiver(accessPath(v).Root, T)
}

func (x *c07ctx) isReceiver(root ssa.Value, T *types.Named) bool {
	prm, ok := root.(*ssa.Parameter)
	if !ok {
		return false
	}
	fn := prm.Parent()
	return fn.Signature.Recv() != nil && len(fn.Params) > 0 && fn.Params[0] == prm && namedOf(prm.Type()) == T
}

func (x *c07ctx) connInvoke(ci ssa.CallInstruction, method string) bool {
	return invokeIs(ci, method) && types.Identical(ci.Common().Value.Type(), x.udpConnT)
}

func (x *c07ctx) ioInvoke(ci ssa.CallInstruction, method string) bool {
	return invokeIs(ci, method) && types.Identical(ci.Common().Value.Type(), x.udpIOT)
}

// closesConn: the instruction closes the session socket – directly, or by
// calling a helper every path of which does (unless the socket is nil).
func (x *c07ctx) closesConn(in ssa.Instruction, depth int) bool {
	if isCloseOf(in, x.isConnLoad) {
		return true
	}
	call, ok := in.(*ssa.Call)
	if !ok || depth >= 2 {
		return false
	}
	callee := staticCallee(call)
	if callee == nil || len(callee.Blocks) == 0 || !x.p.IsRepoFn(callee) {
		return false
	}
	has := false
	allInstrs(callee, func(i ssa.Instruction) {
		if isCloseOf(i, x.isConnLoad) {
			has = true
		}
	})
	if !has {
		return false
	}
	for _, i := range reachFrom(callee, nil, func(i ssa.Instruction) bool { return x.closesConn(i, depth+1) }, x.connNilEdge) {
		if _, isRet := i.(*ssa.Return); isRet {
			return false
		}
	}
	return true
}

// isExitCall: call of the function value loaded from ExitFunc.
func (x *c07ctx) isExitCall(in ssa.Instruction) bool {
	call, ok := in.(*ssa.Call)
	return ok && !call.Call.IsInvoke() && staticCallee(call) == nil && isLoadOfField(call.Call.Value, x.fExit)
}

func (x *c07ctx) callsExit(in ssa.Instruction, depth int) bool {
	if x.isExitCall(in) {
		return true
	}
	call, ok := in.(*ssa.Call)
	if !ok || depth >= 2 {
		return false
	}
	callee := staticCallee(call)
	if callee == nil || len(callee.Blocks) == 0 || !x.p.IsRepoFn(callee) {
		return false
	}
	has := false
	allInstrs(callee, func(i ssa.Instruction) {
		if x.isExitCall(i) {
			has = true
		}
	})
	return has && len(exitsReachableAvoiding(callee, nil, func(i ssa.Instruction) bool { return x.callsExit(i, depth+1) })) == 0
}

// isSessionClose: call (or defer) of a session-close function on a receiver accepted by pred.
func (x *c07ctx) isSessionClose(in ssa.Instruction, pred func(ssa.Value) bool) bool {
	ci, ok := in.(ssa.CallInstruction)
	if !ok {
		return false
	}
	if _, isGo := in.(*ssa.Go); isGo {
		return false
	}
	f := staticCallee(ci)
	if f == nil || !x.sessClose[f] || len(ci.Common().Args) == 0 {
		return false
	}
	return pred == nil || pred(ci.Common().Args[0])
}

// findSessionCloseFns: the session-close functions are those performing
// `closed = true` plus their wrappers – functions every path of which calls a
// session-close function on their own receiver / first parameter
// (`CloseWithErr` → `markClosed`).
func (x *c07ctx) findSessionCloseFns() {
	x.sessClose = map[*ssa.Function]bool{}
	for fn := range x.closeFns {
		x.sessClose[fn] = true
	}
	for round := 0; round < 2; round++ {
		var add []*ssa.Function
		for _, fn := range x.srvFns {
			if x.sessClose[fn] || len(fn.Params) == 0 || len(fn.Blocks) == 0 || namedOf(fn.Params[0].Type()) != x.entT {
				continue
			}
			self := fn.Params[0]
			onSelf := func(in ssa.Instruction) bool {
				return x.isSessionClose(in, func(v ssa.Value) bool { return resolve(v) == ssa.Value(self) })
			}
			any := false
			allInstrs(fn, func(in ssa.Instruction) {
				if onSelf(in) {
					any = true
				}
			})
			if any && len(exitsReachableAvoiding(fn, nil, onSelf)) == 0 {
				add = append(add, fn)
			}
		}
		for _, fn := range add {
			x.sessClose[fn] = true
			x.c.Saw(fnName(fn))
		}
	}
}

func c07resultIdx(sig *types.Signature, want func(types.Type) bool) int {
	for i := 0; i < sig.Results().Len(); i++ {
		if want(sig.Results().At(i).Type()) {
			return i
		}
	}
	return -1
}

func c07isErrorType(t types.Type) bool {
	n, ok := t.(*types.Named)
	return ok && n.Obj().Pkg() == nil && n.Obj().Name() == "error"
}

// c07errEdge: the `err != nil` edge of the call's error result.
func c07errEdge(call *ssa.Call) EdgePred {
	idx := c07resultIdx(call.Call.Signature(), c07isErrorType)
	var errv ssa.Value
	if idx >= 0 {
		if call.Call.Signature().Results().Len() == 1 {
			errv = call
		} else {
			errv = extractOf(call, idx)
		}
	}
	return func(cond ssa.Value, pol bool) bool {
		if errv == nil {
			return false
		}
		v, isNil, ok := nilTest(cond, pol)
		return ok && !isNil && c07defIs(v, errv)
	}
}

// c07instrsFromBlock: instructions reachable from the start of block b without
// executing past `stop`.
func c07instrsFromBlock(b *ssa.BasicBlock, stop func(ssa.Instruction) bool, edgeStop EdgePred) []ssa.Instruction {
	var out []ssa.Instruction
	seen := map[*ssa.BasicBlock]bool{}
	var walk func(b *ssa.BasicBlock)
	walk = func(b *ssa.BasicBlock) {
		if seen[b] {
			return
		}
		seen[b] = true
		for _, in := range b.Instrs {
			out = append(out, in)
			if stop != nil && stop(in) {
				return
			}
		}
		for i, s := range b.Succs {
			if edgeStop != nil {
				if c, pol, ok := edgeFact(b, i); ok && edgeStop(c, pol) {
					continue
				}
			}
			walk(s)
		}
	}
	walk(b)
	return out
}

// canLeaveOnError: the error result of the blocking call is tested and from
// its error edge a return is reachable without performing the call again.
func (x *c07ctx) canLeaveOnError(call *ssa.Call) (tested, leaves bool) {
	fn := call.Parent()
	pred := c07errEdge(call)
	for _, b := range fn.Blocks {
		for i, s := range b.Succs {
			cond, pol, ok := edgeFact(b, i)
			if !ok || !pred(cond, pol) {
				continue
			}
			tested = true
			for _, in := range c07instrsFromBlock(s, func(in ssa.Instruction) bool { return in == ssa.Instruction(call) }, nil) {
				if r, isRet := in.(*ssa.Return); isRet && r.Block() != fn.Recover {
					leaves = true
				}
			}
		}
	}
	return
}

// c07reaching: the values an Alloc may hold at `at` (nearest stores on every
// backward path); undef = the zero value may reach.
func c07reaching(a *ssa.Alloc, at ssa.Instruction) (vals []ssa.Value, undef bool) {
	fn := at.Parent()
	seen := map[*ssa.BasicBlock]bool{}
	var walk func(b *ssa.BasicBlock, from int)
	walk = func(b *ssa.BasicBlock, from int) {
		for i := from - 1; i >= 0; i-- {
			if st, ok := b.Instrs[i].(*ssa.Store); ok && st.Addr == ssa.Value(a) {
				vals = append(vals, st.Val)
				return
			}
		}
		if b == fn.Blocks[0] || len(b.Preds) == 0 {
			undef = true
			return
		}
		for _, pr := range b.Preds {
			if !seen[pr] {
				seen[pr] = true
				walk(pr, len(pr.Instrs))
			}
		}
	}
	walk(at.Block(), instrIndex(at))
	return
}

// c07localOnly: the alloc is only stored to / loaded from in its own function;
// closures may capture it but never store through the capture.
func c07localOnly(a *ssa.Alloc) bool {
	for _, r := range *a.Referrers() {
		switch u := r.(type) {
		case *ssa.Store:
			if u.Addr != ssa.Value(a) {
				return false
			}
		case *ssa.UnOp, *ssa.DebugRef:
		case *ssa.MakeClosure:
			fn := u.Fn.(*ssa.Function)
			for i, b := range u.Bindings {
				if b != ssa.Value(a) {
					continue
				}
				fv := fn.FreeVars[i]
				for _, fr := range *fv.Referrers() {
					if _, isLoad := fr.(*ssa.UnOp); !isLoad {
						if _, isDbg := fr.(*ssa.DebugRef); !isDbg {
							return false
						}
					}
				}
			}
		default:
			return false
		}
	}
	return true
}

// c07defs: the definitions v may carry, looking through phis and loads of
// local variables (reaching stores).
func c07defs(v ssa.Value) (out []ssa.Value, ok bool) {
	ok = true
	seen := map[ssa.Value]bool{}
	var walk func(v ssa.Value)
	walk = func(v ssa.Value) {
		if seen[v] {
			return
		}
		seen[v] = true
		switch y := v.(type) {
		case *ssa.Phi:
			for _, e := range y.Edges {
				walk(e)
			}
			return
		case *ssa.ChangeType:
			walk(y.X)
			return
		case *ssa.UnOp:
			if al, isAl := y.X.(*ssa.Alloc); isAl && y.Op == token.MUL && al.Parent() == y.Parent() {
				if !c07localOnly(al) {
					ok = false
					return
				}
				vals, undef := c07reaching(al, y)
				if undef {
					ok = false // zero value: not a definition the rules accept
				}
				for _, d := range vals {
					walk(d)
				}
				return
			}
		}
		out = append(out, v)
	}
	walk(v)
	return
}

// msgField: v is a load of msg.<field> where msg resolves to `msg`.
func c07isFieldOf(v ssa.Value, field *types.Var, root ssa.Value) bool {
	ap := accessPath(v)
	return len(ap.Fields) == 1 && ap.Fields[0] == field && ap.Root == resolve(root)
}

// ctorArg: for a call of a constructor, the argument that ends up in `field` of
// the freshly allocated object it returns.
func (x *c07ctx) ctorArg(call *ssa.Call, field *types.Var) ssa.Value {
	callee := staticCallee(call)
	if callee == nil {
		return nil
	}
	var arg ssa.Value
	n := 0
	for _, fr := range fieldRefs([]*ssa.Function{callee}, field) {
		if fr.Kind != "store" || !c07fresh(fr.Addr, callee) {
			continue
		}
		n++
		if prm, ok := resolve(fr.Val).(*ssa.Parameter); ok {
			for i, q := range callee.Params {
				if q == prm && i < len(call.Call.Args) {
					arg = call.Call.Args[i]
				}
			}
		}
	}
	if n != 1 {
		return nil
	}
	return arg
}

type c07closure struct {
	fn   *ssa.Function
	mc   *ssa.MakeClosure
	ctor *ssa.Call // constructor call that receives the closure (nil when stored directly)
}

// fieldFuncs: the function literals that may be stored in a func-typed field
// (directly, or through a constructor parameter).
func (x *c07ctx) fieldFuncs(field *types.Var) (out []c07closure, ok bool) {
	ok = true
	for _, fr := range fieldRefs(x.srvFns, field) {
		if fr.Kind != "store" {
			continue
		}
		v := resolve(fr.Val)
		switch y := v.(type) {
		case *ssa.MakeClosure:
			out = append(out, c07closure{fn: y.Fn.(*ssa.Function), mc: y})
		case *ssa.Parameter:
			fn := y.Parent()
			idx := -1
			for i, q := range fn.Params {
				if q == y {
					idx = i
				}
			}
			if idx < 0 || x.la.escaped[fn] || len(x.la.callers[fn]) == 0 {
				ok = false
				continue
			}
			for _, cs := range x.la.callers[fn] {
				call, isCall := cs.(*ssa.Call)
				if !isCall || idx >= len(call.Call.Args) {
					ok = false
					continue
				}
				if mc, isMC := resolve(call.Call.Args[idx]).(*ssa.MakeClosure); isMC {
					out = append(out, c07closure{fn: mc.Fn.(*ssa.Function), mc: mc, ctor: call})
				} else {
					ok = false
				}
			}
		default:
			ok = false
		}
	}
	return
}

// ---------------------------------------------------------------------------
// sweep selection analysis

type c07sel struct {
	fn     *ssa.Function
	flag   *ssa.Parameter // bool mode parameter, may be nil
	next   *ssa.Next
	body   *ssa.BasicBlock // first block of the loop body
	entry  ssa.Value       // the ranged session entry
	events []ssa.Instruction
	closes bool // the selected entries are handed to the session close
	// selection extracted into a helper (`for _, e := range m.expiredEntries(idleOnly) { e.CloseWithErr(nil) }`):
	// fn is the helper, outer the function calling it at via
	outer *ssa.Function
	via   *ssa.Call
}

// selector: fn ranges over the session table and selects entries for closing.
func (x *c07ctx) selector(fn *ssa.Function) *c07sel {
	if s, ok := x.selMemo[fn]; ok {
		return s
	}
	s := x.selectorDirect(fn)
	if s == nil {
		s = x.selectorVia(fn)
	}
	x.selMemo[fn] = s
	return s
}

// selectorVia: fn does not range over the table itself but calls a helper that
// does and returns the selected entries; fn hands (elements of) that result to
// the session close.
func (x *c07ctx) selectorVia(fn *ssa.Function) *c07sel {
	var out *c07sel
	allInstrs(fn, func(in ssa.Instruction) {
		call, ok := in.(*ssa.Call)
		if !ok || out != nil {
			return
		}
		h := staticCallee(call)
		if h == nil || h == fn || len(h.Blocks) == 0 || !x.p.IsRepoFn(h) {
			return
		}
		inner := x.selectorDirect(h)
		if inner == nil || len(inner.events) == 0 {
			return
		}
		// the helper's result carries the selected entries
		carries := false
		allInstrs(h, func(hin ssa.Instruction) {
			r, isRet := hin.(*ssa.Return)
			if !isRet || r.Block() == h.Recover {
				return
			}
			for _, res := range retResults(r) {
				if res != nil && derivedFrom(res, inner.entry) {
					carries = true
				}
			}
		})
		if !carries {
			return
		}
		cp := *inner
		cp.outer, cp.via = fn, call
		allInstrs(fn, func(fin ssa.Instruction) {
			if x.isSessionClose(fin, func(v ssa.Value) bool { return derivedFrom(v, call) }) {
				cp.closes = true
			}
		})
		out = &cp
	})
	return out
}

func (x *c07ctx) selectorDirect(fn *ssa.Function) *c07sel {
	var s *c07sel
	allInstrs(fn, func(in ssa.Instruction) {
		r, ok := in.(*ssa.Range)
		if !ok || !isLoadOfField(r.X, x.fM) || s != nil {
			return
		}
		for _, ref := range *r.Referrers() {
			nx, ok := ref.(*ssa.Next)
			if !ok {
				continue
			}
			okv := extractOf(nx, 0)
			ev := extractOf(nx, 2)
			if okv == nil || ev == nil {
				continue
			}
			var body *ssa.BasicBlock
			b := nx.Block()
			for i, succ := range b.Succs {
				if cond, pol, ok := edgeFact(b, i); ok && pol && cond == okv {
					body = succ
				}
			}
			if body == nil {
				continue
			}
			s = &c07sel{fn: fn, next: nx, body: body, entry: ev}
		}
	})
	if s != nil {
		for _, prm := range fn.Params {
			if b, ok := prm.Type().Underlying().(*types.Basic); ok && b.Kind() == types.Bool {
				if s.flag == nil {
					s.flag = prm
				}
			}
		}
		for _, ref := range *s.entry.Referrers() {
			switch u := ref.(type) {
			case *ssa.Store:
				if u.Val == s.entry {
					s.events = append(s.events, u)
				}
			case *ssa.Call:
				if x.isSessionClose(u, func(v ssa.Value) bool { return v == s.entry }) {
					s.events = append(s.events, u)
					s.closes = true
				}
			}
		}
		allInstrs(fn, func(in ssa.Instruction) {
			if x.isSessionClose(in, func(v ssa.Value) bool { return derivedFrom(v, s.entry) }) {
				s.closes = true
			}
		})
	}
	return s
}

func (s *c07sel) infeasible(k *bool) EdgePred {
	return func(cond ssa.Value, pol bool) bool {
		return s.flag != nil && k != nil && cond == ssa.Value(s.flag) && pol != *k
	}
}

func (s *c07sel) isEvent(in ssa.Instruction) bool {
	for _, e := range s.events {
		if e == in {
			return true
		}
	}
	return false
}

// selectsAll: with the mode flag = k every ranged entry is selected (the next
// iteration / a return is not reachable from the loop body without an event).
func (s *c07sel) selectsAll(k *bool) bool {
	if len(s.events) == 0 {
		return false
	}
	for _, in := range c07instrsFromBlock(s.body, func(in ssa.Instruction) bool {
		return s.isEvent(in) || in == ssa.Instruction(s.next)
	}, s.infeasible(k)) {
		if in == ssa.Instruction(s.next) {
			return false
		}
		if _, isRet := in.(*ssa.Return); isRet {
			return false
		}
	}
	return true
}

// scanReached: the table scan of the selector is reached on every path from
// the entry of its function: a return before the first Next is accepted only
// behind a test computed from the table itself (`len(m.m) == 0`).  A "cleanup
// already running" guard makes the final close-all a no-op for the caller that
// loses the race.
func (x *c07ctx) scanReached(s *c07sel, k *bool) bool {
	fromTable := func(cond ssa.Value, pol bool) bool {
		for v := range deps(cond, depOpts{throughCalls: true}) {
			if isLoadOfField(v, x.fM) {
				return true
			}
		}
		return false
	}
	for _, in := range reachFrom(s.fn, nil, func(in ssa.Instruction) bool { return in == ssa.Instruction(s.next) }, s.infeasible(k)) {
		if ret, isRet := in.(*ssa.Return); isRet && ret.Block() != s.fn.Recover {
			if !guardedBy(ret, fromTable) {
				return false
			}
		}
	}
	return true
}

// idleAge: v = now.Sub(entry.Last.Get()) or time.Since(entry.Last.Get()).
func (x *c07ctx) idleAge(v ssa.Value, entry ssa.Value) bool {
	call, ok := resolve(v).(*ssa.Call)
	if !ok {
		return false
	}
	f := staticCallee(call)
	if f == nil || f.Pkg == nil || f.Pkg.Pkg.Path() != "time" {
		return false
	}
	var last ssa.Value
	switch {
	case f.Name() == "Sub" && f.Signature.Recv() != nil && len(call.Call.Args) == 2:
		now, ok := resolve(call.Call.Args[0]).(*ssa.Call)
		if !ok || !calleeIs(now, "time", "Now") {
			return false
		}
		last = call.Call.Args[1]
	case f.Name() == "Since" && f.Signature.Recv() == nil && len(call.Call.Args) == 1:
		last = call.Call.Args[0]
	default:
		return false
	}
	get, ok := resolve(last).(*ssa.Call)
	if !ok || staticCallee(get) != x.getFn || len(get.Call.Args) != 1 {
		return false
	}
	recv := get.Call.Args[0]
	return isLoadOfField(recv, x.fLast) && accessPath(recv).Root == entry
}

func (x *c07ctx) idleEdge(entry ssa.Value) EdgePred {
	return func(cond ssa.Value, pol bool) bool {
		b, ok := cond.(*ssa.BinOp)
		if !ok {
			return false
		}
		var big, small ssa.Value // the edge asserts big > small (or >=)
		switch b.Op {
		case token.GTR, token.GEQ:
			big, small = b.X, b.Y
		case token.LSS, token.LEQ:
			big, small = b.Y, b.X
		default:
			return false
		}
		if !pol {
			big, small = small, big
		}
		return x.idleAge(big, entry) && isLoadOfField(small, x.fIdle)
	}
}

// selectsIdleOnly: with flag = k every selection event lies behind the
// `age > idleTimeout` edge, and at least one event is feasible.
func (x *c07ctx) selectsIdleOnly(s *c07sel, k *bool) (bool, string) {
	if len(s.events) == 0 {
		return false, "no entry is ever selected"
	}
	inf := s.infeasible(k)
	idle := x.idleEdge(s.entry)
	feasible := blocksReachableAvoidingEdges(s.fn, inf)
	unguarded := blocksReachableAvoidingEdges(s.fn, func(c ssa.Value, p bool) bool { return inf(c, p) || idle(c, p) })
	any := false
	for _, e := range s.events {
		if !feasible[e.Block()] {
			continue
		}
		any = true
		if unguarded[e.Block()] {
			return false, "an entry is selected on a path that does not cross the `now - entry.Last > idleTimeout` edge (a session with traffic would be closed, or an idle one kept)"
		}
	}
	if !any {
		return false, "in idle mode no entry can be selected (idle sessions never expire)"
	}
	return true, ""
}

// flagAt: the constant passed for the selector's mode flag at a call site.
func (s *c07sel) flagAt(ci ssa.CallInstruction) (k *bool, ok bool) {
	if s.flag == nil {
		return nil, true
	}
	for i, prm := range s.fn.Params {
		if prm == s.flag && i < len(ci.Common().Args) {
			a := ci.Common().Args[i]
			if s.via != nil {
				// the flag the helper receives: a constant, or a parameter of the
				// outer function whose value is the constant at ci
				if i >= len(s.via.Call.Args) {
					return nil, false
				}
				a = s.via.Call.Args[i]
				if op, isPrm := resolve(a).(*ssa.Parameter); isPrm {
					a = nil
					for j, q := range s.outer.Params {
						if q == op && j < len(ci.Common().Args) {
							a = ci.Common().Args[j]
						}
					}
					if a == nil {
						return nil, false
					}
				}
			}
			if isConstBool(a, true) {
				t := true
				return &t, true
			}
			if isConstBool(a, false) {
				f := false
				return &f, true
			}
		}
	}
	return nil, false
}

// ---------------------------------------------------------------------------

func checkC07(c *Check) {
	lockBalanceRule(c, "C07", pServer)
	c07Extra(c)
	c07AtomicFlag(c)
	c07ClockLossless(c)
	p := c.P
	x := &c07ctx{c: c, p: p, la: p.Locks(), closeFns: map[*ssa.Function]*ssa.Store{}, selMemo: map[*ssa.Function]*c07sel{}, keySeen: map[string]int{}}
	x.entT = p.Named(pServer, "udpSessionEntry")
	x.mgrT = p.Named(pServer, "udpSessionManager")
	x.udpConnT = p.Named(pServer, "UDPConn")
	x.udpIOT = p.Named(pServer, "udpIO")
	if x.entT == nil || x.mgrT == nil || x.udpConnT == nil || x.udpIOT == nil {
		c.Unres("core/server types udpSessionEntry/udpSessionManager/UDPConn/udpIO")
		return
	}
	ef := func(n string) *types.Var { return p.Field(pServer, "udpSessionEntry", n) }
	mf := func(n string) *types.Var { return p.Field(pServer, "udpSessionManager", n) }
	x.fConn, x.fConnLock, x.fClosed, x.fID, x.fLast, x.fIO, x.fDial, x.fExit = ef("conn"), ef("connLock"), ef("closed"), ef("ID"), ef("Last"), ef("IO"), ef("DialFunc"), ef("ExitFunc")
	x.fM, x.fMutex, x.fIdle, x.fMgrIO = mf("m"), mf("mutex"), mf("idleTimeout"), mf("io")
	x.fSessID = p.Field(pProtocol, "UDPMessage", "SessionID")
	x.fMsgData = p.Field(pProtocol, "UDPMessage", "Data")
	x.setFn = p.Fn(pUtils, "(*AtomicTime).Set")
	x.getFn = p.Fn(pUtils, "(*AtomicTime).Get")
	for _, f := range []*types.Var{x.fConn, x.fConnLock, x.fClosed, x.fID, x.fLast, x.fIO, x.fDial, x.fExit, x.fM, x.fMutex, x.fIdle, x.fMgrIO, x.fSessID, x.fMsgData} {
		if f == nil {
			c.Unres("fields udpSessionEntry.{conn,connLock,closed,ID,Last,IO,DialFunc,ExitFunc} / udpSessionManager.{m,mutex,idleTimeout,io} / protocol.UDPMessage.{SessionID,Data}")
			return
		}
	}
	if x.setFn == nil || x.getFn == nil {
		c.Unres("utils.(*AtomicTime).Set/Get")
		return
	}
	for _, fn := range p.RepoFns {
		if pk := fnPkg(fn); pk != nil && pk.Pkg.Path() == pServer {
			x.srvFns = append(x.srvFns, fn)
		}
	}
	// session-close functions: those that set closed = true on a shared object
	for _, fr := range fieldRefs(x.srvFns, x.fClosed) {
		if fr.Kind == "store" && !c07fresh(fr.Addr, fr.Fn) && isConstBool(fr.Val, true) {
			if _, dup := x.closeFns[fr.Fn]; !dup {
				x.closeFns[fr.Fn] = fr.Instr.(*ssa.Store)
				c.Saw(fnName(fr.Fn))
			}
		}
	}
	if len(x.closeFns) == 0 {
		c.Unres("the session-close function (no `closed = true` store on udpSessionEntry)")
		return
	}
	x.findSessionCloseFns()

	x.r1r3stores()
	x.r2()
	x.r3openers()
	exitOK := x.r4()
	x.r5()
	x.r6r7()
	_ = exitOK
}

// ---- R1 (+ the conn-source clause of R3)
func (x *c07ctx) r1r3stores() {
	c, p, la := x.c, x.p, x.la
	const r1 = "C07.R1 the session socket field is stored only under connLock, behind the `closed == false` edge read in the same critical section, and never over a live socket; `closed` is only ever stored as true, under connLock"
	const r3 = "C07.R3 the session socket field only ever receives the result of a call that opens a socket for this session"
	nConn := 0
	for _, fr := range fieldRefs(x.srvFns, x.fConn) {
		key := "C07.R1:conn-store:" + fnName(fr.Fn)
		if fr.Kind == "store" && !c07fresh(fr.Addr, fr.Fn) {
			key = x.uniq(key)
		}
		if fr.Kind == "addr" {
			c.Bad("C07.R1:conn-alias:"+fnName(fr.Fn), r1, p.InstrPos(fr.Instr), "the address of the socket field escapes (writes through the alias cannot be excluded)")
			continue
		}
		if fr.Kind != "store" || c07fresh(fr.Addr, fr.Fn) {
			continue
		}
		nConn++
		c.Saw(fnName(fr.Fn))
		st := fr.Instr.(*ssa.Store)
		pos := p.InstrPos(st)
		c.Req(la.Holds(st, x.fConnLock, lockW), key+":lock", r1, pos, "conn is assigned without holding connLock (a concurrent CloseWithErr can miss the new socket: it is never closed)")
		okClosed := x.atSites(st, x.fConnLock, 0, func(s ssa.Instruction) bool { return guardedBy(s, x.closedFalse(s)) })
		c.Req(okClosed, key+":not-after-exit", r1, pos, "conn is assigned on a path that did not read `closed == false` in the same critical section (a socket is created after the session exited and never closed)")
		okOver, _ := overwriteOK(st, x.fConn, nil)
		if !okOver {
			okOver = x.atSites(st, nil, 0, func(s ssa.Instruction) bool { return guardedBy(s, x.connNilEdge) })
		}
		c.Req(okOver, key+":no-overwrite", r1, pos, "conn is assigned on a path where the previous socket is neither nil nor closed (the replaced socket and its reply loop leak)")
		// R3: what is stored
		okSrc := x.valueUp(st.Val, 0, func(v ssa.Value) bool {
			tup, idx := tupleSource(v)
			call, ok := tup.(*ssa.Call)
			if !ok {
				call, ok = resolve(v).(*ssa.Call)
				idx = 0
			}
			if !ok {
				return false
			}
			sig := call.Call.Signature()
			return sig != nil && idx >= 0 && idx < sig.Results().Len() && types.Identical(sig.Results().At(idx).Type(), x.udpConnT)
		})
		c.Req(okSrc, "C07.R3:conn-source:"+fnName(fr.Fn), r3, pos, "conn is assigned something other than the socket returned by the dial of this session (sessions could share a socket)")
	}
	c.Floor("C07.R1:conn-store", nConn, 1)
	nClosed := 0
	for _, fr := range fieldRefs(x.srvFns, x.fClosed) {
		if fr.Kind == "addr" {
			c.Bad("C07.R1:closed-alias:"+fnName(fr.Fn), r1, p.InstrPos(fr.Instr), "the address of `closed` escapes")
			continue
		}
		if fr.Kind != "store" || c07fresh(fr.Addr, fr.Fn) {
			continue
		}
		nClosed++
		key := "C07.R1:closed-store:" + fnName(fr.Fn)
		c.Req(isConstBool(fr.Val, true), key+":only-true", r1, p.InstrPos(fr.Instr), "`closed` is reset or set from a computed value (a closed session could open a socket again)")
		c.Req(la.Holds(fr.Instr, x.fConnLock, lockW), key+":lock", r1, p.InstrPos(fr.Instr), "`closed` is set without holding connLock")
	}
	c.Floor("C07.R1:closed-store", nClosed, 1)
}

// ---- R2 close exactly once
func (x *c07ctx) r2() {
	c, p, la := x.c, x.p, x.la
	const r2 = "C07.R2 every Close() of the session socket lies behind the first-close edge (`closed == false` read under connLock in the critical section that sets closed = true) and closes the socket read in that section or after it; the first close closes the socket unless nil and calls ExitFunc; ExitFunc is reachable only over the first-close edge"
	nClose := 0
	for _, fn := range x.srvFns {
		for _, ci := range callsIn(fn, func(ci ssa.CallInstruction) bool { return x.connInvoke(ci, "Close") }) {
			in := ci.(ssa.Instruction)
			key := x.uniq("C07.R2:close:" + fnName(fn))
			pos := p.InstrPos(in)
			recv := ci.Common().Value
			if !x.isConnLoad(recv) {
				// a socket that never became the session's (e.g. closed right after a failed hand-over) is R3's business
				if tup, _ := tupleSource(recv); tup != nil {
					continue
				}
				c.Undecided(key+":receiver", r2, pos, "Close() on a UDPConn that is neither the session's conn nor a fresh dial result")
				continue
			}
			nClose++
			if _, isGo := in.(*ssa.Go); isGo {
				c.Bad(key+":go", r2, pos, "the session socket is closed from a new goroutine (outside the close-once protocol)")
				continue
			}
			c.Req(x.isReceiver(accessPath(recv).Root, x.entT), key+":own-socket", r2, pos, "Close() goes to another entry's socket")
			okOnce := x.atSites(in, nil, 0, func(s ssa.Instruction) bool { return guardedBy(s, x.firstCloseEdge) })
			c.Req(okOnce, key+":once", r2, pos, "a path closes the session socket without having crossed the first-close edge (`closed == false` read under connLock in the critical section that sets closed = true): the socket can be closed twice")
			// the socket that is closed is the final one: read in the first-close
			// critical section, or after closed = true has been published
			okCur := false
			if ld, isLoad := resolve(recv).(*ssa.UnOp); isLoad {
				okCur = x.atSites(ld, x.fConnLock, 0, func(s ssa.Instruction) bool {
					st := x.closeFns[s.Parent()]
					if st == nil {
						return false
					}
					if la.sameRegion(st, s, x.fConnLock, lockW) || la.sameRegion(s, st, x.fConnLock, lockW) {
						return true
					}
					for _, r := range reachFrom(s.Parent(), nil, func(i ssa.Instruction) bool { return i == ssa.Instruction(st) }, nil) {
						if r == s {
							return false
						}
					}
					return true
				})
			}
			c.Req(okCur, key+":current-socket", r2, pos, "the socket being closed was read before the first-close critical section (a socket stored in between is never closed)")
		}
	}
	c.Floor("C07.R2:close", nClose, 1)
	for fn, st := range x.closeFns {
		key := "C07.R2:first-close:" + fnName(fn)
		leak := false
		for _, in := range reachFrom(fn, st, func(in ssa.Instruction) bool { return x.closesConn(in, 0) }, x.connNilEdge) {
			if _, isRet := in.(*ssa.Return); isRet {
				leak = true
			}
		}
		c.Req(!leak, key+":closes-socket", r2, p.InstrPos(st), "after closed = true a return is reachable with the socket neither nil nor closed (the socket leaks)")
		exits := exitsReachableAvoiding(fn, st, func(in ssa.Instruction) bool { return x.callsExit(in, 0) })
		c.Req(len(exits) == 0 || x.exitAtCallers(fn, exits, 0), key+":calls-exit", r2, p.InstrPos(st), "after closed = true a return is reachable without calling ExitFunc, and a caller does not call it either on the outcome that reports the first close (the entry stays in the session table)")
	}
	nExit := 0
	for _, fn := range x.srvFns {
		ord := 0
		allInstrs(fn, func(in ssa.Instruction) {
			if !x.isExitCall(in) {
				return
			}
			nExit++
			ord++
			ok := x.atSites(in, nil, 0, func(s ssa.Instruction) bool { return guardedBy(s, x.firstCloseEdge) })
			_ = ord
			c.Req(ok, x.uniq("C07.R2:exit-once:"+fnName(fn)), r2, p.InstrPos(in), "ExitFunc is reachable without crossing the first-close edge (`closed == false` read in the section that sets it): it can run twice for one session")
		})
	}
	c.Floor("C07.R2:exit-call", nExit, 1)
}

// exitAtCallers: the close helper fn returns (at `exits`, after closed = true)
// without having called ExitFunc itself.  Then every caller has to: from each
// call site every path to a return calls ExitFunc, except over edges on which
// the helper's boolean result differs from the constant the first-close returns
// hand back (`if !e.markClosed() { return }`).
func (x *c07ctx) exitAtCallers(fn *ssa.Function, exits []ssa.Instruction, depth int) bool {
	if depth >= 2 || !x.liftable(fn) {
		return false
	}
	idx, val := -1, false
	n := fn.Signature.Results().Len()
	for i := 0; i < n && idx < 0; i++ {
		same, seen, k := true, false, false
		for _, e := range exits {
			r, isRet := e.(*ssa.Return)
			if !isRet {
				same = false
				break
			}
			res := retResults(r)
			if i >= len(res) || res[i] == nil {
				same = false
				break
			}
			var kv bool
			switch {
			case isConstBool(res[i], true):
				kv = true
			case isConstBool(res[i], false):
				kv = false
			default:
				same = false
			}
			if !same {
				break
			}
			if seen && kv != k {
				same = false
				break
			}
			seen, k = true, kv
		}
		if same && seen {
			idx, val = i, k
		}
	}
	for _, cs := range x.la.callers[fn] {
		call, ok := cs.(*ssa.Call)
		if !ok {
			return false
		}
		caller := call.Parent()
		var resv ssa.Value
		if idx >= 0 {
			if n == 1 {
				resv = call
			} else {
				resv = extractOf(call, idx)
			}
		}
		notFirst := func(cond ssa.Value, pol bool) bool {
			return resv != nil && resolve(cond) == resv && pol != val
		}
		var left []ssa.Instruction
		for _, in := range reachFrom(caller, call, func(in ssa.Instruction) bool { return x.callsExit(in, 0) }, notFirst) {
			if r, isRet := in.(*ssa.Return); isRet {
				left = append(left, r)
			}
		}
		if len(left) > 0 && !x.exitAtCallers(caller, left, depth+1) {
			return false
		}
	}
	return true
}

// ---- R3 every opened socket is owned
func (x *c07ctx) leaks(acq *ssa.Call, idx, errIdx int) []ssa.Instruction {
	fn := acq.Parent()
	var res, errv ssa.Value
	if acq.Call.Signature().Results().Len() == 1 {
		res = acq
	} else {
		res = extractOf(acq, idx)
		if errIdx >= 0 {
			errv = extractOf(acq, errIdx)
		}
	}
	if res == nil {
		return []ssa.Instruction{acq} // result dropped on the floor
	}
	isRes := func(v ssa.Value) bool { return resolve(v) == res || derivedFromNoCall(v, res) || c07defIs(v, res) }
	stop := func(in ssa.Instruction) bool {
		if isCloseOf(in, isRes) {
			return true
		}
		if ci, ok := in.(ssa.CallInstruction); ok {
			if _, isGo := in.(*ssa.Go); !isGo {
				if callee := staticCallee(ci); callee != nil && len(callee.Blocks) > 0 && x.p.IsRepoFn(callee) {
					closes := false
					allInstrs(callee, func(y ssa.Instruction) {
						if isCloseOf(y, func(v ssa.Value) bool {
							if isRes(v) {
								return true
							}
							for i, prm := range callee.Params {
								if resolve(v) == ssa.Value(prm) && i < len(ci.Common().Args) && isRes(ci.Common().Args[i]) {
									return true
								}
							}
							return false
						}) {
							closes = true
						}
						// or takes ownership: stores the parameter in the session's socket field
						if st, ok := y.(*ssa.Store); ok {
							if fa, ok := st.Addr.(*ssa.FieldAddr); ok && structField(fa.X.Type(), fa.Field) == x.fConn {
								for i, prm := range callee.Params {
									if resolve(st.Val) == ssa.Value(prm) && i < len(ci.Common().Args) && isRes(ci.Common().Args[i]) {
										closes = true
									}
								}
							}
						}
					})
					if closes {
						return true
					}
				}
			}
		}
		switch y := in.(type) {
		case *ssa.Store:
			if fa, ok := y.Addr.(*ssa.FieldAddr); ok && isRes(y.Val) && structField(fa.X.Type(), fa.Field) == x.fConn {
				return true
			}
		case *ssa.Return:
			for _, r := range retResults(y) {
				if r != nil && isRes(r) {
					return true
				}
			}
		case *ssa.Defer:
			if recv, ok := methodCallNamed(y, "Close"); ok && isRes(recv) {
				return true
			}
		}
		return false
	}
	failEdge := func(cond ssa.Value, pol bool) bool {
		if errv == nil {
			return false
		}
		v, isNil, ok := nilTest(cond, pol)
		return ok && !isNil && c07defIs(v, errv)
	}
	var out []ssa.Instruction
	for _, in := range reachFrom(fn, acq, stop, failEdge) {
		if r, ok := in.(*ssa.Return); ok && !stop(r) {
			out = append(out, r)
		}
	}
	return out
}

func (x *c07ctx) r3openers() {
	c, p := x.c, x.p
	const r3 = "C07.R3 the socket returned by every call yielding a server.UDPConn is closed, stored in the session's conn field or returned on every path (error edge of that call excepted); the dial closure returns only the socket it just opened"
	isConnT := func(t types.Type) bool { return types.Identical(t, x.udpConnT) }
	n := 0
	for _, fn := range x.srvFns {
		allInstrs(fn, func(in ssa.Instruction) {
			call, ok := in.(*ssa.Call)
			if !ok {
				return
			}
			if _, isBuiltin := call.Call.Value.(*ssa.Builtin); isBuiltin {
				return
			}
			sig := call.Call.Signature()
			if sig == nil {
				return
			}
			idx := c07resultIdx(sig, isConnT)
			if idx < 0 {
				return
			}
			n++
			c.Saw(fnName(fn))
			what := "<dynamic>"
			if call.Call.IsInvoke() {
				what = call.Call.Method.Name()
			} else if f := staticCallee(call); f != nil {
				what = fnName(f)
			} else if ap := accessPath(call.Call.Value); len(ap.Fields) > 0 {
				what = ap.FieldNames()
			}
			lk := x.leaks(call, idx, c07resultIdx(sig, c07isErrorType))
			detail := ""
			for _, l := range lk {
				detail += " " + p.InstrPos(l)
			}
			c.Req(len(lk) == 0, x.uniq("C07.R3:owned:"+fnName(fn)+"→"+what), r3, p.InstrPos(call), "the opened socket is neither closed, stored in conn nor returned before:"+detail)
		})
	}
	c.Floor("C07.R3:opener-calls", n, 1)
	// dial closures return only what they opened
	dials, ok := x.fieldFuncs(x.fDial)
	if !ok || len(dials) == 0 {
		c.Undecided("C07.R3:dial-closure", r3, "", "the function stored in DialFunc is not a function literal reachable through the constructor")
		return
	}
	for _, d := range dials {
		c.Saw(fnName(d.fn))
		idx := c07resultIdx(d.fn.Signature, isConnT)
		good := idx >= 0
		allInstrs(d.fn, func(in ssa.Instruction) {
			r, isRet := in.(*ssa.Return)
			if !isRet || idx < 0 {
				return
			}
			res := retResults(r)
			if idx >= len(res) || res[idx] == nil {
				return
			}
			vals, okd := c07defs(res[idx])
			if !okd {
				good = false
			}
			for _, v := range vals {
				if isNilConst(v) {
					continue
				}
				tup, _ := tupleSource(v)
				call, isCall := tup.(*ssa.Call)
				if !isCall || !x.ioInvoke(call, "UDP") {
					good = false
				}
			}
		})
		c.Req(good, "C07.R3:dial-returns-fresh:"+fnName(d.fn), r3, p.Pos(d.fn.Pos()), "the dial closure can return a socket that is not the one io.UDP just opened for this session")
	}
}

// ---- R4 session table discipline; returns whether the exit closure was found
func (x *c07ctx) r4() bool {
	c, p, la := x.c, x.p, x.la
	const r4 = "C07.R4 every operation on the session table holds the table mutex (write mode for insert/delete); the session close is never called with the table mutex held; the exit closure deletes exactly the entry it was created for"
	cnt := map[string]int{}
	for _, fr := range fieldRefs(x.srvFns, x.fM) {
		key := "C07.R4:" + fnName(fr.Fn)
		switch fr.Kind {
		case "addr":
			c.Bad(key+":alias", r4, p.InstrPos(fr.Instr), "the address of the session table escapes")
			continue
		case "store":
			c.Req(c07fresh(fr.Addr, fr.Fn), key+":replace", r4, p.InstrPos(fr.Instr), "the session table is replaced on a shared manager (entries of the old table are orphaned)")
			continue
		}
		c.Saw(fnName(fr.Fn))
		for _, mo := range mapOpsOn(fr.Val) {
			mode, modeName := lockR, "read"
			switch mo.Kind {
			case "update", "delete":
				mode, modeName = lockW, "write"
			case "other":
				c.Undecided(key+":escape", r4, p.InstrPos(mo.Instr), "the session table is passed on as a value")
				continue
			}
			cnt[mo.Kind]++
			holds := la.Holds(mo.Instr, x.fMutex, mode)
			if rg, ok := mo.Instr.(*ssa.Range); ok {
				for _, ref := range *rg.Referrers() {
					if nx, ok := ref.(*ssa.Next); ok && !la.Holds(nx, x.fMutex, lockR) {
						holds = false
					}
				}
			}
			c.Req(holds, x.uniq(fmt.Sprintf("%s:%s:lock", key, mo.Kind)), r4, p.InstrPos(mo.Instr), "session table "+mo.Kind+" without holding the table mutex in "+modeName+" mode (concurrent map access with the sweeper / exit closures)")
		}
	}
	c.Floor("C07.R4:update", cnt["update"], 1)
	c.Floor("C07.R4:delete", cnt["delete"], 1)
	c.Floor("C07.R4:lookup", cnt["lookup"], 1)
	c.Floor("C07.R4:range", cnt["range"], 1)
	// session close never under the table mutex (the exit closure takes it in write mode)
	nCl := 0
	for _, fn := range x.srvFns {
		ord := 0
		allInstrs(fn, func(in ssa.Instruction) {
			if !x.isSessionClose(in, nil) {
				return
			}
			nCl++
			ord++
			if _, isCall := in.(*ssa.Call); !isCall {
				return
			}
			c.Req(!la.Holds(in, x.fMutex, lockR), fmt.Sprintf("C07.R4:close-outside-table-lock:%s#%d", fnName(fn), ord), r4, p.InstrPos(in), "the session close (whose exit closure write-locks the table) is called with the table mutex held: self-deadlock, nothing is ever cleaned up")
		})
	}
	c.Floor("C07.R4:session-close-calls", nCl, 1)
	// exit closures
	exits, ok := x.fieldFuncs(x.fExit)
	if !ok || len(exits) == 0 {
		c.Undecided("C07.R4:exit-closure", r4, "", "the function stored in ExitFunc is not a function literal reachable through the constructor")
		return false
	}
	// who may delete: the exit closure removes its entry by ID on every path (rule
	// below), so a second remover anywhere else makes that later delete-by-ID hit a
	// successor session created in between (the successor is orphaned: never swept,
	// never closed at connection end)
	isExitFn := map[*ssa.Function]bool{}
	for _, e := range exits {
		isExitFn[e.fn] = true
	}
	for _, fr := range fieldRefs(x.srvFns, x.fM) {
		if fr.Kind != "load" {
			continue
		}
		for _, mo := range mapOpsOn(fr.Val) {
			if mo.Kind == "delete" {
				c.Req(isExitFn[fr.Fn], x.uniq("C07.R4:delete-only-in-exit-closure:"+fnName(fr.Fn)), r4, p.InstrPos(mo.Instr), "a session is removed from the table outside its exit closure; the exit closure still deletes by session ID afterwards and can remove a new session that reused the ID in between")
			}
		}
	}
	for _, e := range exits {
		c.Saw(fnName(e.fn))
		key := "C07.R4:exit-closure:" + fnName(e.fn)
		var dels []*ssa.Call
		for _, fr := range fieldRefs([]*ssa.Function{e.fn}, x.fM) {
			if fr.Kind != "load" {
				continue
			}
			for _, mo := range mapOpsOn(fr.Val) {
				if mo.Kind == "delete" {
					if call, ok := mo.Instr.(*ssa.Call); ok && isBuiltinCall(call, "delete") {
						dels = append(dels, call)
					}
				}
			}
		}
		if !c.Req(len(dels) > 0, key+":deletes", r4, p.Pos(e.fn.Pos()), "the exit closure no longer removes the entry from the session table (a later datagram with this ID never starts a fresh session)") {
			continue
		}
		isDel := func(in ssa.Instruction) bool {
			for _, d := range dels {
				if ssa.Instruction(d) == in {
					return true
				}
			}
			return false
		}
		c.Req(len(exitsReachableAvoiding(e.fn, nil, isDel)) == 0, key+":always", r4, p.Pos(e.fn.Pos()), "the exit closure has a path that returns without removing the entry")
		var idArg ssa.Value
		if e.ctor != nil {
			idArg = x.ctorArg(e.ctor, x.fID)
		}
		for _, d := range dels {
			k := d.Call.Args[1]
			good := false
			ap := accessPath(k)
			if len(ap.Fields) == 1 && ap.Fields[0] == x.fID && e.ctor != nil {
				// entry variable captured by the closure: must hold this constructor's result when the closure can run
				var cell *ssa.Alloc
				switch r := ap.Root.(type) {
				case *ssa.FreeVar:
					cell, _ = freeVarBinding(r).(*ssa.Alloc)
				}
				if cell != nil {
					good = true
					nst := 0
					for _, ref := range *cell.Referrers() {
						st, ok := ref.(*ssa.Store)
						if !ok || st.Addr != ssa.Value(cell) || !reachableAfter(e.mc, st) {
							continue
						}
						nst++
						if st.Val != ssa.Value(e.ctor) {
							good = false
						}
					}
					if nst == 0 {
						good = false
					}
				} else if ap.Root == ssa.Value(e.ctor) {
					good = true
				}
			}
			if !good && idArg != nil && samePath(k, idArg) && len(accessPath(k).Fields) > 0 {
				good = true
			}
			c.Req(good, key+":own-id", r4, p.InstrPos(d), "the exit closure deletes a key other than the ID of the entry it belongs to (another session is dropped from the table and leaks; this one stays)")
		}
	}
	return true
}

// createdWithSessID: the call constructs an entry whose ID is msg.SessionID –
// it is the constructor itself, or a helper (`m.newSession(msg)`) that is handed
// msg and returns nothing but entries it constructed with that parameter's
// SessionID.
func (x *c07ctx) createdWithSessID(call *ssa.Call, msg ssa.Value, depth int) bool {
	return x.createdWithID(call, []ssa.Value{msg}, nil, depth)
}

// createdWithID: as above with the datagram known as any of msgs and its
// SessionID known as any of ids (`m.newSession(msg.SessionID)`: the helper's
// parameter is the ID itself).
func (x *c07ctx) createdWithID(call *ssa.Call, msgs, ids []ssa.Value, depth int) bool {
	isMsg := func(v ssa.Value) bool {
		for _, m := range msgs {
			if resolve(v) == resolve(m) {
				return true
			}
		}
		return false
	}
	isID := func(v ssa.Value) bool {
		for _, m := range msgs {
			if c07isFieldOf(v, x.fSessID, m) {
				return true
			}
		}
		for _, id := range ids {
			if resolve(v) == resolve(id) {
				return true
			}
		}
		return false
	}
	if id := x.ctorArg(call, x.fID); id != nil {
		return isID(id)
	}
	callee := staticCallee(call)
	if callee == nil || depth >= 2 || len(callee.Blocks) == 0 || !x.p.IsRepoFn(callee) {
		return false
	}
	idx := c07resultIdx(callee.Signature, func(t types.Type) bool { return namedOf(t) == x.entT })
	if idx < 0 {
		return false
	}
	// the parameters that receive msg / its SessionID at this call site
	var prmMsgs, prmIDs []ssa.Value
	for j, prm := range callee.Params {
		if j >= len(call.Call.Args) {
			continue
		}
		if isMsg(call.Call.Args[j]) {
			prmMsgs = append(prmMsgs, prm)
		} else if isID(call.Call.Args[j]) {
			prmIDs = append(prmIDs, prm)
		}
	}
	if len(prmMsgs)+len(prmIDs) == 0 {
		return false
	}
	any, good := false, true
	allInstrs(callee, func(in ssa.Instruction) {
		r, isRet := in.(*ssa.Return)
		if !isRet || r.Block() == callee.Recover {
			return
		}
		res := retResults(r)
		if idx >= len(res) || res[idx] == nil {
			good = false
			return
		}
		defs, okd := c07defs(res[idx])
		if !okd || len(defs) == 0 {
			good = false
			return
		}
		for _, d := range defs {
			inner, isCall := d.(*ssa.Call)
			if !isCall {
				good = false
				continue
			}
			if !x.createdWithID(inner, prmMsgs, prmIDs, depth+1) {
				good = false
			}
			any = true
		}
	})
	return any && good
}

// ---- R5 isolation
func (x *c07ctx) r5() {
	c, p := x.c, x.p
	const r5 = "C07.R5 a datagram is fed to the entry looked up (or created and inserted) under its own SessionID; replies are read from the receiver's socket, carry the receiver's ID and the bytes just read, and leave through the IO the entry was constructed with (the manager's io)"
	// the entry-level feed = the function writing to the session socket
	var feedFns []*ssa.Function
	for _, fn := range x.srvFns {
		if len(callsIn(fn, func(ci ssa.CallInstruction) bool { return x.connInvoke(ci, "WriteTo") })) > 0 {
			feedFns = append(feedFns, fn)
		}
	}
	if len(feedFns) == 0 {
		c.Unres("the function writing datagrams to the session socket")
		return
	}
	nDisp := 0
	for _, feed := range feedFns {
		for _, cs := range x.la.callers[feed] {
			call, ok := cs.(*ssa.Call)
			if !ok || !x.p.IsRepoFn(call.Parent()) {
				continue
			}
			fn := call.Parent()
			c.Saw(fnName(fn))
			nDisp++
			key := "C07.R5:dispatch:" + fnName(fn)
			pos := p.InstrPos(call)
			var msg ssa.Value
			for _, a := range call.Call.Args[1:] {
				if n := namedOf(a.Type()); n != nil && n.Obj().Name() == "UDPMessage" {
					msg = a
				}
			}
			if msg == nil {
				c.Undecided(key, r5, pos, "no UDPMessage argument at the dispatch site")
				continue
			}
			defs, okd := c07defs(call.Call.Args[0])
			if !okd || len(defs) == 0 {
				c.Undecided(key, r5, pos, "the dispatched entry cannot be traced to its definitions (helper result or escaping variable)")
				continue
			}
			for _, d := range defs {
				switch y := d.(type) {
				case *ssa.Lookup:
					good := isLoadOfField(y.X, x.fM) && c07isFieldOf(y.Index, x.fSessID, msg)
					c.Req(good, key+":lookup-key", r5, p.InstrPos(y), "the entry is looked up under something other than this datagram's SessionID (datagrams leave through another session's socket)")
				case *ssa.Call:
					good := x.createdWithSessID(y, msg, 0)
					c.Req(good, key+":created-id", r5, p.InstrPos(y), "the entry created on a miss does not get this datagram's SessionID (replies are tagged with a foreign ID)")
				case *ssa.UnOp:
					// an entry remembered in a field (a "last session" cache, a free list …) is neither the
					// table's current entry for this ID nor a fresh one: it may be closed or belong to another ID
					if _, isFld := y.X.(*ssa.FieldAddr); isFld && y.Op == token.MUL {
						c.Bad(key+":source", r5, p.InstrPos(y), "the dispatched entry is taken from remembered state instead of the table lookup (or creation) under this datagram's SessionID: a session that was closed, or another session, can receive the datagram")
						continue
					}
					c.Undecided(key+":source", r5, pos, "dispatched entry defined by an unrecognised construct")
				default:
					c.Undecided(key+":source", r5, pos, "dispatched entry defined by an unrecognised construct")
				}
			}
		}
	}
	c.Floor("C07.R5:dispatch", nDisp, 1)
	// inserts: key = the ID the inserted entry was constructed with
	nIns := 0
	for _, fr := range fieldRefs(x.srvFns, x.fM) {
		if fr.Kind != "load" {
			continue
		}
		for _, mo := range mapOpsOn(fr.Val) {
			mu, ok := mo.Instr.(*ssa.MapUpdate)
			if !ok {
				continue
			}
			nIns++
			key := "C07.R5:insert:" + fnName(fr.Fn)
			defs, okd := c07defs(mu.Value)
			good := okd && len(defs) > 0
			for _, d := range defs {
				call, isCall := d.(*ssa.Call)
				if !isCall {
					good = false
					continue
				}
				id := x.ctorArg(call, x.fID)
				if id == nil || !sameValue(id, mu.Key) {
					good = false
				}
			}
			c.Req(good, key+":key", r5, p.InstrPos(mu), "an entry is inserted under a key that is not the ID it was constructed with (lookups by SessionID miss it; its exit removes a different key)")
		}
	}
	c.Floor("C07.R5:insert", nIns, 1)
	// replies: stamp, source socket, data, IO
	nStamp := 0
	for _, fr := range fieldRefs(x.srvFns, x.fSessID) {
		if fr.Kind != "store" {
			continue
		}
		nStamp++
		c.Saw(fnName(fr.Fn))
		key := "C07.R5:reply-stamp:" + fnName(fr.Fn)
		good := x.valueUp(fr.Val, 0, func(v ssa.Value) bool { return x.recvRooted(v, x.fID, x.entT) })
		c.Req(good, key, r5, p.InstrPos(fr.Instr), "an outgoing message's SessionID is not the ID of the entry whose reply loop sends it")
	}
	c.Floor("C07.R5:reply-stamp", nStamp, 1)
	nRead := 0
	for _, fn := range x.srvFns {
		for _, ci := range callsIn(fn, func(ci ssa.CallInstruction) bool { return x.connInvoke(ci, "ReadFrom") }) {
			nRead++
			c.Saw(fnName(fn))
			key := "C07.R5:reply-source:" + fnName(fn)
			c.Req(x.recvRooted(ci.Common().Value, x.fConn, x.entT), key, r5, p.InstrPos(ci), "the reply loop reads from a socket other than the receiver's conn")
			// the bytes sent are the bytes read
			buf := resolve(ci.Common().Args[0])
			okData := false
			nData := 0
			for _, fr := range fieldRefs([]*ssa.Function{fn}, x.fMsgData) {
				if fr.Kind != "store" {
					continue
				}
				nData++
				if derivedFrom(fr.Val, buf) {
					okData = true
				}
			}
			if nData > 0 {
				c.Req(okData, "C07.R5:reply-data:"+fnName(fn), r5, p.InstrPos(ci), "the reply message does not carry the buffer just read from the session's socket")
			}
		}
	}
	c.Floor("C07.R5:reply-source", nRead, 1)
	// IO binding
	nIO := 0
	for _, fr := range fieldRefs(x.srvFns, x.fIO) {
		if fr.Kind != "store" {
			continue
		}
		nIO++
		key := "C07.R5:io-binding:" + fnName(fr.Fn)
		if !c.Req(c07fresh(fr.Addr, fr.Fn), key+":fixed", r5, p.InstrPos(fr.Instr), "the entry's IO is reassigned after construction") {
			continue
		}
		good := x.valueUp(fr.Val, 0, func(v ssa.Value) bool { return x.recvRooted(v, x.fMgrIO, x.mgrT) })
		c.Req(good, key+":managers", r5, p.InstrPos(fr.Instr), "an entry is constructed with an IO other than its manager's (replies would go to another client connection)")
	}
	c.Floor("C07.R5:io-binding", nIO, 1)
	nSend := 0
	for _, fn := range x.srvFns {
		for ord, ci := range callsIn(fn, func(ci ssa.CallInstruction) bool { return x.ioInvoke(ci, "SendMessage") }) {
			nSend++
			good := x.valueUp(ci.Common().Value, 0, func(v ssa.Value) bool { return x.recvRooted(v, x.fIO, x.entT) })
			c.Req(good, fmt.Sprintf("C07.R5:reply-io:%s#%d", fnName(fn), ord+1), r5, p.InstrPos(ci), "a reply is sent through an IO other than the entry's own")
		}
	}
	c.Floor("C07.R5:reply-io", nSend, 1)
}

// sends: the instruction sends a message to the client (directly or through a
// core/server helper).
func (x *c07ctx) sends(in ssa.Instruction, depth int) bool {
	ci, ok := in.(ssa.CallInstruction)
	if !ok {
		return false
	}
	if x.ioInvoke(ci, "SendMessage") {
		return true
	}
	callee := staticCallee(ci)
	if callee == nil || depth >= 2 || len(callee.Blocks) == 0 || !x.p.IsRepoFn(callee) {
		return false
	}
	found := false
	allInstrs(callee, func(i ssa.Instruction) {
		if x.sends(i, depth+1) {
			found = true
		}
	})
	return found
}

func (x *c07ctx) isLastSet(in ssa.Instruction) bool {
	call, ok := in.(*ssa.Call)
	if !ok || staticCallee(call) != x.setFn || len(call.Call.Args) != 2 {
		return false
	}
	if !x.recvRooted(call.Call.Args[0], x.fLast, x.entT) {
		return false
	}
	now, ok := resolve(call.Call.Args[1]).(*ssa.Call)
	return ok && calleeIs(now, "time", "Now")
}

// evOrDeferredClosure: ev holds for the instruction, or the instruction defers
// a function literal every path of which performs ev.
func c07evOrDeferredClosure(in ssa.Instruction, ev func(ssa.Instruction) bool) bool {
	if ev(in) {
		return true
	}
	d, ok := in.(*ssa.Defer)
	if !ok {
		return false
	}
	mc, ok := d.Call.Value.(*ssa.MakeClosure)
	if !ok {
		return false
	}
	fn := mc.Fn.(*ssa.Function)
	any := false
	allInstrs(fn, func(i ssa.Instruction) {
		if ev(i) {
			any = true
		}
	})
	return any && len(exitsReachableAvoiding(fn, nil, ev)) == 0
}

// ---- R6 exits and R7 goroutine roots
func (x *c07ctx) r6r7() {
	c, p := x.c, x.p
	const r6 = "C07.R6 the reply loop closes the session before every return and can leave on a read error; the manager loop can leave on a receive error and on every exit closes all sessions and stops the sweeper; the sweeper returns when the stop channel fires; the sweep selects only entries over the `now - Last > idleTimeout` edge, the exit cleanup all; Last is set to time.Now() before every forwarded datagram and between each socket read and its reply"
	const r7 = "C07.R7 the goroutine roots of the session code are exactly the reply loop (started after the socket is stored, on every such path) and the sweeper (handed the channel the manager closes on exit)"

	// --- blocking receive loops can leave on error
	nBlock := 0
	for _, fn := range x.srvFns {
		allInstrs(fn, func(in ssa.Instruction) {
			call, ok := in.(*ssa.Call)
			if !ok {
				return
			}
			what := ""
			switch {
			case x.connInvoke(call, "ReadFrom"):
				what = "UDPConn.ReadFrom"
			case x.ioInvoke(call, "ReceiveMessage"):
				what = "udpIO.ReceiveMessage"
			default:
				if f := staticCallee(call); f != nil && f.Name() == "ReceiveDatagram" && f.Pkg != nil && f.Pkg.Pkg.Path() == pQUIC {
					what = "quic.Conn.ReceiveDatagram"
				}
			}
			if what == "" {
				return
			}
			nBlock++
			c.Saw(fnName(fn))
			tested, leaves := x.canLeaveOnError(call)
			key := "C07.R6:leaves-on-error:" + fnName(fn) + "→" + what
			if !c.Req(tested, key+":tested", r6, p.InstrPos(call), "the error result of the blocking "+what+" is never tested (a closed socket/connection makes the loop spin forever)") {
				return
			}
			c.Req(leaves, key, r6, p.InstrPos(call), "from the error edge of "+what+" no return is reachable without calling it again (the goroutine never ends once the socket/connection is closed)")
		})
	}
	c.Floor("C07.R6:blocking-receives", nBlock, 1)

	// --- goroutine roots
	type goSite struct {
		g      *ssa.Go
		callee *ssa.Function
	}
	var replyGos, sweepGos []goSite
	isSessionFn := func(fn *ssa.Function) bool {
		root := fn
		for root.Parent() != nil {
			root = root.Parent()
		}
		if root.Signature.Recv() == nil {
			return false
		}
		n := namedOf(root.Signature.Recv().Type())
		return n == x.entT || n == x.mgrT
	}
	// functions storing the socket
	connStores := map[*ssa.Function][]*ssa.Store{}
	for _, fr := range fieldRefs(x.srvFns, x.fConn) {
		if fr.Kind == "store" && !c07fresh(fr.Addr, fr.Fn) {
			connStores[fr.Fn] = append(connStores[fr.Fn], fr.Instr.(*ssa.Store))
		}
	}
	// manager loops: functions receiving client messages
	runFns := map[*ssa.Function]*ssa.Call{}
	for _, fn := range x.srvFns {
		if !isSessionFn(fn) {
			continue
		}
		for _, ci := range callsIn(fn, func(ci ssa.CallInstruction) bool { return x.ioInvoke(ci, "ReceiveMessage") }) {
			if call, ok := ci.(*ssa.Call); ok {
				runFns[fn] = call
			}
		}
	}
	if len(runFns) == 0 {
		c.Unres("the session manager loop (no udpIO.ReceiveMessage call in a udpSessionManager method)")
	}
	for _, fn := range x.srvFns {
		if !isSessionFn(fn) {
			continue
		}
		allInstrs(fn, func(in ssa.Instruction) {
			g, ok := in.(*ssa.Go)
			if !ok {
				return
			}
			callee := staticCallee(g)
			name := "<dynamic>"
			if callee != nil {
				name = fnName(callee)
			}
			key := "C07.R7:go:" + fnName(fn) + "→" + name
			switch {
			case callee != nil && len(connStores[fn]) > 0 && isSessionFn(callee) && len(g.Call.Args) > 0 && x.isReceiver(resolve(g.Call.Args[0]), x.entT):
				replyGos = append(replyGos, goSite{g, callee})
				c.OK(key, r7, p.InstrPos(g))
			case callee != nil && runFns[fn] != nil && isSessionFn(callee):
				sweepGos = append(sweepGos, goSite{g, callee})
				c.OK(key, r7, p.InstrPos(g))
			default:
				c.Bad(key, r7, p.InstrPos(g), "a goroutine is started from the session code that is neither the reply loop of a freshly stored socket nor the sweeper of the manager loop: no exit edge is established for it")
			}
		})
	}
	c.Floor("C07.R7:reply-loop-root", len(replyGos), 1)
	c.Floor("C07.R7:sweeper-root", len(sweepGos), 1)

	// --- reply loop
	for _, gs := range replyGos {
		fn := gs.g.Parent()
		F := gs.callee
		c.Saw(fnName(F))
		key := "C07.R7:reply-loop:" + fnName(fn)
		dom := false
		for _, st := range connStores[fn] {
			if dominates(st, gs.g) {
				dom = true
			}
		}
		c.Req(dom, key+":after-store", r7, p.InstrPos(gs.g), "the reply loop is started on a path where the socket has not been stored yet (it reads e.conn: nil dereference / race)")
		for _, st := range connStores[fn] {
			if !dom {
				break
			}
			exits := exitsReachableAvoiding(fn, st, func(in ssa.Instruction) bool {
				g, ok := in.(*ssa.Go)
				return ok && staticCallee(g) == F
			})
			c.Req(len(exits) == 0, key+":always-started", r7, p.InstrPos(st), "a path stores the socket and returns without starting its reply loop (socket errors are never noticed, replies never relayed)")
		}
		// every return of the goroutine closes the session
		recv := F.Params[0]
		exits := exitsReachableAvoiding(F, nil, func(in ssa.Instruction) bool {
			return x.isSessionClose(in, func(v ssa.Value) bool { return resolve(v) == ssa.Value(recv) })
		})
		detail := ""
		for _, e := range exits {
			detail += " " + p.InstrPos(e)
		}
		c.Req(len(exits) == 0, "C07.R6:reply-loop-closes-session:"+fnName(F), r6, p.Pos(F.Pos()), "the reply loop can return without closing its session (socket and table entry stay behind without a reader):"+detail)
	}

	// --- Last refresh in both directions
	nSetOut, nSetIn := 0, 0
	for _, fn := range x.srvFns {
		for _, ci := range callsIn(fn, func(ci ssa.CallInstruction) bool { return x.connInvoke(ci, "WriteTo") }) {
			in := ci.(ssa.Instruction)
			// refreshed on every path to the write – in this function, or (write moved into a helper) before every call of it
			fresh := x.atSites(in, nil, 0, func(s ssa.Instruction) bool {
				for _, r := range reachFrom(s.Parent(), nil, x.isLastSet, nil) {
					if r == s {
						return false
					}
				}
				return true
			})
			nSetOut++
			c.Req(fresh, x.uniq("C07.R6:activity:client→remote:"+fnName(fn)), r6, p.InstrPos(in), "a datagram is forwarded on a path that did not refresh Last with time.Now() (a session with client traffic is swept as idle)")
		}
		for _, ci := range callsIn(fn, func(ci ssa.CallInstruction) bool { return x.connInvoke(ci, "ReadFrom") }) {
			in := ci.(ssa.Instruction)
			nSetIn++
			stale := ""
			for _, r := range reachFrom(fn, in, x.isLastSet, nil) {
				if x.sends(r, 0) {
					stale = p.InstrPos(r)
				}
			}
			c.Req(stale == "", "C07.R6:activity:remote→client:"+fnName(fn), r6, p.InstrPos(in), "a packet read from the socket is relayed without refreshing Last with time.Now() (a session with remote traffic only is swept as idle): send at "+stale)
		}
	}
	c.Floor("C07.R6:activity:client→remote", nSetOut, 1)
	c.Floor("C07.R6:activity:remote→client", nSetIn, 1)

	// --- manager loop exits, sweeper
	for run, recvCall := range runFns {
		c.Saw(fnName(run))
		key := "C07.R6:manager-exit:" + fnName(run)
		// close-all on every exit
		closesAll := func(in ssa.Instruction) bool {
			ci, ok := in.(ssa.CallInstruction)
			if !ok {
				return false
			}
			if _, isGo := in.(*ssa.Go); isGo {
				return false
			}
			f := staticCallee(ci)
			if f == nil || len(f.Blocks) == 0 {
				return false
			}
			s := x.selector(f)
			if s == nil || !s.closes {
				return false
			}
			k, ok := s.flagAt(ci)
			if !ok {
				return false
			}
			if _, isCall := in.(*ssa.Call); isCall {
				// a direct call counts only when no further message can be received after it
				for _, r := range reachFrom(run, in, nil, nil) {
					if r == ssa.Instruction(recvCall) {
						return false
					}
				}
			}
			return s.selectsAll(k) && x.scanReached(s, k)
		}
		exits := exitsReachableAvoiding(run, nil, func(in ssa.Instruction) bool { return c07evOrDeferredClosure(in, closesAll) })
		c.Req(len(exits) == 0, key+":closes-all-sessions", r6, p.Pos(run.Pos()), "the manager loop can return without a cleanup that selects every remaining session, or that cleanup can return before it scans the table for a reason other than the table's own content, e.g. a \"pass already running\" guard (their sockets, reply loops and table entries outlive the client connection)")
		// sweeper gets a channel that is closed on every exit
		for _, gs := range sweepGos {
			if gs.g.Parent() != run {
				continue
			}
			S := gs.callee
			c.Saw(fnName(S))
			skey := "C07.R7:sweeper:" + fnName(S)
			chIdx := -1
			var ch ssa.Value
			for i, a := range gs.g.Call.Args {
				if _, isChan := a.Type().Underlying().(*types.Chan); isChan {
					if mk, ok := resolve(a).(*ssa.MakeChan); ok {
						chIdx, ch = i, mk
					}
				}
			}
			if !c.Req(ch != nil, skey+":stop-channel", r7, p.InstrPos(gs.g), "the sweeper goroutine is not handed a channel created by the manager loop (nothing can stop it)") {
				continue
			}
			stops := func(in ssa.Instruction) bool {
				switch y := in.(type) {
				case *ssa.Call:
					return isBuiltinCall(y, "close") && resolve(y.Call.Args[0]) == ch
				case *ssa.Defer:
					return isBuiltinCall(y, "close") && resolve(y.Call.Args[0]) == ch
				case *ssa.Send:
					return resolve(y.Chan) == ch // blocking hand-over to the single sweeper
				}
				return false
			}
			exits := exitsReachableAvoiding(run, nil, func(in ssa.Instruction) bool { return c07evOrDeferredClosure(in, stops) })
			c.Req(len(exits) == 0, key+":stops-sweeper", r6, p.Pos(run.Pos()), "the manager loop can return without closing the sweeper's stop channel (the sweeper goroutine and its ticker leak per client connection)")
			// inside the sweeper
			if chIdx >= len(S.Params) {
				c.Undecided(skey+":observes-stop", r6, p.Pos(S.Pos()), "stop channel parameter not found")
				continue
			}
			prm := S.Params[chIdx]
			observed, returns := false, true
			allInstrs(S, func(in ssa.Instruction) {
				switch y := in.(type) {
				case *ssa.UnOp:
					if y.Op == token.ARROW && resolve(y.X) == ssa.Value(prm) {
						observed = true
						ok := false
						for _, r := range reachFrom(S, y, nil, nil) {
							if _, isRet := r.(*ssa.Return); isRet {
								ok = true
							}
						}
						if !ok {
							returns = false
						}
					}
				case *ssa.Select:
					for i, st := range y.States {
						if st.Dir != types.RecvOnly || resolve(st.Chan) != ssa.Value(prm) {
							continue
						}
						observed = true
						idxv := extractOf(y, 0)
						ok := false
						for _, b := range S.Blocks {
							for si, succ := range b.Succs {
								cond, pol, okf := edgeFact(b, si)
								if !okf {
									continue
								}
								bo, isBin := cond.(*ssa.BinOp)
								if !isBin || idxv == nil || bo.X != idxv || !isConstInt(bo.Y, int64(i)) {
									continue
								}
								if !((bo.Op == token.EQL && pol) || (bo.Op == token.NEQ && !pol)) {
									continue
								}
								for _, r := range c07instrsFromBlock(succ, func(r ssa.Instruction) bool { return r == ssa.Instruction(y) }, nil) {
									if ret, isRet := r.(*ssa.Return); isRet && ret.Block() != S.Recover {
										ok = true
									}
								}
							}
						}
						if !ok {
							returns = false
						}
					}
				}
			})
			if c.Req(observed, "C07.R6:sweeper-observes-stop:"+fnName(S), r6, p.Pos(S.Pos()), "the sweeper never receives from its stop channel (it outlives every client connection)") {
				c.Req(returns, "C07.R6:sweeper-returns-on-stop:"+fnName(S), r6, p.Pos(S.Pos()), "from the stop-channel case of the sweeper no return is reachable without waiting again")
			}
			// the sweep itself: idle-only selection
			nSweep := 0
			allInstrs(S, func(in ssa.Instruction) {
				call, ok := in.(*ssa.Call)
				if !ok {
					return
				}
				f := staticCallee(call)
				if f == nil || len(f.Blocks) == 0 {
					return
				}
				s := x.selector(f)
				if s == nil {
					return
				}
				nSweep++
				c.Saw(fnName(f))
				wkey := "C07.R6:sweep:" + fnName(S) + "→" + fnName(f)
				k, okk := s.flagAt(call)
				if !okk {
					c.Undecided(wkey, r6, p.InstrPos(call), "the sweep mode flag is not a constant at the call site")
					return
				}
				c.Req(s.closes, wkey+":closes", r6, p.InstrPos(call), "the sweep selects entries but never hands them to the session close")
				okIdle, why := x.selectsIdleOnly(s, k)
				c.Req(okIdle, wkey+":idle-only", r6, p.InstrPos(call), why)
			})
			c.Floor("C07.R6:sweep-calls", nSweep, 1)
		}
	}
}

package main

import (
	"fmt"
	"go/token"
	"go/types"
	"sort"
	"strings"

	"golang.org/x/tools/go/ssa"
)

// Additional C11 rules written after two independent seeded changes were missed
// (see DESIGN.md §7.3): both are agreement / dependence facts visible in the code.
//
// R5  the pacer's accrual and its wake-up computation use the same bandwidth
//     source: if Budget() accrues at one value and TimeUntilSend() divides by
//     another, the budget at the announced time can be below one datagram
//     whenever the two diverge (the send loop then spins on an expired timer).
// R6  the counters that feed the compensation quotient are filtered by age:
//     every counter read that the quotient depends on is control-dependent on a
//     comparison between that slot's timestamp and a value derived from the
//     current-time parameter ("over roughly the last five seconds").

func c11Extra(c *Check) {
	p := c.P
	const r5 = "C11.R5 the pacer's budget accrual and its wake-up time are computed from the same bandwidth source (the live bandwidth callback, or one shared stored value)"
	pacer := p.Named(pCommon, "Pacer")
	budget := p.Fn(pCommon, "(*Pacer).Budget")
	wake := p.Fn(pCommon, "(*Pacer).TimeUntilSend")
	if pacer == nil || budget == nil || wake == nil {
		c.Unres("congestion/common: Pacer, (*Pacer).Budget, (*Pacer).TimeUntilSend")
		return
	}
	c.Saw(fnName(budget))
	c.Saw(fnName(wake))
	// descriptor of a rate operand: where the value ultimately comes from
	describe := func(v ssa.Value) []string {
		set := map[string]bool{}
		for d := range deps(v, depOpts{}) {
			switch x := d.(type) {
			case *ssa.Call:
				if x.Call.IsInvoke() || staticCallee(x) != nil {
					if f := staticCallee(x); f != nil && fnPkg(f) != nil && fnPkg(f).Pkg.Path() == pCommon {
						set["helper:"+f.Name()] = true
					}
					continue
				}
				ap := accessPath(x.Call.Value)
				if len(ap.Fields) == 1 && namedOf(ap.Root.Type()) == pacer {
					set["callback:"+ap.Fields[0].Name()] = true
				}
			case *ssa.UnOp:
				if x.Op != token.MUL {
					continue
				}
				ap := accessPath(x)
				if len(ap.Fields) == 1 && namedOf(ap.Root.Type()) == pacer && isIntType(x.Type()) {
					if n := namedOf(x.Type()); n != nil && n.Obj().Pkg() != nil && strings.HasSuffix(n.Obj().Pkg().Path(), "monotime") {
						continue
					}
					set["field:"+ap.Fields[0].Name()] = true
				}
			}
		}
		var out []string
		for k := range set {
			out = append(out, k)
		}
		sort.Strings(out)
		return out
	}
	isTimeDerived := func(v ssa.Value, fn *ssa.Function) bool {
		for d := range deps(v, depOpts{throughCalls: true}) {
			if prm, ok := d.(*ssa.Parameter); ok && prm.Parent() == fn && len(fn.Params) > 1 && prm == fn.Params[1] {
				return true
			}
		}
		return false
	}
	// accrual: the multiplication by elapsed time in Budget
	var accr []string
	nAccr := 0
	accrFns := []*ssa.Function{budget}
	for _, ci := range callsIn(budget, func(ci ssa.CallInstruction) bool {
		g := staticCallee(ci)
		return g != nil && g != budget && fnPkg(g) != nil && fnPkg(g).Pkg.Path() == pCommon && len(g.Params) > 1
	}) {
		accrFns = append(accrFns, staticCallee(ci))
	}
	for _, af := range accrFns {
		af := af
		allInstrs(af, func(in ssa.Instruction) {
			bo, ok := in.(*ssa.BinOp)
			if !ok || bo.Op != token.MUL || !isIntType(bo.Type()) {
				return
			}
			var rate ssa.Value
			switch {
			case isTimeDerived(bo.Y, af) && !isTimeDerived(bo.X, af):
				rate = bo.X
			case isTimeDerived(bo.X, af) && !isTimeDerived(bo.Y, af):
				rate = bo.Y
			default:
				return
			}
			nAccr++
			accr = describe(rate)
		})
	}
	// wake-up: the division of the missing bytes in TimeUntilSend
	var wk []string
	nWake := 0
	allInstrs(wake, func(in ssa.Instruction) {
		bo, ok := in.(*ssa.BinOp)
		if !ok || bo.Op != token.QUO || !isIntType(bo.Type()) {
			return
		}
		if _, isC := constInt(bo.Y); isC {
			return
		}
		nWake++
		wk = describe(bo.Y)
	})
	if nWake == 0 {
		// the division sits in an arithmetic helper of the package (ceilDiv(a, b)): the divisor is the
		// argument TimeUntilSend passes for the helper's divisor parameter
		for _, ci := range callsIn(wake, func(ci ssa.CallInstruction) bool {
			g := staticCallee(ci)
			return g != nil && fnPkg(g) != nil && fnPkg(g).Pkg.Path() == pCommon && len(g.Blocks) > 0
		}) {
			g := staticCallee(ci)
			seenPrm := map[int]bool{}
			allInstrs(g, func(in ssa.Instruction) {
				bo, ok := in.(*ssa.BinOp)
				if !ok || bo.Op != token.QUO || !isIntType(bo.Type()) {
					return
				}
				prm, ok := resolve(bo.Y).(*ssa.Parameter)
				if !ok {
					return
				}
				for i, q := range g.Params {
					if q == prm && !seenPrm[i] {
						seenPrm[i] = true
						if arg := c03ArgAt(ci, i); arg != nil {
							nWake++
							wk = describe(arg)
						}
					}
				}
			})
		}
	}
	// ---- R9 the wake-up delay is rounded up
	floatWake := false
	{
		const r9 = "C11.R9 the delay announced by TimeUntilSend is the missing bytes divided by the bandwidth rounded UP (integer quotient plus a remainder correction, or a ceiling): at the announced time the budget covers a whole datagram, otherwise the send loop wakes up one byte short and spins"
		wakeFns := []*ssa.Function{wake}
		for _, ci := range callsIn(wake, func(ci ssa.CallInstruction) bool {
			g := staticCallee(ci)
			return g != nil && fnPkg(g) != nil && fnPkg(g).Pkg.Path() == pCommon && len(g.Blocks) > 0
		}) {
			wakeFns = append(wakeFns, staticCallee(ci))
		}
		trunc, intQuo, roundsUp := "", false, false
		for _, wf := range wakeFns {
			allInstrs(wf, func(in ssa.Instruction) {
				switch x := in.(type) {
				case *ssa.Convert:
					// float -> integer conversion truncates toward zero
					if sb, ok := x.X.Type().Underlying().(*types.Basic); ok && sb.Info()&types.IsFloat != 0 && isIntType(x.Type()) {
						if call, ok := resolve(x.X).(*ssa.Call); ok && calleeIs(call, "math", "Ceil") {
							roundsUp = true
							return
						}
						trunc = p.InstrPos(x)
					}
				case *ssa.BinOp:
					if !isIntType(x.Type()) {
						return
					}
					if _, isC := constInt(x.Y); isC {
						return
					}
					switch x.Op {
					case token.QUO:
						intQuo = true
						// (a + b - 1) / b
						for d := range deps(x.X, depOpts{}) {
							if sb, ok := d.(*ssa.BinOp); ok && sb.Op == token.SUB && isConstInt(sb.Y, 1) && resolve(sb.X) == resolve(x.Y) {
								roundsUp = true
							}
							if sb, ok := d.(*ssa.BinOp); ok && sb.Op == token.ADD && (resolve(sb.X) == resolve(x.Y) || resolve(sb.Y) == resolve(x.Y)) {
								for d2 := range deps(x.X, depOpts{}) {
									if k, ok := constInt(d2); ok && k == -1 || isConstInt(d2, 1) {
										roundsUp = true
									}
								}
							}
						}
					case token.REM:
						roundsUp = true // quotient corrected by the remainder test
					}
				}
			})
		}
		switch {
		case trunc != "":
			floatWake = true
			c.Bad("C11.R9:wake-up-rounded-up", r9, trunc, "the wake-up delay is computed in floating point and converted with truncation: the announced time is the floor of bytes/bandwidth, the budget then is one byte short of a datagram")
		case intQuo:
			c.Req(roundsUp, "C11.R9:wake-up-rounded-up", r9, p.Pos(wake.Pos()), "the wake-up delay is the plain integer quotient bytes/bandwidth (rounded down): no remainder correction / ceiling was found")
		case roundsUp:
			c.OK("C11.R9:wake-up-rounded-up", r9, p.Pos(wake.Pos()))
		}
	}
	if floatWake && nWake == 0 {
		// decided (as a violation) by R9; R5's divisor comparison has nothing to look at
	} else if nAccr != 1 || nWake != 1 {
		c.Undecided("C11.R5:bandwidth-source", r5, p.Pos(budget.Pos()), fmt.Sprintf("expected one accrual multiplication in Budget and one wake-up division in TimeUntilSend, found %d and %d: pacer shape not recognised", nAccr, nWake))
	} else {
		// the budget field and the datagram size take part in both computations by design; compare rate sources only
		strip := func(xs []string) string {
			var out []string
			for _, x := range xs {
				if strings.HasPrefix(x, "callback:") || strings.HasPrefix(x, "field:") {
					out = append(out, x)
				}
			}
			return strings.Join(out, ",")
		}
		a, w := strip(accr), strip(wk)
		// the wake-up divisor must not depend on more state than the accrual rate and vice versa
		c.Req(a != "" && a == w, "C11.R5:bandwidth-source", r5, p.Pos(wake.Pos()), fmt.Sprintf("Budget() accrues at [%s] but TimeUntilSend() divides by [%s]: when the two differ the budget at the announced wake-up time is below one datagram and the send loop spins", a, w))
	}

	// ---- R7 the stored budget is the capped budget
	const r7 = "C11.R7 the budget remembered at a send derives from the capped Budget() value (burst-bounded), never from an uncapped accrual: credit accumulated over an idle gap is not released at once"
	sent := p.Fn(pCommon, "(*Pacer).SentPacket")
	if sent == nil {
		c.Unres("congestion/common (*Pacer).SentPacket")
	} else {
		c.Saw(fnName(sent))
		nSt := 0
		allInstrs(sent, func(in ssa.Instruction) {
			st, ok := in.(*ssa.Store)
			if !ok {
				return
			}
			fa, ok := st.Addr.(*ssa.FieldAddr)
			if !ok || namedOf(fa.X.Type()) != pacer || !isIntType(st.Val.Type()) {
				return
			}
			if strings.Contains(st.Val.Type().String(), "monotime.") || strings.Contains(st.Val.Type().String(), "time.") {
				return // the last-send timestamp, not the budget
			}
			if _, isC := constInt(st.Val); isC {
				return
			}
			nSt++
			viaBudget, other := false, ""
			for d := range deps(st.Val, depOpts{}) {
				call, ok := d.(*ssa.Call)
				if !ok {
					continue
				}
				if g := staticCallee(call); g != nil && fnPkg(g) != nil && fnPkg(g).Pkg.Path() == pCommon {
					if g == budget {
						viaBudget = true
					} else {
						other = g.Name()
					}
				}
			}
			c.Req(viaBudget && other == "", fmt.Sprintf("C11.R7:stored-budget-capped#%d", nSt), r7, p.InstrPos(st), "the budget stored at a send is computed from "+other+" rather than from the capped Budget(): after an idle gap the whole uncapped credit is released in one burst")
		})
		c.Floor("C11.R7:budget-stores", nSt, 1)
	}

	// ---- R8 every event recomputes the compensation factor
	const r8 = "C11.R8 every path through the congestion-event handler reaches the function that recomputes the compensation factor from the window (no early return keeps a stale factor)"
	{
		var handler, recompute *ssa.Function
		recomputeSet := map[*ssa.Function]bool{}
		for _, fn := range p.RepoFns {
			if pk := fnPkg(fn); pk == nil || pk.Pkg.Path() != pBrutal || fn.Parent() != nil {
				continue
			}
			if fn.Name() == "OnCongestionEventEx" {
				handler = fn
			}
		}
		if handler != nil {
			// the recompute function: called from the handler with the handler's time-derived value,
			// and (transitively) storing the float factor field
			for _, ci := range callsIn(handler, func(ci ssa.CallInstruction) bool {
				g := staticCallee(ci)
				return g != nil && fnPkg(g) != nil && fnPkg(g).Pkg.Path() == pBrutal
			}) {
				g := staticCallee(ci)
				storesFloat := false
				seenF := map[*ssa.Function]bool{}
				var walk func(f *ssa.Function, d int)
				walk = func(f *ssa.Function, d int) {
					if seenF[f] || d > 3 {
						return
					}
					seenF[f] = true
					allInstrs(f, func(in ssa.Instruction) {
						if st, ok := in.(*ssa.Store); ok {
							if _, ok := st.Addr.(*ssa.FieldAddr); ok {
								if b, ok := st.Val.Type().Underlying().(*types.Basic); ok && b.Info()&types.IsFloat != 0 {
									storesFloat = true
								}
							}
						}
						if cc, ok := in.(*ssa.Call); ok {
							if h := staticCallee(cc); h != nil && fnPkg(h) != nil && fnPkg(h).Pkg.Path() == pBrutal {
								walk(h, d+1)
							}
						}
					})
				}
				walk(g, 0)
				if storesFloat {
					// several callees may set the factor (e.g. a constant setter on the
					// compensation-disabled branch next to the recomputation): any of them
					// leaves a freshly determined factor behind
					if recompute == nil || len(g.Blocks) > len(recompute.Blocks) {
						recompute = g
					}
					recomputeSet[g] = true
				}
			}
		}
		if handler == nil || recompute == nil {
			c.Undecided("C11.R8:recompute-on-every-event", r8, "", "the congestion-event handler or the function recomputing the factor was not found in congestion/brutal")
		} else {
			c.Saw(fnName(handler))
			isRecompute := func(in ssa.Instruction) bool {
				ci, ok := in.(ssa.CallInstruction)
				return ok && recomputeSet[staticCallee(ci)]
			}
			exits := exitsReachableAvoiding(handler, nil, isRecompute)
			pos := p.Pos(handler.Pos())
			if len(exits) > 0 {
				pos = p.InstrPos(exits[0])
			}
			c.Req(len(exits) == 0, "C11.R8:recompute-on-every-event", r8, pos, "a path through "+fnName(handler)+" returns without calling "+fnName(recompute)+": the compensation factor is not recomputed after that batch (it can stay at 1 although the window now holds enough samples with losses)")
		}
	}

	// ---- R6 age filter of the compensation counters
	const r6 = "C11.R6 every counter the compensation quotient is computed from is read only behind a comparison of its slot's timestamp with a value derived from the current time (samples older than the window do not count)"
	// the counter ratio: a float quotient of two values converted from unsigned integers
	var brutalFns []*ssa.Function
	for _, fn := range p.RepoFns {
		if pk := fnPkg(fn); pk != nil && pk.Pkg.Path() == pBrutal {
			brutalFns = append(brutalFns, fn)
		}
	}
	fromUint := func(v ssa.Value) bool {
		cv, ok := resolve(v).(*ssa.Convert)
		return ok && isUnsigned(cv.X.Type())
	}
	var quos []*ssa.BinOp
	for _, fn := range brutalFns {
		allInstrs(fn, func(in ssa.Instruction) {
			bo, ok := in.(*ssa.BinOp)
			if !ok || bo.Op != token.QUO {
				return
			}
			if b, ok := bo.Type().Underlying().(*types.Basic); !ok || b.Info()&types.IsFloat == 0 {
				return
			}
			if fromUint(bo.X) && fromUint(bo.Y) {
				quos = append(quos, bo)
			}
		})
	}
	if len(quos) == 0 {
		c.Unres("the acked/(acked+lost) quotient (a float division of two unsigned counters) in congestion/brutal")
		return
	}
	// leaf counter loads the quotient is computed from, followed through helper
	// parameters (to the arguments at the package's call sites) and helper results
	type leafT struct {
		load *ssa.UnOp
	}
	var leaves []*ssa.UnOp
	seenV := map[ssa.Value]bool{}
	var follow func(v ssa.Value, depth int)
	follow = func(v ssa.Value, depth int) {
		if v == nil || seenV[v] || depth > 4 {
			return
		}
		seenV[v] = true
		for d := range deps(v, depOpts{}) {
			switch x := d.(type) {
			case *ssa.UnOp:
				if x.Op == token.MUL && isIntType(x.Type()) {
					if _, ok := x.X.(*ssa.FieldAddr); ok {
						leaves = append(leaves, x)
					}
				}
			case *ssa.Parameter:
				fn := x.Parent()
				idx := -1
				for i, q := range fn.Params {
					if q == x {
						idx = i
					}
				}
				if !isIntType(x.Type()) || idx < 0 {
					continue
				}
				for _, caller := range brutalFns {
					for _, ci := range callsIn(caller, func(ci ssa.CallInstruction) bool { return staticCallee(ci) == fn }) {
						if idx < len(ci.Common().Args) {
							follow(ci.Common().Args[idx], depth+1)
						}
					}
				}
			case *ssa.Call, *ssa.Extract:
				var call *ssa.Call
				ridx := 0
				if e, ok := x.(*ssa.Extract); ok {
					call, _ = e.Tuple.(*ssa.Call)
					ridx = e.Index
				} else {
					call = x.(*ssa.Call)
				}
				if call == nil {
					continue
				}
				g := staticCallee(call)
				if g == nil || fnPkg(g) == nil || fnPkg(g).Pkg.Path() != pBrutal {
					continue
				}
				allInstrs(g, func(in ssa.Instruction) {
					if r, ok := in.(*ssa.Return); ok {
						if res := retResults(r); ridx < len(res) {
							follow(res[ridx], depth+1)
						}
					}
				})
			}
		}
	}
	for _, q := range quos {
		c.Saw(fnName(q.Parent()))
		follow(q, 0)
	}
	_ = leafT{}
	n := 0
	seenLeaf := map[*ssa.UnOp]bool{}
	for _, u := range leaves {
		if seenLeaf[u] {
			continue
		}
		seenLeaf[u] = true
		fa := u.X.(*ssa.FieldAddr)
		ctr := structField(fa.X.Type(), fa.Field)
		n++
		base := accessPath(fa.X).Root
		fnU := u.Parent()
		guarded := guardedBy(u, func(cond ssa.Value, pol bool) bool {
			bo, ok := cond.(*ssa.BinOp)
			if !ok {
				return false
			}
			switch bo.Op {
			case token.LSS, token.LEQ, token.GTR, token.GEQ:
			default:
				return false
			}
			fromSlot := func(v ssa.Value) bool {
				for dd := range deps(v, depOpts{}) {
					if uu, ok := dd.(*ssa.UnOp); ok && uu.Op == token.MUL {
						if f2, ok := uu.X.(*ssa.FieldAddr); ok && accessPath(f2.X).Root == base && structField(f2.X.Type(), f2.Field) != ctr {
							return true
						}
					}
				}
				return false
			}
			// the reference point: derived from an integer parameter of this function (the
			// current time handed down by the event handler), not from the slot itself
			fromTime := func(v ssa.Value) bool {
				for dd := range deps(v, depOpts{}) {
					if prm, ok := dd.(*ssa.Parameter); ok && prm.Parent() == fnU && isIntType(prm.Type()) {
						return true
					}
				}
				return false
			}
			return (fromSlot(bo.X) && fromTime(bo.Y)) || (fromSlot(bo.Y) && fromTime(bo.X))
		})
		c.Req(guarded, "C11.R6:age-filter:"+ctr.Name(), r6, p.InstrPos(u), "counter "+ctr.Name()+" feeds the compensation quotient without a comparison of its slot's timestamp against the current time: samples older than the five-second window keep counting")
	}
	c.Floor("C11.R6:counters", n, 2)
}

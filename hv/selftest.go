package main

import (
	"fmt"
	"os"
	"os/exec"
	"path/filepath"
	"sort"
	"strings"
	"sync"
)

// Self-validation of the rules (thorough tier): every seeded breakage under
// /verif/mutants/<id>/*.patch must make the check report a VIOLATION (exit 1)
// and every behaviour-preserving refactor under /verif/refactors/<id>/*.patch
// must leave it silent (exit 0).  Each variant is analysed on a scratch copy of
// /repo's working tree outside /repo and /verif, removed right afterwards.

type selftestResult struct {
	OK       bool     `json:"ok"`
	Ran      int      `json:"ran"`
	Skipped  int      `json:"skipped"`
	Failures []string `json:"failures"`
	Cases    []string `json:"cases"`
}

type stCase struct {
	patch string
	want  int
	kind  string
}

func listCases(id string) []stCase {
	var cs []stCase
	for _, k := range []struct {
		dir  string
		want int
	}{{"mutants", 1}, {"refactors", 0}, {"seeded", 1}} {
		var files []string
		if k.dir == "seeded" {
			// /verif/seeded/<name>/patch.diff with meta.json naming the property
			ms, _ := filepath.Glob(filepath.Join(verifRoot(), "seeded", "*", "patch.diff"))
			for _, m := range ms {
				meta, err := os.ReadFile(filepath.Join(filepath.Dir(m), "meta.json"))
				if err != nil {
					continue
				}
				// "property" names the check that is expected to fire ("breaks" may name another property)
				if strings.Contains(string(meta), "\"property\": \""+id+"\"") && !strings.Contains(string(meta), "\"detected\": false") {
					files = append(files, m)
				}
			}
		} else {
			files, _ = filepath.Glob(filepath.Join(verifRoot(), k.dir, id, "*.patch"))
		}
		sort.Strings(files)
		for _, f := range files {
			cs = append(cs, stCase{f, k.want, k.dir})
		}
	}
	return cs
}

func runOne(id string, cs stCase) (status string, detail string) {
	scratch, err := os.MkdirTemp("", "hv-self-")
	if err != nil {
		return "error", err.Error()
	}
	defer os.RemoveAll(scratch)
	repo := filepath.Join(scratch, "repo")
	// working-tree copy without .git (worktree metadata may change underneath a plain cp)
	if out, err := exec.Command("rsync", "-a", "--exclude=.git", repoRoot+"/", repo+"/").CombinedOutput(); err != nil {
		if out2, err2 := exec.Command("cp", "-a", repoRoot, repo).CombinedOutput(); err2 != nil {
			return "error", "copy: " + string(out) + string(out2)
		}
		_ = os.RemoveAll(filepath.Join(repo, ".git"))
	}
	ap := exec.Command("git", "apply", "--whitespace=nowarn", cs.patch)
	ap.Dir = repo
	if out, err := ap.CombinedOutput(); err != nil {
		return "skipped", "patch does not apply to the current tree: " + firstLine(string(out))
	}
	vdir := filepath.Join(scratch, "verif")
	_ = os.MkdirAll(vdir, 0o755)
	if b, err := os.ReadFile(filepath.Join(verifRoot(), "known_findings.txt")); err == nil {
		_ = os.WriteFile(filepath.Join(vdir, "known_findings.txt"), b, 0o644)
	}
	cmd := exec.Command(os.Args[0], "check", id, "--tier", "quick", "--no-selftest")
	cmd.Env = append(os.Environ(), "HV_REPO="+repo, "HV_VERIF="+vdir, "HV_TABLES="+filepath.Join(verifRoot(), "hv", "tables"))
	out, err := cmd.CombinedOutput()
	code := 0
	if err != nil {
		if ee, ok := err.(*exec.ExitError); ok {
			code = ee.ExitCode()
		} else {
			return "error", err.Error()
		}
	}
	if code != cs.want {
		return "fail", fmt.Sprintf("exit %d, want %d: %s", code, cs.want, lastLines(string(out), 3))
	}
	return "ok", ""
}

func firstLine(s string) string {
	if i := strings.Index(s, "\n"); i >= 0 {
		return s[:i]
	}
	return s
}

func lastLines(s string, n int) string {
	ls := strings.Split(strings.TrimSpace(s), "\n")
	if len(ls) > n {
		ls = ls[len(ls)-n:]
	}
	return strings.Join(ls, " | ")
}

func runSelftests(id string) selftestResult {
	cases := listCases(id)
	res := selftestResult{OK: true}
	var mu sync.Mutex
	sem := make(chan struct{}, 4)
	var wg sync.WaitGroup
	for _, cs := range cases {
		wg.Add(1)
		go func(cs stCase) {
			defer wg.Done()
			sem <- struct{}{}
			defer func() { <-sem }()
			st, detail := runOne(id, cs)
			mu.Lock()
			defer mu.Unlock()
			name := cs.kind + "/" + filepath.Base(filepath.Dir(cs.patch)) + "/" + filepath.Base(cs.patch)
			res.Cases = append(res.Cases, name+": "+st)
			switch st {
			case "ok":
				res.Ran++
			case "skipped":
				res.Skipped++
			default:
				res.OK = false
				res.Failures = append(res.Failures, name+": "+detail)
			}
		}(cs)
	}
	wg.Wait()
	sort.Strings(res.Cases)
	sort.Strings(res.Failures)
	return res
}

func selftestMain(args []string) int {
	if len(args) == 0 {
		fmt.Fprintln(os.Stderr, "usage: hv selftest <Cxx|all>")
		return 2
	}
	ids := args
	if args[0] == "all" {
		ids = nil
		for id := range registry {
			ids = append(ids, id)
		}
		sort.Strings(ids)
	}
	rc := 0
	for _, id := range ids {
		r := runSelftests(id)
		fmt.Printf("selftest %s: ok=%v ran=%d skipped=%d\n", id, r.OK, r.Ran, r.Skipped)
		for _, c := range r.Cases {
			fmt.Println("  ", c)
		}
		for _, f := range r.Failures {
			fmt.Println("  FAIL", f)
		}
		if !r.OK {
			rc = 1
		}
	}
	return rc
}

package main

import (
	"fmt"
	"go/constant"
	"go/token"
	"go/types"
	"sort"
	"strings"

	"golang.org/x/tools/go/ssa"
)

const c04pQV = pQUIC + "/quicvarint"

func init() {
	register(&propDef{
		ID:        "C04",
		Run:       checkC04,
		Technique: "static analysis: wire-length taint with a linear-inequality prover over dominating CFG edge guards, who-may-read census of the stream reader, must-pass token sequences of writer and reader, offset/size algebra of the writers (go/ssa)",
		Explanation: "R1 every length obtained from quicvarint.Read in ReadTCPRequest/ReadTCPResponse/ParseUDPMessage (and helpers they call) is proved <= the protocol constant of its role (content: MaxAddressLength/MaxMessageLength, discarded padding: MaxPaddingLength) at every make / io.CopyN / read-buffer / slice-bound / call-argument it reaches, proved >= 1 for the request and UDP address (at the sinks, or - when the length is consumed in a helper shared with a reader that accepts empty content - as len(result) >= 1 on every success return), and is not provably below the largest legal value (the maximum is accepted); " +
			"R2 inside the stream readers the io.Reader flows only into quicvarint.NewReader->quicvarint.Read, io.ReadFull with a buffer whose length is exactly a declared length (or a constant), io.CopyN with exactly a declared length, ReadByte, or helpers obeying the same rule; " +
			"R3 between quic-go's peek of the frame type and ReadTCPRequest exactly one varint is consumed from the stream (in the dispatcher, on the FrameTypeTCPRequest case, or at the start of the handler), the dispatcher passes the stream to nothing else, and no other stream use precedes ReadTCPRequest in the handler; the client reads the response exactly once - lazily behind Established==false, setting Established, or eagerly before a tcpConn with Established true is built (composite literal, field-wise assignment, or a constructor taking the flag/stream as parameters: decided at its call sites); " +
			"R4 reader token sequence (request V B V B, response U8 V B V B, each block sized by the varint before it, every token on every success path, blocks skipped only on a zero-length edge) equals the writer's sequence, whose fields are laid out at running offsets (directly, through nested re-slices, through a put-block helper that is checked the same way, or by a chain of append/quicvarint.Append from an empty slice), each length prefix being len() of the block that follows and the buffer size being the exact sum of the fields; " +
			"R5 the writer's varint encoder agrees with RFC 9000 for every legal value (1-byte range <=63, 2-byte range >=64 with the 0x40 tag and big-endian bytes, wider encodings only above the largest legal value), and every padding length a writer can draw is accepted by the reader (<= MaxPaddingLength).",
		NotDecided: []string{
			"round-trip equality for all contents and all chunkings as such (R2 gives no over-read / no short read, R4/R5 give format agreement)",
			"acceptance of non-minimal varints (quic-go's decoder)",
			"4- and 8-byte varint encodings in the writer (no legal frame uses them)",
			"agreement of FrameTypeTCPRequest with PROTOCOL.md (text, not program)",
		},
		Assumptions: []string{
			"quicvarint.NewReader(r) for an r without ReadByte reads through a one-byte buffer and quicvarint.Read consumes exactly one varint (dependency bodies are not loaded in the quick tier)",
			"io.ReadFull / io.CopyN consume exactly len(buf) / n bytes on success (standard library contract)",
			"quicvarint.Append (quic-go's encoder), when a writer uses it instead of the repository's varintPut, agrees with quicvarint.Len and RFC 9000",
			"quic-go's StreamDispatcher only peeks the frame type before calling the dispatcher",
			"TrafficLogger.TraceStream/UntraceStream register the stream and do not read from it",
		},
	})
}

// c04root describes one wire reader of the protocol package.
type c04root struct {
	name    string // function in core/internal/protocol
	limit   string // constant bounding the content length
	nonzero bool   // content length 0 must be rejected
	stream  bool   // reads from an io.Reader (R2/R4 apply)
	pattern string // expected reader token sequence
	writer  string // matching writer
	wpat    string // expected writer token sequence
	fn      *ssa.Function
}

type c04ctx struct {
	c         *Check
	p         *Prog
	roots     []*c04root
	fns       []*ssa.Function              // union of the closures
	rootsOf   map[*ssa.Function][]*c04root // roots from which a function is reachable
	lps       map[*ssa.Function]*linProver // one prover per function
	lens      *c04lens                     // wire-length sources
	padMax    map[string]int64             // writer name -> largest padding length it can draw (R5), -1 unknown
	consts    map[string]int64             // protocol constants
	keys      map[string]int               // key de-duplication
	libVarint int                          // varints the writers encode with quicvarint.Append (quic-go's encoder)
}

func (k *c04ctx) key(s string) string {
	k.keys[s]++
	if n := k.keys[s]; n > 1 {
		return fmt.Sprintf("%s#%d", s, n)
	}
	return s
}

func (k *c04ctx) isRoot(fn *ssa.Function) bool {
	for _, r := range k.roots {
		if r.fn == fn {
			return true
		}
	}
	return false
}

// c04closure: fn, its closures and the repository functions it calls statically.
func c04closure(p *Prog, root *ssa.Function) []*ssa.Function {
	seen := map[*ssa.Function]bool{}
	var out []*ssa.Function
	var walk func(f *ssa.Function)
	walk = func(f *ssa.Function) {
		if f == nil || seen[f] || len(f.Blocks) == 0 || !p.IsRepoFn(f) {
			return
		}
		seen[f] = true
		out = append(out, f)
		for _, a := range f.AnonFuncs {
			walk(a)
		}
		allInstrs(f, func(in ssa.Instruction) {
			if ci, ok := in.(ssa.CallInstruction); ok {
				walk(staticCallee(ci))
			}
		})
	}
	walk(root)
	return out
}

func c04calleeName(ci ssa.CallInstruction) string {
	cc := ci.Common()
	if cc.IsInvoke() {
		return types.TypeString(cc.Value.Type(), func(p *types.Package) string { return p.Name() }) + "." + cc.Method.Name()
	}
	if b, ok := cc.Value.(*ssa.Builtin); ok {
		return b.Name()
	}
	if f := cc.StaticCallee(); f != nil {
		if pk := fnPkg(f); pk != nil {
			if f.Signature.Recv() != nil {
				return f.RelString(pk.Pkg)
			}
			return pk.Pkg.Name() + "." + f.Name()
		}
		return f.Name()
	}
	return "<dynamic>"
}

// c04before: a can execute before b and b never before a.
func c04before(a, b ssa.Instruction) bool {
	return reachableAfter(a, b) && !reachableAfter(b, a)
}

func c04blockPos(in ssa.Instruction) int {
	return in.Block().Index*100000 + instrIndex(in)
}

// c04sortInstrs orders instructions by one-way reachability (ties: CFG position).
func c04sortInstrs[T any](xs []T, at func(T) ssa.Instruction) {
	sort.SliceStable(xs, func(i, j int) bool { return c04blockPos(at(xs[i])) < c04blockPos(at(xs[j])) })
	// insertion sort with the partial order (lists are tiny)
	for i := 1; i < len(xs); i++ {
		for j := i; j > 0 && c04before(at(xs[j]), at(xs[j-1])); j-- {
			xs[j], xs[j-1] = xs[j-1], xs[j]
		}
	}
}

// ---------------------------------------------------------------------------
// wire-length sources and their taint

type c04src struct {
	fn    *ssa.Function
	call  *ssa.Call
	val   ssa.Value // the integer carrying the length read from the wire
	ord   int       // 1-based position among the sources of fn
	taint map[ssa.Value]bool
}

func (s *c04src) String() string { return fmt.Sprintf("length #%d of %s", s.ord, fnName(s.fn)) }

type c04lens struct {
	derived map[*ssa.Function]int // helpers returning an unchecked wire length: result index
	byFn    map[*ssa.Function][]*c04src
	byVal   map[ssa.Value]*c04src
	byCall  map[*ssa.Call]*c04src
}

func (L *c04lens) srcIdx(call *ssa.Call) (int, bool) {
	if calleeIs(call, c04pQV, "Read") {
		return 0, true
	}
	if f := staticCallee(call); f != nil {
		if i, ok := L.derived[f]; ok {
			return i, true
		}
	}
	return 0, false
}

func c04taintFrom(v ssa.Value) map[ssa.Value]bool {
	t := map[ssa.Value]bool{v: true}
	work := []ssa.Value{v}
	add := func(x ssa.Value) {
		if !t[x] {
			t[x] = true
			work = append(work, x)
		}
	}
	for len(work) > 0 {
		x := work[len(work)-1]
		work = work[:len(work)-1]
		refs := x.Referrers()
		if refs == nil {
			continue
		}
		for _, r := range *refs {
			switch u := r.(type) {
			case *ssa.Convert:
				if isIntType(u.Type()) {
					add(u)
				}
			case *ssa.ChangeType:
				if isIntType(u.Type()) {
					add(u)
				}
			case *ssa.BinOp:
				switch u.Op {
				case token.ADD, token.SUB, token.MUL, token.QUO, token.REM, token.SHL, token.SHR, token.AND, token.OR, token.XOR, token.AND_NOT:
					add(u)
				}
			case *ssa.UnOp:
				if u.Op == token.SUB || u.Op == token.XOR {
					add(u)
				}
			case *ssa.Phi:
				add(u)
			case *ssa.Call:
				if b, ok := u.Call.Value.(*ssa.Builtin); ok && (b.Name() == "min" || b.Name() == "max") {
					add(u)
				}
			case *ssa.Store:
				if u.Val == x {
					if al, ok := u.Addr.(*ssa.Alloc); ok {
						for _, rr := range *al.Referrers() {
							if l, ok := rr.(*ssa.UnOp); ok && l.Op == token.MUL {
								add(l)
							}
						}
					}
				}
			}
		}
	}
	return t
}

func (k *c04ctx) collectLens() {
	L := &c04lens{derived: map[*ssa.Function]int{}}
	k.lens = L
	for iter := 0; iter < 6; iter++ {
		L.byFn = map[*ssa.Function][]*c04src{}
		L.byVal = map[ssa.Value]*c04src{}
		L.byCall = map[*ssa.Call]*c04src{}
		changed := false
		for _, fn := range k.fns {
			var srcs []*c04src
			allInstrs(fn, func(in ssa.Instruction) {
				call, ok := in.(*ssa.Call)
				if !ok {
					return
				}
				idx, ok := L.srcIdx(call)
				if !ok {
					return
				}
				var v ssa.Value
				if _, isTuple := call.Type().(*types.Tuple); isTuple {
					v = extractOf(call, idx)
				} else if idx == 0 {
					v = call
				}
				s := &c04src{fn: fn, call: call, val: v}
				if v != nil {
					s.taint = c04taintFrom(v)
				} else {
					s.taint = map[ssa.Value]bool{}
				}
				srcs = append(srcs, s)
			})
			c04sortInstrs(srcs, func(s *c04src) ssa.Instruction { return s.call })
			for i, s := range srcs {
				s.ord = i + 1
				L.byCall[s.call] = s
				if s.val != nil {
					L.byVal[s.val] = s
				}
			}
			L.byFn[fn] = srcs
			if k.isRoot(fn) {
				continue
			}
			if _, done := L.derived[fn]; done {
				continue
			}
			allInstrs(fn, func(in ssa.Instruction) {
				r, ok := in.(*ssa.Return)
				if !ok {
					return
				}
				for j, rv := range retResults(r) {
					if rv == nil || !isIntType(rv.Type()) {
						continue
					}
					for _, s := range srcs {
						if s.taint[rv] || s.taint[resolve(rv)] {
							if _, done := L.derived[fn]; !done {
								L.derived[fn] = j
								changed = true
							}
						}
					}
				}
			})
		}
		if !changed {
			break
		}
	}
}

// lp returns the prover of fn.  For helpers, integer parameters that receive
// constants at every call site inside the analysed functions are known.
func (k *c04ctx) lp(fn *ssa.Function) *linProver {
	if lp, ok := k.lps[fn]; ok {
		return lp
	}
	lp := newLinProver(k.p, fn)
	k.lps[fn] = lp
	if k.isRoot(fn) || len(fn.Blocks) == 0 || len(fn.Blocks[0].Instrs) == 0 {
		return lp
	}
	for i, prm := range fn.Params {
		if !isIntType(prm.Type()) {
			continue
		}
		lo, hi, n, all := int64(0), int64(0), 0, true
		for _, g := range k.fns {
			allInstrs(g, func(in ssa.Instruction) {
				ci, ok := in.(ssa.CallInstruction)
				if !ok || staticCallee(ci) != fn || i >= len(ci.Common().Args) {
					return
				}
				v, ok := constInt(ci.Common().Args[i])
				if !ok {
					all = false
					return
				}
				if n == 0 || v < lo {
					lo = v
				}
				if n == 0 || v > hi {
					hi = v
				}
				n++
			})
		}
		if all && n > 0 {
			P := linAtom(prm)
			lp.pre = append(lp.pre, linFact{P.sub(linConst(hi)), "constant argument at every call site"}, linFact{linConst(lo).sub(P), "constant argument at every call site"})
		}
	}
	return lp
}

// c04helperPost: postcondition of a helper h that hands a wire length back in result idx.  On
// every return the result is either a constant (largest: cmax) or proved <= parameter prm + d
// (d = 0, or -1 when even `<= prm - 1` holds on all of them: a limit check that is off by one);
// prm < 0 with ok: every return hands back a constant.
type c04post struct {
	prm  int
	d    int64
	cmax int64
	ok   bool
}

func (k *c04ctx) c04helperPost(h *ssa.Function, idx int) c04post {
	lp := k.lp(h)
	var rets []*ssa.Return
	allInstrs(h, func(in ssa.Instruction) {
		if r, ok := in.(*ssa.Return); ok && retResults(r) != nil {
			rets = append(rets, r)
		}
	})
	if len(rets) == 0 {
		return c04post{}
	}
	po := c04post{prm: -1, ok: true}
	var open []*ssa.Return // returns handing back a non-constant
	for _, r := range rets {
		res := retResults(r)
		if idx >= len(res) || res[idx] == nil {
			return c04post{}
		}
		if v, isC := constInt(res[idx]); isC {
			if v > po.cmax {
				po.cmax = v
			}
			continue
		}
		open = append(open, r)
	}
	if len(open) == 0 {
		return po
	}
	for j, prm := range h.Params {
		if !isIntType(prm.Type()) {
			continue
		}
		for _, d := range []int64{-1, 0} {
			all := true
			for _, r := range open {
				cx := lp.newCtx(r)
				if !lp.proveAt(r, lp.lin(retResults(r)[idx], cx), linAtom(prm).add(linConst(d)), 0, nil) {
					all = false
					break
				}
			}
			if all {
				po.prm, po.d = j, d
				return po
			}
		}
	}
	return c04post{}
}

// c04helperBounds: a length obtained from a helper that already checks it against a limit it
// receives as parameter (`n, err := readLength(r, MaxX, ...)`) carries the helper's postcondition
// `n <= limit argument` in the caller; the roles (which constant, non-zero, accepts-max) are still
// judged by R1 at the caller's sinks.
func (k *c04ctx) c04helperBounds() {
	posts := map[*ssa.Function]c04post{}
	for _, fn := range k.fns {
		for _, s := range k.lens.byFn[fn] {
			if s.val == nil || calleeIs(s.call, c04pQV, "Read") {
				continue
			}
			h := staticCallee(s.call)
			if h == nil {
				continue
			}
			idx, isDerived := k.lens.derived[h]
			if !isDerived {
				continue
			}
			po, done := posts[h]
			if !done {
				po = k.c04helperPost(h, idx)
				posts[h] = po
			}
			if !po.ok {
				continue
			}
			lp := k.lp(fn)
			cx := lp.newCtx(s.call)
			V := lp.lin(s.val, cx)
			const why = "postcondition of the length-reading helper"
			if po.prm < 0 {
				lp.pre = append(lp.pre, linFact{V.sub(linConst(po.cmax)), why})
				continue
			}
			args := s.call.Common().Args
			if po.prm >= len(args) {
				continue
			}
			A := lp.lin(args[po.prm], cx)
			switch {
			case A.isConst():
				b := A.k + po.d
				if po.cmax > b {
					b = po.cmax
				}
				lp.pre = append(lp.pre, linFact{V.sub(linConst(b)), why})
			case po.cmax <= 0 && po.d == 0 && isUnsigned(args[po.prm].Type()):
				lp.pre = append(lp.pre, linFact{V.sub(A), why})
			}
		}
	}
}

// ---------------------------------------------------------------------------
// R1 sinks

type c04sink struct {
	kind     string
	at       ssa.Instruction
	L        lin       // the quantity that is allocated / read
	produced ssa.Value // the buffer / sub-slice whose size it is (nil for pure counts)
}

// c04readBuf: the byte buffer a read-like call fills.
func c04readBuf(ci ssa.CallInstruction) ssa.Value {
	cc := ci.Common()
	if calleeIs(ci, "io", "ReadFull") || calleeIs(ci, "io", "ReadAtLeast") {
		if len(cc.Args) >= 2 {
			return cc.Args[1]
		}
		return nil
	}
	for _, m := range []string{"Read", "ReadAt"} {
		if _, ok := methodCallNamed(ci, m); ok {
			if a := callArgs(ci); len(a) >= 1 && isBytesOrString(a[0].Type()) {
				return a[0]
			}
		}
	}
	return nil
}

func (k *c04ctx) sinksOf(s *c04src) []c04sink {
	lp := k.lp(s.fn)
	T := s.taint
	tainted := func(v ssa.Value) bool { return v != nil && (T[v] || T[resolve(v)]) }
	linTainted := func(l lin) bool {
		for a := range l.c {
			if _, ok := a.(*lenMarker); ok {
				continue
			}
			if T[a] {
				return true
			}
		}
		return false
	}
	var out []c04sink
	allInstrs(s.fn, func(in ssa.Instruction) {
		cx := lp.newCtx(in)
		switch x := in.(type) {
		case *ssa.MakeSlice:
			if tainted(x.Len) {
				out = append(out, c04sink{"make", x, lp.lin(x.Len, cx), x})
			}
			if x.Cap != x.Len && tainted(x.Cap) {
				out = append(out, c04sink{"make.cap", x, lp.lin(x.Cap, cx), x})
			}
		case *ssa.Slice:
			for _, b := range []struct {
				n string
				v ssa.Value
			}{{"slice.low", x.Low}, {"slice.high", x.High}, {"slice.max", x.Max}} {
				if tainted(b.v) {
					out = append(out, c04sink{b.n, x, lp.lin(b.v, cx), x})
				}
			}
		case ssa.CallInstruction:
			cc := x.Common()
			if _, isB := cc.Value.(*ssa.Builtin); isB {
				return
			}
			name := c04calleeName(x)
			for i, a := range cc.Args {
				if isIntType(a.Type()) && tainted(a) {
					kind := "arg:" + name
					if calleeIs(x, "io", "CopyN") && i == 2 {
						kind = "CopyN"
					}
					out = append(out, c04sink{kind, in, lp.lin(a, cx), nil})
				}
			}
			if buf := c04readBuf(x); buf != nil {
				if l := lp.lenOf(buf, cx); linTainted(l) {
					kind := "readbuf:" + name
					if calleeIs(x, "io", "ReadFull") {
						kind = "ReadFull"
					}
					out = append(out, c04sink{kind, in, l, buf})
				}
			}
		}
	})
	return out
}

// c04reachesResult: v flows into a non-error result of its function.
func c04reachesResult(fn *ssa.Function, v ssa.Value) bool {
	found := false
	allInstrs(fn, func(in ssa.Instruction) {
		r, ok := in.(*ssa.Return)
		if !ok || found {
			return
		}
		for _, rv := range retResults(r) {
			if rv == nil || c04isErrorType(rv.Type()) {
				continue
			}
			if rv == v || dependsOn(rv, v, depOpts{}) {
				found = true
			}
		}
	})
	return found
}

func c04isErrorType(t types.Type) bool {
	return types.Identical(t, types.Universe.Lookup("error").Type())
}

func (k *c04ctx) ruleR1() {
	c, p := k.c, k.p
	const r1 = "C04.R1 a length read from the wire is bounded by its protocol constant (and is non-zero for addresses) on every path before it sizes an allocation, a read, a discard or a slice; the largest legal value is still accepted"
	// per reader: how many obligations of each kind were decided for it (a helper shared by two
	// readers stands for a flow in each)
	upOf, nzOf := map[*c04root]int{}, map[*c04root]int{}
	padLimit := k.consts["MaxPaddingLength"]
	for _, fn := range k.fns {
		for _, s := range k.lens.byFn[fn] {
			if s.val == nil {
				continue
			}
			sinks := k.sinksOf(s)
			if len(sinks) == 0 {
				continue
			}
			c.Saw(fnName(fn))
			lp := k.lp(fn)
			content := false
			for _, sk := range sinks {
				if sk.produced != nil && c04reachesResult(fn, sk.produced) {
					content = true
				}
			}
			limit, limName, accept := padLimit, "MaxPaddingLength", int64(-1)
			nonzero := false
			roots := k.rootsOf[fn]
			if content {
				nonzero = true
				for i, rt := range roots {
					v := k.consts[rt.limit]
					if i == 0 || v < limit {
						limit, limName = v, rt.limit
					}
					nonzero = nonzero && rt.nonzero
				}
				accept = limit
			} else {
				// padding: the reader must accept what the matching writer can draw
				for _, rt := range roots {
					if w, ok := k.padMax[rt.writer]; ok && w > accept {
						accept = w
					}
				}
			}
			role := "discarded padding"
			if content {
				role = "returned content"
			}
			for _, sk := range sinks {
				base := k.key(fmt.Sprintf("C04.R1:%s:len%d→%s", fnName(fn), s.ord, sk.kind))
				pos := p.InstrPos(sk.at)
				what := fmt.Sprintf("%s (%s, read at %s) reaches %s", s, role, p.InstrPos(s.call), sk.kind)
				for _, rt := range roots {
					upOf[rt]++
				}
				c.Req(lp.proveAt(sk.at, sk.L, linConst(limit), 0, nil), base+":bounded", r1, pos,
					fmt.Sprintf("%s without `n <= %s (%d)` holding on every path: a peer-declared length above the limit is allocated/read", what, limName, limit))
				cx := lp.newCtx(sk.at)
				V := lp.lin(s.val, cx)
				if nonzero {
					for _, rt := range roots {
						nzOf[rt]++
					}
					c.Req(lp.proveAt(sk.at, linConst(1), V, 0, nil), base+":nonzero", r1, pos,
						what+" without `n >= 1` holding on every path: an empty address is not rejected")
				}
				if accept >= 1 {
					c.Req(!lp.proveAt(sk.at, V, linConst(accept-1), 0, nil), base+":accepts-max", r1, pos,
						fmt.Sprintf("%s only when n <= %d: the legal length %d is rejected (guard off by one or compared against the wrong constant)", what, accept-1, accept))
				}
			}
		}
	}
	// a reader whose empty-content rejection is not visible at the sinks (the length is read and
	// consumed in a helper shared with a reader that accepts empty content): the rejection must then
	// show on the result - every success return hands out content of length >= 1
	for _, rt := range k.roots {
		if !rt.nonzero || nzOf[rt] > 0 || upOf[rt] == 0 {
			continue
		}
		lp := k.lp(rt.fn)
		n, all := 0, true
		var at ssa.Instruction
		allInstrs(rt.fn, func(in ssa.Instruction) {
			r, ok := in.(*ssa.Return)
			if !ok || !c04successReturn(r) {
				return
			}
			for _, rv := range retResults(r) {
				if rv == nil || !isBytesOrString(rv.Type()) {
					continue
				}
				n++
				cx := lp.newCtx(r)
				if !lp.proveAt(r, linConst(1), lp.lenOf(rv, cx), 0, nil) {
					all, at = false, r
				}
			}
		})
		key := "C04.R1:" + rt.name + ":result-nonzero"
		switch {
		case n > 0 && all:
			nzOf[rt]++
			c.OK(key, r1, p.Pos(rt.fn.Pos()))
		case n > 0:
			c.Undecided(key, r1, p.InstrPos(at), "no length of "+rt.name+" is checked against 0 where it is consumed, and the returned content is not proved non-empty on this success return: rejection of an empty address is not recognised")
		}
	}
	nUp, nNz := 0, 0
	for _, rt := range k.roots {
		if upOf[rt] > 0 {
			nUp++
		}
		if rt.nonzero && nzOf[rt] > 0 {
			nNz++
		}
	}
	c.Floor("C04.R1:bounded", nUp, 3) // one per reader
	c.Floor("C04.R1:nonzero", nNz, 2) // one per reader that must reject empty content
}

// ---------------------------------------------------------------------------
// value flow of a reader / stream inside one function

// c04uses propagates `start` through interface conversions, φ, type asserts,
// spilled locals and (with wrap) composite literals holding it; calls accepted
// by derivedCall yield a derived value again.  Every other use is reported.
func c04uses(start ssa.Value, wrap bool, derivedCall func(ssa.CallInstruction) bool, use func(in ssa.Instruction, x ssa.Value)) map[ssa.Value]bool {
	F := map[ssa.Value]bool{}
	var work []ssa.Value
	add := func(v ssa.Value) {
		if v != nil && !F[v] {
			F[v] = true
			work = append(work, v)
		}
	}
	add(start)
	for len(work) > 0 {
		x := work[len(work)-1]
		work = work[:len(work)-1]
		refs := x.Referrers()
		if refs == nil {
			continue
		}
		for _, r := range *refs {
			switch u := r.(type) {
			case *ssa.DebugRef:
			case *ssa.ChangeInterface:
				add(u)
			case *ssa.MakeInterface:
				add(u)
			case *ssa.ChangeType:
				add(u)
			case *ssa.Phi:
				add(u)
			case *ssa.TypeAssert:
				add(u)
			case *ssa.Extract:
				if _, ok := u.Tuple.(*ssa.TypeAssert); ok && u.Index == 0 {
					add(u)
				}
			case *ssa.BinOp: // comparison with nil
			case *ssa.FieldAddr:
				// x is a literal wrapping the stream: loads of its fields give it back
				for _, rr := range *u.Referrers() {
					switch l := rr.(type) {
					case *ssa.UnOp:
						if l.Op == token.MUL {
							add(l)
						}
					case *ssa.Store:
						if l.Addr != ssa.Value(u) {
							use(rr, x)
						}
					case *ssa.DebugRef:
					default:
						use(rr, x)
					}
				}
			case *ssa.Store:
				if u.Val != x {
					continue
				}
				switch a := u.Addr.(type) {
				case *ssa.Alloc:
					for _, rr := range *a.Referrers() {
						switch l := rr.(type) {
						case *ssa.UnOp:
							if l.Op == token.MUL {
								add(l)
							}
						case *ssa.MakeClosure:
							use(rr, x)
						}
					}
				case *ssa.FieldAddr:
					if al, ok := a.X.(*ssa.Alloc); ok && wrap {
						add(al)
					} else {
						use(r, x)
					}
				default:
					use(r, x)
				}
			default:
				if ci, ok := r.(ssa.CallInstruction); ok && derivedCall != nil && derivedCall(ci) {
					if v := ci.Value(); v != nil {
						add(v)
						continue
					}
				}
				use(r, x)
			}
		}
	}
	return F
}

// ---------------------------------------------------------------------------
// R2 / R4 reader side

type c04item struct {
	kind string // "V" varint, "F" fixed bytes, "B" block of declared length, "call" helper, "bad"
	at   ssa.Instruction
	src  *c04src // V: the length it yields; B: the length that sizes it
	n    int64   // F: number of bytes
	sub  *ssa.Function
	bad  string // exactness failure
	name string
}

type c04flow struct {
	k       *c04ctx
	rt      *c04root
	items   map[*ssa.Function][]*c04item
	seenUse map[ssa.Instruction]bool
	visited map[*ssa.Parameter]bool
	order   []*ssa.Function
}

// c04peelInt strips integer conversions.
func c04peelInt(v ssa.Value) ssa.Value {
	for i := 0; i < 8; i++ {
		v = resolve(v)
		switch x := v.(type) {
		case *ssa.Convert:
			if isIntType(x.Type()) && isIntType(x.X.Type()) {
				v = x.X
				continue
			}
		case *ssa.ChangeType:
			v = x.X
			continue
		}
		break
	}
	return v
}

// exactLen classifies a byte count: exactly a declared wire length, a constant, or neither.
func (fl *c04flow) exactLen(l lin) (*c04src, int64, bool) {
	if l.isConst() {
		return nil, l.k, true
	}
	if len(l.c) == 1 && l.k == 0 {
		for a, coef := range l.c {
			if coef != 1 {
				return nil, 0, false
			}
			if _, isLen := a.(*lenMarker); isLen {
				return nil, 0, false
			}
			if s := fl.k.lens.byVal[c04peelInt(a)]; s != nil {
				return s, 0, true
			}
		}
	}
	return nil, 0, false
}

func (fl *c04flow) run(fn *ssa.Function, start ssa.Value) {
	k, c, p := fl.k, fl.k.c, fl.k.p
	const r2 = "C04.R2 inside the frame readers the stream reader is consumed only by quicvarint.Read (through quicvarint.NewReader), io.ReadFull with a buffer of exactly a declared length, io.CopyN with exactly a declared length, ReadByte, or helpers obeying the same rule"
	if prm, ok := start.(*ssa.Parameter); ok {
		if fl.visited[prm] {
			return
		}
		fl.visited[prm] = true
	}
	if _, ok := fl.items[fn]; !ok {
		fl.items[fn] = nil
		fl.order = append(fl.order, fn)
	}
	lp := k.lp(fn)
	isNewReader := func(ci ssa.CallInstruction) bool { return calleeIs(ci, c04pQV, "NewReader") }
	c04uses(start, false, isNewReader, func(in ssa.Instruction, x ssa.Value) {
		call, isCall := in.(*ssa.Call)
		if fl.seenUse[in] {
			// a helper call receiving the reader in several arguments: follow each
			if isCall {
				if f := staticCallee(call); f != nil && p.IsRepoFn(f) && len(f.Blocks) > 0 && len(k.rootsOf[f]) > 0 {
					for i, a := range call.Common().Args {
						if a == x && i < len(f.Params) {
							fl.run(f, f.Params[i])
						}
					}
				}
			}
			return
		}
		fl.seenUse[in] = true
		pos := p.InstrPos(in)
		root := fl.rt.name
		if !isCall {
			switch in.(type) {
			case *ssa.Store:
				c.Bad(k.key("C04.R2:"+root+":reader-stored"), r2, pos, "the stream reader is stored into memory in "+fnName(fn)+": reads through the alias cannot be bounded")
			case *ssa.Go, *ssa.Defer:
				c.Bad(k.key("C04.R2:"+root+":reader→"+c04calleeName(in.(ssa.CallInstruction))), r2, pos, "the stream reader is handed to a deferred/concurrent call in "+fnName(fn))
			default:
				c.Undecided(k.key("C04.R2:"+root+":reader-use"), r2, pos, "unrecognised use of the stream reader in "+fnName(fn)+": "+in.String())
			}
			return
		}
		cc := call.Common()
		cx := lp.newCtx(call)
		it := &c04item{at: call, name: c04calleeName(call)}
		switch {
		case calleeIs(call, c04pQV, "Read"):
			it.kind, it.src = "V", k.lens.byCall[call]
		case calleeIs(call, "io", "ReadFull") && len(cc.Args) == 2 && cc.Args[0] == x:
			s, n, ok := fl.exactLen(lp.lenOf(cc.Args[1], cx))
			switch {
			case !ok:
				it.kind, it.bad = "bad", "io.ReadFull fills a buffer whose length is not exactly a length declared on the wire (over- or under-read of the frame)"
			case s != nil:
				it.kind, it.src = "B", s
			default:
				it.kind, it.n = "F", n
			}
		case calleeIs(call, "io", "CopyN") && len(cc.Args) == 3 && cc.Args[1] == x:
			s, _, ok := fl.exactLen(lp.lin(cc.Args[2], cx))
			if !ok || s == nil {
				// a guard may be missing (R1 reports that): compare the raw operand
				s = k.lens.byVal[c04peelInt(cc.Args[2])]
			}
			if s != nil {
				it.kind, it.src = "B", s
			} else {
				it.kind, it.bad = "bad", "io.CopyN does not consume exactly a length declared on the wire"
			}
		case cc.IsInvoke() && cc.Method.Name() == "ReadByte" && cc.Value == x:
			it.kind, it.n = "F", 1
		default:
			if f := staticCallee(call); f != nil && p.IsRepoFn(f) && len(f.Blocks) > 0 && len(k.rootsOf[f]) > 0 {
				it.kind, it.sub = "call", f
				for i, a := range cc.Args {
					if a == x && i < len(f.Params) {
						fl.run(f, f.Params[i])
					}
				}
			} else {
				c.Bad(k.key("C04.R2:"+root+":reader→"+it.name), r2, pos,
					"the stream reader is handed to "+it.name+" in "+fnName(fn)+": it may read ahead of the frame (swallowing payload) or return short")
				return
			}
		}
		fl.items[fn] = append(fl.items[fn], it)
	})
}

func (it *c04item) token() string {
	switch it.kind {
	case "F":
		return fmt.Sprintf("F%d", it.n)
	default:
		return it.kind
	}
}

// flatten expands helper calls into their own tokens.
func (fl *c04flow) flatten(fn *ssa.Function, depth int) []*c04item {
	var out []*c04item
	for _, it := range fl.items[fn] {
		if it.kind == "call" && depth < 6 {
			sub := fl.flatten(it.sub, depth+1)
			// a helper that hands the length it read back to its caller: the
			// caller's name for that length is the call's result
			if call, ok := it.at.(*ssa.Call); ok {
				if ds := fl.k.lens.byCall[call]; ds != nil {
					nV, at := 0, -1
					for i, s := range sub {
						if s.kind == "V" {
							nV++
							at = i
						}
					}
					if nV == 1 {
						cp := *sub[at]
						cp.src = ds
						sub = append(append(append([]*c04item{}, sub[:at]...), &cp), sub[at+1:]...)
					}
				}
			}
			out = append(out, sub...)
		} else {
			out = append(out, it)
		}
	}
	return out
}

// c04successReturn: the return may hand back a nil error.
func c04successReturn(r *ssa.Return) bool {
	res := retResults(r)
	if res == nil {
		return false // recover block
	}
	if len(res) == 0 {
		return true
	}
	last := res[len(res)-1]
	if last == nil || !c04isErrorType(last.Type()) {
		return true
	}
	if _, ok := last.(*ssa.MakeInterface); ok {
		return false
	}
	if isNilConst(last) {
		return true
	}
	lv := resolve(last)
	return !guardedBy(r, func(cond ssa.Value, pol bool) bool {
		x, isNil, ok := nilTest(cond, pol)
		return ok && !isNil && resolve(x) == lv
	})
}

// zeroEdge: the branch outcome implies that the wire length v is 0.
func (k *c04ctx) zeroEdge(lp *linProver, cond ssa.Value, pol bool, v ssa.Value) bool {
	in, ok := cond.(ssa.Instruction)
	if !ok {
		return false
	}
	cx := lp.newCtx(in)
	facts := lp.condFacts(cond, pol, cx)
	if len(facts) == 0 {
		return false
	}
	return lp.proveAt(in, lp.lin(v, cx), linConst(0), 0, &linCtx{at: in, subst: map[ssa.Value]ssa.Value{}, extra: facts})
}

func (k *c04ctx) ruleReaders() {
	c, p := k.c, k.p
	const r2 = "C04.R2 inside the frame readers the stream reader is consumed only by quicvarint.Read (through quicvarint.NewReader), io.ReadFull with a buffer of exactly a declared length, io.CopyN with exactly a declared length, ReadByte, or helpers obeying the same rule"
	const r4 = "C04.R4 the reader consumes the fields in the writer's order (request V B V B, response U8 V B V B), each block sized by the varint before it; every field is consumed on every success path, a block being skipped only on an edge where its length is 0"
	nOps, nSeq := 0, 0
	for _, rt := range k.roots {
		if !rt.stream {
			continue
		}
		var rprm *ssa.Parameter
		for _, prm := range rt.fn.Params {
			if it, ok := prm.Type().Underlying().(*types.Interface); ok {
				for i := 0; i < it.NumMethods(); i++ {
					if it.Method(i).Name() == "Read" {
						rprm = prm
					}
				}
			}
		}
		if rprm == nil {
			c.Unres("io.Reader parameter of protocol." + rt.name)
			continue
		}
		fl := &c04flow{k: k, rt: rt, items: map[*ssa.Function][]*c04item{}, seenUse: map[ssa.Instruction]bool{}, visited: map[*ssa.Parameter]bool{}}
		fl.run(rt.fn, rprm)
		decided := true
		for _, fn := range fl.order {
			its := fl.items[fn]
			c04sortInstrs(its, func(it *c04item) ssa.Instruction { return it.at })
			fl.items[fn] = its
			// total order, no loops
			for i := range its {
				if reachableAfter(its[i].at, its[i].at) {
					c.Undecided(k.key("C04.R4:"+fnName(fn)+":order"), r4, p.InstrPos(its[i].at), "a read of the stream sits in a loop: the field sequence is not a fixed list")
					decided = false
				}
				if i > 0 && !c04before(its[i-1].at, its[i].at) {
					c.Undecided(k.key("C04.R4:"+fnName(fn)+":order"), r4, p.InstrPos(its[i].at), "two reads of the stream are on alternative branches: the field sequence is not a fixed list")
					decided = false
				}
			}
			for i, it := range its {
				key := fmt.Sprintf("C04.R2:%s:op%d:%s", fnName(fn), i+1, it.name)
				nOps++
				c.Req(it.bad == "", key, r2, p.InstrPos(it.at), it.bad)
			}
		}
		if !decided {
			continue
		}
		// sequence
		flat := fl.flatten(rt.fn, 0)
		var toks []string
		for _, it := range flat {
			toks = append(toks, it.token())
		}
		got := strings.Join(toks, " ")
		nSeq++
		if !c.Req(got == rt.pattern, "C04.R4:"+rt.name+":sequence", r4, p.Pos(rt.fn.Pos()),
			fmt.Sprintf("the reader consumes [%s] but the frame is [%s] (V varint, B block of the declared length, Fn n fixed bytes)", got, rt.pattern)) {
			continue
		}
		var lastV *c04item
		for i, it := range flat {
			switch it.kind {
			case "V":
				lastV = it
			case "B":
				ok := lastV != nil && lastV.src != nil && it.src == lastV.src
				c.Req(ok, fmt.Sprintf("C04.R4:%s:block%d-sized-by-its-varint", rt.name, i+1), r4, p.InstrPos(it.at),
					"the block is sized by a length other than the varint read immediately before it (wrong variable)")
				lastV = nil
			}
		}
		// must-pass: each field on every success path
		for _, fn := range fl.order {
			lp := k.lp(fn)
			for i, it := range fl.items[fn] {
				it := it
				var edgeStop EdgePred
				if it.kind == "B" && it.src != nil && it.src.fn == fn && it.src.val != nil {
					memo := map[[2]any]bool{}
					edgeStop = func(cond ssa.Value, pol bool) bool {
						mk := [2]any{cond, pol}
						if v, ok := memo[mk]; ok {
							return v
						}
						v := k.zeroEdge(lp, cond, pol, it.src.val)
						memo[mk] = v
						return v
					}
				}
				var leak ssa.Instruction
				for _, in := range reachFrom(fn, nil, func(in ssa.Instruction) bool { return in == it.at }, edgeStop) {
					if r, ok := in.(*ssa.Return); ok && c04successReturn(r) {
						leak = r
						break
					}
				}
				detail := ""
				if leak != nil {
					detail = fmt.Sprintf("the success return at %s is reachable without executing %s (field %d of %s); the bytes of that field stay in the stream and are delivered as payload", p.InstrPos(leak), it.name, i+1, fnName(fn))
					if it.kind == "B" {
						detail += " - a block may only be skipped where its length is 0"
					}
				}
				c.Req(leak == nil, fmt.Sprintf("C04.R4:%s:op%d:%s:on-every-success-path", fnName(fn), i+1, it.name), r4, p.InstrPos(it.at), detail)
			}
		}
	}
	c.Floor("C04.R2:ops", nOps, 5)
	c.Floor("C04.R4:reader-sequences", nSeq, 2)
}

// ---------------------------------------------------------------------------
// R4 writer side, R5

type c04wtok struct {
	kind string // "F" byte store, "V" varint, "B" block
	at   ssa.Instruction
	off  []ssa.Value // lower bounds of the nested re-slices leading to the destination: their sum is its offset inside the buffer
	offK int64       // F: constant index
	res  ssa.Value   // the call whose result is the number of bytes written
	arg  ssa.Value   // V: encoded value; B: source block
	// tokens emitted by a block helper (`n := put(dst[off:], block)`), mapped to the caller
	lenOf   ssa.Value // V: the value encoded is len(lenOf) (a value of the caller)
	inlined bool      // offset verified inside the helper, relative to the helper's first token
}

// c04vOperand classifies the value a V token encodes.
func c04vOperand(t *c04wtok) (kind string, kv int64, of ssa.Value) {
	if t.lenOf != nil {
		return "len", 0, t.lenOf
	}
	return c04lenOperand(t.arg)
}

func c04linEq(a, b lin) bool {
	d := a.sub(b)
	return d.isConst() && d.k == 0
}

// c04lenOperand classifies the operand of a varint write.
func c04lenOperand(v ssa.Value) (kind string, kv int64, of ssa.Value) {
	v = c04peelInt(v)
	if n, ok := constInt(v); ok {
		return "const", n, nil
	}
	if call, ok := v.(*ssa.Call); ok && isBuiltinCall(call, "len") {
		return "len", 0, call.Call.Args[0]
	}
	return "other", 0, nil
}

func c04varintLen(v int64) int64 {
	switch {
	case v <= 63:
		return 1
	case v <= 16383:
		return 2
	case v <= 1073741823:
		return 4
	}
	return 8
}

// c04blockHelper recognises a call `n := h(dst, x...)` of a repository helper that lays
// fields out in its first parameter exactly like a writer does (varint / copy at running
// offsets starting at 0) and returns the number of bytes written.  The helper's tokens are
// returned with their operands mapped to the caller's arguments.  (nil, "") = not such a call.
func (k *c04ctx) c04blockHelper(call *ssa.Call, dst ssa.Value, putters map[*ssa.Function]bool) ([]*c04wtok, string) {
	p := k.p
	h := staticCallee(call)
	cc := call.Common()
	if h == nil || !p.IsRepoFn(h) || len(h.Blocks) == 0 || len(cc.Args) < 2 || len(cc.Args) != len(h.Params) || cc.Args[0] != dst || !isIntType(call.Type()) {
		return nil, ""
	}
	for _, a := range cc.Args[1:] {
		if a == dst {
			return nil, ""
		}
	}
	prmIdx := func(v ssa.Value) int {
		if v == nil {
			return -1
		}
		v = resolve(v)
		for i, q := range h.Params {
			if ssa.Value(q) == v {
				return i
			}
		}
		return -1
	}
	var toks []*c04wtok
	why := ""
	var walk func(v ssa.Value, offs []ssa.Value, depth int)
	walk = func(v ssa.Value, offs []ssa.Value, depth int) {
		refs := v.Referrers()
		if refs == nil {
			return
		}
		for _, r := range *refs {
			switch u := r.(type) {
			case *ssa.DebugRef:
			case *ssa.Slice:
				if u.X != v || u.High != nil || u.Max != nil || depth > 4 {
					why = "re-sliced with an upper bound in the helper"
					continue
				}
				no := append([]ssa.Value(nil), offs...)
				if u.Low != nil {
					no = append(no, u.Low)
				}
				walk(u, no, depth+1)
			case *ssa.Call:
				uc := u.Common()
				switch {
				case isBuiltinCall(u, "copy") && uc.Args[0] == v:
					toks = append(toks, &c04wtok{kind: "B", at: u, off: offs, res: u, arg: uc.Args[1]})
				case isBuiltinCall(u, "len") || isBuiltinCall(u, "cap"):
				default:
					if f := staticCallee(u); f != nil && p.IsRepoFn(f) && len(uc.Args) == 2 && uc.Args[0] == v && isIntType(uc.Args[1].Type()) && isIntType(u.Type()) {
						putters[f] = true
						toks = append(toks, &c04wtok{kind: "V", at: u, off: offs, res: u, arg: uc.Args[1]})
					} else {
						why = "the helper hands the buffer to " + c04calleeName(u)
					}
				}
			default:
				why = "unrecognised use of the buffer in the helper: " + r.String()
			}
		}
	}
	walk(h.Params[0], nil, 0)
	if why != "" || len(toks) == 0 {
		if why == "" {
			why = "the helper writes nothing recognisable"
		}
		return nil, why
	}
	c04sortInstrs(toks, func(t *c04wtok) ssa.Instruction { return t.at })
	lp := k.lp(h)
	running := linConst(0)
	for _, t := range toks {
		cx := lp.newCtx(t.at)
		off := linConst(0)
		for _, o := range t.off {
			off = off.add(lp.lin(o, cx))
		}
		if !c04linEq(off, running) {
			return nil, fmt.Sprintf("a field of the helper is written at offset [%s] but the previous fields end at [%s]", off, running)
		}
		running = running.add(linAtom(t.res))
	}
	nRet := 0
	allInstrs(h, func(in ssa.Instruction) {
		r, ok := in.(*ssa.Return)
		if !ok {
			return
		}
		nRet++
		res := retResults(r)
		if len(res) != 1 || res[0] == nil {
			why = "the helper does not return one byte count"
			return
		}
		if !c04linEq(lp.lin(res[0], lp.newCtx(r)), running) {
			why = "the helper does not return the number of bytes it wrote"
		}
	})
	if why != "" || nRet == 0 {
		return nil, why
	}
	// operands in terms of the caller
	var out []*c04wtok
	for _, t := range toks {
		nt := &c04wtok{kind: t.kind}
		switch t.kind {
		case "B":
			j := prmIdx(t.arg)
			if j < 1 {
				return nil, "a block copied by the helper is not one of its parameters"
			}
			nt.arg = cc.Args[j]
		case "V":
			kind, _, of := c04lenOperand(t.arg)
			switch kind {
			case "const":
				nt.arg = t.arg
			case "len":
				j := prmIdx(of)
				if j < 1 {
					return nil, "a length written by the helper is not len() of one of its parameters"
				}
				nt.lenOf = cc.Args[j]
			default:
				j := prmIdx(c04peelInt(t.arg))
				if j < 1 {
					return nil, "a varint written by the helper is neither a constant, a len() nor a parameter"
				}
				nt.arg = cc.Args[j]
			}
		}
		out = append(out, nt)
	}
	return out, ""
}

// c04appendChain follows the value handed to Write back through append(x, block...),
// append(x, b0, b1...) and quicvarint.Append(x, v) to an empty (or constant-length) base and
// returns the fields in the order they were appended.
func c04appendChain(v ssa.Value) (toks []*c04wtok, lib int, ok bool) {
	var rev []*c04wtok
	fixed := func(at ssa.Instruction, n int64) {
		for i := int64(0); i < n; i++ {
			rev = append(rev, &c04wtok{kind: "F", at: at})
		}
	}
	// the spread argument of append(x, b0, b1): a slice of a fresh [N]byte
	varargs := func(y ssa.Value) (int64, bool) {
		sl, isS := y.(*ssa.Slice)
		if !isS || sl.Low != nil || sl.High != nil || sl.Max != nil {
			return 0, false
		}
		al, isA := sl.X.(*ssa.Alloc)
		if !isA {
			return 0, false
		}
		arr, isArr := al.Type().(*types.Pointer).Elem().Underlying().(*types.Array)
		if !isArr {
			return 0, false
		}
		return arr.Len(), true
	}
	isAppend := func(x ssa.Value) (*ssa.Call, bool) {
		call, isC := x.(*ssa.Call)
		return call, isC && isBuiltinCall(call, "append") && len(call.Call.Args) == 2
	}
	done := false
	for depth := 0; depth < 64 && !done; depth++ {
		switch x := v.(type) {
		case *ssa.MakeSlice:
			n, isC := constInt(x.Len)
			if !isC || n < 0 || n > 8 {
				return nil, 0, false
			}
			fixed(x, n)
			done = true
		case *ssa.Const:
			if !x.IsNil() {
				return nil, 0, false
			}
			done = true
		case *ssa.Slice:
			// buf[:0] of a fresh buffer
			hi, isC := constInt(x.High)
			if x.High == nil || !isC || hi != 0 || x.Low != nil {
				return nil, 0, false
			}
			if _, isM := x.X.(*ssa.MakeSlice); !isM {
				return nil, 0, false
			}
			done = true
		case *ssa.Call:
			if call, isApp := isAppend(x); isApp {
				y := call.Call.Args[1]
				if n, isVar := varargs(y); isVar {
					fixed(call, n)
				} else if isBytesOrString(y.Type()) {
					rev = append(rev, &c04wtok{kind: "B", at: call, res: call, arg: y})
				} else {
					return nil, 0, false
				}
				v = call.Call.Args[0]
				continue
			}
			if calleeIs(x, c04pQV, "Append") && len(x.Call.Args) == 2 {
				rev = append(rev, &c04wtok{kind: "V", at: x, res: x, arg: x.Call.Args[1]})
				lib++
				v = x.Call.Args[0]
				continue
			}
			return nil, 0, false
		case *ssa.Phi:
			// if ok { buf = append(buf, 0) } else { buf = append(buf, 1) }
			var base ssa.Value
			var width int64 = -1
			for _, e := range x.Edges {
				call, isApp := isAppend(e)
				if !isApp {
					return nil, 0, false
				}
				n, isVar := varargs(call.Call.Args[1])
				if !isVar || (width >= 0 && n != width) || (base != nil && base != call.Call.Args[0]) {
					return nil, 0, false
				}
				width, base = n, call.Call.Args[0]
			}
			if base == nil {
				return nil, 0, false
			}
			fixed(x, width)
			v = base
		default:
			r := resolve(v)
			if r == v {
				return nil, 0, false
			}
			v = r
		}
	}
	if !done {
		return nil, 0, false
	}
	for i := len(rev) - 1; i >= 0; i-- {
		toks = append(toks, rev[i])
	}
	return toks, lib, len(toks) > 0
}

func (k *c04ctx) ruleWriters() {
	c, p := k.c, k.p
	const r4 = "C04.R4 the writer lays the fields out back to back in the reader's order (request V(type) V(len) B V(len) B, response U8 V(len) B V(len) B); each length prefix is len() of the block that follows; the buffer is exactly the sum of the fields and is written once"
	nW := 0
	putters := map[*ssa.Function]bool{}
	for _, rt := range k.roots {
		if rt.writer == "" {
			continue
		}
		k.padMax[rt.writer] = -1
		fn := p.Fn(pProtocol, rt.writer)
		if fn == nil {
			c.Unres("protocol." + rt.writer)
			continue
		}
		c.Saw(fnName(fn))
		lp := k.lp(fn)
		// the single Write of the whole buffer
		var wprm *ssa.Parameter
		for _, prm := range fn.Params {
			if it, ok := prm.Type().Underlying().(*types.Interface); ok {
				for i := 0; i < it.NumMethods(); i++ {
					if it.Method(i).Name() == "Write" {
						wprm = prm
					}
				}
			}
		}
		if wprm == nil {
			c.Unres("io.Writer parameter of protocol." + rt.writer)
			continue
		}
		var writes []ssa.CallInstruction
		allInstrs(fn, func(in ssa.Instruction) {
			if ci, ok := in.(ssa.CallInstruction); ok {
				for _, a := range ci.Common().Args {
					if resolve(a) == ssa.Value(wprm) {
						writes = append(writes, ci)
						return
					}
				}
				if ci.Common().IsInvoke() && resolve(ci.Common().Value) == ssa.Value(wprm) {
					writes = append(writes, ci)
				}
			}
		})
		key := "C04.R4:" + rt.writer
		if len(writes) != 1 || !writes[0].Common().IsInvoke() || writes[0].Common().Method.Name() != "Write" {
			c.Undecided(key+":single-write", r4, p.Pos(fn.Pos()), fmt.Sprintf("the writer uses its io.Writer %d times / not through one Write call: the frame layout is not recognised", len(writes)))
			continue
		}
		M, ok := resolve(writes[0].Common().Args[0]).(*ssa.MakeSlice)
		var toks []*c04wtok
		appendStyle := false
		if !ok {
			// append style: the frame is built by a chain of append / quicvarint.Append calls
			ch, lib, chOK := c04appendChain(writes[0].Common().Args[0])
			if !chOK {
				c.Undecided(key+":buffer", r4, p.InstrPos(writes[0]), "the bytes written are neither a buffer allocated with make and filled in place nor a chain of appends in the writer: the frame layout is not recognised")
				continue
			}
			toks, appendStyle = ch, true
			k.libVarint += lib
		}
		// writes into the buffer
		undec := ""
		fOff := map[int64]bool{}
		dstUse := func(dst ssa.Value, off []ssa.Value, r ssa.Instruction) {
			switch u := r.(type) {
			case *ssa.DebugRef:
			case *ssa.Call:
				cc := u.Common()
				if isBuiltinCall(u, "copy") && cc.Args[0] == dst {
					toks = append(toks, &c04wtok{kind: "B", at: u, off: off, res: u, arg: cc.Args[1]})
					return
				}
				if isBuiltinCall(u, "len") || isBuiltinCall(u, "cap") {
					return
				}
				if f := staticCallee(u); f != nil && p.IsRepoFn(f) && len(cc.Args) == 2 && cc.Args[0] == dst && isIntType(cc.Args[1].Type()) && isIntType(u.Type()) {
					putters[f] = true
					toks = append(toks, &c04wtok{kind: "V", at: u, off: off, res: u, arg: cc.Args[1]})
					return
				}
				if ssa.Instruction(u) == writes[0].(ssa.Instruction) {
					return
				}
				if sub, why := k.c04blockHelper(u, dst, putters); sub != nil {
					for i, t := range sub {
						t.at, t.off, t.inlined = u, off, i > 0
						if i == len(sub)-1 {
							t.res = u
						}
					}
					toks = append(toks, sub...)
					return
				} else if why != "" {
					undec = "buffer handed to " + c04calleeName(u) + " (" + why + ")"
					return
				}
				undec = "buffer handed to " + c04calleeName(u)
			default:
				if ssa.Instruction(u) == writes[0].(ssa.Instruction) {
					return
				}
				undec = "unrecognised use of the buffer: " + r.String()
			}
		}
		// views of the buffer: buf, buf[a:], (buf[a:])[b:], ... each with the list of
		// lower bounds that add up to its offset inside the buffer
		var walkView func(v ssa.Value, offs []ssa.Value, depth int)
		walkView = func(v ssa.Value, offs []ssa.Value, depth int) {
			refs := v.Referrers()
			if refs == nil {
				return
			}
			for _, r := range *refs {
				switch u := r.(type) {
				case *ssa.Slice:
					if u.X != v {
						dstUse(v, offs, r)
						continue
					}
					if u.High != nil || u.Max != nil {
						undec = "buffer re-sliced with an upper bound"
						continue
					}
					if depth > 4 {
						undec = "buffer re-sliced too deeply"
						continue
					}
					no := append([]ssa.Value(nil), offs...)
					if u.Low != nil {
						no = append(no, u.Low)
					}
					walkView(u, no, depth+1)
				case *ssa.IndexAddr:
					if u.X != v {
						dstUse(v, offs, r)
						continue
					}
					idx, ok := constInt(u.Index)
					for _, o := range offs {
						ko, ok2 := constInt(o)
						ok = ok && ok2
						idx += ko
					}
					if !ok {
						undec = "byte store at a computed index"
						continue
					}
					for _, rr := range *u.Referrers() {
						if st, ok := rr.(*ssa.Store); ok && st.Addr == ssa.Value(u) {
							if !fOff[idx] {
								fOff[idx] = true
								toks = append(toks, &c04wtok{kind: "F", at: st, offK: idx})
							}
						}
					}
				default:
					dstUse(v, offs, r)
				}
			}
		}
		if !appendStyle {
			walkView(M, nil, 0)
		}
		if undec != "" {
			c.Undecided(key+":layout", r4, p.Pos(fn.Pos()), "writer shape not recognised ("+undec+")")
			continue
		}
		// order: fixed bytes by index, then calls by execution order
		var fs, cs []*c04wtok
		for _, t := range toks {
			if t.kind == "F" {
				fs = append(fs, t)
			} else {
				cs = append(cs, t)
			}
		}
		if !appendStyle {
			sort.Slice(fs, func(i, j int) bool { return fs[i].offK < fs[j].offK })
			c04sortInstrs(cs, func(t *c04wtok) ssa.Instruction { return t.at })
			toks = append(fs, cs...)
		}
		nW++
		// offsets are the running sum
		running := linConst(0)
		layoutOK := true
		for i, t := range toks {
			if appendStyle {
				break // appended fields are back to back by construction
			}
			cx := lp.newCtx(t.at)
			off := linConst(t.offK)
			if t.kind != "F" {
				off = linConst(0)
				for _, o := range t.off {
					off = off.add(lp.lin(o, cx))
				}
			}
			if t.inlined {
				off = running
			}
			if !c04linEq(off, running) {
				layoutOK = false
				c.Bad(fmt.Sprintf("%s:field%d:offset", key, i+1), r4, p.InstrPos(t.at),
					fmt.Sprintf("field %d (%s) is written at offset [%s] but the previous fields end at [%s]: fields overlap, leave a gap, or are emitted in another order than they are executed", i+1, t.kind, off, running))
				break
			}
			if t.kind == "F" {
				running = running.add(linConst(1))
			} else if t.res != nil {
				running = running.add(linAtom(t.res))
			}
		}
		if !layoutOK {
			continue
		}
		c.OK(key+":offsets", r4, p.Pos(fn.Pos()))
		// token sequence and prefix/block agreement
		var names []string
		for _, t := range toks {
			switch t.kind {
			case "F":
				names = append(names, "F1")
			case "B":
				names = append(names, "B")
			case "V":
				kind, kv, _ := c04vOperand(t)
				switch {
				case kind == "const" && kv == k.consts["FrameTypeTCPRequest"]:
					names = append(names, "V(type)")
				case kind == "const":
					names = append(names, fmt.Sprintf("V(%d)", kv))
				case kind == "len":
					names = append(names, "V(len)")
				default:
					names = append(names, "V(?)")
				}
			}
		}
		got := strings.Join(names, " ")
		if !c.Req(got == rt.wpat, key+":sequence", r4, p.Pos(fn.Pos()), fmt.Sprintf("the writer emits [%s] but the reader %s parses [%s]", got, rt.name, rt.wpat)) {
			continue
		}
		var blocks []*c04wtok
		for i, t := range toks {
			if t.kind != "B" {
				continue
			}
			blocks = append(blocks, t)
			prev := toks[i-1]
			_, _, of := c04vOperand(prev)
			c.Req(of != nil && sameValue(of, t.arg), fmt.Sprintf("%s:field%d:prefix-is-len-of-block", key, i+1), r4, p.InstrPos(prev.at),
				"the length prefix written before this block is not len() of the block itself (wrong variable): the reader would cut the block at the wrong place")
		}
		// first block is the caller's string, second the padding
		contentFirst := false
		if len(blocks) == 2 {
			_, contentFirst = resolve(blocks[0].arg).(*ssa.Parameter)
			c.Req(contentFirst, key+":content-block", r4, p.InstrPos(blocks[0].at), "the first block is not the address/message handed to the writer (fields emitted in another order than the reader parses them)")
		}
		// buffer size = sum of the fields
		if appendStyle {
			c.OK(key+":buffer-size", r4, p.InstrPos(writes[0])) // length of an append chain from an empty slice is the sum of what was appended
		} else {
			cx := lp.newCtx(M)
			L := lp.lin(M.Len, cx)
			why := ""
			for i, t := range toks {
				switch t.kind {
				case "F":
					L = L.sub(linConst(1))
				case "B":
					L = L.sub(lp.lenOf(t.arg, cx))
				case "V":
					kind, kv, of := c04vOperand(t)
					var match ssa.Value
					for a, coef := range L.c {
						call, ok := a.(*ssa.Call)
						if !ok || coef < 1 || !calleeIs(call, c04pQV, "Len") {
							continue
						}
						ak, akv, aof := c04lenOperand(call.Call.Args[0])
						if ak == kind && ((kind == "const" && akv == kv) || (kind == "len" && sameValue(aof, of))) {
							match = a
						}
					}
					switch {
					case match != nil:
						L = L.sub(linAtom(match))
					case kind == "const":
						L = L.sub(linConst(c04varintLen(kv)))
					default:
						why = fmt.Sprintf("no quicvarint.Len term for the varint of field %d", i+1)
					}
				}
			}
			if why == "" && !(L.isConst() && L.k == 0) {
				why = fmt.Sprintf("size minus the fields written leaves [%s]", L)
			}
			c.Req(why == "", key+":buffer-size", r4, p.InstrPos(M), "the buffer is not exactly the sum of the fields written ("+why+"): a short buffer panics, a long one appends zero bytes that the peer reads as payload")
		}
		// R5 padding range of this writer
		if len(blocks) == 2 && contentFirst {
			k.paddingRange(rt, fn, blocks[1])
		}
	}
	k.c.Floor("C04.R4:writers", nW, 2)
	k.ruleVarintPut(putters)
}

// paddingRange bounds the length of the padding block a writer can draw.
func (k *c04ctx) paddingRange(rt *c04root, wfn *ssa.Function, blk *c04wtok) {
	c, p := k.c, k.p
	const r5 = "C04.R5 every padding length a writer can draw is accepted by the reader (<= MaxPaddingLength)"
	key := "C04.R5:" + rt.writer + ":padding"
	call, ok := resolve(blk.arg).(*ssa.Call)
	var padFn *ssa.Function
	if ok {
		padFn = staticCallee(call)
	}
	if padFn == nil || !p.IsRepoFn(padFn) || len(call.Call.Args) != 1 {
		c.Undecided(key, r5, p.InstrPos(blk.at), "the padding block is not produced by a method of a package-level padding range")
		return
	}
	ld, ok := call.Call.Args[0].(*ssa.UnOp)
	var g *ssa.Global
	if ok && ld.Op == token.MUL {
		g, _ = ld.X.(*ssa.Global)
	}
	if g == nil {
		c.Undecided(key, r5, p.InstrPos(call), "the padding range is not a package-level variable")
		return
	}
	c.Saw(fnName(padFn))
	// constants stored into the variable by the package initialiser
	vals := map[int]int64{}
	initFn := p.Fn(pProtocol, "init")
	if initFn != nil {
		allInstrs(initFn, func(in ssa.Instruction) {
			st, ok := in.(*ssa.Store)
			if !ok {
				return
			}
			if fa, ok := st.Addr.(*ssa.FieldAddr); ok && fa.X == ssa.Value(g) {
				if v, ok := constInt(st.Val); ok {
					vals[fa.Field] = v
				} else {
					vals[fa.Field] = -1 << 40
				}
			}
		})
	}
	// other writers of the variable?
	for _, fn := range p.RepoFns {
		if fn == initFn {
			continue
		}
		allInstrs(fn, func(in ssa.Instruction) {
			if st, ok := in.(*ssa.Store); ok {
				if fa, ok := st.Addr.(*ssa.FieldAddr); ok && fa.X == ssa.Value(g) {
					vals[fa.Field] = -1 << 40
				}
				if st.Addr == ssa.Value(g) {
					vals[-1] = -1 << 40
				}
			}
		})
	}
	lp := newLinProver(p, padFn)
	recv := padFn.Params[0]
	nFacts := 0
	allInstrs(padFn, func(in ssa.Instruction) {
		var fidx = -1
		var v ssa.Value
		switch x := in.(type) {
		case *ssa.UnOp:
			if fa, ok := x.X.(*ssa.FieldAddr); ok && x.Op == token.MUL {
				ap := accessPath(x)
				if ap.Root == ssa.Value(recv) || resolve(ap.Root) == ssa.Value(recv) || c04allocOfParam(ap.Root, recv) {
					fidx, v = fa.Field, x
				}
			}
		case *ssa.Field:
			if resolve(x.X) == ssa.Value(recv) {
				fidx, v = x.Field, x
			}
		}
		if v == nil {
			return
		}
		cv, ok := vals[fidx]
		if !ok || cv == -1<<40 {
			return
		}
		cx := lp.newCtx(in)
		A := lp.lin(v, cx)
		lp.pre = append(lp.pre, linFact{A.sub(linConst(cv)), "package initialiser"}, linFact{linConst(cv).sub(A), "package initialiser"})
		nFacts++
	})
	if _, bad := vals[-1]; bad || nFacts == 0 {
		c.Undecided(key, r5, p.Pos(g.Pos()), "the bounds of "+g.Name()+" are not constants set once by the package initialiser")
		return
	}
	provable := func(K int64) bool {
		ok, n := true, 0
		allInstrs(padFn, func(in ssa.Instruction) {
			r, isRet := in.(*ssa.Return)
			if !isRet || !ok {
				return
			}
			res := retResults(r)
			if len(res) != 1 {
				ok = false
				return
			}
			n++
			cx := lp.newCtx(r)
			if !lp.proveAt(r, lp.lenOf(res[0], cx), linConst(K), 0, nil) {
				ok = false
			}
		})
		return ok && n > 0
	}
	limit := k.consts["MaxPaddingLength"]
	if !provable(1 << 40) {
		c.Undecided(key, r5, p.Pos(padFn.Pos()), "no upper bound of the padding length could be derived from "+fnName(padFn))
		return
	}
	if !c.Req(provable(limit), key, r5, p.Pos(g.Pos()),
		fmt.Sprintf("%s (used by %s) can draw a padding longer than MaxPaddingLength (%d): %s rejects such frames as 'invalid padding length'", g.Name(), rt.writer, limit, rt.name)) {
		return
	}
	lo, hi := int64(0), limit
	for lo < hi {
		mid := (lo + hi) / 2
		if provable(mid) {
			hi = mid
		} else {
			lo = mid + 1
		}
	}
	k.padMax[rt.writer] = lo
}

// c04allocOfParam: root is the local copy go/ssa makes of a value receiver.
func c04allocOfParam(root ssa.Value, prm *ssa.Parameter) bool {
	al, ok := root.(*ssa.Alloc)
	if !ok {
		return false
	}
	return singleStore(al) == ssa.Value(prm)
}

// c04byteExpr decomposes uint8(i >> s) | tag.
func c04byteExpr(v ssa.Value, i ssa.Value) (shift, tag int64, ok bool) {
	if b, isB := v.(*ssa.BinOp); isB && b.Op == token.OR {
		if t, isC := constInt(b.Y); isC {
			tag, v = t, b.X
		} else if t, isC := constInt(b.X); isC {
			tag, v = t, b.Y
		} else {
			return 0, 0, false
		}
	}
	cv, isCv := v.(*ssa.Convert)
	if !isCv {
		return 0, 0, false
	}
	bt, isBt := cv.Type().Underlying().(*types.Basic)
	if !isBt || bt.Kind() != types.Uint8 {
		return 0, 0, false
	}
	x := cv.X
	if sh, isSh := x.(*ssa.BinOp); isSh && sh.Op == token.SHR {
		s, isC := constInt(sh.Y)
		if !isC {
			return 0, 0, false
		}
		shift, x = s, sh.X
	}
	if x != i {
		return 0, 0, false
	}
	return shift, tag, true
}

func (k *c04ctx) ruleVarintPut(putters map[*ssa.Function]bool) {
	c, p := k.c, k.p
	const r5 = "C04.R5 the writer's varint encoder agrees with quicvarint.Len and RFC 9000 for every legal value: 1 byte exactly for 0..63, 2 bytes (0x40 tag, big endian) from 64 up to at least the largest legal length, wider encodings or a panic only above it"
	if len(putters) == 0 && k.libVarint > 0 {
		// quic-go's own encoder (the one quicvarint.Len and the peer's quicvarint.Read belong to)
		c.OK("C04.R5:varint-encoder:quicvarint.Append", r5, "")
		return
	}
	if len(putters) != 1 {
		c.Undecided("C04.R5:varint-encoder", r5, "", fmt.Sprintf("the writers use %d different varint encoders", len(putters)))
		return
	}
	var vp *ssa.Function
	for f := range putters {
		vp = f
	}
	c.Saw(fnName(vp))
	if len(vp.Params) != 2 {
		c.Unres("varint encoder signature")
		return
	}
	b, i := vp.Params[0], vp.Params[1]
	lp := newLinProver(p, vp)
	maxLegal := int64(0)
	for _, v := range k.consts {
		if v > maxLegal {
			maxLegal = v
		}
	}
	key := "C04.R5:" + fnName(vp)
	seen := map[int64]bool{}
	allInstrs(vp, func(in ssa.Instruction) {
		var n int64 = -1
		switch x := in.(type) {
		case *ssa.Return:
			res := retResults(x)
			if len(res) != 1 {
				return
			}
			v, ok := constInt(res[0])
			if !ok {
				c.Undecided(key+":return", r5, p.InstrPos(in), "the encoder returns a computed byte count")
				return
			}
			n = v
		case *ssa.Panic:
			n = 0
		default:
			return
		}
		cx := lp.newCtx(in)
		I := lp.lin(i, cx)
		pos := p.InstrPos(in)
		switch n {
		case 1:
			seen[1] = true
			c.Req(lp.proveAt(in, I, linConst(63), 0, nil), key+":1-byte:range", r5, pos, "a value above 63 is emitted as one byte: its two top bits are read back as a length tag (quicvarint.Len also sizes it as 2 bytes)")
		case 2:
			seen[2] = true
			c.Req(lp.proveAt(in, linConst(64), I, 0, nil), key+":2-byte:range", r5, pos, "a value below 64 is emitted as two bytes although quicvarint.Len sizes it as one: the frame buffer overflows or is misaligned")
		default:
			what := fmt.Sprintf("%d-byte", n)
			if n == 0 {
				what = "panic"
			}
			c.Req(lp.proveAt(in, linConst(maxLegal+1), I, 0, nil), k.key(key+":"+what+":range"), r5, pos,
				fmt.Sprintf("a legal length (<= %d) reaches the %s exit of the encoder instead of the 1/2-byte encodings", maxLegal, what))
			return
		}
		// byte layout
		want := map[int64][2]int64{}
		if n == 1 {
			want[0] = [2]int64{0, 0}
		} else {
			want[0] = [2]int64{8, 0x40}
			want[1] = [2]int64{0, 0}
		}
		got := map[int64]string{}
		allInstrs(vp, func(x ssa.Instruction) {
			st, ok := x.(*ssa.Store)
			if !ok || !dominates(st, in) {
				return
			}
			ia, ok := st.Addr.(*ssa.IndexAddr)
			if !ok || resolve(ia.X) != ssa.Value(b) {
				return
			}
			idx, ok := constInt(ia.Index)
			if !ok {
				return
			}
			w, wanted := want[idx]
			if !wanted {
				got[idx] = "extra"
				return
			}
			sh, tag, ok := c04byteExpr(st.Val, i)
			switch {
			case !ok:
				got[idx] = "unrecognised"
			case sh == w[0] && tag == w[1]:
				got[idx] = "ok"
			default:
				got[idx] = fmt.Sprintf("uint8(i>>%d)|%#x instead of uint8(i>>%d)|%#x", sh, tag, w[0], w[1])
			}
		})
		for idx := range want {
			bk := fmt.Sprintf("%s:%d-byte:b[%d]", key, n, idx)
			switch g := got[idx]; g {
			case "ok":
				c.OK(bk, r5, pos)
			case "", "unrecognised":
				c.Undecided(bk, r5, pos, "the store of this byte was not recognised")
			default:
				c.Bad(bk, r5, pos, "byte "+fmt.Sprint(idx)+" of the encoding is "+g)
			}
		}
	})
	c.Req(seen[1] && seen[2], key+":exits", r5, p.Pos(vp.Pos()), "the encoder has no 1-byte or no 2-byte exit")
}

// ---------------------------------------------------------------------------
// R3 who consumes what around the frame

func (k *c04ctx) ruleR3() {
	c, p := k.c, k.p
	const r3 = "C04.R3 the server dispatcher consumes exactly the frame-type varint before handing the stream to the request handler, whose first stream operation is ReadTCPRequest; the client consumes the response exactly once before payload is read"
	a := c.serverAnchors()
	if !a.ok {
		return
	}
	disp := a.dispatcher
	c.Saw(fnName(disp))
	readReq := p.Fn(pProtocol, "ReadTCPRequest")
	readResp := p.Fn(pProtocol, "ReadTCPResponse")
	var stream *ssa.Parameter
	for _, pr := range disp.Params {
		if n := namedOf(pr.Type()); n != nil && n.Obj().Name() == "Stream" && n.Obj().Pkg() != nil && n.Obj().Pkg().Path() == pQUIC {
			stream = pr
		}
	}
	if stream == nil {
		c.Unres("stream parameter of the stream dispatcher")
		return
	}
	// ---- dispatcher
	type handoff struct {
		at     ssa.CallInstruction
		callee *ssa.Function
		arg    int
	}
	var reads []*ssa.Call
	var hand []handoff
	isNewReader := func(ci ssa.CallInstruction) bool { return calleeIs(ci, c04pQV, "NewReader") }
	seenUse := map[ssa.Instruction]bool{}
	c04uses(stream, true, isNewReader, func(in ssa.Instruction, x ssa.Value) {
		if seenUse[in] {
			return
		}
		seenUse[in] = true
		ci, ok := in.(ssa.CallInstruction)
		if !ok {
			c.Undecided(k.key("C04.R3:"+fnName(disp)+":stream-use"), r3, p.InstrPos(in), "unrecognised use of the stream in the dispatcher: "+in.String())
			return
		}
		if call, ok := in.(*ssa.Call); ok && calleeIs(call, c04pQV, "Read") {
			reads = append(reads, call)
			return
		}
		if f := staticCallee(ci); f != nil && p.IsRepoFn(f) && fnPkg(f).Pkg.Path() == pServer {
			for i, arg := range ci.Common().Args {
				if arg == x {
					hand = append(hand, handoff{ci, f, i})
				}
			}
			return
		}
		c.Bad(k.key("C04.R3:"+fnName(disp)+":stream→"+c04calleeName(ci)), r3, p.InstrPos(in),
			"the dispatcher passes the stream to "+c04calleeName(ci)+" before the request handler runs: bytes of the request frame other than the frame type may be consumed")
	})
	c.Floor("C04.R3:dispatcher-handoff", len(hand), 1)
	ft := k.consts["FrameTypeTCPRequest"]
	for _, h := range hand {
		key := "C04.R3:" + fnName(disp) + "→" + fnName(h.callee)
		var before []*ssa.Call
		for _, r := range reads {
			if reachableAfter(r, h.at) {
				before = append(before, r)
			}
		}
		// a varint read that every path to `target` executes exactly once
		mustPass := func(fn *ssa.Function, r *ssa.Call, target ssa.Instruction) bool {
			if reachableAfter(r, r) {
				return false
			}
			for _, in := range reachFrom(fn, nil, func(in ssa.Instruction) bool { return in == ssa.Instruction(r) }, nil) {
				if in == target {
					return false
				}
			}
			return true
		}
		// only for the TCP request frame type
		okType := guardedBy(h.at, func(cond ssa.Value, pol bool) bool {
			b, isB := cond.(*ssa.BinOp)
			if !isB || !((b.Op == token.EQL && pol) || (b.Op == token.NEQ && !pol)) {
				return false
			}
			if v, isC := constInt(b.Y); isC && v == ft {
				_, isP := resolve(b.X).(*ssa.Parameter)
				return isP
			}
			if v, isC := constInt(b.X); isC && v == ft {
				_, isP := resolve(b.Y).(*ssa.Parameter)
				return isP
			}
			return false
		})
		c.Req(okType, key+":frame-type", r3, p.InstrPos(h.at), fmt.Sprintf("the hand-over is not confined to frame type FrameTypeTCPRequest (%#x), the value WriteTCPRequest emits", ft))
		// ---- handler
		hf := h.callee
		c.Saw(fnName(hf))
		if h.arg >= len(hf.Params) || readReq == nil {
			c.Unres("stream parameter of " + fnName(hf))
			continue
		}
		var rd *ssa.Call
		type use struct {
			in ssa.Instruction
		}
		var uses []use
		seenH := map[ssa.Instruction]bool{}
		var hreads []*ssa.Call
		c04uses(hf.Params[h.arg], false, isNewReader, func(in ssa.Instruction, x ssa.Value) {
			if seenH[in] {
				return
			}
			seenH[in] = true
			if call, ok := in.(*ssa.Call); ok && calleeIs(call, c04pQV, "Read") {
				hreads = append(hreads, call)
				return
			}
			if call, ok := in.(*ssa.Call); ok && staticCallee(call) == readReq {
				if rd == nil || c04before(call, rd) {
					rd = call
				}
				return
			}
			uses = append(uses, use{in})
		})
		hkey := "C04.R3:" + fnName(hf)
		if !c.Req(rd != nil, hkey+":reads-request", r3, p.Pos(hf.Pos()), "the request handler does not call ReadTCPRequest on the stream it is given") {
			continue
		}
		// exactly one varint (the frame type the dispatcher only peeked) is consumed
		// between the peek and ReadTCPRequest, wherever it is done
		{
			var hbefore []*ssa.Call
			for _, r := range hreads {
				if reachableAfter(r, rd) {
					hbefore = append(hbefore, r)
				}
			}
			ok := len(before)+len(hbefore) == 1
			detail := fmt.Sprintf("%d varint reads of the stream precede ReadTCPRequest (%d in the dispatcher, %d in the handler; want exactly 1: the frame type the dispatcher only peeked)", len(before)+len(hbefore), len(before), len(hbefore))
			if ok {
				if len(before) == 1 {
					ok = mustPass(disp, before[0], h.at.(ssa.Instruction))
				} else {
					ok = mustPass(hf, hbefore[0], rd)
				}
				detail = "a path reaches ReadTCPRequest without consuming the frame-type varint (or consumes it repeatedly): the frame type would be parsed as the address length"
			}
			c.Req(ok, key+":one-varint", r3, p.InstrPos(h.at), detail)
		}
		tl := p.Named(pServer, "TrafficLogger")
		for _, u := range uses {
			if !reachableAfter(u.in, rd) {
				continue // cannot run before the request is read
			}
			ci, isCall := u.in.(ssa.CallInstruction)
			if _, isDefer := u.in.(*ssa.Defer); isDefer {
				continue // runs at function exit
			}
			if isCall && ci.Common().IsInvoke() && tl != nil && types.Identical(ci.Common().Value.Type(), tl) {
				continue // named exception: TrafficLogger registers the stream, it does not read it
			}
			if mc, isMC := u.in.(*ssa.MakeClosure); isMC {
				onlyDefer := true
				for _, r := range *mc.Referrers() {
					if _, ok := r.(*ssa.Defer); !ok {
						onlyDefer = false
					}
				}
				if onlyDefer {
					continue
				}
			}
			name := u.in.String()
			if isCall {
				name = c04calleeName(ci)
			}
			c.Bad(k.key(hkey+":before-request:"+name), r3, p.InstrPos(u.in), "the stream is used by "+name+" before ReadTCPRequest has consumed the request frame")
		}
		c.OK(hkey+":request-first", r3, p.InstrPos(rd))
	}

	// ---- client: lazy path
	tcT := p.Named(pClient, "tcpConn")
	fEst := p.Field(pClient, "tcpConn", "Established")
	fOrig := p.Field(pClient, "tcpConn", "Orig")
	if tcT == nil || fEst == nil || fOrig == nil || readResp == nil {
		c.Unres("client.tcpConn.{Established,Orig} / protocol.ReadTCPResponse")
		return
	}
	rdFn := p.MethodOf(types.NewPointer(tcT), "Read")
	if rdFn == nil {
		c.Unres("(*client.tcpConn).Read")
		return
	}
	c.Saw(fnName(rdFn))
	// methods of tcpConn: the response may be consumed in a helper of Read
	var methods []*ssa.Function
	for _, fn := range p.RepoFns {
		if len(fn.Params) > 0 && fn.Signature.Recv() != nil && namedOf(fn.Params[0].Type()) == tcT {
			methods = append(methods, fn)
		}
	}
	respOK := func(cond ssa.Value, pol bool) bool { // nil-error edge of ReadTCPResponse
		x, isNil, ok := nilTest(cond, pol)
		if !ok || !isNil {
			return false
		}
		tup, idx := tupleSource(x)
		call, isCall := tup.(*ssa.Call)
		return isCall && idx == 2 && staticCallee(call) == readResp
	}
	estFalse := func(cond ssa.Value, pol bool) bool { return !pol && isLoadOfField(cond, fEst) }
	estTrue := func(cond ssa.Value, pol bool) bool { return pol && isLoadOfField(cond, fEst) }
	// helpers: methods all of whose nil-error returns lie behind a successful ReadTCPResponse
	helpers := map[*ssa.Function]bool{}
	nLazy := 0
	for _, g := range methods {
		var rds []*ssa.Call
		var estStores []*ssa.Store
		var payload []ssa.Instruction
		allInstrs(g, func(in ssa.Instruction) {
			switch x := in.(type) {
			case *ssa.Store:
				if fa, ok := x.Addr.(*ssa.FieldAddr); ok && structField(fa.X.Type(), fa.Field) == fEst && isConstBool(x.Val, true) {
					estStores = append(estStores, x)
				}
			case ssa.CallInstruction:
				if call, ok := in.(*ssa.Call); ok && staticCallee(call) == readResp {
					rds = append(rds, call)
					return
				}
				if g != rdFn {
					return
				}
				cc := x.Common()
				vals := append([]ssa.Value{}, cc.Args...)
				if cc.IsInvoke() {
					vals = append(vals, cc.Value)
				}
				for _, v := range vals {
					if isLoadOfField(v, fOrig) {
						payload = append(payload, in)
						return
					}
				}
			}
		})
		if len(rds) == 0 {
			continue
		}
		c.Saw(fnName(g))
		gkey := "C04.R3:" + fnName(g)
		if g != rdFn {
			isHelper, nRet := true, 0
			allInstrs(g, func(in ssa.Instruction) {
				if r, ok := in.(*ssa.Return); ok && c04successReturn(r) {
					nRet++
					if res := retResults(r); len(res) == 0 || !c04isErrorType(res[len(res)-1].Type()) || !guardedBy(r, respOK) {
						isHelper = false
					}
				}
			})
			helpers[g] = isHelper && nRet > 0
		}
		for _, rd := range rds {
			nLazy++
			once := guardedBy(rd, estFalse)
			if !once && g != rdFn {
				// every call of the helper is behind Established == false
				n, all := 0, true
				for _, m := range methods {
					allInstrs(m, func(in ssa.Instruction) {
						if ci, ok := in.(ssa.CallInstruction); ok && staticCallee(ci) == g {
							n++
							if !guardedBy(ci, estFalse) {
								all = false
							}
						}
					})
				}
				once = all && n > 0
			}
			c.Req(once, k.key(gkey+":response-once"), r3, p.InstrPos(rd), "ReadTCPResponse is reachable when Established is already true: payload bytes would be parsed as a second response")
			marked := func(in ssa.Instruction) bool {
				for _, st := range estStores {
					if in == ssa.Instruction(st) {
						return true
					}
				}
				return false
			}
			errv := extractOf(rd, 2)
			failEdge := func(cond ssa.Value, pol bool) bool {
				x, isNil, ok := nilTest(cond, pol)
				return ok && !isNil && errv != nil && resolve(x) == errv
			}
			var leak ssa.Instruction
			for _, in := range reachFrom(g, rd, marked, failEdge) {
				if marked(in) || leak != nil {
					continue
				}
				for _, pl := range payload {
					if in == pl {
						leak = in
					}
				}
				if r, ok := in.(*ssa.Return); ok && leak == nil {
					if res := retResults(r); len(res) > 0 && isNilConst(res[len(res)-1]) {
						leak = in
					}
				}
			}
			d := ""
			if leak != nil {
				d = "after a successful ReadTCPResponse the instruction at " + p.InstrPos(leak) + " is reached without Established = true: the next Read parses payload as another response"
			}
			c.Req(leak == nil, k.key(gkey+":marks-established"), r3, p.InstrPos(rd), d)
		}
	}
	c.Floor("C04.R3:lazy-response-read", nLazy, 1)
	ckey := "C04.R3:" + fnName(rdFn)
	nPayload := 0
	allInstrs(rdFn, func(in ssa.Instruction) {
		pl, ok := in.(ssa.CallInstruction)
		if !ok || staticCallee(pl) == readResp {
			return
		}
		cc := pl.Common()
		vals := append([]ssa.Value{}, cc.Args...)
		if cc.IsInvoke() {
			vals = append(vals, cc.Value)
		}
		uses := false
		for _, v := range vals {
			if isLoadOfField(v, fOrig) {
				uses = true
			}
		}
		if !uses {
			return
		}
		nPayload++
		ok = guardedBy(pl, func(cond ssa.Value, pol bool) bool {
			if estTrue(cond, pol) || respOK(cond, pol) {
				return true
			}
			// nil-error edge of a helper that consumed the response
			x, isNil, ok := nilTest(cond, pol)
			if !ok || !isNil {
				return false
			}
			call, isCall := resolve(x).(*ssa.Call)
			if !isCall {
				if tup, idx := tupleSource(x); tup != nil {
					if tc, ok := tup.(*ssa.Call); ok && idx == tc.Call.Signature().Results().Len()-1 {
						call, isCall = tc, true
					}
				}
			}
			return isCall && helpers[staticCallee(call)] && len(call.Call.Args) > 0 && resolve(call.Call.Args[0]) == ssa.Value(rdFn.Params[0])
		})
		c.Req(ok, k.key(ckey+":payload-after-response:"+c04calleeName(pl)), r3, p.InstrPos(pl), "the stream is read for payload on a path where the response frame has not been consumed (Established false and no successful ReadTCPResponse)")
	})
	c.Floor("C04.R3:payload-read", nPayload, 1)

	// ---- client: every construction of a tcpConn (composite literal, field-wise
	// assignment, or a constructor whose Established/Orig come from its parameters:
	// then the verdict is taken at the constructor's call sites)
	isMethod := map[*ssa.Function]bool{}
	for _, m := range methods {
		isMethod[m] = true
	}
	var clientFns []*ssa.Function
	for _, fn := range p.RepoFns {
		if pk := fnPkg(fn); pk != nil && pk.Pkg.Path() == pClient {
			clientFns = append(clientFns, fn)
		}
	}
	respOKOn := func(stream ssa.Value) func(cond ssa.Value, pol bool) bool {
		return func(cond ssa.Value, pol bool) bool {
			x, isNil, ok := nilTest(cond, pol)
			if !ok || !isNil {
				return false
			}
			tup, idx := tupleSource(x)
			call, isCall := tup.(*ssa.Call)
			if !isCall || idx != 2 || staticCallee(call) != readResp {
				return false
			}
			return sameValue(c04peelIface(call.Call.Args[0]), c04peelIface(stream))
		}
	}
	paramIdx := func(fn *ssa.Function, v ssa.Value) int {
		if v == nil {
			return -1
		}
		if prm, ok := resolve(c04peelIface(v)).(*ssa.Parameter); ok {
			for i, q := range fn.Params {
				if q == prm {
					return i
				}
			}
		}
		return -1
	}
	// c04est: verdict on "Established := est on an object whose stream is orig" at `at` in fn:
	// 0 false (lazy path), 1 true behind a successful ReadTCPResponse of that stream, 2 true without it, 3 unknown
	var c04est func(fn *ssa.Function, at ssa.Instruction, est, orig ssa.Value, depth int) (int, string)
	c04est = func(fn *ssa.Function, at ssa.Instruction, est, orig ssa.Value, depth int) (int, string) {
		if est == nil || isConstBool(est, false) || isConstBool(resolve(est), false) {
			return 0, ""
		}
		if isConstBool(est, true) || isConstBool(resolve(est), true) {
			// stream not identifiable (Orig set elsewhere): a successful ReadTCPResponse of some stream must still precede
			if (orig != nil && guardedBy(at, respOKOn(orig))) || (orig == nil && guardedBy(at, respOK)) {
				return 1, ""
			}
			return 2, p.InstrPos(at)
		}
		// a temporary merged from several paths (`established := false; if !fastOpen { read; established = true }`):
		// each incoming value is judged on the edge it arrives by
		if ph, isPhi := resolve(est).(*ssa.Phi); isPhi && depth < 3 && len(ph.Edges) == len(ph.Block().Preds) {
			verdict, detail := 0, ""
			for i, e := range ph.Edges {
				pb := ph.Block().Preds[i]
				if len(pb.Instrs) == 0 {
					return 3, "Established is initialised with a computed value at " + p.InstrPos(at)
				}
				term := pb.Instrs[len(pb.Instrs)-1]
				var v int
				var d string
				switch {
				case isConstBool(e, false) || isConstBool(resolve(e), false):
					v = 0
				case isConstBool(e, true) || isConstBool(resolve(e), true):
					pred := respOK
					if orig != nil {
						pred = respOKOn(orig)
					}
					okEdge := guardedBy(term, pred)
					if iff, isIf := term.(*ssa.If); isIf && !okEdge && len(pb.Succs) == 2 && pb.Succs[0] != pb.Succs[1] {
						okEdge = pred(iff.Cond, pb.Succs[0] == ph.Block())
					}
					if okEdge {
						v = 1
					} else {
						v, d = 2, p.InstrPos(term)
					}
				default:
					v, d = c04est(fn, term, e, orig, depth+1)
				}
				if v == 2 || (v == 3 && verdict != 2) || (v == 1 && verdict == 0) {
					verdict, detail = v, d
				}
			}
			return verdict, detail
		}
		ei := paramIdx(fn, est)
		if ei < 0 || depth >= 3 {
			return 3, "Established is initialised with a computed value at " + p.InstrPos(at)
		}
		oi := paramIdx(fn, orig)
		verdict, detail, n := 0, "", 0
		for _, g := range clientFns {
			allInstrs(g, func(in ssa.Instruction) {
				ci, ok := in.(ssa.CallInstruction)
				if !ok || staticCallee(ci) != fn || ei >= len(ci.Common().Args) {
					return
				}
				n++
				var o ssa.Value
				if oi >= 0 && oi < len(ci.Common().Args) {
					o = ci.Common().Args[oi]
				}
				v, d := c04est(g, in, ci.Common().Args[ei], o, depth+1)
				if _, isGo := in.(*ssa.Go); isGo && v == 1 {
					v, d = 3, "constructor started with go at "+p.InstrPos(in)
				}
				if v == 2 || (v == 3 && verdict != 2) || (v == 1 && verdict == 0) {
					verdict, detail = v, d
				}
			})
		}
		if n == 0 {
			return 3, "no static call site of " + fnName(fn) + " found for its Established parameter"
		}
		return verdict, detail
	}
	nLit := 0
	for _, fn := range clientFns {
		allInstrs(fn, func(in ssa.Instruction) {
			al, ok := in.(*ssa.Alloc)
			if !ok || namedOf(al.Type()) != tcT {
				return
			}
			if _, direct := al.Type().(*types.Pointer).Elem().(*types.Named); !direct {
				return
			}
			nLit++
			var ests []*ssa.Store
			var orig *ssa.Store
			for _, r := range *al.Referrers() {
				fa, ok := r.(*ssa.FieldAddr)
				if !ok {
					continue
				}
				f := structField(fa.X.Type(), fa.Field)
				for _, rr := range *fa.Referrers() {
					if st, ok := rr.(*ssa.Store); ok && st.Addr == ssa.Value(fa) {
						switch f {
						case fEst:
							ests = append(ests, st)
						case fOrig:
							orig = st
						}
					}
				}
			}
			lkey := "C04.R3:" + fnName(fn) + ":tcpConn"
			var origVal ssa.Value
			if orig != nil {
				origVal = orig.Val
			}
			verdict, detail := 0, ""
			for _, est := range ests {
				v, d := c04est(fn, est, est.Val, origVal, 0)
				if v == 2 || (v == 3 && verdict != 2) || (v == 1 && verdict == 0) {
					verdict, detail = v, d
				}
			}
			switch verdict {
			case 0:
				c.OK(k.key(lkey+"{Established:false}"), r3, p.InstrPos(al))
			case 1:
				c.OK(k.key(lkey+"{Established:true}"), r3, p.InstrPos(al))
			case 2:
				c.Bad(k.key(lkey+"{Established:true}"), r3, p.InstrPos(al), "a connection is marked Established (at "+detail+") without ReadTCPResponse having succeeded on its stream: the response frame is delivered to the application as payload")
			default:
				c.Undecided(k.key(lkey+"{Established:?}"), r3, p.InstrPos(al), detail)
			}
		})
	}
	// stores of Established outside the methods of tcpConn on an object built elsewhere
	// (e.g. on the result of a constructor)
	for _, fn := range clientFns {
		if isMethod[fn] {
			continue
		}
		allInstrs(fn, func(in ssa.Instruction) {
			st, ok := in.(*ssa.Store)
			if !ok {
				return
			}
			fa, ok := st.Addr.(*ssa.FieldAddr)
			if !ok || structField(fa.X.Type(), fa.Field) != fEst {
				return
			}
			if _, isAlloc := fa.X.(*ssa.Alloc); isAlloc {
				return // judged above
			}
			if _, isCall := resolve(fa.X).(*ssa.Call); !isCall {
				return // an object handed in from elsewhere (helper of the lazy path): not a construction site
			}
			// the stream of the object: a store to Orig through the same pointer in this function, if any
			var origVal ssa.Value
			allInstrs(fn, func(in2 ssa.Instruction) {
				if st2, ok := in2.(*ssa.Store); ok {
					if fa2, ok := st2.Addr.(*ssa.FieldAddr); ok && structField(fa2.X.Type(), fa2.Field) == fOrig && sameValue(fa2.X, fa.X) {
						origVal = st2.Val
					}
				}
			})
			lkey := "C04.R3:" + fnName(fn) + ":tcpConn.Established="
			v, d := c04est(fn, st, st.Val, origVal, 0)
			switch v {
			case 0, 1:
				c.OK(k.key(lkey+"ok"), r3, p.InstrPos(st))
			case 2:
				c.Bad(k.key(lkey+"true"), r3, p.InstrPos(st), "a connection is marked Established (at "+d+") without ReadTCPResponse having succeeded on its stream: the response frame is delivered to the application as payload")
			default:
				c.Undecided(k.key(lkey+"?"), r3, p.InstrPos(st), d)
			}
		})
	}
	c.Floor("C04.R3:tcpConn-literals", nLit, 1)
}

func c04peelIface(v ssa.Value) ssa.Value {
	for i := 0; i < 4; i++ {
		switch x := v.(type) {
		case *ssa.MakeInterface:
			v = x.X
		case *ssa.ChangeInterface:
			v = x.X
		default:
			return v
		}
	}
	return v
}

// ---------------------------------------------------------------------------
// driver

func checkC04(c *Check) {
	p := c.P
	k := &c04ctx{c: c, p: p, rootsOf: map[*ssa.Function][]*c04root{}, lps: map[*ssa.Function]*linProver{}, padMax: map[string]int64{}, consts: map[string]int64{}, keys: map[string]int{}}
	k.roots = []*c04root{
		{name: "ReadTCPRequest", limit: "MaxAddressLength", nonzero: true, stream: true, pattern: "V B V B", writer: "WriteTCPRequest", wpat: "V(type) V(len) B V(len) B"},
		{name: "ReadTCPResponse", limit: "MaxMessageLength", nonzero: false, stream: true, pattern: "F1 V B V B", writer: "WriteTCPResponse", wpat: "F1 V(len) B V(len) B"},
		{name: "ParseUDPMessage", limit: "MaxAddressLength", nonzero: true},
	}
	for _, n := range []string{"MaxAddressLength", "MaxMessageLength", "MaxPaddingLength", "FrameTypeTCPRequest"} {
		cn := p.Const(pProtocol, n)
		if cn == nil {
			c.Unres("constant protocol." + n)
			return
		}
		v, ok := constant.Int64Val(cn.Val())
		if !ok {
			c.Unres("constant protocol." + n + " is not an integer")
			return
		}
		k.consts[n] = v
	}
	seen := map[*ssa.Function]bool{}
	for _, rt := range k.roots {
		rt.fn = p.Fn(pProtocol, rt.name)
		if rt.fn == nil {
			c.Unres("protocol." + rt.name)
			return
		}
		c.Saw(fnName(rt.fn))
		for _, f := range c04closure(p, rt.fn) {
			k.rootsOf[f] = append(k.rootsOf[f], rt)
			if !seen[f] {
				seen[f] = true
				k.fns = append(k.fns, f)
			}
		}
	}
	k.collectLens()
	k.c04helperBounds()
	// the writers come first: R1's "largest legal padding" is what they can draw
	k.ruleWriters()
	k.ruleR1()
	k.ruleReaders()
	k.ruleR3()
}

package main

import (
	"fmt"
	"go/types"

	"golang.org/x/tools/go/ssa"
)

// Lock balance (part of K3): sync.Mutex / sync.RWMutex are not re-entrant.
//   (a) no CFG path leads from a Lock()/RLock() of a mutex field to another
//       Lock() of the same field without an Unlock()/RUnlock() in between
//       (the goroutine would block on itself: e.g. a `continue` inside a locked
//       loop body);
//   (b) no path leads from a Lock() to a return with the mutex still held,
//       unless an Unlock of it is deferred (the next call blocks forever).
// Decided per function on the CFG; functions that are lock helpers by design
// (return holding a lock their caller releases) are recognised by (b) failing on
// *every* return path after the Lock and are skipped.

type lockBalIssue struct {
	fn    *ssa.Function
	at    ssa.Instruction
	field *types.Var
	kind  string // "relock" | "return-held"
	where ssa.Instruction
}

func lockBalance(fn *ssa.Function) []lockBalIssue {
	var out []lockBalIssue
	// deferred unlocks
	deferred := map[*types.Var]bool{}
	allInstrs(fn, func(in ssa.Instruction) {
		if d, ok := in.(*ssa.Defer); ok {
			if f, op := lockOp(d); f != nil && (op == "Unlock" || op == "RUnlock") {
				deferred[f] = true
			}
			// defer func() { mu.Unlock() }()
			if mc, ok := d.Call.Value.(*ssa.MakeClosure); ok {
				if cf, ok := mc.Fn.(*ssa.Function); ok {
					allInstrs(cf, func(x ssa.Instruction) {
						if c, ok := x.(*ssa.Call); ok {
							if f, op := lockOp(c); f != nil && (op == "Unlock" || op == "RUnlock") {
								deferred[f] = true
							}
						}
					})
				}
			}
		}
	})
	allInstrs(fn, func(in ssa.Instruction) {
		c, ok := in.(*ssa.Call)
		if !ok {
			return
		}
		f, op := lockOp(c)
		if f == nil || (op != "Lock" && op != "RLock") {
			return
		}
		isRelease := func(x ssa.Instruction) bool {
			cc, ok := x.(*ssa.Call)
			if !ok {
				return false
			}
			g, o := lockOp(cc)
			return g == f && (o == "Unlock" || o == "RUnlock")
		}
		var relock, retHeld ssa.Instruction
		nRet, nHeld := 0, 0
		for _, x := range reachFrom(fn, c, isRelease, nil) {
			if isRelease(x) {
				continue
			}
			if cc, ok := x.(*ssa.Call); ok {
				if g, o := lockOp(cc); g == f && (o == "Lock" || (o == "RLock" && op == "Lock")) {
					if relock == nil {
						relock = x
					}
				}
			}
			if r, ok := x.(*ssa.Return); ok && !deferred[f] {
				nHeld++
				if retHeld == nil {
					retHeld = r
				}
			}
		}
		allInstrs(fn, func(x ssa.Instruction) {
			if _, ok := x.(*ssa.Return); ok && reachableAfter(c, x) {
				nRet++
			}
		})
		if relock != nil {
			out = append(out, lockBalIssue{fn, c, f, "relock", relock})
		}
		// a function every return of which leaves the lock held is a lock helper, not a leak
		if retHeld != nil && nHeld < nRet {
			out = append(out, lockBalIssue{fn, c, f, "return-held", retHeld})
		}
	})
	return out
}

// lockBalanceRule records one obligation per function of the package that locks
// a mutex field.
func lockBalanceRule(c *Check, prop, pkg string) {
	p := c.P
	rule := prop + ".LB every Lock()/RLock() of a mutex field is released before the same goroutine can lock it again, and before every return (unless the unlock is deferred): sync mutexes are not re-entrant, a path that keeps the lock blocks this and every later call"
	n := 0
	for _, fn := range p.RepoFns {
		if pk := fnPkg(fn); pk == nil || pk.Pkg.Path() != pkg {
			continue
		}
		locks := false
		allInstrs(fn, func(in ssa.Instruction) {
			if cc, ok := in.(*ssa.Call); ok {
				if f, op := lockOp(cc); f != nil && (op == "Lock" || op == "RLock") {
					locks = true
				}
			}
		})
		if !locks {
			continue
		}
		n++
		c.Saw(fnName(fn))
		issues := lockBalance(fn)
		key := prop + ".LB:" + fnName(fn)
		if len(issues) == 0 {
			c.OK(key, rule, p.Pos(fn.Pos()))
			continue
		}
		for i, is := range issues {
			k := key + ":" + is.field.Name() + ":" + is.kind
			if i > 0 {
				k += fmt.Sprintf("#%d", i+1)
			}
			switch is.kind {
			case "relock":
				c.Bad(k, rule, p.InstrPos(is.at), fmt.Sprintf("a path from %s.Lock at %s reaches the Lock at %s without unlocking: the goroutine deadlocks on itself", is.field.Name(), p.InstrPos(is.at), p.InstrPos(is.where)))
			default:
				c.Bad(k, rule, p.InstrPos(is.at), fmt.Sprintf("a path from %s.Lock at %s reaches the return at %s with the mutex still held (no deferred unlock): the next call blocks forever", is.field.Name(), p.InstrPos(is.at), p.InstrPos(is.where)))
			}
		}
	}
	c.Floor(prop+".LB:locking-functions", n, 1)
}

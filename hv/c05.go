package main

import (
	"fmt"
	"go/token"
	"go/types"

	"golang.org/x/tools/go/ssa"
)

func init() {
	register(&propDef{
		ID:        "C05",
		Run:       checkC05,
		Technique: "static analysis: linear-inequality prover over edge-dominating guards (narrowing conversions, size budget, index bounds), field-store census of the fragment copy and of the reassembler state, edge-guard reachability for the accumulate/reset/assemble branches, sibling agreement of the two fragmenting senders and of the UDP header writer/reader (go/ssa)",
		Explanation: "R1 every narrowing conversion to uint8 in the fragmentation package is proved to receive a value in [0,255] (from the guards dominating it, or from the invariant that the slot array is only ever allocated with an 8-bit length); " +
			"R2 the fragmenter divides only by a budget proved >= 1 and every fragment's payload slice is proved no longer than maxSize - HeaderSize(); " +
			"R3 in the fragmenter the per-fragment copy of the message is stored to only in FragID, FragCount and Data: FragCount is the one (proved <= 255) count for all fragments, FragID an induction variable from 0 in steps of 1, Data a sub-slice of the original payload; " +
			"R4 in the reassembler every slot index is proved in bounds, the accumulate branch is reachable only over `same packet id`, `same fragment count` and `slot empty`, a slot-array replacement resets packet id, count and size with it, the assembled message is produced only on the `count == len(slots)` edge into a fresh buffer of the accumulated size; " +
			"R5 both senders fragment only on the errors.As(*quic.DatagramTooLargeError) edge, with that error's MaxDatagramPayloadSize, after storing a packet id proved to be in [1,65535], and stop at the first send error; " +
			"R6 HeaderSize() has the constant part 8 = the offset at which Serialize writes the address length, and ParseUDPMessage reads SessionID, PacketID, FragID, FragCount (4+2+1+1 bytes) in that order before the address.",
		NotDecided: []string{
			"that every arrival order with duplicates reassembles to the original and that interleaved messages never mix (history-quantified behaviour; R4 gives the guards it rests on)",
			"that ceil(len/budget) fragments exactly cover the payload (the arithmetic identity itself)",
			"what quic-go does with the datagrams",
		},
		Assumptions: []string{"sums of lengths do not overflow 63 bits", "loads of the same field with no store in between yield the same value"},
	})
}

func checkC05(c *Check) {
	p := c.P
	fragFn := p.Fn(pFrag, "FragUDPMessage")
	feed := p.Fn(pFrag, "(*Defragger).Feed")
	fFrags := p.Field(pFrag, "Defragger", "frags")
	fPkt := p.Field(pFrag, "Defragger", "pktID")
	if fPkt == nil && feed != nil {
		// the identity of the message being reassembled may be kept in another form (a combined key):
		// it is the Defragger field that Feed compares with a value computed from the message's PacketID
		fPkt = c05IdentityField(p, feed)
	}
	fCount := p.Field(pFrag, "Defragger", "count")
	fSize := p.Field(pFrag, "Defragger", "size")
	if fragFn == nil || feed == nil || fFrags == nil || fPkt == nil || fCount == nil || fSize == nil {
		c.Unres("core/internal/frag: FragUDPMessage, (*Defragger).Feed, Defragger.{frags,pktID,count,size}")
		return
	}
	c.Saw(fnName(fragFn))
	c.Saw(fnName(feed))
	var fragFns []*ssa.Function
	for _, fn := range p.RepoFns {
		if pk := fnPkg(fn); pk != nil && pk.Pkg.Path() == pFrag {
			fragFns = append(fragFns, fn)
		}
	}

	// ---- R1 narrowing conversions
	const r1 = "C05.R1 every narrowing conversion to uint8 in the fragmentation package receives a value proved to be in [0,255]"
	// invariant: the slot array is only ever allocated with a length that fits 8 bits
	slotLenFits := true
	nAlloc := 0
	for _, fr := range fieldRefs(fragFns, fFrags) {
		if fr.Kind != "store" {
			continue
		}
		nAlloc++
		mk, ok := resolve(fr.Val).(*ssa.MakeSlice)
		good := false
		if ok {
			lp := newLinProver(p, fr.Fn)
			cx := lp.newCtx(fr.Instr)
			good = lp.proveAt(fr.Instr, lp.lin(mk.Len, cx), linConst(255), 0, nil)
		} else if isNilConst(fr.Val) {
			good = true
		}
		if !c.Req(good, "C05.R1:slot-array-length:"+fnName(fr.Fn), r1, p.InstrPos(fr.Instr), "the reassembler's slot array is allocated with a length not proved <= 255 (the 8-bit count comparison would alias)") {
			slotLenFits = false
		}
	}
	c.Floor("C05.R1:slot-array-alloc", nAlloc, 1)
	nConv := 0
	dupKey := map[string]int{}
	for _, fn := range fragFns {
		lp := newLinProver(p, fn)
		allInstrs(fn, func(in ssa.Instruction) {
			cv, ok := in.(*ssa.Convert)
			if !ok || !isIntType(cv.Type()) || !isIntType(cv.X.Type()) {
				return
			}
			b, _ := cv.Type().Underlying().(*types.Basic)
			if b == nil || b.Kind() != types.Uint8 {
				return
			}
			if _, isConst := cv.X.(*ssa.Const); isConst {
				return
			}
			slo, shi, _, sok := lp.typeRange(cv.X.Type())
			if sok && slo >= 0 && shi <= 255 {
				return
			}
			nConv++
			key := "C05.R1:narrow:" + fnName(fn) + ":" + exprKey(cv.X, 0)
			dupKey[key]++
			if dupKey[key] > 1 {
				key = fmt.Sprintf("%s#%d", key, dupKey[key])
			}
			cx := lp.newCtx(cv)
			op := lp.lin(cv.X, cx)
			good := lp.proveAt(cv, op, linConst(255), 0, nil) && lp.proveAt(cv, linConst(0), op, 0, nil)
			if !good && slotLenFits {
				// len(d.frags): bounded by the allocation invariant above
				if call, ok := resolve(cv.X).(*ssa.Call); ok && isBuiltinCall(call, "len") && isLoadOfField(call.Call.Args[0], fFrags) {
					good = true
				}
			}
			c.Req(good, key, r1, p.InstrPos(cv), "a value not proved to be in [0,255] is narrowed to uint8: with more than 255 fragments the count wraps and the fragment set / slot index is corrupted")
		})
	}
	c.Floor("C05.R1:narrowing-sites", nConv, 2)

	// ---- R2 budget and fragment size
	const r2 = "C05.R2 the fragmenter divides only by a budget proved >= 1 and every fragment payload is proved no longer than maxSize - HeaderSize()"
	lpF := newLinProver(p, fragFn)
	var budget *ssa.BinOp
	allInstrs(fragFn, func(in ssa.Instruction) {
		if bo, ok := in.(*ssa.BinOp); ok && bo.Op == token.SUB && len(fragFn.Params) >= 2 && resolve(bo.X) == ssa.Value(fragFn.Params[1]) {
			if call, ok := resolve(bo.Y).(*ssa.Call); ok {
				if f := staticCallee(call); f != nil && f.Name() == "HeaderSize" {
					budget = bo
				}
			}
		}
	})
	if budget == nil {
		c.Unres("the per-fragment budget `maxSize - m.HeaderSize()` in FragUDPMessage")
		return
	}
	nDiv := 0
	allInstrs(fragFn, func(in ssa.Instruction) {
		bo, ok := in.(*ssa.BinOp)
		if !ok || (bo.Op != token.QUO && bo.Op != token.REM) || !isIntType(bo.Type()) {
			return
		}
		if _, isC := constInt(bo.Y); isC {
			return
		}
		nDiv++
		cx := lpF.newCtx(bo)
		c.Req(lpF.proveAt(bo, linConst(1), lpF.lin(bo.Y, cx), 0, nil), fmt.Sprintf("C05.R2:divisor-positive#%d", nDiv), r2, p.InstrPos(bo), "the fragment count is computed by dividing by a budget that is not proved >= 1 (a header as large as the datagram limit divides by zero)")
	})
	c.Floor("C05.R2:divisions", nDiv, 1)
	// the Data field of the fragment copy
	fData := p.Field(pProtocol, "UDPMessage", "Data")
	fFragID := p.Field(pProtocol, "UDPMessage", "FragID")
	fFragCount := p.Field(pProtocol, "UDPMessage", "FragCount")
	if fData == nil || fFragID == nil || fFragCount == nil {
		c.Unres("protocol.UDPMessage.{Data,FragID,FragCount}")
		return
	}
	nData := 0
	stored := map[*types.Var]int{}
	var payloadLoad ssa.Value
	allInstrs(fragFn, func(in ssa.Instruction) {
		st, ok := in.(*ssa.Store)
		if !ok {
			return
		}
		fa, ok := st.Addr.(*ssa.FieldAddr)
		if !ok {
			return
		}
		al, ok := fa.X.(*ssa.Alloc)
		if !ok || namedOf(al.Type()) == nil || namedOf(al.Type()).Obj().Name() != "UDPMessage" {
			return
		}
		f := structField(fa.X.Type(), fa.Field)
		stored[f]++
		switch f {
		case fData:
			nData++
			sl, ok := resolve(st.Val).(*ssa.Slice)
			if !c.Req(ok && isLoadOfField(sl.X, fData), "C05.R3:data-is-subslice", "C05.R3 each fragment's Data is a sub-slice of the original payload", p.InstrPos(st), "the fragment payload is not a sub-slice of the original message's Data") {
				return
			}
			payloadLoad = sl.X
			cx := lpF.newCtx(sl)
			c.Req(lpF.proveAt(sl, lpF.lenOf(sl, cx), lpF.lin(budget, cx), 0, nil), "C05.R2:fragment-fits-budget", r2, p.InstrPos(sl), "a fragment's payload is not proved <= maxSize - HeaderSize(): the serialised fragment can exceed the datagram limit")
			ok2, missing := lpF.siteBounds(sl)
			c.Req(ok2, "C05.R2:fragment-slice-in-bounds", r2, p.InstrPos(sl), "fragment slice bounds not proved: "+missing)
		}
	})
	c.Floor("C05.R2:fragment-data-stores", nData, 1)
	_ = payloadLoad

	// ---- R3 only FragID, FragCount, Data are rewritten per fragment
	const r3 = "C05.R3 the per-fragment copy of the message is stored to only in FragID, FragCount and Data; FragCount is one value for all fragments, FragID counts from 0 in steps of 1"
	for f, n := range stored {
		good := f == fData || f == fFragID || f == fFragCount
		c.Req(good, "C05.R3:field-preserved:"+f.Name(), r3, p.Pos(fragFn.Pos()), fmt.Sprintf("field %s of the fragment copy is rewritten (%d store(s)): session id, packet id and address must be those of the original message", f.Name(), n))
	}
	for _, f := range []*types.Var{fFragID, fFragCount, fData} {
		c.Req(stored[f] >= 1, "C05.R3:field-set:"+f.Name(), r3, p.Pos(fragFn.Pos()), "the fragment copy never sets "+f.Name())
	}
	allInstrs(fragFn, func(in ssa.Instruction) {
		st, ok := in.(*ssa.Store)
		if !ok {
			return
		}
		fa, ok := st.Addr.(*ssa.FieldAddr)
		if !ok {
			return
		}
		if _, isAl := fa.X.(*ssa.Alloc); !isAl {
			return
		}
		switch structField(fa.X.Type(), fa.Field) {
		case fFragID:
			ph, ok := resolve(st.Val).(*ssa.Phi)
			good := ok
			if ok {
				for _, e := range ph.Edges {
					if k, isC := constInt(e); isC {
						good = good && k == 0
						continue
					}
					bo, isB := resolve(e).(*ssa.BinOp)
					good = good && isB && bo.Op == token.ADD && ((resolve(bo.X) == ssa.Value(ph) && isConstInt(bo.Y, 1)) || (resolve(bo.Y) == ssa.Value(ph) && isConstInt(bo.X, 1)))
				}
			}
			c.Req(good, "C05.R3:fragid-counts-from-zero", r3, p.InstrPos(st), "FragID is not the loop counter 0,1,2,…")
		case fFragCount:
			_, isPhi := resolve(st.Val).(*ssa.Phi)
			c.Req(!isPhi && !dependsOnLoop(st.Val), "C05.R3:fragcount-loop-invariant", r3, p.InstrPos(st), "FragCount differs between the fragments of one message")
		}
	})

	// ---- R4 reassembler
	const r4 = "C05.R4 reassembler: slot indexes in bounds; accumulate only for the same packet id, the same fragment count and an empty slot; a slot-array replacement resets packet id, count and size; assembly only on the count == len(slots) edge into a fresh buffer of the accumulated size"
	// the reassembler = Feed plus the helpers of its package it was split into
	grp := helperGroup(p, feed, func(f *ssa.Function) bool {
		pk := fnPkg(f)
		return pk != nil && pk.Pkg.Path() == pFrag
	})
	for _, g := range grp {
		c.Saw(fnName(g))
	}
	lifter := newC03Lifter(c)
	lifter.prefix = "C05.R4:slot-index-precondition"
	nIdx := 0
	for _, g := range grp {
		lpD := lifter.prover(g)
		allInstrs(g, func(in ssa.Instruction) {
			ia, ok := in.(*ssa.IndexAddr)
			if !ok || !isLoadOfFieldC05(lpD, ia.X, fFrags) {
				return
			}
			if !ia.Pos().IsValid() {
				return // range loop
			}
			nIdx++
			ok2, missing := lifter.boundsProved(ia)
			c.Req(ok2, fmt.Sprintf("C05.R4:slot-index-in-bounds#%d", nIdx), r4, p.InstrPos(ia), "slot index not proved inside the slot array ("+missing+"): a fragment id >= the fragment count indexes out of range")
		})
	}
	c.Floor("C05.R4:slot-indexes", nIdx, 2)
	// accumulate branch: non-constant store to count
	nAcc := 0
	for _, fr := range fieldRefs(grp, fCount) {
		if fr.Kind != "store" {
			continue
		}
		if _, isC := constInt(fr.Val); isC {
			continue
		}
		nAcc++
		pos := p.InstrPos(fr.Instr)
		samePkt := guardedByIP(p, fr.Instr, 0, func(cond ssa.Value, pol bool) bool {
			b, ok := cond.(*ssa.BinOp)
			if !ok || !((b.Op == token.EQL && pol) || (b.Op == token.NEQ && !pol)) {
				return false
			}
			return (isLoadOfField(b.X, fPkt) && c05CarriesPacketID(b.Y)) || (isLoadOfField(b.Y, fPkt) && c05CarriesPacketID(b.X))
		})
		c.Req(samePkt, "C05.R4:accumulate:same-packet", r4, pos, "a fragment is accumulated without the `packet id equals the current one` edge: fragments of different messages are mixed")
		sameCount := guardedByIP(p, fr.Instr, 0, func(cond ssa.Value, pol bool) bool {
			b, ok := cond.(*ssa.BinOp)
			if !ok || !((b.Op == token.EQL && pol) || (b.Op == token.NEQ && !pol)) {
				return false
			}
			isLen := func(v ssa.Value) bool {
				v = resolve(v)
				if cv, ok := v.(*ssa.Convert); ok {
					v = resolve(cv.X)
				}
				call, ok := v.(*ssa.Call)
				return ok && isBuiltinCall(call, "len") && isLoadOfField(call.Call.Args[0], fFrags)
			}
			isCnt := func(v ssa.Value) bool {
				v = resolve(v)
				if cv, ok := v.(*ssa.Convert); ok {
					v = resolve(cv.X)
				}
				return fieldNameOfLoad(v) == "FragCount"
			}
			return (isLen(b.X) && isCnt(b.Y)) || (isLen(b.Y) && isCnt(b.X))
		})
		c.Req(sameCount, "C05.R4:accumulate:same-count", r4, pos, "a fragment is accumulated without the `fragment count equals the slot array length` edge")
		emptySlot := guardedByIP(p, fr.Instr, 0, func(cond ssa.Value, pol bool) bool {
			x, isNil, ok := nilTest(cond, pol)
			if !ok || !isNil {
				return false
			}
			u, ok := resolve(x).(*ssa.UnOp)
			if !ok || u.Op != token.MUL {
				return false
			}
			ia, ok := u.X.(*ssa.IndexAddr)
			return ok && isLoadOfField(ia.X, fFrags) && fieldNameOfLoad(ia.Index) == "FragID"
		})
		c.Req(emptySlot, "C05.R4:accumulate:empty-slot", r4, pos, "a fragment is counted without the `slot is empty` edge: a duplicate completes the message with a fragment missing")
	}
	c.Floor("C05.R4:accumulate-sites", nAcc, 1)
	// the accumulated size grows only together with the count (same empty-slot edge)
	for _, fr := range fieldRefs(grp, fSize) {
		if fr.Kind != "store" || !dependsOnField(fr.Val, fSize) {
			continue
		}
		emptySlot := guardedByIP(p, fr.Instr, 0, func(cond ssa.Value, pol bool) bool {
			x, isNil, ok := nilTest(cond, pol)
			if !ok || !isNil {
				return false
			}
			u, ok := resolve(x).(*ssa.UnOp)
			if !ok || u.Op != token.MUL {
				return false
			}
			ia, ok := u.X.(*ssa.IndexAddr)
			return ok && isLoadOfField(ia.X, fFrags) && fieldNameOfLoad(ia.Index) == "FragID"
		})
		c.Req(emptySlot, "C05.R4:accumulate:size-with-empty-slot", r4, p.InstrPos(fr.Instr), "the accumulated size grows without the `slot is empty` edge: a duplicate fragment inflates the reassembled message")
	}
	// reset: a new slot array comes with new pktID, count, size
	for _, fr := range fieldRefs(grp, fFrags) {
		if fr.Kind != "store" {
			continue
		}
		if _, isMk := resolve(fr.Val).(*ssa.MakeSlice); !isMk {
			continue
		}
		for _, f := range []*types.Var{fPkt, fCount, fSize} {
			found := false
			for _, fr2 := range fieldRefs(grp, f) {
				if fr2.Kind == "store" && (dominates(fr.Instr, fr2.Instr) || dominates(fr2.Instr, fr.Instr)) && sameStraightLine(fr.Instr, fr2.Instr) {
					found = true
					if f == fCount {
						found = isConstInt(fr2.Val, 1)
					}
				}
			}
			c.Req(found, "C05.R4:reset:"+f.Name(), r4, p.InstrPos(fr.Instr), "the slot array is replaced without re-initialising "+f.Name()+" on the same path: state of the previous message leaks into the new one")
		}
	}
	// count and size describe the same set of filled slots: a store that restarts
	// the count from a constant (a new message, or an early release of the slots
	// after completion) re-initialises the accumulated size on the same path;
	// otherwise the next message with the same id and count is assembled into a
	// buffer that still includes the previous message's bytes
	nRestart := 0
	for _, fr := range fieldRefs(grp, fCount) {
		if fr.Kind != "store" {
			continue
		}
		if _, isC := constInt(fr.Val); !isC {
			continue
		}
		nRestart++
		found := false
		for _, fr2 := range fieldRefs(grp, fSize) {
			if fr2.Kind == "store" && (dominates(fr.Instr, fr2.Instr) || dominates(fr2.Instr, fr.Instr)) && sameStraightLine(fr.Instr, fr2.Instr) {
				found = true
			}
		}
		c.Req(found, fmt.Sprintf("C05.R4:restart:count-with-size:%s#%d", fnName(fr.Fn), nRestart), r4, p.InstrPos(fr.Instr), "the fragment count is restarted from a constant without re-initialising the accumulated size on the same path: a later set of fragments with the same packet id and count is assembled with the stale size (the previous message's length is added, the payload gains trailing zero bytes)")
	}
	// assembly
	nAsm := 0
	allInstrsOf(grp, func(in ssa.Instruction) {
		mk, ok := in.(*ssa.MakeSlice)
		if !ok || !isBytesOrString(mk.Type()) {
			return
		}
		nAsm++
		c.Req(isLoadOfField(mk.Len, fSize), "C05.R4:assemble:size", r4, p.InstrPos(mk), "the assembly buffer is not sized by the accumulated size")
		full := guardedByIP(p, mk, 0, func(cond ssa.Value, pol bool) bool {
			b, ok := cond.(*ssa.BinOp)
			if !ok || !((b.Op == token.EQL && pol) || (b.Op == token.NEQ && !pol)) {
				return false
			}
			isLen := func(v ssa.Value) bool {
				call, ok := resolve(v).(*ssa.Call)
				return ok && isBuiltinCall(call, "len") && isLoadOfField(call.Call.Args[0], fFrags)
			}
			isCnt := func(v ssa.Value) bool {
				v = resolve(v)
				if cv, ok := v.(*ssa.Convert); ok {
					v = resolve(cv.X)
				}
				// the post-increment value or a reload of count
				return isLoadOfField(v, fCount) || dependsOnField(v, fCount)
			}
			return (isLen(b.X) && isCnt(b.Y)) || (isLen(b.Y) && isCnt(b.X))
		})
		c.Req(full, "C05.R4:assemble:only-when-complete", r4, p.InstrPos(mk), "the message is assembled without the `count == len(slots)` edge: an incomplete message is delivered")
	})
	c.Floor("C05.R4:assembly-sites", nAsm, 1)

	// ---- R5 senders
	const r5 = "C05.R5 a sender fragments only on the errors.As(*quic.DatagramTooLargeError) edge with that error's MaxDatagramPayloadSize, after storing a packet id in [1,65535], and stops at the first send error"
	nSenders := 0
	for _, fn := range p.RepoFns {
		if !p.IsRepoFn(fn) {
			continue
		}
		for _, ci := range callsIn(fn, func(ci ssa.CallInstruction) bool { return staticCallee(ci) == fragFn }) {
			call, ok := ci.(*ssa.Call)
			if !ok {
				continue
			}
			nSenders++
			c.Saw(fnName(fn))
			base := "C05.R5:" + fnName(fn)
			// errors.As edge
			var target ssa.Value
			asEdge := guardedByIP(p, call, 0, func(cond ssa.Value, pol bool) bool {
				ac, ok := resolve(cond).(*ssa.Call)
				if !ok || !pol || !calleeIs(ac, "errors", "As") || len(ac.Call.Args) != 2 {
					return false
				}
				t := resolve(ac.Call.Args[1])
				if al, ok := t.(*ssa.Alloc); ok {
					if n := namedOf(al.Type().(*types.Pointer).Elem()); n != nil && n.Obj().Name() == "DatagramTooLargeError" {
						target = al
						return true
					}
				}
				return false
			})
			c.Req(asEdge, base+":only-when-too-large", r5, p.InstrPos(call), "fragmentation is attempted on a path that did not cross errors.As(err, *quic.DatagramTooLargeError): other send errors re-send the datagram in pieces")
			// size argument from that error
			sizeOK := target != nil && c05SizeFromErr(p, call.Call.Args[1], fn, target, 0)
			c.Req(sizeOK, base+":size-from-error", r5, p.InstrPos(call), "the fragment size limit is not the MaxDatagramPayloadSize reported by the too-large error")
			// packet id stored before, in [1,65535]
			pidOK := c05PacketIDStored(p, call, call.Call.Args[0], 0)
			c.Req(pidOK, base+":packet-id-nonzero", r5, p.InstrPos(call), "no store of a packet id proved to be in [1,65535] dominates the fragmentation (id 0 marks an unfragmented message; a wrapped id collides with it)")
			// stop at first error: from a send inside the loop, the loop cannot continue over the error edge
			stopOK, nSend := true, 0
			// the sends after the fragmentation: in this function, or in the same-package helper the
			// fragment slice is handed to
			var scan func(f *ssa.Function, after ssa.Instruction, depth int)
			scan = func(f *ssa.Function, after ssa.Instruction, depth int) {
				allInstrs(f, func(in ssa.Instruction) {
					sc, ok := in.(*ssa.Call)
					if !ok || sc == call || (after != nil && !reachableAfter(after, sc)) {
						return
					}
					if cal := staticCallee(sc); cal != nil && !sc.Common().IsInvoke() {
						if depth < 2 && p.IsRepoFn(cal) && len(cal.Blocks) > 0 && fnPkg(cal) == fnPkg(fn) {
							for _, a := range sc.Common().Args {
								if _, isSl := a.Type().Underlying().(*types.Slice); isSl && deps(a, depOpts{})[call] {
									scan(cal, nil, depth+1)
								}
							}
						}
						return
					}
					if sc.Value() == nil || !types.Identical(sc.Type(), types.Universe.Lookup("error").Type()) {
						return
					}
					if sc.Common().IsInvoke() && sc.Common().Method.Name() != "SendMessage" {
						return
					}
					nSend++
					nilEdge := func(cond ssa.Value, pol bool) bool {
						x, isNil, ok := nilTest(cond, pol)
						return ok && isNil && resolve(x) == ssa.Value(sc)
					}
					for _, x := range reachFrom(f, sc, nil, nilEdge) {
						if x == ssa.Instruction(sc) {
							stopOK = false
						}
					}
				})
			}
			scan(fn, call, 0)
			c.Req(stopOK && nSend >= 1, base+":stop-at-first-error", r5, p.InstrPos(call), "after a failed fragment send the loop continues with the remaining fragments (a partial message is transmitted)")
		}
	}
	c.Floor("C05.R5:senders", nSenders, 2)

	// ---- R6 header width agreement
	const r6 = "C05.R6 HeaderSize() = 8 + varint + len(Addr); Serialize writes the address length at offset 8; ParseUDPMessage reads SessionID, PacketID, FragID, FragCount in that order first"
	hs := p.Fn(pProtocol, "(*UDPMessage).HeaderSize")
	ser := p.Fn(pProtocol, "(*UDPMessage).Serialize")
	parse := p.Fn(pProtocol, "ParseUDPMessage")
	if hs == nil || ser == nil || parse == nil {
		c.Unres("protocol.(*UDPMessage).{HeaderSize,Serialize}, ParseUDPMessage")
		return
	}
	lpH := newLinProver(p, hs)
	allInstrs(hs, func(in ssa.Instruction) {
		r, ok := in.(*ssa.Return)
		if !ok {
			return
		}
		res := retResults(r)
		if len(res) != 1 {
			return
		}
		l := lpH.lin(res[0], lpH.newCtx(r))
		c.Req(l.k == 8 && len(l.c) == 2, "C05.R6:header-size-constant", r6, p.InstrPos(r), fmt.Sprintf("HeaderSize() is not 8 + varint length + address length (got %s)", l))
		// the varint width term: quic-go's own quicvarint.Len, or a helper whose
		// every constant return is proved to sit in that width's value range
		for a := range l.c {
			call, ok := a.(*ssa.Call)
			if !ok {
				continue
			}
			g := staticCallee(call)
			if g == nil {
				c.Undecided("C05.R6:header-size-varint-width", r6, p.InstrPos(r), "the varint width in HeaderSize() comes from a dynamic call")
				continue
			}
			if g.String() == "github.com/apernet/quic-go/quicvarint.Len" {
				c.OK("C05.R6:header-size-varint-width", r6, p.InstrPos(call))
				continue
			}
			if !p.IsRepoFn(g) || len(g.Params) != 1 {
				c.Undecided("C05.R6:header-size-varint-width", r6, p.InstrPos(call), "the varint width in HeaderSize() comes from "+g.String()+", which is neither quicvarint.Len nor a one-argument repository helper")
				continue
			}
			lo := map[int64]int64{1: 0, 2: 64, 4: 16384, 8: 1073741824}
			hi := map[int64]int64{1: 63, 2: 16383, 4: 1073741823, 8: 4611686018427387903}
			lg := newLinProver(p, g)
			good, why := true, ""
			allInstrs(g, func(in ssa.Instruction) {
				rr, ok := in.(*ssa.Return)
				if !ok {
					return
				}
				vals := retResults(rr)
				if len(vals) != 1 {
					return
				}
				k, isC := constInt(vals[0])
				if !isC {
					good, why = false, "a non-constant width is returned"
					return
				}
				if _, known := lo[k]; !known {
					good, why = false, fmt.Sprintf("width %d is not a QUIC varint width", k)
					return
				}
				x := lg.lin(g.Params[0], lg.newCtx(rr))
				if !lg.proveAt(rr, linConst(lo[k]), x, 0, nil) || !lg.proveAt(rr, x, linConst(hi[k]), 0, nil) {
					good, why = false, fmt.Sprintf("width %d is returned for values outside [%d, %d]", k, lo[k], hi[k])
				}
			})
			c.Req(good, "C05.R6:header-size-varint-width", r6, p.InstrPos(call), "HeaderSize() computes the address-length width with "+fnName(g)+", whose boundaries differ from the QUIC varint encoding ("+why+"): the reported size is off for some address lengths and fragments exceed the datagram limit")
		}
	})
	okOff := false
	allInstrs(ser, func(in ssa.Instruction) {
		call, ok := in.(*ssa.Call)
		if !ok || staticCallee(call) == nil || staticCallee(call).Name() != "varintPut" {
			return
		}
		if sl, ok := resolve(call.Call.Args[0]).(*ssa.Slice); ok && sl.Low != nil && isConstInt(sl.Low, 8) && resolve(sl.X) == ssa.Value(ser.Params[1]) {
			okOff = true
		}
	})
	c.Req(okOff, "C05.R6:serialize-offset", r6, p.Pos(ser.Pos()), "Serialize does not write the address length at offset 8 of the buffer")
	var order []string
	allInstrs(parse, func(in ssa.Instruction) {
		call, ok := in.(*ssa.Call)
		if !ok || !calleeIs(call, "encoding/binary", "Read") || len(call.Call.Args) != 3 {
			return
		}
		if fa, ok := resolve(call.Call.Args[2]).(*ssa.FieldAddr); ok {
			order = append(order, structField(fa.X.Type(), fa.Field).Name())
		} else if mi, ok := call.Call.Args[2].(*ssa.MakeInterface); ok {
			if fa, ok := mi.X.(*ssa.FieldAddr); ok {
				order = append(order, structField(fa.X.Type(), fa.Field).Name())
			}
		}
	})
	if len(order) == 0 {
		// table form: `for _, f := range []any{&m.A, &m.B, …} { binary.Read(buf, order, f) }` – the
		// read order is the element order of the slice literal the loop ranges over
		allInstrs(parse, func(in ssa.Instruction) {
			call, ok := in.(*ssa.Call)
			if !ok || !calleeIs(call, "encoding/binary", "Read") || len(call.Call.Args) != 3 || len(order) > 0 {
				return
			}
			u, ok := resolve(call.Call.Args[2]).(*ssa.UnOp)
			if !ok || u.Op != token.MUL {
				return
			}
			ia, ok := u.X.(*ssa.IndexAddr)
			if !ok {
				return
			}
			var lit *ssa.Alloc
			for d := range deps(ia.X, depOpts{}) {
				if al, ok := d.(*ssa.Alloc); ok && al.Comment == "slicelit" {
					lit = al
				}
			}
			if lit == nil {
				return
			}
			byIdx := map[int64]string{}
			for _, ref := range *lit.Referrers() {
				ea, ok := ref.(*ssa.IndexAddr)
				if !ok {
					continue
				}
				k, isC := constInt(ea.Index)
				if !isC {
					continue
				}
				for _, r2 := range *ea.Referrers() {
					if st, ok := r2.(*ssa.Store); ok && st.Addr == ssa.Value(ea) {
						if mi, ok := st.Val.(*ssa.MakeInterface); ok {
							if fa, ok := mi.X.(*ssa.FieldAddr); ok {
								byIdx[k] = structField(fa.X.Type(), fa.Field).Name()
							}
						}
					}
				}
			}
			for k := int64(0); k < int64(len(byIdx)); k++ {
				if n, ok := byIdx[k]; ok {
					order = append(order, n)
				}
			}
		})
	}
	want := []string{"SessionID", "PacketID", "FragID", "FragCount"}
	same := len(order) == len(want)
	for i := range want {
		same = same && i < len(order) && order[i] == want[i]
	}
	c.Req(same, "C05.R6:parse-field-order", r6, p.Pos(parse.Pos()), fmt.Sprintf("ParseUDPMessage reads %v, want %v", order, want))
}

// linWide evaluates a small unsigned expression as a mathematical integer,
// looking through unsigned narrowing conversions and additions (used where
// the absence of wrap-around is itself what is to be proved).
func (lp *linProver) linWide(v ssa.Value, cx *linCtx) lin {
	v = resolve(v)
	switch x := v.(type) {
	case *ssa.BinOp:
		if x.Op == token.ADD {
			return lp.linWide(x.X, cx).add(lp.linWide(x.Y, cx))
		}
	case *ssa.Convert:
		if isIntType(x.Type()) && isIntType(x.X.Type()) {
			// uintN(y): equal to y when y is proved inside the range, else opaque
			return lp.lin(x, cx)
		}
	}
	return lp.lin(v, cx)
}

func fieldNameOfLoad(v ssa.Value) string {
	v = resolve(v)
	switch x := v.(type) {
	case *ssa.UnOp:
		if fa, ok := x.X.(*ssa.FieldAddr); ok && x.Op == token.MUL {
			return structField(fa.X.Type(), fa.Field).Name()
		}
	case *ssa.Field:
		return structField(x.X.Type(), x.Field).Name()
	case *ssa.Convert:
		return fieldNameOfLoad(x.X)
	}
	return ""
}

// c05SizeFromErr: v is computed from the MaxDatagramPayloadSize field of the
// error object `target`; when v comes in through a parameter of an unexported
// helper, every call site must pass such a value.
func c05SizeFromErr(p *Prog, v ssa.Value, fn *ssa.Function, target ssa.Value, depth int) bool {
	var params []*ssa.Parameter
	for d := range deps(v, depOpts{}) {
		if u, ok := d.(*ssa.UnOp); ok && u.Op == token.MUL {
			if fa, ok := u.X.(*ssa.FieldAddr); ok && structField(fa.X.Type(), fa.Field).Name() == "MaxDatagramPayloadSize" {
				if base, ok := fa.X.(*ssa.UnOp); ok && base.X == target {
					return true
				}
			}
		}
		if prm, ok := d.(*ssa.Parameter); ok && prm.Parent() == fn {
			params = append(params, prm)
		}
	}
	if depth >= 2 || len(params) == 0 {
		return false
	}
	sites, ok := visibleCallSites(p, fn)
	if !ok {
		return false
	}
	for _, prm := range params {
		idx := -1
		for i, q := range fn.Params {
			if q == prm {
				idx = i
			}
		}
		all := true
		for _, site := range sites {
			arg := c03ArgAt(site, idx)
			if arg == nil || !c05SizeFromErr(p, arg, site.Parent(), target, depth+1) {
				all = false
			}
		}
		if all {
			return true
		}
	}
	return false
}

// c05PacketIDStored: a store of a packet id proved to be in [1,65535] into
// msg.PacketID dominates `at` (in the same function, or before every call of the
// unexported helper that receives msg as a parameter).
func c05PacketIDStored(p *Prog, at ssa.Instruction, msg ssa.Value, depth int) bool {
	fn := at.Parent()
	lp := newLinProver(p, fn)
	found := false
	allInstrs(fn, func(in ssa.Instruction) {
		st, ok := in.(*ssa.Store)
		if !ok || found {
			return
		}
		fa, ok := st.Addr.(*ssa.FieldAddr)
		if !ok || structField(fa.X.Type(), fa.Field).Name() != "PacketID" || !dominates(st, at) {
			return
		}
		if resolve(fa.X) != resolve(msg) {
			return
		}
		cx := lp.newCtx(st)
		// the stored uint16 is a conversion/sum: prove the mathematical value is in [1,65535]
		v := lp.linWide(st.Val, cx)
		if lp.proveAt(st, linConst(1), v, 0, nil) && lp.proveAt(st, v, linConst(65535), 0, nil) {
			found = true
		}
	})
	if found || depth >= 2 {
		return found
	}
	prm, ok := resolve(msg).(*ssa.Parameter)
	if !ok {
		return false
	}
	sites, ok := visibleCallSites(p, fn)
	if !ok {
		return false
	}
	idx := -1
	for i, q := range fn.Params {
		if q == prm {
			idx = i
		}
	}
	for _, site := range sites {
		arg := c03ArgAt(site, idx)
		if arg == nil || !c05PacketIDStored(p, site, arg, depth+1) {
			return false
		}
	}
	return true
}

// c05CarriesPacketID: v is the message's PacketID, or a value that embeds all 16 bits of it
// (widening conversions, shifts performed in a type wide enough to keep them, OR / ADD with other
// fields). A shift or mask that can drop bits of the id makes different messages compare equal.
func c05CarriesPacketID(v ssa.Value) bool {
	var walk func(v ssa.Value, shl int64, depth int) bool
	width := func(t types.Type) int64 {
		if b, ok := t.Underlying().(*types.Basic); ok {
			switch b.Kind() {
			case types.Uint8, types.Int8:
				return 8
			case types.Uint16, types.Int16:
				return 16
			case types.Uint32, types.Int32:
				return 32
			default:
				return 64
			}
		}
		return 0
	}
	walk = func(v ssa.Value, shl int64, depth int) bool {
		if depth > 6 {
			return false
		}
		v = resolve(v)
		if fieldNameOfLoad(v) == "PacketID" {
			return true
		}
		switch x := v.(type) {
		case *ssa.Convert:
			if width(x.Type()) < 16+shl {
				return false
			}
			return walk(x.X, shl, depth+1)
		case *ssa.BinOp:
			switch x.Op {
			case token.OR, token.ADD, token.XOR:
				return walk(x.X, shl, depth+1) || walk(x.Y, shl, depth+1)
			case token.SHL:
				k, ok := constInt(x.Y)
				if !ok || width(x.Type()) < 16+shl+k {
					return false // the shift is carried out in a type that drops id bits
				}
				return walk(x.X, shl+k, depth+1)
			}
		}
		return false
	}
	return walk(v, 0, 0)
}

// c05IdentityField: the Defragger field compared (==, !=) in the reassembler with a value computed
// from the incoming message's PacketID.
func c05IdentityField(p *Prog, feed *ssa.Function) *types.Var {
	var out *types.Var
	grp := helperGroup(p, feed, func(f *ssa.Function) bool { return fnPkg(f) == fnPkg(feed) })
	dependsOnPID := func(v ssa.Value) bool {
		for d := range deps(v, depOpts{}) {
			if fieldNameOfLoad(d) == "PacketID" {
				return true
			}
		}
		return false
	}
	allInstrsOf(grp, func(in ssa.Instruction) {
		b, ok := in.(*ssa.BinOp)
		if !ok || (b.Op != token.EQL && b.Op != token.NEQ) {
			return
		}
		for _, pr := range [][2]ssa.Value{{b.X, b.Y}, {b.Y, b.X}} {
			u, ok := resolve(pr[0]).(*ssa.UnOp)
			if !ok || u.Op != token.MUL {
				continue
			}
			fa, ok := u.X.(*ssa.FieldAddr)
			if !ok {
				continue
			}
			if n := namedOf(fa.X.Type()); n == nil || n.Obj().Name() != "Defragger" {
				continue
			}
			if dependsOnPID(pr[1]) {
				out = structField(fa.X.Type(), fa.Field)
			}
		}
	})
	return out
}

func isLoadOfFieldC05(lp *linProver, v ssa.Value, f *types.Var) bool {
	if isLoadOfField(v, f) {
		return true
	}
	// a load that the prover resolved to the value stored just before
	if u, ok := resolve(v).(*ssa.UnOp); ok && u.Op == token.MUL {
		if fa, ok := u.X.(*ssa.FieldAddr); ok {
			return structField(fa.X.Type(), fa.Field) == f
		}
	}
	return false
}

// dependsOnLoop: the value is (transitively) computed from a φ-node.
func dependsOnLoop(v ssa.Value) bool {
	for d := range deps(v, depOpts{}) {
		if _, ok := d.(*ssa.Phi); ok {
			return true
		}
	}
	return false
}

func dependsOnField(v ssa.Value, f *types.Var) bool {
	for d := range deps(v, depOpts{}) {
		if isLoadOfField(d, f) {
			return true
		}
	}
	return false
}

// sameStraightLine: one instruction dominates the other and every path from
// the first to the function exit passes the second, or vice versa (they are
// executed together).
func sameStraightLine(a, b ssa.Instruction) bool {
	first, second := a, b
	if !dominates(a, b) {
		first, second = b, a
	}
	if first.Block() == second.Block() {
		return true
	}
	// every exit reachable from `first` without passing `second`?
	return len(exitsReachableAvoiding(first.Parent(), first, func(in ssa.Instruction) bool { return in == second })) == 0
}

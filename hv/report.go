package main

import (
	"bufio"
	"encoding/json"
	"fmt"
	"os"
	"path/filepath"
	"sort"
	"strconv"
	"strings"
	"time"
)

type Obligation struct {
	Key    string `json:"key"`    // rule:construct — never a line number
	Rule   string `json:"rule"`   // rule text
	Status string `json:"status"` // discharged | violated | known | undecided
	Pos    string `json:"pos,omitempty"`
	Detail string `json:"detail,omitempty"`
	Cfg    string `json:"cfg,omitempty"`
}

// Check is the per-property context rules report into.
type Check struct {
	ID          string
	Tier        string
	P           *Prog
	Obls        []Obligation
	Analysed    map[string]bool // functions / sites inspected
	Floors      []string        // floor failures
	Notes       []string
	Unresolved  []string
	Explanation string
	NotDecided  []string
	Assumptions []string
	Technique   string
	PkgCount    int
	FnCount     int
	LoadSecs    float64
}

func (c *Check) cfg() string {
	if c.P != nil {
		return c.P.Cfg.String()
	}
	return ""
}

func (c *Check) Saw(what string) { c.Analysed[what] = true }

func (c *Check) OK(key, rule, pos string) {
	c.Obls = append(c.Obls, Obligation{Key: key, Rule: rule, Status: "discharged", Pos: pos, Cfg: c.cfg()})
}

func (c *Check) Bad(key, rule, pos, detail string) {
	c.Obls = append(c.Obls, Obligation{Key: key, Rule: rule, Status: "violated", Pos: pos, Detail: detail, Cfg: c.cfg()})
}

func (c *Check) Undecided(key, rule, pos, detail string) {
	c.Obls = append(c.Obls, Obligation{Key: key, Rule: rule, Status: "undecided", Pos: pos, Detail: detail, Cfg: c.cfg()})
}

// Req records one obligation.
func (c *Check) Req(cond bool, key, rule, pos, detail string) bool {
	if cond {
		c.OK(key, rule, pos)
	} else {
		c.Bad(key, rule, pos, detail)
	}
	return cond
}

// Unres records an anchor that could not be resolved (broken check, exit 2).
func (c *Check) Unres(what string) {
	c.Unresolved = append(c.Unresolved, what+" ["+c.cfg()+"]")
}

// Floor: a rule must have matched at least n instances.
// Floor guards a rule against passing vacuously. A rule that matches nothing
// has lost its anchor: that is a violation of the rule's premise ("these sites
// exist and are checked"). Matching fewer sites than the pinned tree has is
// NOT an alarm -- behaviour-preserving rewrites merge sites (a constructor
// for three literals, one helper for two call sites) -- it is recorded as a
// note so that the evidence shows the drop. HV_STRICT_FLOORS=1 restores the
// exact count (used when re-confirming the instance tables by hand).
func (c *Check) Floor(rule string, got, want int) {
	if got >= want {
		return
	}
	if got > 0 && os.Getenv("HV_STRICT_FLOORS") == "" {
		c.Notes = append(c.Notes, fmt.Sprintf("rule %s matched %d instances (the pinned tree has %d): sites merged or moved; every matched instance was checked", rule, got, want))
		return
	}
	c.Bad(rule+":floor", fmt.Sprintf("rule %s must match at least %d instances (confirmed by hand on the pinned tree)", rule, want), "", fmt.Sprintf("matched only %d", got))
}

// ---------------------------------------------------------------------------
// known findings

type knownFinding struct {
	Property string
	Key      string
	Text     string
}

func loadKnown() ([]knownFinding, error) {
	f, err := os.Open(filepath.Join(verifRoot(), "known_findings.txt"))
	if err != nil {
		if os.IsNotExist(err) {
			return nil, nil
		}
		return nil, err
	}
	defer f.Close()
	var out []knownFinding
	sc := bufio.NewScanner(f)
	for sc.Scan() {
		line := strings.TrimSpace(sc.Text())
		if !strings.HasPrefix(line, "known:") {
			continue // "fixed:" lines and comments suppress nothing
		}
		kf := knownFinding{}
		rest := strings.TrimSpace(strings.TrimPrefix(line, "known:"))
		for _, tok := range strings.Fields(rest) {
			if strings.HasPrefix(tok, "property=") && kf.Property == "" {
				kf.Property = strings.TrimPrefix(tok, "property=")
			} else if strings.HasPrefix(tok, "key=") && kf.Key == "" {
				kf.Key = strings.TrimPrefix(tok, "key=")
			}
		}
		if i := strings.Index(rest, kf.Key); i >= 0 {
			kf.Text = strings.TrimSpace(rest[i+len(kf.Key):])
		}
		if kf.Property != "" && kf.Key != "" {
			out = append(out, kf)
		}
	}
	return out, sc.Err()
}

// ---------------------------------------------------------------------------
// evidence

type evidence struct {
	PropertyID  string         `json:"property_id"`
	Tier        string         `json:"tier"`
	Seed        int            `json:"seed"`
	Level       string         `json:"level"`
	Coverage    map[string]any `json:"coverage"`
	Assumptions []string       `json:"assumptions"`
	WallS       float64        `json:"wall_s"`
	Violations  int            `json:"violations"`
}

// finish writes evidence, prints the verdict lines and returns the exit code.
func finish(c *Check, cfgs []string, start time.Time, extra map[string]any) int {
	known, err := loadKnown()
	if err != nil {
		fmt.Fprintf(os.Stderr, "known_findings: %v\n", err)
		return 2
	}
	// de-duplicate obligations across build configurations: keep worst status per key
	rank := map[string]int{"discharged": 0, "known": 1, "undecided": 2, "violated": 3}
	byKey := map[string]*Obligation{}
	var order []string
	cfgsOf := map[string][]string{}
	for i := range c.Obls {
		o := c.Obls[i]
		cfgsOf[o.Key] = append(cfgsOf[o.Key], o.Cfg)
		if prev, ok := byKey[o.Key]; ok {
			if rank[o.Status] > rank[prev.Status] {
				*prev = o
			}
			continue
		}
		oo := o
		byKey[o.Key] = &oo
		order = append(order, o.Key)
	}
	sort.Strings(order)
	var violated, knownHit, undecided []*Obligation
	discharged := 0
	for _, k := range order {
		o := byKey[k]
		if o.Status == "violated" {
			for _, kf := range known {
				if kf.Property == c.ID && kf.Key == o.Key {
					o.Status = "known"
				}
			}
		}
		switch o.Status {
		case "violated":
			violated = append(violated, o)
		case "known":
			knownHit = append(knownHit, o)
		case "undecided":
			undecided = append(undecided, o)
		default:
			discharged++
		}
	}
	evDir := filepath.Join(verifRoot(), "evidence")
	_ = os.MkdirAll(evDir, 0o755)
	vioDir := filepath.Join(evDir, c.ID+".violations")
	_ = os.RemoveAll(vioDir)

	// samples: a few obligations written out
	var samples []any
	for i, k := range order {
		if i%maxInt(1, len(order)/8) == 0 && len(samples) < 10 {
			samples = append(samples, byKey[k])
		}
	}
	for _, o := range violated {
		samples = append(samples, o)
	}
	if len(samples) == 0 {
		samples = append(samples, map[string]string{"note": "no obligations were generated"})
	}
	var analysed []string
	for k := range c.Analysed {
		analysed = append(analysed, k)
	}
	sort.Strings(analysed)
	rules := map[string]int{}
	for _, k := range order {
		r := byKey[k].Key
		if i := strings.Index(r, ":"); i > 0 {
			r = r[:i]
		}
		rules[r]++
	}
	cov := map[string]any{
		"explanation":         c.Explanation,
		"obligations":         len(order),
		"discharged":          discharged,
		"evaluations":         len(c.Obls),
		"distinct_nontrivial": len(order),
		"rule":                "one obligation per rule instance (rule:construct) enumerated from the type-checked SSA of /repo's working tree; an obligation is non-trivial when it names a concrete construct (call site, store, field access, edge) that was found and inspected; distinct by key",
		"samples":             samples,
		"analysed":            analysed,
		"analysed_count":      len(analysed),
		"obligations_by_rule": rules,
		"build_configs":       cfgs,
		"not_decided":         c.NotDecided,
		"known_findings":      len(knownHit),
		"undecided":           len(undecided),
		"unresolved_anchors":  c.Unresolved,
		"technique":           c.Technique,
		"checker_cmd":         "/verif/bin/hv check " + c.ID + " --tier " + c.Tier,
		"exhaustive":          false,
	}
	cov["packages_loaded"] = c.PkgCount
	cov["repo_functions"] = c.FnCount
	cov["load_seconds"] = c.LoadSecs
	for k, v := range extra {
		cov[k] = v
	}
	seed, _ := strconv.Atoi(os.Getenv("VERIF_SEED"))
	ev := evidence{PropertyID: c.ID, Tier: c.Tier, Seed: seed, Level: "other", Coverage: cov, Assumptions: c.Assumptions, WallS: time.Since(start).Seconds(), Violations: len(violated)}
	if ev.Assumptions == nil {
		ev.Assumptions = []string{}
	}
	b, _ := json.MarshalIndent(ev, "", " ")
	if err := os.WriteFile(filepath.Join(evDir, c.ID+".json"), append(b, '\n'), 0o644); err != nil {
		fmt.Fprintf(os.Stderr, "evidence: %v\n", err)
		return 2
	}

	fmt.Printf("hv %s tier=%s configs=%v obligations=%d discharged=%d known=%d violated=%d undecided=%d analysed=%d wall=%.1fs\n",
		c.ID, c.Tier, cfgs, len(order), discharged, len(knownHit), len(violated), len(undecided), len(analysed), time.Since(start).Seconds())
	for _, n := range c.Notes {
		fmt.Println("note:", n)
	}
	for _, o := range knownHit {
		fmt.Printf("KNOWN-FINDING: property=%s %s %s (%s)\n", c.ID, o.Key, o.Detail, o.Pos)
	}
	if len(c.Unresolved) > 0 {
		for _, u := range c.Unresolved {
			fmt.Printf("UNRESOLVED anchor=%s\n", u)
		}
	}
	if len(violated) > 0 {
		_ = os.MkdirAll(vioDir, 0o755)
		for i, o := range violated {
			path := filepath.Join(vioDir, fmt.Sprintf("%d.json", i+1))
			vb, _ := json.MarshalIndent(map[string]any{"property": c.ID, "obligation": o, "configs": cfgsOf[o.Key]}, "", " ")
			_ = os.WriteFile(path, append(vb, '\n'), 0o644)
			fmt.Printf("  violated %s at %s: %s -- %s\n", o.Key, o.Pos, o.Rule, o.Detail)
			fmt.Printf("VIOLATION property=%s replay=%s\n", c.ID, path)
		}
		return 1
	}
	if len(c.Unresolved) > 0 {
		return 2
	}
	if len(undecided) > 0 {
		for _, o := range undecided {
			fmt.Printf("UNDECIDED %s at %s: %s -- %s\n", o.Key, o.Pos, o.Rule, o.Detail)
		}
		return 2
	}
	return 0
}

func maxInt(a, b int) int {
	if a > b {
		return a
	}
	return b
}

func explain(path string) int {
	b, err := os.ReadFile(path)
	if err != nil {
		fmt.Fprintln(os.Stderr, err)
		return 2
	}
	fmt.Println(string(b))
	return 0
}

package main

import (
	"go/token"
	"go/types"

	"golang.org/x/tools/go/ssa"
)

func init() {
	register(&propDef{
		ID:        "C16",
		Run:       checkC16,
		Technique: "static analysis: ownership/overwrite rule on the owning field, lockset, edge-guard reachability (go/ssa)",
		Explanation: "Decides the ownership and typestate core of the reconnecting client for all paths: " +
			"R1 overwrite rule - every store to reconnectableClientImpl.client is preceded on every path by Close() of the value it replaces or by an `old == nil` edge; " +
			"R2 permanent close - `closed` and `client` are accessed only under the mutex (or in lock-context helpers / on the fresh object), reconnect is unreachable on the closed edge, Close sets closed and closes the client in one critical section; " +
			"R3 classification - the drop happens only on the ClosedError type-assertion edge, the non-permanent list contains StreamLimitReachedError, TCP() wraps stream errors with the classifier and reports a refused dial as DialError; " +
			"R4 each reconnect evaluates configFunc before NewClient and bumps the count only on success; " +
			"R5 connect() releases the factory's socket on every error return and stores it in the owning field on success; clientImpl.Close closes conn, transport and packet conn; " +
			"R6 the single-use factory tests and sets `used` under its mutex.",
		NotDecided: []string{
			"'at every quiescent point at most one socket open' as a statement over concurrent fault histories (R1+R5 are its ownership core)",
			"behaviour of in-flight calls on a superseded client",
			"that Close() of quic.Transport/Conn/PacketConn actually releases the OS socket (library)",
		},
		Assumptions: []string{"a method called on a freshly allocated receiver inside its constructor runs before the object escapes"},
	})
}

func checkC16(c *Check) {
	lockBalanceRule(c, "C16", pClient)
	p := c.P
	la := p.Locks()
	rcT := p.Named(pClient, "reconnectableClientImpl")
	if rcT == nil {
		c.Unres("type client.reconnectableClientImpl")
		return
	}
	fClient := p.FieldLike(pClient, "reconnectableClientImpl", "client", func(t types.Type) bool {
		n := namedOf(t)
		return n != nil && n.Obj().Name() == "Client" && types.IsInterface(t)
	})
	fClosed := p.FieldLike(pClient, "reconnectableClientImpl", "closed", isBoolType)
	fMutex := p.FieldLike(pClient, "reconnectableClientImpl", "m", isMutexType)
	fCount := p.FieldLike(pClient, "reconnectableClientImpl", "count", func(t types.Type) bool { return isIntType(t) })
	if fClient == nil || fClosed == nil || fMutex == nil {
		c.Unres("fields client/closed/m of reconnectableClientImpl")
		return
	}
	var clientFns []*ssa.Function
	for _, fn := range p.RepoFns {
		if pk := fnPkg(fn); pk != nil && pk.Pkg.Path() == pClient {
			clientFns = append(clientFns, fn)
		}
	}

	// ---- R1 overwrite rule
	const r1 = "C16.R1 every store to the owning field reconnectableClientImpl.client is preceded on every path by Close() of the replaced value, or dominated by `old == nil`"
	n := 0
	for _, fr := range fieldRefs(p.RepoFns, fClient) {
		if fr.Kind == "addr" {
			c.Bad("C16.R1:alias:"+fnName(fr.Fn), r1, p.InstrPos(fr.Instr), "address of the owning field escapes")
			continue
		}
		if fr.Kind != "store" {
			continue
		}
		n++
		c.Saw(fnName(fr.Fn))
		ok, why := overwriteOK(fr.Instr.(*ssa.Store), fClient, nil)
		key := "C16.R1:store:" + fnName(fr.Fn)
		if isNilConst(fr.Val) {
			key += ":drop"
		}
		c.Req(ok, key, r1, p.InstrPos(fr.Instr), why+" (the superseded client, its packet conn and hop loop stay open)")
	}
	c.Floor("C16.R1:store", n, 2)

	// ---- R2 permanent close
	const r2 = "C16.R2 closed/client/count are accessed under the mutex; reconnect is unreachable once closed; Close sets closed and closes the client in one critical section"
	for _, f := range []*types.Var{fClosed, fClient, fCount} {
		if f == nil {
			continue
		}
		for _, fr := range fieldRefs(p.RepoFns, f) {
			if fr.Kind == "addr" {
				continue
			}
			// fresh object in constructor
			if al, ok := accessPath(fr.Addr).Root.(*ssa.Alloc); ok && al.Parent() == fr.Fn {
				continue
			}
			key := "C16.R2:lock:" + f.Name() + ":" + fr.Kind + ":" + fnName(fr.Fn)
			c.Req(la.Holds(fr.Instr, fMutex, lockW), key, r2, p.InstrPos(fr.Instr), "field "+f.Name()+" accessed without holding m")
		}
	}
	reconnect := p.Fn(pClient, "(*reconnectableClientImpl).reconnect")
	clientDo := p.Fn(pClient, "(*reconnectableClientImpl).clientDo")
	closeFn := p.Fn(pClient, "(*reconnectableClientImpl).Close")
	if reconnect == nil || clientDo == nil || closeFn == nil {
		c.Unres("reconnectableClientImpl.reconnect/clientDo/Close")
		return
	}
	c.Saw(fnName(reconnect))
	c.Saw(fnName(clientDo))
	c.Saw(fnName(closeFn))
	closedFalse := func(cond ssa.Value, pol bool) bool { return !pol && isLoadOfField(cond, fClosed) }
	nRe := 0
	for _, cs := range la.callers[reconnect] {
		fn := cs.Parent()
		if al, ok := resolve(cs.Common().Args[0]).(*ssa.Alloc); ok && al.Parent() == fn {
			c.OK("C16.R2:reconnect-caller:"+fnName(fn), r2, p.InstrPos(cs))
			continue // constructor, object not yet shared
		}
		nRe++
		key := "C16.R2:reconnect-caller:" + fnName(fn)
		good := guardedBy(cs, closedFalse) && la.Holds(cs, fMutex, lockW)
		c.Req(good, key, r2, p.InstrPos(cs), "reconnect reachable without crossing the `closed == false` edge under the mutex (a closed client would reconnect)")
	}
	c.Floor("C16.R2:reconnect-caller", nRe, 1)
	c.Req(!la.escaped[reconnect], "C16.R2:reconnect-not-escaped", r2, p.Pos(reconnect.Pos()), "reconnect used as a value / goroutine")
	// on the closed edge clientDo returns ClosedError
	{
		isClosedErr := func(v ssa.Value) bool {
			if mi, ok := v.(*ssa.MakeInterface); ok {
				if nn := namedOf(mi.X.Type()); nn != nil && nn.Obj().Name() == "ClosedError" {
					return true
				}
			}
			return false
		}
		// the gate: clientDo itself, or the helper of its package that tests `closed` for it
		gate := clientDo
		var gateCall *ssa.Call
		hasClosedTest := func(fn *ssa.Function) bool {
			found := false
			for _, b := range fn.Blocks {
				for i := range b.Succs {
					if cnd, pol, ok := edgeFact(b, i); ok && closedFalse(cnd, pol) {
						found = true
					}
				}
			}
			return found
		}
		if !hasClosedTest(clientDo) {
			for _, ci := range callsIn(clientDo, func(ci ssa.CallInstruction) bool {
				g := staticCallee(ci)
				return g != nil && fnPkg(g) == fnPkg(clientDo) && len(g.Blocks) > 0 && hasClosedTest(g)
			}) {
				if call, ok := ci.(*ssa.Call); ok && gateCall == nil {
					gateCall, gate = call, staticCallee(ci)
				}
			}
		}
		good := false
		for _, in := range reachFrom(gate, nil, nil, closedFalse) {
			if r, ok := in.(*ssa.Return); ok && len(r.Results) >= 1 {
				res := retResults(r)
				if res == nil {
					continue
				}
				if isClosedErr(res[len(res)-1]) {
					good = true
				} else if gate != clientDo {
					good = false // the helper leaves the closed edge with something else
					break
				}
			}
		}
		var gateErr ssa.Value
		if gate != clientDo && good {
			// the helper's error must come back out of clientDo unchanged
			gateErr = extractOf(gateCall, gate.Signature.Results().Len()-1)
			good = false
			allInstrs(clientDo, func(in ssa.Instruction) {
				if r, ok := in.(*ssa.Return); ok && len(r.Results) == 2 && gateErr != nil && resolve(r.Results[1]) == gateErr {
					good = true
				}
			})
		}
		c.Req(good, "C16.R2:closed-edge-returns-ClosedError", r2, p.Pos(clientDo.Pos()), "the closed edge does not return ClosedError")
		// the user callback runs only after the closed test
		gateOK := func(cond ssa.Value, pol bool) bool {
			if gate == clientDo {
				return closedFalse(cond, pol)
			}
			x, isNil, ok := nilTest(cond, pol)
			return ok && isNil && gateErr != nil && resolve(x) == gateErr
		}
		for _, in := range reachFrom(clientDo, nil, nil, gateOK) {
			if call, ok := in.(*ssa.Call); ok && !call.Call.IsInvoke() {
				if _, isParam := call.Call.Value.(*ssa.Parameter); isParam {
					c.Bad("C16.R2:call-after-close", r2, p.InstrPos(in), "the operation callback is reachable without the closed test")
				}
			}
		}
	}
	// Close: store closed=true and Close() of client within one region
	{
		var stClosed *ssa.Store
		var closeCall ssa.Instruction
		allInstrs(closeFn, func(in ssa.Instruction) {
			if st, ok := in.(*ssa.Store); ok {
				if fa, ok := st.Addr.(*ssa.FieldAddr); ok && structField(fa.X.Type(), fa.Field) == fClosed && isConstBool(st.Val, true) {
					stClosed = st
				}
			}
			if isCloseOf(in, func(v ssa.Value) bool { return isLoadOfField(v, fClient) }) {
				closeCall = in
			}
		})
		good := stClosed != nil && closeCall != nil && la.sameRegion(stClosed, closeCall, fMutex, lockW)
		c.Req(good, "C16.R2:Close-region", r2, p.Pos(closeFn.Pos()), "Close does not set closed and close the current client inside one critical section")
		// every path through Close sets closed
		if stClosed != nil {
			exits := exitsReachableAvoiding(closeFn, nil, func(in ssa.Instruction) bool { return in == stClosed })
			c.Req(len(exits) == 0, "C16.R2:Close-always-sets-closed", r2, p.Pos(closeFn.Pos()), "a path through Close returns without setting closed")
		}
		// closed is only ever stored as true
		for _, fr := range fieldRefs(p.RepoFns, fClosed) {
			if fr.Kind == "store" {
				c.Req(isConstBool(fr.Val, true), "C16.R2:closed-only-true:"+fnName(fr.Fn), r2, p.InstrPos(fr.Instr), "closed is reset")
			}
		}
	}

	// ---- R3 classification
	const r3 = "C16.R3 the client is dropped only on the ClosedError type-assertion edge; stream errors pass through the classifier whose non-permanent list contains StreamLimitReachedError; a refused dial is a DialError"
	for _, fr := range fieldRefs([]*ssa.Function{clientDo}, fClient) {
		if fr.Kind != "store" {
			continue
		}
		isClosedErrEdge := func(cond ssa.Value, pol bool) bool {
			if !pol {
				return false
			}
			tup, idx := tupleSource(cond)
			if ta, ok := tup.(*ssa.TypeAssert); ok && idx == 1 && ta.CommaOk {
				if nn := namedOf(ta.AssertedType); nn != nil && nn.Obj().Name() == "ClosedError" {
					return true
				}
			}
			return false
		}
		c.Req(guardedBy(fr.Instr, isClosedErrEdge), "C16.R3:drop-only-on-ClosedError", r3, p.InstrPos(fr.Instr), "the current client is dropped on errors other than ClosedError")
	}
	wrap := p.Fn(pClient, "wrapIfConnectionClosed")
	if wrap == nil {
		c.Unres("client.wrapIfConnectionClosed")
	} else {
		c.Saw(fnName(wrap))
		// list contents: package initialiser stores a StreamLimitReachedError
		found := false
		if initFn := p.Fn(pClient, "init"); initFn != nil {
			allInstrs(initFn, func(in ssa.Instruction) {
				if mi, ok := in.(*ssa.MakeInterface); ok {
					if nn := namedOf(mi.X.Type()); nn != nil && nn.Obj().Name() == "StreamLimitReachedError" {
						found = true
					}
				}
			})
		}
		c.Req(found, "C16.R3:non-permanent-list", r3, p.Pos(wrap.Pos()), "quic.StreamLimitReachedError is no longer in the non-permanent error list (a stream limit would tear the connection down)")
		// wrap returns its parameter on the errors.Is true edge, ClosedError otherwise
		isEdge := func(cond ssa.Value, pol bool) bool {
			call, ok := cond.(*ssa.Call)
			return ok && pol && calleeIs(call, "errors", "Is")
		}
		retParamGuarded, retClosed := true, false
		nret := 0
		allInstrs(wrap, func(in ssa.Instruction) {
			r, ok := in.(*ssa.Return)
			if !ok || len(r.Results) != 1 {
				return
			}
			nret++
			if resolve(r.Results[0]) == ssa.Value(wrap.Params[0]) {
				if !guardedBy(r, isEdge) {
					retParamGuarded = false
				}
			} else if mi, ok := r.Results[0].(*ssa.MakeInterface); ok {
				if nn := namedOf(mi.X.Type()); nn != nil && nn.Obj().Name() == "ClosedError" {
					retClosed = true
				}
			}
		})
		c.Req(nret >= 2 && retParamGuarded && retClosed, "C16.R3:classifier-shape", r3, p.Pos(wrap.Pos()), "classifier no longer returns the error unwrapped only on errors.Is(list element) and ClosedError otherwise")
		// TCP(): error returns after openStream / WriteTCPRequest / ReadTCPResponse go through wrap
		tcp := p.Fn(pClient, "(*clientImpl).TCP")
		if tcp == nil {
			c.Unres("(*clientImpl).TCP")
		} else {
			c.Saw(fnName(tcp))
			wrapped := 0
			dialErr := false
			allInstrs(tcp, func(in ssa.Instruction) {
				r, ok := in.(*ssa.Return)
				if !ok || len(r.Results) != 2 {
					return
				}
				if mi, ok := r.Results[1].(*ssa.MakeInterface); ok {
					if nn := namedOf(mi.X.Type()); nn != nil && nn.Obj().Name() == "DialError" {
						dialErr = true
						return
					}
				}
				ev := resolve(r.Results[1])
				if isNilConst(ev) {
					return
				}
				key := "C16.R3:TCP-error-return"
				if call, ok := ev.(*ssa.Call); ok && staticCallee(call) == wrap {
					wrapped++
					return
				}
				if mi, ok := ev.(*ssa.MakeInterface); ok {
					if nn := namedOf(mi.X.Type()); nn != nil && nn.Obj().Name() == "DialError" {
						dialErr = true
						return
					}
				}
				c.Bad(key+":unclassified", r3, p.InstrPos(r), "an error return of clientImpl.TCP bypasses the closed-connection classifier")
			})
			c.Req(wrapped >= 3, "C16.R3:TCP-wrapped-returns", r3, p.Pos(tcp.Pos()), "fewer than 3 error returns of clientImpl.TCP go through the classifier")
			c.Req(dialErr, "C16.R3:TCP-dial-error", r3, p.Pos(tcp.Pos()), "refused dial no longer reported as DialError")
		}
	}

	// ---- R4 fresh configuration and count
	const r4 = "C16.R4 reconnect evaluates configFunc, passes its result to NewClient, and increments count / notifies only on the success edge"
	{
		var newClientCall *ssa.Call
		allInstrs(reconnect, func(in ssa.Instruction) {
			if call, ok := in.(*ssa.Call); ok && calleeIs(call, pClient, "NewClient") {
				newClientCall = call
			}
		})
		if newClientCall == nil {
			c.Bad("C16.R4:NewClient", r4, p.Pos(reconnect.Pos()), "reconnect does not call NewClient")
		} else {
			fromCfg := false
			if tup, idx := tupleSource(newClientCall.Call.Args[0]); tup != nil && idx == 0 {
				if call, ok := tup.(*ssa.Call); ok {
					ap := accessPath(call.Call.Value)
					if len(ap.Fields) == 1 && ap.Fields[0].Name() == "configFunc" {
						fromCfg = true
					}
				}
			}
			c.Req(fromCfg, "C16.R4:fresh-config", r4, p.InstrPos(newClientCall), "NewClient's config is not the result of calling configFunc in this reconnect")
			// every attempt re-evaluates the configuration: no path returns before the configFunc call
			// (an outcome remembered from an earlier attempt would make one failure permanent)
			isCfgCall := func(in ssa.Instruction) bool {
				call, ok := in.(*ssa.Call)
				if !ok || call.Call.IsInvoke() || staticCallee(call) != nil {
					return false
				}
				ap := accessPath(call.Call.Value)
				return len(ap.Fields) == 1 && ap.Fields[0].Name() == "configFunc"
			}
			if exits := exitsReachableAvoiding(reconnect, nil, isCfgCall); fromCfg {
				pos := p.Pos(reconnect.Pos())
				if len(exits) > 0 {
					pos = p.InstrPos(exits[0])
				}
				c.Req(len(exits) == 0, "C16.R4:config-evaluated-on-every-attempt", r4, pos, "a path through reconnect returns without evaluating configFunc: the result of an earlier attempt decides this one, so a client that failed once never reconnects although the configuration is valid again")
			}
			errv := extractOf(newClientCall, 2)
			okEdge := func(cond ssa.Value, pol bool) bool {
				x, isNil, ok := nilTest(cond, pol)
				return ok && isNil && errv != nil && resolve(x) == errv
			}
			if fCount != nil {
				for _, fr := range fieldRefs([]*ssa.Function{reconnect}, fCount) {
					if fr.Kind == "store" {
						c.Req(guardedBy(fr.Instr, okEdge), "C16.R4:count-on-success", r4, p.InstrPos(fr.Instr), "count incremented on a failed connect")
					}
				}
			}
			// the stored client is NewClient's result
			for _, fr := range fieldRefs([]*ssa.Function{reconnect}, fClient) {
				if fr.Kind == "store" {
					tup, idx := tupleSource(fr.Val)
					c.Req(tup == ssa.Value(newClientCall) && idx == 0, "C16.R4:client-is-NewClient-result", r4, p.InstrPos(fr.Instr), "reconnect stores something other than NewClient's result")
				}
			}
		}
	}

	// ---- R5 connect() cleans up on failure
	const r5 = "C16.R5 the socket returned by ConnFactory.New reaches Close() on every error return of connect() and the owning field on success; clientImpl.Close closes conn, transport and packet conn"
	connect := p.Fn(pClient, "(*clientImpl).connect")
	if connect == nil {
		c.Unres("(*clientImpl).connect")
	} else {
		c.Saw(fnName(connect))
		nNew := 0
		allInstrs(connect, func(in ssa.Instruction) {
			call, ok := in.(*ssa.Call)
			if !ok || !invokeIs(call, "New") {
				return
			}
			if nn := namedOf(call.Call.Value.Type()); nn == nil || nn.Obj().Name() != "ConnFactory" {
				return
			}
			nNew++
			leaks := leakPaths(call, 0, 1)
			detail := ""
			for _, l := range leaks {
				detail += " return at " + p.InstrPos(l)
			}
			c.Req(len(leaks) == 0, "C16.R5:connect-socket-released", r5, p.InstrPos(call), "socket from the connection factory neither closed nor stored on:"+detail)
		})
		c.Floor("C16.R5:factory-call", nNew, 1)
	}
	if cclose := p.Fn(pClient, "(*clientImpl).Close"); cclose == nil {
		c.Unres("(*clientImpl).Close")
	} else {
		c.Saw(fnName(cclose))
		for _, fname := range []string{"conn", "tr", "pktConn"} {
			f := p.Field(pClient, "clientImpl", fname)
			if f == nil {
				c.Unres("clientImpl." + fname)
				continue
			}
			closer := func(in ssa.Instruction) bool {
				call, ok := in.(ssa.CallInstruction)
				if !ok {
					return false
				}
				for _, m := range []string{"Close", "CloseWithError"} {
					if recv, ok := methodCallNamed(call, m); ok && isLoadOfField(recv, f) {
						return true
					}
				}
				return false
			}
			exits := exitsReachableAvoiding(cclose, nil, closer)
			c.Req(len(exits) == 0, "C16.R5:Close-closes-"+fname, r5, p.Pos(cclose.Pos()), "clientImpl.Close has a path that does not close "+fname)
		}
	}

	// ---- R6 single-use factory
	const r6 = "C16.R6 singleUseConnFactory tests and sets `used` under its mutex and calls Open only on the unused edge"
	if fUsed := p.FieldLike(pAppCmd, "singleUseConnFactory", "used", isBoolType); fUsed == nil {
		c.Unres("app/cmd singleUseConnFactory.used")
	} else {
		fMu := p.FieldLike(pAppCmd, "singleUseConnFactory", "mu", isMutexType)
		for _, fr := range fieldRefs(p.RepoFns, fUsed) {
			if fr.Kind == "addr" {
				continue
			}
			if al, ok := accessPath(fr.Addr).Root.(*ssa.Alloc); ok && al.Parent() == fr.Fn {
				continue
			}
			c.Req(fMu != nil && la.Holds(fr.Instr, fMu, lockW), "C16.R6:lock:"+fr.Kind+":"+fnName(fr.Fn), r6, p.InstrPos(fr.Instr), "`used` accessed without the factory mutex")
			if fr.Kind == "store" {
				c.Req(isConstBool(fr.Val, true), "C16.R6:used-only-true:"+fnName(fr.Fn), r6, p.InstrPos(fr.Instr), "`used` reset")
			}
		}
		if newFn := p.Fn(pAppCmd, "(*singleUseConnFactory).New"); newFn != nil {
			c.Saw(fnName(newFn))
			usedFalse := func(cond ssa.Value, pol bool) bool { return !pol && isLoadOfField(cond, fUsed) }
			nOpen := 0
			allInstrs(newFn, func(in ssa.Instruction) {
				call, ok := in.(*ssa.Call)
				if !ok || call.Call.IsInvoke() || staticCallee(call) != nil {
					return
				}
				ap := accessPath(call.Call.Value)
				if len(ap.Fields) == 1 && ap.Fields[0].Name() == "Open" {
					nOpen++
					c.Req(guardedBy(call, usedFalse), "C16.R6:open-once", r6, p.InstrPos(call), "Open reachable when the factory was already used")
				}
			})
			c.Floor("C16.R6:open", nOpen, 1)
		} else {
			c.Unres("(*singleUseConnFactory).New")
		}
	}
	_ = token.ADD
}

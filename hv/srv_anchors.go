package main

import (
	"go/token"
	"go/types"

	"golang.org/x/tools/go/ssa"
)

// Anchors of core/server resolved by role (shared by C01, C02, C06, C10, C15).
type srvAnchors struct {
	ok           bool
	handleClient *ssa.Function
	newHandler   *ssa.Function
	serveHTTP    *ssa.Function
	dispatcher   *ssa.Function
	H            *types.Named // per-connection handler type
	flag         *types.Var   // the bool gate field
	flagOnH      bool
	authMutex    *types.Var
	authCall     ssa.CallInstruction // invoke Authenticator.Authenticate
	authOK       ssa.Value           // its result #0
	authID       ssa.Value           // its result #1
	handoffs     []ssa.Instruction   // go/call instructions in the dispatcher that pass the stream on
}

func namedOf(t types.Type) *types.Named {
	if p, ok := t.(*types.Pointer); ok {
		t = p.Elem()
	}
	n, _ := t.(*types.Named)
	return n
}

func fieldOwner(p *Prog, f *types.Var) *types.Named {
	// search repo named struct types for the field object
	for _, pp := range p.Pkgs {
		sc := pp.Types.Scope()
		for _, n := range sc.Names() {
			tn, ok := sc.Lookup(n).(*types.TypeName)
			if !ok {
				continue
			}
			st, ok := tn.Type().Underlying().(*types.Struct)
			if !ok {
				continue
			}
			for i := 0; i < st.NumFields(); i++ {
				if st.Field(i) == f {
					nn, _ := tn.Type().(*types.Named)
					return nn
				}
			}
		}
	}
	return nil
}

// usesValue: does instruction in mention v (after resolve) as an operand?
func usesValue(in ssa.Instruction, v ssa.Value) bool {
	for _, op := range in.Operands(nil) {
		if *op == nil {
			continue
		}
		if *op == v || resolve(*op) == v {
			return true
		}
	}
	return false
}

// derivedFrom: v is computed (within the function) from src.
func derivedFrom(v, src ssa.Value) bool {
	return deps(v, depOpts{throughCalls: true})[src]
}

func (c *Check) serverAnchors() *srvAnchors {
	p := c.P
	a := &srvAnchors{}
	// handleClient: the function storing into http3.Server.Handler
	for _, fn := range p.RepoFns {
		pk := fnPkg(fn)
		if pk == nil || pk.Pkg.Path() != pServer {
			continue
		}
		allInstrs(fn, func(in ssa.Instruction) {
			st, ok := in.(*ssa.Store)
			if !ok {
				return
			}
			fa, ok := st.Addr.(*ssa.FieldAddr)
			if !ok {
				return
			}
			f := structField(fa.X.Type(), fa.Field)
			if f == nil || f.Pkg() == nil || f.Pkg().Path() != pQUIC+"/http3" {
				return
			}
			switch f.Name() {
			case "Handler":
				a.handleClient = fn
				v := resolve(st.Val)
				a.H = namedOf(v.Type())
				if call, ok := v.(*ssa.Call); ok {
					a.newHandler = staticCallee(call)
				}
			case "StreamDispatcher":
				if mc, ok := st.Val.(*ssa.MakeClosure); ok {
					bf := mc.Fn.(*ssa.Function)
					if obj, ok := bf.Object().(*types.Func); ok {
						a.dispatcher = p.SSA.FuncValue(obj)
					} else {
						a.dispatcher = bf // a closure literal
					}
				} else if f, ok := st.Val.(*ssa.Function); ok {
					a.dispatcher = f
				}
			}
		})
	}
	if a.handleClient == nil || a.H == nil {
		c.Unres("core/server: function assigning http3.Server.Handler (per-connection entry)")
		return a
	}
	if a.dispatcher == nil {
		c.Unres("core/server: value assigned to http3.Server.StreamDispatcher")
		return a
	}
	a.serveHTTP = p.MethodOf(types.NewPointer(a.H), "ServeHTTP")
	if a.serveHTTP == nil {
		c.Unres("ServeHTTP method of the handler type " + a.H.String())
		return a
	}
	// Authenticate call in ServeHTTP
	for _, fn := range withAnon(a.serveHTTP) {
		for _, call := range callsIn(fn, func(ci ssa.CallInstruction) bool { return invokeIs(ci, "Authenticate") }) {
			if a.authCall == nil {
				a.authCall = call
			}
		}
	}
	if a.authCall == nil {
		c.Unres("call of Authenticator.Authenticate inside " + fnName(a.serveHTTP))
		return a
	}
	if v := a.authCall.Value(); v != nil {
		a.authOK = extractOf(v, 0)
		a.authID = extractOf(v, 1)
	}
	// hand-offs in the dispatcher: go statements and calls receiving the stream
	var streamParam *ssa.Parameter
	for _, pr := range a.dispatcher.Params {
		if n := namedOf(pr.Type()); n != nil && n.Obj().Name() == "Stream" {
			streamParam = pr
		}
	}
	allInstrs(a.dispatcher, func(in ssa.Instruction) {
		if g, ok := in.(*ssa.Go); ok {
			a.handoffs = append(a.handoffs, g)
		}
	})
	_ = streamParam
	// the gate flag: bool fields loaded as branch conditions in the dispatcher
	cands := map[*types.Var]bool{}
	for _, b := range a.dispatcher.Blocks {
		for i := range b.Succs {
			cond, _, ok := edgeFact(b, i)
			if !ok {
				continue
			}
			if u, ok := cond.(*ssa.UnOp); ok && u.Op == token.MUL {
				ap := accessPath(u)
				if len(ap.Fields) > 0 {
					f := ap.Fields[len(ap.Fields)-1]
					if bt, ok := f.Type().Underlying().(*types.Basic); ok && bt.Kind() == types.Bool {
						cands[f] = true
					}
				}
			}
		}
	}
	for f := range cands {
		if fieldOwner(p, f) == a.H {
			a.flag, a.flagOnH = f, true
		}
	}
	if a.flag == nil {
		for f := range cands {
			a.flag = f
		}
	}
	if a.flag == nil {
		// no bool gate at all in the dispatcher; fall back to the name for the remaining rules
		a.flag = p.Field(pServer, a.H.Obj().Name(), "authenticated")
		if a.flag != nil {
			a.flagOnH = true
		}
	}
	a.authMutex = nil
	if st, ok := a.H.Underlying().(*types.Struct); ok {
		for i := 0; i < st.NumFields(); i++ {
			if n := namedOf(st.Field(i).Type()); n != nil && n.Obj().Pkg() != nil && n.Obj().Pkg().Path() == "sync" && n.Obj().Name() == "Mutex" {
				a.authMutex = st.Field(i)
			}
		}
	}
	a.ok = true
	return a
}

// isFlagLoad: v is a load of the gate flag reached through fn's receiver.
func (a *srvAnchors) isFlagLoad(v ssa.Value, viaReceiverOf *ssa.Function) bool {
	// trivial getter: a static call of a method whose only result is the flag
	// loaded through its own receiver, applied to our receiver
	if call, ok := v.(*ssa.Call); ok {
		f := staticCallee(call)
		if f == nil || len(f.Blocks) != 1 || len(call.Call.Args) != 1 || len(f.Params) != 1 {
			return false
		}
		ret, ok := f.Blocks[0].Instrs[len(f.Blocks[0].Instrs)-1].(*ssa.Return)
		if !ok || len(ret.Results) != 1 || !a.isFlagLoad(ret.Results[0], f) {
			return false
		}
		if viaReceiverOf != nil {
			return len(viaReceiverOf.Params) > 0 && resolve(call.Call.Args[0]) == viaReceiverOf.Params[0]
		}
		return true
	}
	u, ok := v.(*ssa.UnOp)
	if !ok || u.Op != token.MUL {
		return false
	}
	ap := accessPath(u)
	if len(ap.Fields) == 0 || ap.Fields[len(ap.Fields)-1] != a.flag {
		return false
	}
	if viaReceiverOf != nil {
		if len(viaReceiverOf.Params) == 0 || ap.Root != ssa.Value(viaReceiverOf.Params[0]) || len(ap.Fields) != 1 {
			return false
		}
	}
	return true
}

// authOKEdge accepts the true-edge of the authenticator's verdict.
func (a *srvAnchors) authOKEdge(cond ssa.Value, pol bool) bool {
	return pol && a.authOK != nil && resolve(cond) == a.authOK
}

// inAuthRegion: the instruction executes only after the authenticator said
// yes for this handler: it is in ServeHTTP behind the verdict's true-edge, or in
// a helper all of whose call sites are (transitively) in that region.
func (a *srvAnchors) inAuthRegion(la *LockAnalysis, in ssa.Instruction, depth int) bool {
	fn := in.Parent()
	if fn == a.serveHTTP {
		return guardedBy(in, a.authOKEdge)
	}
	if depth > 4 || la.escaped[fn] {
		return false
	}
	cs := la.callers[fn]
	if len(cs) == 0 {
		return false
	}
	for _, cs := range cs {
		if !a.inAuthRegion(la, cs, depth+1) {
			return false
		}
	}
	return true
}

// rootIsHandler: the access path starts at a *H value that is the enclosing
// function's parameter (receiver or helper argument).
func (a *srvAnchors) rootIsHandler(ap accessPathT) bool {
	if _, ok := ap.Root.(*ssa.Parameter); !ok {
		return false
	}
	return namedOf(ap.Root.Type()) == a.H
}

package main

import (
	"fmt"
	"go/token"
	"go/types"
	"sort"
	"strings"

	"golang.org/x/tools/go/ssa"
)

// K4 MayWrite: does any instruction reachable from a function store into the
// backing array of one of its slice parameters?
//
// Two taint kinds: tARR = the value points into the array (slice, element
// pointer, array pointer), tHOLD = the value (struct, pointer, interface,
// closure, map) holds such a value somewhere.  Flow-insensitive per function,
// context-sensitive on the tainted inputs (kind + concrete types of interface
// values), summaries memoised, callees followed through their SSA bodies
// (dependencies and the standard library included when the program was loaded
// with AllDeps).  Interface calls on a tainted receiver are resolved through
// the concrete types that were wrapped (tracked along the taint), falling back
// to the VTA call graph.  Body-less functions (assembly) need an entry in
// mwLeafTable; anything else is reported as an undecided leaf.

type taintKind uint8

const (
	tNone taintKind = iota
	tHOLD
	tARR
)

type mwIn struct {
	kind taintKind
	cts  []types.Type // concrete types if the value is an interface and they are known
}

type mwSite struct {
	Pos   string
	Fn    string
	What  string
	Chain string
}

type mwSummary struct {
	writes []mwSite
	ret    taintKind
	retCT  map[string]types.Type
	held   map[int]taintKind // parameters that become holders of the tainted array
	leaves map[string]bool
}

// body-less leaves: which argument indexes are written (others only read).
type leafSpec struct {
	writes []int
	ret    int // -1 none, else arg index aliased by the result
}

var mwLeafTable = map[string]leafSpec{
	"internal/bytealg.IndexByte":                 {nil, -1},
	"internal/bytealg.IndexByteString":           {nil, -1},
	"internal/bytealg.Equal":                     {nil, -1},
	"internal/bytealg.Compare":                   {nil, -1},
	"internal/bytealg.Count":                     {nil, -1},
	"internal/bytealg.CountString":               {nil, -1},
	"internal/bytealg.Index":                     {nil, -1},
	"internal/bytealg.IndexString":               {nil, -1},
	"internal/bytealg.MakeNoZero":                {nil, -1},
	"bytes.IndexByte":                            {nil, -1},
	"bytes.Equal":                                {nil, -1},
	"runtime.memequal":                           {nil, -1},
	"crypto/subtle.XORBytes":                     {[]int{0}, -1},
	"crypto/internal/fips140/subtle.xorBytes":    {[]int{0}, -1},
	"crypto/internal/fips140/sha256.blockAMD64":  {[]int{0}, -1},
	"crypto/internal/fips140/sha256.blockAVX2":   {[]int{0}, -1},
	"crypto/internal/fips140/sha256.blockSHANI":  {[]int{0}, -1},
	"crypto/internal/fips140/sha512.blockAMD64":  {[]int{0}, -1},
	"crypto/internal/fips140/sha512.blockAVX2":   {[]int{0}, -1},
	"crypto/sha1.blockAMD64":                     {[]int{0}, -1},
	"crypto/sha1.blockAVX2":                      {[]int{0}, -1},
	"crypto/sha1.blockSHANI":                     {[]int{0}, -1},
	"crypto/md5.block":                           {[]int{0}, -1},
	"golang.org/x/crypto/blake2b.hashBlocksAVX2": {[]int{0, 1}, -1},
	"golang.org/x/crypto/blake2b.hashBlocksAVX":  {[]int{0, 1}, -1},
	"golang.org/x/crypto/blake2b.hashBlocksSSE4": {[]int{0, 1}, -1},
	"crypto/internal/fips140/aes.encryptBlockAsm":               {[]int{2}, -1},
	"crypto/internal/fips140/aes.decryptBlockAsm":               {[]int{2}, -1},
	"crypto/internal/fips140/aes.expandKeyAsm":                  {[]int{2, 3}, -1},
	"crypto/internal/fips140/aes.ctrBlocks1Asm":                 {[]int{2}, -1},
	"crypto/internal/fips140/aes.ctrBlocks2Asm":                 {[]int{2}, -1},
	"crypto/internal/fips140/aes.ctrBlocks4Asm":                 {[]int{2}, -1},
	"crypto/internal/fips140/aes.ctrBlocks8Asm":                 {[]int{2}, -1},
	"crypto/internal/fips140/aes/gcm.gcmAesInit":                {[]int{0}, -1},
	"crypto/internal/fips140/aes/gcm.gcmAesData":                {[]int{2}, -1},
	"crypto/internal/fips140/aes/gcm.gcmAesEnc":                 {[]int{1, 3, 4}, -1},
	"crypto/internal/fips140/aes/gcm.gcmAesDec":                 {[]int{1, 3, 4}, -1},
	"crypto/internal/fips140/aes/gcm.gcmAesFinish":              {[]int{1, 2}, -1},
	"golang.org/x/crypto/chacha20poly1305.chacha20Poly1305Open": {[]int{0}, -1},
	"golang.org/x/crypto/chacha20poly1305.chacha20Poly1305Seal": {[]int{0}, -1},
	"golang.org/x/crypto/internal/poly1305.update":              {[]int{0}, -1},
	"golang.org/x/crypto/chacha20.xorKeyStreamVX":               {[]int{0}, -1},
}

type mwAnalysis struct {
	p        *Prog
	memo     map[string]*mwSummary
	busy     map[string]bool
	Visited  map[*ssa.Function]bool
	Leaves   map[string]bool
	fieldCT  map[*types.Var]map[string]types.Type
	Fallback []string // dynamic calls resolved through the VTA graph
	TooWide  []string // dynamic calls on tainted values that could not be narrowed
}

func (p *Prog) newMayWrite() *mwAnalysis {
	return &mwAnalysis{p: p, memo: map[string]*mwSummary{}, busy: map[string]bool{}, Visited: map[*ssa.Function]bool{}, Leaves: map[string]bool{}, fieldCT: map[*types.Var]map[string]types.Type{}}
}

// Run analyses fn twice (the second pass sees the field type facts gathered
// by the first).
func (a *mwAnalysis) Run(fn *ssa.Function, in map[int]mwIn) *mwSummary {
	a.analyse(fn, in, nil)
	a.memo = map[string]*mwSummary{}
	a.Fallback, a.TooWide = nil, nil
	return a.analyse(fn, in, nil)
}

func pointerLike(t types.Type) bool { return pointerLikeD(t, 0) }

func pointerLikeD(t types.Type, d int) bool {
	if d > 6 {
		return true
	}
	switch u := t.Underlying().(type) {
	case *types.Basic:
		return u.Kind() == types.UnsafePointer
	case *types.Slice, *types.Pointer, *types.Interface, *types.Map, *types.Chan, *types.Signature:
		return true
	case *types.Struct:
		for i := 0; i < u.NumFields(); i++ {
			if pointerLikeD(u.Field(i).Type(), d+1) {
				return true
			}
		}
		return false
	case *types.Array:
		return pointerLikeD(u.Elem(), d+1)
	case *types.Tuple:
		for i := 0; i < u.Len(); i++ {
			if pointerLikeD(u.At(i).Type(), d+1) {
				return true
			}
		}
		return false
	}
	return false
}

func ctKey(m map[string]types.Type) string {
	if m == nil {
		return "?"
	}
	var ks []string
	for k := range m {
		ks = append(ks, k)
	}
	sort.Strings(ks)
	return strings.Join(ks, "+")
}

func (a *mwAnalysis) analyse(fn *ssa.Function, in map[int]mwIn, chain []string) *mwSummary {
	key := fn.String() + "|"
	var ks []int
	for k := range in {
		ks = append(ks, k)
	}
	sort.Ints(ks)
	for _, k := range ks {
		var ts []string
		for _, t := range in[k].cts {
			ts = append(ts, t.String())
		}
		key += fmt.Sprintf("%d:%d:%s,", k, in[k].kind, strings.Join(ts, "+"))
	}
	if s, ok := a.memo[key]; ok {
		return s
	}
	sum := &mwSummary{held: map[int]taintKind{}, leaves: map[string]bool{}}
	if a.busy[key] || len(chain) > 60 {
		return sum
	}
	a.busy[key] = true
	defer func() { a.busy[key] = false }()
	a.Visited[fn] = true
	name := fn.String()
	if len(fn.Blocks) == 0 {
		spec, ok := mwLeafTable[name]
		if !ok {
			sum.leaves[name] = true
			a.Leaves[name] = true
		} else {
			for _, w := range spec.writes {
				if in[w].kind == tARR {
					sum.writes = append(sum.writes, mwSite{Pos: "-", Fn: name, What: fmt.Sprintf("assembly kernel writes argument #%d", w), Chain: strings.Join(chain, " → ")})
				}
			}
			if spec.ret >= 0 {
				sum.ret = in[spec.ret].kind
			}
		}
		a.memo[key] = sum
		return sum
	}
	chain = append(chain, fnName(fn))
	chainS := strings.Join(chain, " → ")
	t := map[ssa.Value]taintKind{}
	ct := map[ssa.Value]map[string]types.Type{}
	bind := func(v ssa.Value, i mwIn) {
		if i.kind == tNone {
			return
		}
		t[v] = i.kind
		if i.cts != nil {
			m := map[string]types.Type{}
			for _, x := range i.cts {
				m[x.String()] = x
			}
			ct[v] = m
		}
	}
	for i, prm := range fn.Params {
		bind(prm, in[i])
	}
	for i, fv := range fn.FreeVars {
		bind(fv, in[1000+i])
	}
	set := func(v ssa.Value, k taintKind) bool {
		if k == tNone || v == nil || !pointerLike(v.Type()) || t[v] >= k {
			return false
		}
		t[v] = k
		return true
	}
	// addCT merges concrete types of src into dst; unknown poisons.
	addCT := func(dst, src ssa.Value) bool {
		if t[src] == tNone || !types.IsInterface(dst.Type()) {
			return false
		}
		sm, ok := ct[src]
		if !ok {
			if _, had := ct[dst]; had && ct[dst] == nil {
				return false
			}
			if _, had := ct[dst]; !had || ct[dst] != nil {
				ct[dst] = nil // unknown
				return true
			}
			return false
		}
		dm, had := ct[dst]
		if had && dm == nil {
			return false
		}
		if !had {
			dm = map[string]types.Type{}
			ct[dst] = dm
		}
		ch := !had
		for k, v := range sm {
			if _, ok := dm[k]; !ok {
				dm[k] = v
				ch = true
			}
		}
		return ch
	}
	var markHolder func(addr ssa.Value, depth int) bool
	markHolder = func(addr ssa.Value, depth int) bool {
		if depth > 12 || addr == nil {
			return false
		}
		switch x := addr.(type) {
		case *ssa.FieldAddr:
			ch := setForce(t, x, tHOLD)
			return markHolder(x.X, depth+1) || ch
		case *ssa.IndexAddr:
			if t[x.X] == tARR {
				return false
			}
			ch := setForce(t, x, tHOLD)
			return markHolder(x.X, depth+1) || ch
		case *ssa.UnOp:
			if x.Op == token.MUL {
				ch := set(x, tHOLD)
				return markHolder(x.X, depth+1) || ch
			}
		case *ssa.Phi:
			ch := set(x, tHOLD)
			for _, e := range x.Edges {
				if markHolder(e, depth+1) {
					ch = true
				}
			}
			return ch
		case *ssa.ChangeType:
			ch := set(x, tHOLD)
			return markHolder(x.X, depth+1) || ch
		case *ssa.Slice:
			if t[x.X] == tARR {
				return false
			}
			ch := set(x, tHOLD)
			return markHolder(x.X, depth+1) || ch
		case *ssa.Alloc, *ssa.Parameter, *ssa.FreeVar, *ssa.Call, *ssa.Global, *ssa.MakeMap, *ssa.MakeSlice, *ssa.Extract, *ssa.Lookup, *ssa.TypeAssert, *ssa.MakeInterface:
			return set(x.(ssa.Value), tHOLD)
		}
		return false
	}
	writesSeen := map[string]bool{}
	addWrite := func(w mwSite) {
		k := w.Pos + w.Fn + w.What
		if !writesSeen[k] {
			writesSeen[k] = true
			sum.writes = append(sum.writes, w)
		}
	}
	for iter := 0; iter < 60; iter++ {
		changed := false
		for _, b := range fn.Blocks {
			for _, ins := range b.Instrs {
				switch x := ins.(type) {
				case *ssa.Slice:
					if k := t[x.X]; k != tNone {
						if x.Max != nil && isConstInt(x.Max, 0) {
							// s[:0:0] has no capacity: nothing can be stored through
							// it and append must allocate (copy idiom)
							continue
						}
						changed = set(x, k) || changed
					}
				case *ssa.IndexAddr:
					if k := t[x.X]; k != tNone {
						changed = setForce(t, x, k) || changed
					}
				case *ssa.FieldAddr:
					if k := t[x.X]; k != tNone {
						changed = setForce(t, x, k) || changed
					}
				case *ssa.Field:
					if t[x.X] != tNone {
						changed = set(x, tHOLD) || changed
					}
				case *ssa.Index:
					if t[x.X] != tNone {
						changed = set(x, tHOLD) || changed
					}
				case *ssa.UnOp:
					if x.Op == token.MUL && t[x.X] != tNone {
						k := tHOLD
						if _, isSlice := x.Type().Underlying().(*types.Slice); isSlice && t[x.X] == tHOLD {
							k = tARR // a slice loaded from a holder may be the tainted slice
						}
						changed = set(x, k) || changed
						if fa, ok := x.X.(*ssa.FieldAddr); ok && types.IsInterface(x.Type()) && t[x] != tNone {
							if m, ok := a.fieldCT[structField(fa.X.Type(), fa.Field)]; ok {
								if _, had := ct[x]; !had {
									cp := map[string]types.Type{}
									for k, v := range m {
										cp[k] = v
									}
									ct[x] = cp
									changed = true
								} else if ct[x] != nil {
									for k, v := range m {
										if _, ok := ct[x][k]; !ok {
											ct[x][k] = v
											changed = true
										}
									}
								}
							}
						}
					}
				case *ssa.Phi:
					for _, e := range x.Edges {
						changed = set(x, t[e]) || changed
						changed = addCT(x, e) || changed
					}
				case *ssa.ChangeType:
					changed = set(x, t[x.X]) || changed
				case *ssa.ChangeInterface:
					changed = set(x, t[x.X]) || changed
					changed = addCT(x, x.X) || changed
				case *ssa.MakeInterface:
					if set(x, t[x.X]) {
						changed = true
					}
					if t[x] != tNone {
						if _, ok := ct[x]; !ok {
							ct[x] = map[string]types.Type{x.X.Type().String(): x.X.Type()}
							changed = true
						}
					}
				case *ssa.TypeAssert:
					changed = set(x, t[x.X]) || changed
					if types.IsInterface(x.AssertedType) && !x.CommaOk {
						changed = addCT(x, x.X) || changed
					}
				case *ssa.SliceToArrayPointer:
					changed = set(x, t[x.X]) || changed
				case *ssa.Convert:
					_, fromStr := x.X.Type().Underlying().(*types.Basic)
					_, toStr := x.Type().Underlying().(*types.Basic)
					if !fromStr && !toStr {
						changed = set(x, t[x.X]) || changed
					}
				case *ssa.Extract:
					changed = set(x, t[x.Tuple]) || changed
					if t[x] != tNone && types.IsInterface(x.Type()) {
						if m, ok := ct[x.Tuple]; ok {
							if _, had := ct[x]; !had {
								ct[x] = m
								changed = true
							}
						}
					}
				case *ssa.MakeClosure:
					for _, bnd := range x.Bindings {
						if t[bnd] != tNone {
							changed = set(x, tHOLD) || changed
						}
					}
				case *ssa.Lookup:
					if t[x.X] != tNone {
						changed = set(x, tHOLD) || changed
					}
				case *ssa.Next:
					if t[x.Iter] != tNone {
						changed = setForce(t, x, tHOLD) || changed
					}
				case *ssa.Range:
					if t[x.X] != tNone {
						changed = setForce(t, x, tHOLD) || changed
					}
				case *ssa.MapUpdate:
					if t[x.Value] != tNone || t[x.Key] != tNone {
						changed = markHolder(x.Map, 0) || changed
					}
				case *ssa.Send:
					if t[x.X] != tNone {
						changed = markHolder(x.Chan, 0) || changed
					}
				case *ssa.Store:
					if t[x.Addr] == tARR {
						addWrite(mwSite{Pos: a.p.InstrPos(x), Fn: fnName(fn), What: "store through a pointer into the parameter's backing array", Chain: chainS})
					}
					if t[x.Val] != tNone {
						changed = markHolder(x.Addr, 0) || changed
						if fa, ok := x.Addr.(*ssa.FieldAddr); ok && types.IsInterface(x.Val.Type()) {
							if m, ok := ct[x.Val]; ok && m != nil {
								f := structField(fa.X.Type(), fa.Field)
								if a.fieldCT[f] == nil {
									a.fieldCT[f] = map[string]types.Type{}
								}
								for k, v := range m {
									a.fieldCT[f][k] = v
								}
							}
						}
					}
				case ssa.CallInstruction:
					cc := x.Common()
					var val ssa.Value
					if v, ok := ins.(ssa.Value); ok {
						val = v
					}
					if bi, ok := cc.Value.(*ssa.Builtin); ok {
						switch bi.Name() {
						case "copy", "clear":
							if t[cc.Args[0]] == tARR {
								addWrite(mwSite{Pos: a.p.InstrPos(ins), Fn: fnName(fn), What: bi.Name() + " into the parameter's backing array", Chain: chainS})
							}
						case "append":
							if t[cc.Args[0]] == tARR {
								addWrite(mwSite{Pos: a.p.InstrPos(ins), Fn: fnName(fn), What: "append into a slice of the parameter's backing array", Chain: chainS})
								changed = set(val, tARR) || changed
							} else if t[cc.Args[0]] == tHOLD {
								changed = set(val, tHOLD) || changed
							}
							if len(cc.Args) > 1 && t[cc.Args[1]] != tNone {
								if sl, ok := cc.Args[1].Type().Underlying().(*types.Slice); ok && pointerLike(sl.Elem()) {
									changed = set(val, tHOLD) || changed
								}
							}
						}
						continue
					}
					anyT := t[cc.Value] != tNone
					for _, arg := range cc.Args {
						if t[arg] != tNone {
							anyT = true
						}
					}
					if !anyT {
						continue
					}
					for _, callee := range a.callees(x, ct, t) {
						cin := map[int]mwIn{}
						mk := func(v ssa.Value) mwIn {
							mi := mwIn{kind: t[v]}
							if m, ok := ct[v]; ok && m != nil {
								var ks []string
								for k := range m {
									ks = append(ks, k)
								}
								sort.Strings(ks)
								for _, k := range ks {
									mi.cts = append(mi.cts, m[k])
								}
							}
							return mi
						}
						if cc.IsInvoke() {
							if t[cc.Value] != tNone {
								cin[0] = mwIn{kind: t[cc.Value]}
							}
							for i, arg := range cc.Args {
								if t[arg] != tNone {
									cin[i+1] = mk(arg)
								}
							}
						} else {
							for i, arg := range cc.Args {
								if t[arg] != tNone {
									cin[i] = mk(arg)
								}
							}
							if mc, ok := cc.Value.(*ssa.MakeClosure); ok {
								for i, bnd := range mc.Bindings {
									if t[bnd] != tNone {
										cin[1000+i] = mk(bnd)
									}
								}
							} else if t[cc.Value] != tNone && len(callee.FreeVars) > 0 {
								for i := range callee.FreeVars {
									cin[1000+i] = mwIn{kind: tHOLD}
								}
							}
						}
						if len(cin) == 0 {
							continue
						}
						cs := a.analyse(callee, cin, chain)
						for _, w := range cs.writes {
							addWrite(w)
						}
						for l := range cs.leaves {
							sum.leaves[l] = true
						}
						if val != nil && cs.ret != tNone && pointerLike(val.Type()) {
							changed = setForce(t, val, cs.ret) || changed
							if cs.retCT != nil {
								if _, had := ct[val]; !had {
									ct[val] = cs.retCT
									changed = true
								}
							}
						}
						for pi := range cs.held {
							if pi >= 1000 {
								continue
							}
							var argv ssa.Value
							if cc.IsInvoke() {
								if pi == 0 {
									argv = cc.Value
								} else if pi-1 < len(cc.Args) {
									argv = cc.Args[pi-1]
								}
							} else if pi < len(cc.Args) {
								argv = cc.Args[pi]
							}
							if argv != nil {
								c1 := markHolder(argv, 0)
								c2 := set(argv, tHOLD)
								changed = c1 || c2 || changed
							}
						}
					}
				case *ssa.Return:
					for _, r := range x.Results {
						if t[r] > sum.ret {
							sum.ret = t[r]
							changed = true
						}
						if t[r] != tNone && types.IsInterface(r.Type()) {
							if m, ok := ct[r]; ok && m != nil {
								if sum.retCT == nil {
									sum.retCT = map[string]types.Type{}
								}
								for k, v := range m {
									sum.retCT[k] = v
								}
							}
						}
					}
				}
			}
		}
		if !changed {
			break
		}
	}
	for i, prm := range fn.Params {
		if in[i].kind == tNone && t[prm] != tNone {
			sum.held[i] = t[prm]
		}
	}
	a.memo[key] = sum
	return sum
}

func setForce(t map[ssa.Value]taintKind, v ssa.Value, k taintKind) bool {
	if t[v] >= k {
		return false
	}
	t[v] = k
	return true
}

// callees resolves a call site.
func (a *mwAnalysis) callees(ci ssa.CallInstruction, ct map[ssa.Value]map[string]types.Type, t map[ssa.Value]taintKind) []*ssa.Function {
	if f := staticCallee(ci); f != nil {
		return []*ssa.Function{f}
	}
	cc := ci.Common()
	if cc.IsInvoke() {
		if m, ok := ct[cc.Value]; ok && m != nil && len(m) > 0 {
			var out []*ssa.Function
			for _, k := range sortedKeys(m) {
				if f := a.p.MethodOf(m[k], cc.Method.Name()); f != nil {
					out = append(out, f)
				}
			}
			return out
		}
	}
	var out []*ssa.Function
	node := a.p.VTA().Nodes[ci.Parent()]
	if node == nil {
		return nil
	}
	seen := map[*ssa.Function]bool{}
	for _, e := range node.Out {
		if e.Site == ci && e.Callee != nil && e.Callee.Func != nil && !seen[e.Callee.Func] {
			seen[e.Callee.Func] = true
			out = append(out, e.Callee.Func)
		}
	}
	sort.Slice(out, func(i, j int) bool { return out[i].String() < out[j].String() })
	where := fnName(ci.Parent()) + " at " + a.p.InstrPos(ci)
	if len(out) > 16 {
		a.TooWide = append(a.TooWide, fmt.Sprintf("%s: %d possible callees", where, len(out)))
		return nil
	}
	a.Fallback = append(a.Fallback, fmt.Sprintf("%s: %d callees via VTA", where, len(out)))
	return out
}

package main

import (
	"fmt"
	"go/constant"
	"go/token"
	"go/types"
	"sort"
	"strings"

	"golang.org/x/tools/go/ssa"
)

func init() {
	register(&propDef{
		ID:        "C18",
		Run:       checkC18,
		Technique: "static analysis: feasibility-pruned edge-guard reachability (phi-of-constants / repeated-condition correlation), value provenance of the gate condition through phis, locals and helper returns, who-may-call gating over static call sites and func-value sinks, wrapper-conn field provenance, disposal on all paths (go/ssa)",
		Explanation: "R1 (credential gate + who may dial) every invoke of client.Client.TCP/UDP inside app/internal/socks5 and app/internal/http is reachable from the per-connection entry (the function go-started with Accept()'s result) only across an edge on which `AuthFunc == nil` holds or on which a value whose truth can only stem from a call of Server.AuthFunc is true (provenance followed through phis, locals and helper results, including `helper() ==/!= K` where every return of the helper that can produce the fact is itself behind such an edge; infeasible paths pruned by phi-of-constant correlation, e.g. serverMethod); a dial closure handed to net/http is followed to the Server field holding it and every use of that field must be gated; " +
			"R2 (pipelined bytes behind CONNECT) the conn given to the CONNECT relay is the raw conn only on a fresh `bufReader.Buffered() <= 0` edge, otherwise a wrapper whose underlying conn is the raw conn, whose buffer is filled by io.ReadFull/bufio.Read from the same buffered reader into a slice of exactly Buffered() bytes, and whose Read touches the underlying conn only on the buffer-empty edge; a helper returning the conn is inspected per return with its parameters mapped to the call's arguments (the reader must stay untouched between helper and relay); the relay copies from that conn parameter to the dialled conn; " +
			"R3 (shared port) the mux dispatcher reads exactly one byte with io.ReadFull from the accepted conn, routes `byte == 5` to the SOCKS listener field and everything else to the HTTP listener field (loaded under the mux lock), hands over a wrapper carrying that very byte and the accepted conn whose Read returns the byte first, marks it consumed only when len(p) >= 1 and delegates only afterwards, and on every path to a return either the send case of the hand-over select was taken (exactly once, never followed by Close) or the conn was closed.",
		NotDecided: []string{
			"parsing done by txthinking/socks5 and net/http; that AuthFunc itself is right",
			"byte-for-byte equality of the relayed streams (io.Copy, bytes.Buffer, bufio behaviour are library code)",
			"close/registration races of the mux (send on a channel closed by mainLoop), muxManager listener sharing",
			"whether the SOCKS5 method reply sent to the client names the method actually enforced (protocol conformance, not the gate)",
		},
		Assumptions: []string{
			"net/http invokes Transport.DialContext only while serving a call made on the http.Client that owns the transport",
			"there is one Server object per listener: AuthFunc loaded in a helper is the AuthFunc of the calling Server",
		},
	})
}

// ---------------------------------------------------------------------------
// feasibility-pruned CFG walk

type c18env map[ssa.Value]constant.Value

func (e c18env) clone() c18env {
	o := make(c18env, len(e)+2)
	for k, v := range e {
		o[k] = v
	}
	return o
}

func (e c18env) sig() string {
	if len(e) == 0 {
		return ""
	}
	var ks []string
	for k, v := range e {
		ks = append(ks, k.Name()+"="+v.ExactString())
	}
	sort.Strings(ks)
	return strings.Join(ks, ",")
}

// c18eval evaluates v to a constant using the facts collected along the path.
func c18eval(v ssa.Value, env c18env) (constant.Value, bool) {
	switch x := v.(type) {
	case *ssa.Const:
		if x.Value != nil {
			return x.Value, true
		}
		return nil, false
	case *ssa.UnOp:
		if x.Op == token.NOT {
			if k, ok := c18eval(x.X, env); ok && k.Kind() == constant.Bool {
				return constant.MakeBool(!constant.BoolVal(k)), true
			}
		}
	case *ssa.BinOp:
		switch x.Op {
		case token.EQL, token.NEQ, token.LSS, token.LEQ, token.GTR, token.GEQ:
			a, ok1 := c18eval(x.X, env)
			b, ok2 := c18eval(x.Y, env)
			if ok1 && ok2 && a.Kind() == b.Kind() {
				switch a.Kind() {
				case constant.Bool:
					if x.Op == token.EQL || x.Op == token.NEQ {
						return constant.MakeBool(constant.Compare(a, x.Op, b)), true
					}
				case constant.Int, constant.String:
					return constant.MakeBool(constant.Compare(a, x.Op, b)), true
				}
			}
		}
	}
	if k, ok := env[v]; ok {
		return k, true
	}
	return nil, false
}

func c18tracked(v ssa.Value) bool {
	if _, ok := v.(*ssa.Phi); ok {
		return true
	}
	if _, ok := v.(*ssa.Const); ok {
		return false
	}
	refs := v.Referrers()
	if refs == nil {
		return false
	}
	n := 0
	for _, r := range *refs {
		if _, ok := r.(*ssa.DebugRef); !ok {
			n++
		}
	}
	return n >= 2
}

type c18edge struct{ from, to *ssa.BasicBlock }

type c18walkRes struct {
	instrs map[ssa.Instruction]bool
	edges  map[c18edge]bool
	parent map[*ssa.BasicBlock]*ssa.BasicBlock // one witness predecessor
	capHit bool
}

// witness lists the blocks of one path from the walk's start to b.
func (r *c18walkRes) witness(b *ssa.BasicBlock) []*ssa.BasicBlock {
	var rev []*ssa.BasicBlock
	seen := map[*ssa.BasicBlock]bool{}
	for b != nil && !seen[b] {
		seen[b] = true
		rev = append(rev, b)
		b = r.parent[b]
	}
	for i, j := 0, len(rev)-1; i < j; i, j = i+1, j-1 {
		rev[i], rev[j] = rev[j], rev[i]
	}
	return rev
}

// c18walk explores fn from `start` (nil: the entry) forward.  It does not cross
// edges accepted by edgeStop, does not continue past instructions accepted by
// stop (they are recorded as reached), never enters block noReenter, and prunes
// branches whose condition is decided by what the path already fixed: the
// incoming value chosen for a phi, the outcome of a condition value branched
// on earlier, a value learnt equal to a constant.  A fact about a value is
// dropped when the block defining the value is entered again.
func c18walk(fn *ssa.Function, start ssa.Instruction, edgeStop EdgePred, stop func(ssa.Instruction) bool, noReenter *ssa.BasicBlock) *c18walkRes {
	res := &c18walkRes{instrs: map[ssa.Instruction]bool{}, edges: map[c18edge]bool{}, parent: map[*ssa.BasicBlock]*ssa.BasicBlock{}}
	if len(fn.Blocks) == 0 {
		return res
	}
	seen := map[string]bool{}
	states := 0
	type item struct {
		b     *ssa.BasicBlock
		start int
		env   c18env
	}
	var work []item
	if start == nil {
		work = append(work, item{fn.Blocks[0], 0, c18env{}})
	} else {
		work = append(work, item{start.Block(), instrIndex(start) + 1, c18env{}})
	}
	for len(work) > 0 {
		it := work[len(work)-1]
		work = work[:len(work)-1]
		if it.start == 0 {
			key := fmt.Sprintf("%d|%s", it.b.Index, it.env.sig())
			if seen[key] {
				continue
			}
			seen[key] = true
		}
		states++
		if states > 200000 {
			res.capHit = true
			return res
		}
		b := it.b
		stopped := false
		for i := it.start; i < len(b.Instrs); i++ {
			in := b.Instrs[i]
			res.instrs[in] = true
			if stop != nil && stop(in) {
				stopped = true
				break
			}
		}
		if stopped {
			continue
		}
		occ := map[*ssa.BasicBlock]int{}
		for si, s := range b.Succs {
			k := occ[s]
			occ[s]++
			if s == noReenter {
				continue
			}
			env2 := it.env
			if iff, ok := b.Instrs[len(b.Instrs)-1].(*ssa.If); ok {
				cond, pol := stripNot(iff.Cond, si == 0)
				if val, known := c18eval(cond, it.env); known && val.Kind() == constant.Bool {
					if constant.BoolVal(val) != pol {
						continue // infeasible on this path
					}
				} else {
					env2 = it.env.clone()
					if c18tracked(cond) {
						env2[cond] = constant.MakeBool(pol)
					}
					if bo, ok := cond.(*ssa.BinOp); ok && ((bo.Op == token.EQL && pol) || (bo.Op == token.NEQ && !pol)) {
						if kv, ok := c18eval(bo.Y, it.env); ok && c18tracked(bo.X) {
							env2[bo.X] = kv
						} else if kv, ok := c18eval(bo.X, it.env); ok && c18tracked(bo.Y) {
							env2[bo.Y] = kv
						}
					}
				}
				if edgeStop != nil && edgeStop(cond, pol) {
					continue
				}
			}
			// entering s from b (k-th edge b->s)
			predIdx, kk := -1, 0
			for pi, pr := range s.Preds {
				if pr == b {
					if kk == k {
						predIdx = pi
						break
					}
					kk++
				}
			}
			nenv := env2.clone()
			for _, in := range s.Instrs {
				if ph, ok := in.(*ssa.Phi); ok {
					if predIdx >= 0 {
						if kv, ok := c18eval(ph.Edges[predIdx], env2); ok {
							nenv[ph] = kv
							continue
						}
					}
					delete(nenv, ph)
				} else if v, ok := in.(ssa.Value); ok {
					delete(nenv, v)
				}
			}
			res.edges[c18edge{b, s}] = true
			if _, ok := res.parent[s]; !ok && s != fn.Blocks[0] {
				res.parent[s] = b
			}
			work = append(work, item{s, 0, nenv})
		}
	}
	return res
}

// c18cmpRange: the interval [lo,hi] a non-negative integer x lies in when the
// comparison `cond` (x op k, or k op x) has truth value pol.  ok=false when cond
// is not such a comparison of isX.
func c18cmpRange(cond ssa.Value, pol bool, isX func(ssa.Value) bool) (lo, hi int64, ok bool) {
	const inf = int64(1) << 60
	b, isB := cond.(*ssa.BinOp)
	if !isB {
		return 0, 0, false
	}
	op := b.Op
	var k int64
	if kv, okk := constInt(b.Y); okk && isX(b.X) {
		k = kv
	} else if kv, okk := constInt(b.X); okk && isX(b.Y) {
		k = kv
		switch op { // k op x  ==  x op' k
		case token.LSS:
			op = token.GTR
		case token.LEQ:
			op = token.GEQ
		case token.GTR:
			op = token.LSS
		case token.GEQ:
			op = token.LEQ
		}
	} else {
		return 0, 0, false
	}
	if !pol {
		switch op {
		case token.EQL:
			op = token.NEQ
		case token.NEQ:
			op = token.EQL
		case token.LSS:
			op = token.GEQ
		case token.LEQ:
			op = token.GTR
		case token.GTR:
			op = token.LEQ
		case token.GEQ:
			op = token.LSS
		default:
			return 0, 0, false
		}
	}
	lo, hi = 0, inf
	switch op {
	case token.EQL:
		lo, hi = k, k
	case token.NEQ:
		if k == 0 {
			lo = 1
		}
	case token.LSS:
		hi = k - 1
	case token.LEQ:
		hi = k
	case token.GTR:
		lo = k + 1
	case token.GEQ:
		lo = k
	default:
		return 0, 0, false
	}
	if lo < 0 {
		lo = 0
	}
	return lo, hi, true
}

func c18isNetConn(t types.Type) bool {
	n, ok := t.(*types.Named)
	return ok && n.Obj().Pkg() != nil && n.Obj().Pkg().Path() == "net" && n.Obj().Name() == "Conn"
}

func c18pkgFns(p *Prog, pkg string) []*ssa.Function {
	var out []*ssa.Function
	for _, fn := range p.RepoFns {
		if pk := fnPkg(fn); pk != nil && pk.Pkg.Path() == pkg {
			out = append(out, fn)
		}
	}
	return out
}

func c18blockPos(p *Prog, b *ssa.BasicBlock) string {
	for _, in := range b.Instrs {
		if in.Pos().IsValid() {
			return p.Pos(in.Pos())
		}
	}
	// empty block (only a jump): describe it by the branch that leads to it
	for _, pr := range b.Preds {
		if len(pr.Instrs) > 0 {
			if iff, ok := pr.Instrs[len(pr.Instrs)-1].(*ssa.If); ok {
				if in, ok := iff.Cond.(ssa.Instruction); ok && in.Pos().IsValid() {
					return "the branch on " + p.Pos(in.Pos())
				}
			}
			for i := len(pr.Instrs) - 1; i >= 0; i-- {
				if pr.Instrs[i].Pos().IsValid() {
					return "after " + p.Pos(pr.Instrs[i].Pos())
				}
			}
		}
	}
	return "block " + fmt.Sprint(b.Index)
}

func checkC18(c *Check) {
	lockBalanceRule(c, "C18", pMux)
	c18Extra(c)
	c18HandOverChannel(c)
	c18R1(c, pSocks5, "socks5")
	c18R1(c, pHTTP, "http")
	c18R2(c)
	c18R3(c)
}

// ---------------------------------------------------------------------------
// R1: credential gate

// c18auth decides which CFG edges establish "this client is authorised":
// AuthFunc == nil, or a value that can be true only if Server.AuthFunc returned
// true.
type c18auth struct {
	p      *Prog
	fAuth  *types.Var
	final  map[*ssa.Function]*c18walkRes
	cur    map[*ssa.Function]*c18walkRes
	busy   map[*ssa.Function]bool
	inprog map[string]bool
	why    []string // why candidate gate values were rejected (diagnostics)
	unk    []string // shapes the analysis does not follow
}

func (a *c18auth) note(s string) {
	for _, w := range a.why {
		if w == s {
			return
		}
	}
	a.why = append(a.why, s)
}

func (a *c18auth) okEdge(cond ssa.Value, pol bool) bool { return a.okFact(cond, pol) }

// reachOf: what is reachable in fn from its entry without crossing an
// authorising edge.  Guardedness of phi sources / stores / returns is taken
// from the previous iteration (monotone: more authorising edges, less reach).
func (a *c18auth) reachOf(fn *ssa.Function) *c18walkRes {
	if r := a.final[fn]; r != nil {
		return r
	}
	if a.busy[fn] {
		return a.cur[fn]
	}
	a.busy[fn] = true
	prev := -1
	for iter := 0; iter < 5; iter++ {
		r := c18walk(fn, nil, a.okEdge, nil, nil)
		a.cur[fn] = r
		if len(r.instrs) == prev {
			break
		}
		prev = len(r.instrs)
	}
	a.busy[fn] = false
	a.final[fn] = a.cur[fn]
	if a.final[fn].capHit {
		a.unk = append(a.unk, "path enumeration cap hit in "+fnName(fn))
	}
	return a.final[fn]
}

func (a *c18auth) edgeGuarded(from, to *ssa.BasicBlock) bool {
	var r *c18walkRes
	fn := from.Parent()
	if a.busy[fn] {
		r = a.cur[fn]
	} else {
		r = a.reachOf(fn)
	}
	return r != nil && !r.capHit && !r.edges[c18edge{from, to}]
}

func (a *c18auth) instrGuarded(in ssa.Instruction) bool {
	var r *c18walkRes
	fn := in.Parent()
	if a.busy[fn] {
		r = a.cur[fn]
	} else {
		r = a.reachOf(fn)
	}
	return r != nil && !r.capHit && !r.instrs[in]
}

func c18boolConst(v ssa.Value) (bool, bool) {
	k, ok := v.(*ssa.Const)
	if !ok || k.Value == nil || k.Value.Kind() != constant.Bool {
		return false, false
	}
	return constant.BoolVal(k.Value), true
}

// okFact: does `v == pol` imply that the client is authorised?
func (a *c18auth) okFact(v ssa.Value, pol bool) bool {
	v, pol = stripNot(v, pol)
	key := fmt.Sprintf("%p|%v", v, pol)
	if a.inprog[key] {
		return true // coinductive: a cycle through a phi adds no new source
	}
	a.inprog[key] = true
	defer delete(a.inprog, key)

	switch x := v.(type) {
	case *ssa.Const:
		if b, ok := c18boolConst(x); ok {
			return b != pol // v can never equal pol
		}
		return false
	case *ssa.BinOp:
		if y, isNil, ok := nilTest(x, pol); ok {
			return isNil && isLoadOfField(y, a.fAuth)
		}
		if x.Op == token.EQL || x.Op == token.NEQ {
			if k, ok := c18boolConst(x.Y); ok {
				return a.okFact(x.X, ((x.Op == token.EQL) == k) == pol)
			}
			if k, ok := c18boolConst(x.X); ok {
				return a.okFact(x.Y, ((x.Op == token.EQL) == k) == pol)
			}
			// `helper() == K` / `helper() != K`: a selection helper whose result
			// stands for "AuthFunc is (not) set" (e.g. the negotiated method)
			return a.cmpHelperOK(x, pol)
		}
		return false
	case *ssa.Call:
		cc := x.Common()
		if !cc.IsInvoke() && cc.StaticCallee() == nil {
			if isLoadOfField(cc.Value, a.fAuth) {
				return pol
			}
			return false
		}
		if f := cc.StaticCallee(); f != nil && a.p.IsRepoFn(f) && len(f.Blocks) > 0 && f.Signature.Results().Len() == 1 {
			return a.retOK(f, 0, pol)
		}
		return false
	case *ssa.Extract:
		if call, ok := x.Tuple.(*ssa.Call); ok {
			if f := call.Common().StaticCallee(); f != nil && a.p.IsRepoFn(f) && len(f.Blocks) > 0 {
				return a.retOK(f, x.Index, pol)
			}
		}
		return false
	case *ssa.Phi:
		for i, e := range x.Edges {
			from := x.Block().Preds[i]
			if b, ok := c18boolConst(e); ok && b != pol {
				continue
			}
			if a.okFact(e, pol) {
				continue
			}
			if a.edgeGuarded(from, x.Block()) {
				continue
			}
			name := x.Comment
			if name == "" {
				name = x.Name()
			}
			hasVerdict := false
			for _, e2 := range x.Edges {
				if _, isC := e2.(*ssa.Const); !isC && e2 != e && a.okFact(e2, pol) {
					hasVerdict = true
				}
			}
			if !hasVerdict {
				return false // not a gate variable for this polarity: nothing to explain
			}
			a.note(fmt.Sprintf("gate variable `%s` (%s) can be %v through the assignment of `%s` at %s, which is neither an AuthFunc verdict nor behind one", name, fnName(x.Parent()), pol, c18valStr(e), c18blockPos(a.p, from)))
			return false
		}
		return true
	case *ssa.UnOp:
		if x.Op != token.MUL {
			return false
		}
		al, ok := x.X.(*ssa.Alloc)
		if !ok {
			if fv, isFV := x.X.(*ssa.FreeVar); isFV {
				if b, _ := freeVarBinding(fv).(*ssa.Alloc); b != nil {
					al = b
				}
			}
			if al == nil {
				return false
			}
		}
		return a.allocOK(al, pol)
	}
	return false
}

func c18valStr(v ssa.Value) string {
	if k, ok := v.(*ssa.Const); ok {
		return k.String()
	}
	s := v.String()
	if len(s) > 60 {
		s = s[:60] + "…"
	}
	return s
}

// allocOK: a local bool variable kept in memory (captured / address taken).
func (a *c18auth) allocOK(al *ssa.Alloc, pol bool) bool {
	if !pol {
		return false // the zero value is false
	}
	var check func(addr ssa.Value, refs []ssa.Instruction) bool
	check = func(addr ssa.Value, refs []ssa.Instruction) bool {
		for _, r := range refs {
			switch u := r.(type) {
			case *ssa.Store:
				if u.Addr != addr {
					a.unk = append(a.unk, "address of gate variable stored at "+a.p.InstrPos(u))
					return false
				}
				if b, ok := c18boolConst(u.Val); ok && b != pol {
					continue
				}
				if a.okFact(u.Val, pol) || a.instrGuarded(u) {
					continue
				}
				a.note(fmt.Sprintf("gate variable in %s is assigned `%s` at %s, which is neither an AuthFunc verdict nor behind one", fnName(u.Parent()), c18valStr(u.Val), a.p.InstrPos(u)))
				return false
			case *ssa.UnOp, *ssa.DebugRef:
			case *ssa.MakeClosure:
				cl := u.Fn.(*ssa.Function)
				for i, bnd := range u.Bindings {
					if bnd == addr {
						fv := cl.FreeVars[i]
						if !check(fv, *fv.Referrers()) {
							return false
						}
					}
				}
			default:
				a.unk = append(a.unk, "gate variable escapes at "+a.p.InstrPos(r))
				return false
			}
		}
		return true
	}
	return check(al, *al.Referrers())
}

// retOK: every return of f whose result #idx can equal pol is authorised.
func (a *c18auth) retOK(f *ssa.Function, idx int, pol bool) bool {
	n := 0
	ok := true
	allInstrs(f, func(in ssa.Instruction) {
		r, isRet := in.(*ssa.Return)
		if !isRet || !ok {
			return
		}
		res := retResults(r)
		if res == nil || idx >= len(res) {
			return
		}
		n++
		rv := res[idx]
		if b, isC := c18boolConst(rv); isC && b != pol {
			return
		}
		if _, isC := c18boolConst(rv); !isC && a.okFact(rv, pol) {
			return
		}
		if a.instrGuarded(r) {
			return
		}
		// only explain helpers that deal with AuthFunc at all, in the polarity a
		// gate would use (a bool helper reporting "accepted")
		if pol && len(fieldRefs(withAnon(f), a.fAuth)) > 0 {
			a.note(fmt.Sprintf("%s can return %v (`%s`) at %s without an accepted AuthFunc verdict on the path", fnName(f), pol, c18valStr(rv), a.p.InstrPos(r)))
		}
		ok = false
	})
	return ok && n > 0
}

// cmpHelperOK: x is `h(...) == K` or `h(...) != K` with h a repository helper
// and K a non-bool constant.  The fact `x == pol` authorises when every return
// of h whose result can make the comparison come out as pol is itself behind an
// authorising edge inside h (`if s.AuthFunc != nil { return A }; return B`:
// `h() != A` implies AuthFunc == nil).
func (a *c18auth) cmpHelperOK(x *ssa.BinOp, pol bool) bool {
	var k constant.Value
	var other ssa.Value
	if kc, ok := x.Y.(*ssa.Const); ok && kc.Value != nil {
		k, other = kc.Value, x.X
	} else if kc, ok := x.X.(*ssa.Const); ok && kc.Value != nil {
		k, other = kc.Value, x.Y
	} else {
		return false
	}
	if k.Kind() != constant.Int && k.Kind() != constant.String {
		return false
	}
	var f *ssa.Function
	idx := 0
	switch y := resolve(other).(type) {
	case *ssa.Call:
		f = y.Common().StaticCallee()
		if f != nil && f.Signature.Results().Len() != 1 {
			return false
		}
	case *ssa.Extract:
		if call, ok := y.Tuple.(*ssa.Call); ok {
			f, idx = call.Common().StaticCallee(), y.Index
		}
	}
	if f == nil || !a.p.IsRepoFn(f) || len(f.Blocks) == 0 {
		return false
	}
	wantEq := (x.Op == token.EQL) == pol // the fact says: result == K is wantEq
	n := 0
	ok := true
	var leaf func(v ssa.Value, guarded func() bool, depth int)
	leaf = func(v ssa.Value, guarded func() bool, depth int) {
		if !ok {
			return
		}
		if ph, isPhi := v.(*ssa.Phi); isPhi && depth < 4 {
			for i, e := range ph.Edges {
				from, to := ph.Block().Preds[i], ph.Block()
				leaf(e, func() bool { return guarded() || a.edgeGuarded(from, to) }, depth+1)
			}
			return
		}
		if kc, isC := v.(*ssa.Const); isC && kc.Value != nil && kc.Value.Kind() == k.Kind() {
			if constant.Compare(kc.Value, token.EQL, k) != wantEq {
				return // this result can never produce the fact
			}
		}
		if !guarded() {
			ok = false
		}
	}
	allInstrs(f, func(in ssa.Instruction) {
		r, isRet := in.(*ssa.Return)
		if !isRet || !ok {
			return
		}
		res := retResults(r)
		if res == nil || idx >= len(res) {
			return
		}
		n++
		leaf(res[idx], func() bool { return a.instrGuarded(r) }, 0)
	})
	return ok && n > 0
}

// ---------------------------------------------------------------------------
// who may call

type c18gate struct {
	c       *Check
	a       *c18auth
	fns     []*ssa.Function
	entries map[*ssa.Function]bool
	callers map[*ssa.Function][]ssa.Instruction // call / go / defer sites with a static callee
	values  map[*ssa.Function][]ssa.Value       // the function used as a value (MakeClosure or bare)
	memo    map[*ssa.Function]int
	reason  map[*ssa.Function]string
	unk     []string
}

func c18newGate(c *Check, a *c18auth, fns []*ssa.Function) *c18gate {
	g := &c18gate{c: c, a: a, fns: fns, entries: map[*ssa.Function]bool{}, callers: map[*ssa.Function][]ssa.Instruction{}, values: map[*ssa.Function][]ssa.Value{}, memo: map[*ssa.Function]int{}, reason: map[*ssa.Function]string{}}
	for _, fn := range fns {
		allInstrs(fn, func(in ssa.Instruction) {
			if ci, ok := in.(ssa.CallInstruction); ok {
				cc := ci.Common()
				if f := cc.StaticCallee(); f != nil {
					g.callers[f] = append(g.callers[f], in)
				}
				// per-connection entry: `go f(..., conn)` with conn = Accept()'s result
				if gi, isGo := in.(*ssa.Go); isGo {
					if f := gi.Call.StaticCallee(); f != nil {
						for _, arg := range gi.Call.Args {
							if tup, idx := tupleSource(arg); tup != nil && idx == 0 {
								if call, ok := tup.(*ssa.Call); ok {
									if _, isAcc := methodCallNamed(call, "Accept"); isAcc {
										g.entries[f] = true
									}
								}
							}
						}
					}
				}
			}
			for _, op := range in.Operands(nil) {
				switch f := (*op).(type) {
				case *ssa.Function:
					if ci, ok := in.(ssa.CallInstruction); ok && ci.Common().Value == ssa.Value(f) {
						continue
					}
					if _, isMC := in.(*ssa.MakeClosure); isMC {
						continue // handled below through the closure value
					}
					g.values[f] = append(g.values[f], f)
				}
			}
			if mc, ok := in.(*ssa.MakeClosure); ok {
				// a closure that is only called/go'ed/deferred in place is a call site, otherwise a value
				onlyCalled := true
				for _, r := range *mc.Referrers() {
					if ci, ok := r.(ssa.CallInstruction); ok && ci.Common().Value == ssa.Value(mc) {
						continue
					}
					if _, ok := r.(*ssa.DebugRef); ok {
						continue
					}
					onlyCalled = false
				}
				if !onlyCalled {
					g.values[mc.Fn.(*ssa.Function)] = append(g.values[mc.Fn.(*ssa.Function)], mc)
				}
			}
		})
	}
	return g
}

func (g *c18gate) siteGated(site ssa.Instruction) bool {
	if g.a.instrGuarded(site) {
		return true
	}
	fn := site.Parent()
	if g.fnGated(fn) {
		return true
	}
	if g.entries[fn] {
		g.reason[fn] = fmt.Sprintf("%s at %s is reachable from the start of the per-connection entry %s without crossing an edge that establishes `AuthFunc == nil` or an accepted AuthFunc verdict", c18siteStr(site), g.c.P.InstrPos(site), fnName(fn))
	}
	return false
}

func c18siteStr(site ssa.Instruction) string {
	if ci, ok := site.(ssa.CallInstruction); ok {
		cc := ci.Common()
		if f := cc.StaticCallee(); f != nil {
			return "the call of " + fnName(f)
		}
		if cc.IsInvoke() {
			return "the call of ." + cc.Method.Name()
		}
	}
	return "the site"
}

func (g *c18gate) fnGated(fn *ssa.Function) bool {
	switch g.memo[fn] {
	case 1, 3:
		return true
	case 2:
		return false
	}
	if g.entries[fn] {
		g.memo[fn] = 2
		return false
	}
	g.memo[fn] = 3
	ok := true
	n := 0
	for _, site := range g.callers[fn] {
		n++
		if !g.siteGated(site) {
			ok = false
			g.reason[fn] = fmt.Sprintf("%s <- %s at %s%s", fnName(fn), fnName(site.Parent()), g.c.P.InstrPos(site), suffix(g.reason[site.Parent()]))
			break
		}
	}
	if ok {
		for _, v := range g.values[fn] {
			n++
			if !g.valueGated(v, fn, 0) {
				ok = false
				break
			}
		}
	}
	if n == 0 {
		ok = false
		g.reason[fn] = fnName(fn) + " has no call site inside the repository (exported entry point)"
	}
	if ok {
		g.memo[fn] = 1
	} else {
		g.memo[fn] = 2
	}
	return ok
}

// valueGated follows a func value to the places it can be invoked from: direct
// calls, or - through fresh composite literals - a field of a long-lived
// object, in which case every use of that field must be gated.
func (g *c18gate) valueGated(v ssa.Value, fn *ssa.Function, depth int) bool {
	p := g.c.P
	if depth > 8 {
		g.unk = append(g.unk, "func value flow of "+fnName(fn)+" too deep")
		return false
	}
	refs := v.Referrers()
	if refs == nil {
		// bare *ssa.Function operand: find its users
		g.unk = append(g.unk, fnName(fn)+" is used as a plain function value")
		return false
	}
	for _, r := range *refs {
		switch u := r.(type) {
		case *ssa.DebugRef:
		case *ssa.FieldAddr, *ssa.IndexAddr:
			// addressing inside the fresh object that holds the value
		case ssa.CallInstruction:
			if u.Common().Value == v {
				if !g.siteGated(u) {
					g.reason[fn] = fmt.Sprintf("%s invoked at %s%s", fnName(fn), p.InstrPos(u), suffix(g.reason[u.Parent()]))
					return false
				}
				continue
			}
			g.unk = append(g.unk, fmt.Sprintf("%s (or the object holding it) is passed to a call at %s", fnName(fn), p.InstrPos(u)))
			return false
		case *ssa.MakeInterface:
			if !g.valueGated(u, fn, depth+1) {
				return false
			}
		case *ssa.ChangeType:
			if !g.valueGated(u, fn, depth+1) {
				return false
			}
		case *ssa.ChangeInterface:
			if !g.valueGated(u, fn, depth+1) {
				return false
			}
		case *ssa.Store:
			if u.Val != v {
				continue // a store into the fresh object itself
			}
			switch ad := u.Addr.(type) {
			case *ssa.Alloc:
				for _, lr := range *ad.Referrers() {
					if ld, ok := lr.(*ssa.UnOp); ok && ld.Op == token.MUL {
						if !g.valueGated(ld, fn, depth+1) {
							return false
						}
					}
				}
			case *ssa.FieldAddr:
				base := resolve(ad.X)
				if al, ok := base.(*ssa.Alloc); ok && al.Parent() == u.Parent() {
					if !g.valueGated(al, fn, depth+1) {
						return false
					}
					continue
				}
				f := structField(ad.X.Type(), ad.Field)
				if _, isParam := accessPath(ad).Root.(*ssa.Parameter); isParam && f != nil {
					if !g.fieldUsesGated(f, fn) {
						return false
					}
					continue
				}
				g.unk = append(g.unk, fmt.Sprintf("%s stored into an object the analysis cannot place at %s", fnName(fn), p.InstrPos(u)))
				return false
			default:
				g.unk = append(g.unk, fmt.Sprintf("%s stored through %T at %s", fnName(fn), u.Addr, p.InstrPos(u)))
				return false
			}
		default:
			g.unk = append(g.unk, fmt.Sprintf("%s flows into %T at %s", fnName(fn), r, p.InstrPos(r)))
			return false
		}
	}
	return true
}

func (g *c18gate) fieldUsesGated(f *types.Var, fn *ssa.Function) bool {
	p := g.c.P
	for _, fr := range fieldRefs(g.fns, f) {
		switch fr.Kind {
		case "store":
		case "addr":
			g.unk = append(g.unk, fmt.Sprintf("address of field %s taken at %s", f.Name(), p.InstrPos(fr.Instr)))
			return false
		case "load":
			refs := fr.Val.Referrers()
			if refs == nil {
				continue
			}
			for _, r := range *refs {
				switch u := r.(type) {
				case *ssa.DebugRef:
				case *ssa.BinOp:
					// nil comparison: no invocation
				case ssa.CallInstruction:
					if !g.siteGated(u) {
						g.reason[fn] = fmt.Sprintf("%s is reachable through field %s used at %s%s", fnName(fn), f.Name(), p.InstrPos(u), suffix(g.reason[u.Parent()]))
						return false
					}
				default:
					g.unk = append(g.unk, fmt.Sprintf("field %s flows into %T at %s", f.Name(), r, p.InstrPos(r)))
					return false
				}
			}
		}
	}
	return true
}

func c18R1(c *Check, pkg, tag string) {
	p := c.P
	const r1 = "C18.R1 every client.Client.TCP/UDP call in the local inbound is reachable from the per-connection entry only across an edge establishing `AuthFunc == nil` or an accepted AuthFunc verdict (value provenance through phis, locals, helper results)"
	fAuth := p.Field(pkg, "Server", "AuthFunc")
	clientT := p.Named(pClient, "Client")
	if fAuth == nil || clientT == nil {
		c.Unres(pkg + " Server.AuthFunc / client.Client")
		return
	}
	fns := c18pkgFns(p, pkg)
	a := &c18auth{p: p, fAuth: fAuth, final: map[*ssa.Function]*c18walkRes{}, cur: map[*ssa.Function]*c18walkRes{}, busy: map[*ssa.Function]bool{}, inprog: map[string]bool{}}
	g := c18newGate(c, a, fns)
	if len(g.entries) == 0 {
		c.Unres(pkg + ": per-connection entry (function go-started with Accept()'s result)")
		return
	}
	for e := range g.entries {
		c.Saw(fnName(e))
	}
	// dial sites
	n := 0
	for _, fn := range fns {
		for _, ci := range callsIn(fn, func(ci ssa.CallInstruction) bool {
			cc := ci.Common()
			return cc.IsInvoke() && types.Identical(cc.Value.Type(), clientT) && (cc.Method.Name() == "TCP" || cc.Method.Name() == "UDP")
		}) {
			n++
			c.Saw(fnName(fn))
			key := "C18.R1:" + tag + ":" + fnName(fn) + "→Client." + ci.Common().Method.Name()
			a.why, a.unk, g.unk = nil, nil, nil
			ok := g.siteGated(ci)
			if ok {
				c.OK(key, r1, p.InstrPos(ci))
				continue
			}
			detail := "ungated route: " + g.reason[fn]
			if len(a.why) > 0 {
				detail += "; rejected gates: " + strings.Join(a.why, " | ")
			}
			if unk := append(append([]string{}, a.unk...), g.unk...); len(unk) > 0 {
				c.Undecided(key, r1, p.InstrPos(ci), "the analysis does not follow this shape: "+strings.Join(unk, " | ")+"; "+detail)
				continue
			}
			c.Bad(key, r1, p.InstrPos(ci), detail)
		}
	}
	c.Floor("C18.R1:"+tag+":dial-sites", n, 2)
	for fn, st := range g.memo {
		if st == 1 {
			c.Saw(fnName(fn))
		}
	}
	// the client object must not leave the package's enumerated call sites
	if fHy := p.Field(pkg, "Server", "HyClient"); fHy != nil {
		for _, fr := range fieldRefs(fns, fHy) {
			if fr.Kind != "load" {
				continue
			}
			refs := fr.Val.Referrers()
			if refs == nil {
				continue
			}
			for _, r := range *refs {
				switch u := r.(type) {
				case *ssa.DebugRef, *ssa.BinOp:
				case ssa.CallInstruction:
					if u.Common().IsInvoke() && u.Common().Value == fr.Val {
						continue
					}
					c.Undecided("C18.R1:"+tag+":client-escapes:"+fnName(fr.Fn), r1, p.InstrPos(r), "the Hysteria client is passed on to another function: its dial sites cannot be enumerated here")
				default:
					c.Undecided("C18.R1:"+tag+":client-escapes:"+fnName(fr.Fn), r1, p.InstrPos(r), fmt.Sprintf("the Hysteria client flows into %T: its dial sites cannot be enumerated here", r))
				}
			}
		}
	}
}

// ---------------------------------------------------------------------------
// fresh wrapper objects

type c18obj struct {
	alloc *ssa.Alloc
	T     *types.Named
	vals  map[*types.Var]ssa.Value // field -> value stored at construction (call arguments substituted for constructor parameters)
	multi map[*types.Var]bool
	subst func(ssa.Value) ssa.Value // constructor parameter -> call argument
	ctor  *ssa.Call                 // the constructor call (nil: composite literal at the site)
}

// depsAcross: backward slice of a stored value, continued in the caller for
// constructor parameters.
func (o *c18obj) depsAcross(v ssa.Value) map[ssa.Value]bool {
	out := deps(v, depOpts{throughCalls: true})
	for d := range out {
		if prm, ok := d.(*ssa.Parameter); ok {
			if a := o.subst(prm); a != ssa.Value(prm) {
				for d2 := range deps(a, depOpts{throughCalls: true}) {
					out[d2] = true
				}
			}
		}
	}
	return out
}

// c18freshObj: v is a struct freshly built at the site (composite literal) or
// by a one-level repository constructor.
func c18freshObj(p *Prog, v ssa.Value) *c18obj {
	v = resolve(v)
	subst := func(x ssa.Value) ssa.Value { return x }
	var ctor *ssa.Call
	if call, ok := v.(*ssa.Call); ok {
		f := call.Common().StaticCallee()
		if f == nil || !p.IsRepoFn(f) || len(f.Blocks) == 0 {
			return nil
		}
		ctor = call
		var ret ssa.Value
		n := 0
		allInstrs(f, func(in ssa.Instruction) {
			if r, ok := in.(*ssa.Return); ok && len(r.Results) == 1 {
				ret = resolve(r.Results[0])
				n++
			}
		})
		if n != 1 {
			return nil
		}
		v = ret
		args := call.Common().Args
		subst = func(x ssa.Value) ssa.Value {
			rx := resolve(x)
			for i, prm := range f.Params {
				if rx == ssa.Value(prm) && i < len(args) {
					return args[i]
				}
			}
			return x
		}
	}
	al, ok := v.(*ssa.Alloc)
	if !ok {
		return nil
	}
	T := namedOf(al.Type())
	if T == nil {
		return nil
	}
	if _, isStruct := T.Underlying().(*types.Struct); !isStruct {
		return nil
	}
	o := &c18obj{alloc: al, T: T, vals: map[*types.Var]ssa.Value{}, multi: map[*types.Var]bool{}, subst: subst, ctor: ctor}
	for _, r := range *al.Referrers() {
		fa, ok := r.(*ssa.FieldAddr)
		if !ok {
			continue
		}
		f := structField(fa.X.Type(), fa.Field)
		for _, rr := range *fa.Referrers() {
			if st, ok := rr.(*ssa.Store); ok && st.Addr == ssa.Value(fa) {
				if _, dup := o.vals[f]; dup {
					o.multi[f] = true
				}
				o.vals[f] = subst(st.Val)
			}
		}
	}
	return o
}

// c18ownRead returns T's own (not promoted) Read method.
func c18ownRead(p *Prog, T *types.Named) *ssa.Function {
	fn := p.MethodOf(types.NewPointer(T), "Read")
	if fn == nil || len(fn.Blocks) == 0 || !p.IsRepoFn(fn) || fn.Synthetic != "" {
		return nil
	}
	return fn
}

// c18underReads: calls `recv.<ifaceField>.Read(p)` inside a wrapper's Read.
func c18underReads(fn *ssa.Function) (calls []ssa.CallInstruction, field *types.Var) {
	if len(fn.Params) < 2 {
		return nil, nil
	}
	for _, ci := range callsIn(fn, func(ci ssa.CallInstruction) bool { return invokeIs(ci, "Read") }) {
		ap := accessPath(ci.Common().Value)
		if ap.Root != ssa.Value(fn.Params[0]) || len(ap.Fields) != 1 {
			continue
		}
		if len(ci.Common().Args) != 1 || resolve(ci.Common().Args[0]) != ssa.Value(fn.Params[1]) {
			continue
		}
		calls = append(calls, ci)
		field = ap.Fields[0]
	}
	return calls, field
}

// c18lenOfField: v is `recv.f.Len()` or `len(recv.f)`; returns f.
func c18lenOfField(v ssa.Value, recv ssa.Value) *types.Var {
	call, ok := v.(*ssa.Call)
	if !ok {
		return nil
	}
	var subject ssa.Value
	if isBuiltinCall(call, "len") && len(call.Call.Args) == 1 {
		subject = call.Call.Args[0]
	} else if r, ok := methodCallNamed(call, "Len"); ok {
		subject = r
	} else {
		return nil
	}
	ap := accessPath(subject)
	if ap.Root != recv || len(ap.Fields) != 1 {
		return nil
	}
	return ap.Fields[0]
}

// ---------------------------------------------------------------------------
// R2: pipelined bytes behind CONNECT

func c18R2(c *Check) {
	p := c.P
	const r2 = "C18.R2 the conn handed to the CONNECT relay is the raw conn only on a fresh `Buffered() <= 0` edge of the request reader, otherwise a wrapper over the raw conn whose buffer holds exactly the Buffered() bytes read from that reader and whose Read serves the buffer before the underlying conn; the relay copies from that conn to the dialled conn"
	clientT := p.Named(pClient, "Client")
	if clientT == nil {
		c.Unres("client.Client")
		return
	}
	fns := c18pkgFns(p, pHTTP)
	// the CONNECT relay: a function with a net.Conn parameter that dials
	var relay *ssa.Function
	connIdx := -1
	var dial ssa.CallInstruction
	for _, fn := range fns {
		if fn.Parent() != nil {
			continue
		}
		idx := -1
		for i, prm := range fn.Params {
			if c18isNetConn(prm.Type()) {
				idx = i
			}
		}
		if idx < 0 {
			continue
		}
		for _, f := range withAnon(fn) {
			for _, ci := range callsIn(f, func(ci ssa.CallInstruction) bool {
				return invokeIs(ci, "TCP") && types.Identical(ci.Common().Value.Type(), clientT)
			}) {
				if relay != nil && relay != fn {
					c.Unres("more than one CONNECT relay candidate in app/internal/http")
					return
				}
				relay, connIdx, dial = fn, idx, ci
			}
		}
	}
	if relay == nil {
		c.Unres("app/internal/http: the CONNECT relay (function with a net.Conn parameter invoking Client.TCP)")
		return
	}
	c.Saw(fnName(relay))

	// ---- relay copies param -> dialled conn
	{
		key := "C18.R2:relay-source:" + fnName(relay)
		nCopy, good := 0, false
		var pos string
		for _, f := range withAnon(relay) {
			for _, ci := range callsIn(f, func(ci ssa.CallInstruction) bool {
				return calleeIs(ci, "io", "Copy") || calleeIs(ci, "io", "CopyBuffer")
			}) {
				args := ci.Common().Args
				dst := resolve(args[0])
				if tup, idx := tupleSource(dst); tup == nil || idx != 0 || tup != dial.Value() {
					continue // not towards the dialled conn
				}
				nCopy++
				pos = p.InstrPos(ci)
				if resolve(args[1]) == ssa.Value(relay.Params[connIdx]) {
					good = true
				}
			}
		}
		switch {
		case nCopy == 0:
			c.Undecided(key, r2, p.Pos(relay.Pos()), "no io.Copy towards the dialled conn found in the relay: relay shape not recognised")
		default:
			c.Req(good, key, r2, pos, "the upstream copy does not read from the conn the dispatcher handed over (a wrapper carrying pipelined bytes would be bypassed)")
		}
	}

	// ---- call sites of the relay
	nSites, nRaw, nWrap := 0, 0, 0
	rawN, wrapN := map[*ssa.Function]int{}, map[*ssa.Function]int{}
	for _, g := range fns {
		for _, ci := range callsIn(g, func(ci ssa.CallInstruction) bool { return staticCallee(ci) == relay }) {
			nSites++
			c.Saw(fnName(g))
			arg := ci.Common().Args[connIdx]
			// buffered readers of g and the conn each wraps
			type br struct {
				rd  ssa.Value
				raw ssa.Value
			}
			var brs []br
			allInstrs(g, func(in ssa.Instruction) {
				if call, ok := in.(*ssa.Call); ok && (calleeIs(call, "bufio", "NewReader") || calleeIs(call, "bufio", "NewReaderSize")) {
					brs = append(brs, br{call, resolve(call.Call.Args[0])})
				}
			})
			site := fnName(g)
			ord := func(n int) string { // ordinal only for a second site of the same kind in one function
				if n > 1 {
					return fmt.Sprintf("#%d", n)
				}
				return ""
			}
			if len(brs) == 0 {
				c.Undecided("C18.R2:site:"+site, r2, p.InstrPos(ci), "no bufio reader in the caller: cannot tell what was read ahead")
				continue
			}
			// isRd says whether a value of the function under inspection denotes the
			// request reader (identity in g, parameters mapped to arguments in a helper)
			isBuffered := func(v ssa.Value, isRd func(ssa.Value) bool) *ssa.Call {
				call, ok := resolve(v).(*ssa.Call)
				if !ok {
					return nil
				}
				if recv, ok := methodCallNamed(call, "Buffered"); ok && isRd(recv) {
					return call
				}
				return nil
			}
			// a Buffered() value is fresh at `use` when no other call touches the
			// reader on a path from the Buffered() call (its block not re-entered) to use
			fresh := func(F *ssa.Function, bc ssa.Instruction, isRd func(ssa.Value) bool, use ssa.Instruction) bool {
				w := c18walk(F, bc, nil, func(in ssa.Instruction) bool { return in == use }, bc.Block())
				if !w.instrs[use] {
					return false
				}
				okF := true
				for in := range w.instrs {
					call, isCall := in.(ssa.CallInstruction)
					if !isCall || in == use {
						continue
					}
					if _, isB := methodCallNamed(call, "Buffered"); isB {
						continue
					}
					for _, a := range call.Common().Args {
						if isRd(a) {
							// only matters if `use` is still reachable afterwards
							if c18walk(F, in, nil, func(x ssa.Instruction) bool { return x == use }, bc.Block()).instrs[use] {
								okF = false
							}
						}
					}
				}
				return okF
			}
			// one source per phi edge of the argument; a helper that returns the
			// conn (`cc, err := wrapBuffered(conn, rd)`) contributes one source per
			// return, inspected inside the helper with its parameters mapped to
			// the arguments of the call
			type asrc struct {
				v        ssa.Value
				F        *ssa.Function             // function computing v: g or a helper called by g
				from, to *ssa.BasicBlock           // phi edge of F selecting v (nil: at)
				at       ssa.Instruction           // where v is used in F: the relay call / the helper's return
				call     *ssa.Call                 // F != g: the helper call in g
				inG      func(ssa.Value) ssa.Value // value of F -> resolved value of g
			}
			var srcs []asrc
			var addSrc func(s asrc, depth int)
			addSrc = func(s asrc, depth int) {
				if ph, ok := s.v.(*ssa.Phi); ok && depth < 4 {
					for i, e := range ph.Edges {
						s2 := s
						s2.v, s2.from, s2.to = e, ph.Block().Preds[i], ph.Block()
						addSrc(s2, depth+1)
					}
					return
				}
				srcs = append(srcs, s)
			}
			addSrc(asrc{v: arg, F: g, at: ci, inG: resolve}, 0)
			// helperSrcs: v is the (idx-th) result of a repository helper called in g
			helperSrcs := func(v ssa.Value, key string) bool {
				var call *ssa.Call
				idx := 0
				switch x := resolve(v).(type) {
				case *ssa.Call:
					call = x
				case *ssa.Extract:
					call, _ = x.Tuple.(*ssa.Call)
					idx = x.Index
				}
				if call == nil || call.Parent() != g {
					return false
				}
				f := call.Common().StaticCallee()
				if f == nil || f == relay || !p.IsRepoFn(f) || len(f.Blocks) == 0 {
					return false
				}
				args := call.Common().Args
				inG := func(x ssa.Value) ssa.Value {
					rx := resolve(x)
					for i, prm := range f.Params {
						if rx == ssa.Value(prm) && i < len(args) {
							return resolve(args[i])
						}
					}
					return rx
				}
				n := 0
				allInstrs(f, func(in ssa.Instruction) {
					r, ok := in.(*ssa.Return)
					if !ok {
						return
					}
					res := retResults(r)
					if idx >= len(res) {
						return
					}
					n++
					if isNilConst(res[idx]) {
						// `return nil, err`: no conn at all; the error result tells the caller
						for j, o := range res {
							if j != idx && !isNilConst(o) && types.Identical(o.Type(), types.Universe.Lookup("error").Type()) {
								return
							}
						}
						c.Undecided(key+":nil-conn", r2, p.InstrPos(r), "the helper can return a nil conn without an error")
						return
					}
					addSrc(asrc{v: res[idx], F: f, at: r, call: call, inG: inG}, 0)
				})
				if n > 0 {
					c.Saw(fnName(f))
				}
				return n > 0
			}
			for qi := 0; qi < len(srcs); qi++ {
				src := srcs[qi]
				arg := src.v
				rarg := src.inG(arg)
				var rawOf *br
				for i := range brs {
					if brs[i].raw == rarg {
						rawOf = &brs[i]
					}
				}
				if rawOf != nil {
					// (1) raw conn: only when nothing is buffered
					nRaw++
					rawN[g]++
					key := "C18.R2:raw-conn-only-when-drained:" + site + ord(rawN[g])
					rd := rawOf.rd
					isRdF := func(x ssa.Value) bool { return src.inG(x) == rd }
					use := src.at
					if src.from != nil { // the value is chosen when the phi edge is taken
						use = src.from.Instrs[len(src.from.Instrs)-1]
					}
					w := c18walk(src.F, nil, func(cond ssa.Value, pol bool) bool {
						var bc *ssa.Call
						_, hi, ok := c18cmpRange(cond, pol, func(x ssa.Value) bool {
							if b := isBuffered(x, isRdF); b != nil {
								bc = b
								return true
							}
							return false
						})
						return ok && hi <= 0 && bc != nil && fresh(src.F, bc, isRdF, use)
					}, nil, nil)
					reached := w.instrs[src.at]
					if src.from != nil {
						reached = w.edges[c18edge{src.from, src.to}]
					}
					if !reached && src.call != nil {
						// nothing may read from the reader between the helper and the relay
						reached = !fresh(g, src.call, func(x ssa.Value) bool { return resolve(x) == rd }, ci)
					}
					c.Req(!reached, key, r2, p.InstrPos(ci), "the raw connection is handed to the CONNECT relay on a path where the request reader may still hold bytes read ahead (no fresh `Buffered() == 0` edge): bytes pipelined behind the CONNECT header are dropped")
					continue
				}
				// (2) wrapper
				o := c18freshObj(p, arg)
				if o == nil && src.F == g && helperSrcs(arg, "C18.R2:wrapper:"+site) {
					continue // inspected per return of the helper
				}
				nWrap++
				wrapN[g]++
				key := "C18.R2:wrapper:" + site + ord(wrapN[g])
				if o == nil {
					c.Undecided(key, r2, p.InstrPos(ci), "the conn given to the relay is neither the raw conn nor a wrapper built here, by a one-level constructor or by a helper returning it")
					continue
				}
				rdFn := c18ownRead(p, o.T)
				if rdFn == nil {
					c.Bad(key+":read", r2, p.InstrPos(ci), "wrapper type "+o.T.Obj().Name()+" has no Read of its own: buffered bytes are never served")
					continue
				}
				c.Saw(fnName(rdFn))
				bufF, underF, okRead := c18R2read(c, rdFn, r2)
				if !okRead {
					continue
				}
				// underlying conn = the conn the reader wraps
				var rd ssa.Value
				uv := o.vals[underF]
				for i := range brs {
					if uv != nil && src.inG(uv) == brs[i].raw {
						rd = brs[i].rd
					}
				}
				if !c.Req(rd != nil, key+":underlying", r2, p.InstrPos(ci), "the wrapper's underlying conn ("+underF.Name()+") is not the connection the request reader reads from") {
					continue
				}
				// buffer contents: a slice of Buffered() bytes filled from the reader
				bv := o.vals[bufF]
				var fill *ssa.Call
				var data *ssa.MakeSlice
				var isRdFill func(ssa.Value) bool
				unknownFill := ""
				// what denotes the request reader inside function F2 (g, the helper, the constructor)
				isRdIn := func(F2 *ssa.Function) func(ssa.Value) bool {
					switch {
					case F2 == g:
						return func(x ssa.Value) bool { return resolve(x) == rd }
					case F2 == src.F:
						return func(x ssa.Value) bool { return src.inG(x) == rd }
					case o.ctor != nil && F2 == o.ctor.Common().StaticCallee():
						return func(x ssa.Value) bool { return src.inG(o.subst(x)) == rd }
					}
					return nil
				}
				if bv != nil {
					depset := o.depsAcross(bv)
					if src.F != g {
						var more []ssa.Value
						for d := range depset {
							if prm, ok := d.(*ssa.Parameter); ok && prm.Parent() == src.F {
								more = append(more, src.inG(prm))
							}
						}
						for _, m := range more {
							for d2 := range deps(m, depOpts{throughCalls: true}) {
								depset[d2] = true
							}
						}
					}
					for d := range depset {
						ms, ok := d.(*ssa.MakeSlice)
						if !ok {
							continue
						}
						isRd2 := isRdIn(ms.Parent())
						if isRd2 == nil {
							continue
						}
						for _, r := range *ms.Referrers() {
							call, ok := r.(*ssa.Call)
							if !ok {
								continue
							}
							switch {
							case calleeIs(call, "io", "ReadFull") && isRd2(call.Call.Args[0]) && call.Call.Args[1] == ssa.Value(ms):
								fill, data, isRdFill = call, ms, isRd2
							case calleeIs(call, "bufio", "(*Reader).Read") && isRd2(call.Call.Args[0]) && call.Call.Args[1] == ssa.Value(ms):
								fill, data, isRdFill = call, ms, isRd2
							default:
								for _, a := range call.Call.Args {
									if isRd2(a) {
										unknownFill = fnName(staticCallee(call))
									}
								}
							}
						}
					}
				}
				if fill == nil {
					if unknownFill != "" {
						c.Undecided(key+":filled", r2, p.InstrPos(ci), "the wrapper buffer is filled through "+unknownFill+", which this rule does not model")
					} else {
						c.Bad(key+":filled", r2, p.InstrPos(ci), "the wrapper's buffer ("+bufF.Name()+") is not filled from the request reader (io.ReadFull / Read into the slice it is built from): bytes pipelined behind the CONNECT header are discarded")
					}
					continue
				}
				storeOf := func() ssa.Instruction {
					for _, r := range *o.alloc.Referrers() {
						if fa, ok := r.(*ssa.FieldAddr); ok && structField(fa.X.Type(), fa.Field) == bufF {
							for _, rr := range *fa.Referrers() {
								if st, ok := rr.(*ssa.Store); ok {
									return st
								}
							}
						}
					}
					return ci
				}()
				// the construction as seen from the function that fills the slice: the
				// store itself, else the constructor call, the helper call, the use
				F2 := fill.Parent()
				var anchor ssa.Instruction
				for _, cand := range []ssa.Instruction{storeOf, o.ctor, src.call, src.at, ci} {
					if cand == nil {
						continue
					}
					if v, isV := cand.(*ssa.Call); isV && v == nil {
						continue
					}
					if cand.Parent() == F2 {
						anchor = cand
						break
					}
				}
				okDom := anchor != nil && (dominates(fill, anchor) || (F2 == g && dominates(fill, ci)))
				c.Req(okDom, key+":filled", r2, p.InstrPos(fill), "the read from the request reader does not precede the construction of the wrapper on every path")
				bc := isBuffered(data.Len, isRdFill)
				okLen := bc != nil && fresh(F2, bc, isRdFill, fill)
				c.Req(okLen, key+":length", r2, p.InstrPos(data), "the slice moved into the wrapper is not exactly a fresh Buffered() of the request reader long (too short drops or reorders pipelined bytes, stale counts bytes of the header)")
			}
		}
	}
	c.Floor("C18.R2:relay-sites", nSites, 1)
	c.Floor("C18.R2:wrapped-sites", nWrap, 1)
	_ = nRaw
}

// c18R2read checks the buffer-first Read of the CONNECT wrapper; returns the
// buffer field and the underlying-conn field.
func c18R2read(c *Check, fn *ssa.Function, r2 string) (bufF, underF *types.Var, ok bool) {
	p := c.P
	key := "C18.R2:wrapper-read:" + fnName(fn)
	recv := ssa.Value(fn.Params[0])
	under, uf := c18underReads(fn)
	if len(under) == 0 {
		c.Undecided(key, r2, p.Pos(fn.Pos()), "no read of an underlying conn field with the caller's slice found: wrapper shape not recognised")
		return nil, nil, false
	}
	underF = uf
	// the buffer field: the field whose emptiness guards every underlying read
	cands := map[*types.Var]bool{}
	for _, b := range fn.Blocks {
		if len(b.Instrs) == 0 {
			continue
		}
		if iff, ok := b.Instrs[len(b.Instrs)-1].(*ssa.If); ok {
			cond, _ := stripNot(iff.Cond, true)
			if bo, ok := cond.(*ssa.BinOp); ok {
				for _, side := range []ssa.Value{bo.X, bo.Y} {
					if f := c18lenOfField(side, recv); f != nil {
						cands[f] = true
					}
				}
			}
		}
	}
	for f := range cands {
		f := f
		all := true
		for _, u := range under {
			w := c18walk(fn, nil, func(cond ssa.Value, pol bool) bool {
				_, hi, ok := c18cmpRange(cond, pol, func(x ssa.Value) bool { return c18lenOfField(x, recv) == f })
				return ok && hi <= 0
			}, nil, nil)
			if w.instrs[u] {
				all = false
			}
		}
		if all {
			bufF = f
		}
	}
	if bufF == nil {
		pos := p.InstrPos(under[0])
		if len(cands) == 0 {
			c.Bad(key+":buffer-first", r2, pos, "the wrapper reads the underlying conn without testing its buffer: buffered (pipelined) bytes are not served first")
		} else {
			c.Bad(key+":buffer-first", r2, pos, "the underlying conn is read on a path where the wrapper's buffer may still hold bytes (the guard is not `buffer length <= 0`): pipelined bytes are delayed behind later bytes or lost")
		}
		return nil, nil, false
	}
	c.OK(key+":buffer-first", r2, p.InstrPos(under[0]))
	// the buffer is actually served into the caller's slice
	served := false
	for _, ci := range callsIn(fn, func(ci ssa.CallInstruction) bool {
		if _, ok := methodCallNamed(ci, "Read"); ok && !ci.Common().IsInvoke() {
			return true
		}
		return isBuiltinCall(ci, "copy")
	}) {
		args := ci.Common().Args
		if isBuiltinCall(ci, "copy") {
			if len(args) == 2 && resolve(args[0]) == ssa.Value(fn.Params[1]) {
				if ap := accessPath(args[1]); ap.Root == recv && len(ap.Fields) >= 1 && ap.Fields[0] == bufF {
					served = true
				}
			}
			continue
		}
		if len(args) == 2 && resolve(args[1]) == ssa.Value(fn.Params[1]) {
			if ap := accessPath(args[0]); ap.Root == recv && len(ap.Fields) == 1 && ap.Fields[0] == bufF {
				served = true
			}
		}
	}
	if !c.Req(served, key+":serves-buffer", r2, p.Pos(fn.Pos()), "the wrapper never reads its buffer ("+bufF.Name()+") into the caller's slice") {
		return nil, nil, false
	}
	return bufF, underF, true
}

// ---------------------------------------------------------------------------
// R3: shared SOCKS5/HTTP port

type c18handover struct {
	in      ssa.Instruction // the Select or Send
	sel     *ssa.Select
	idx     int
	ch, val ssa.Value
}

// c18listenField: the muxListener field a Listen* method stores its new
// sub-listener into.
func c18listenField(fn *ssa.Function, muxT *types.Named) *types.Var {
	var out *types.Var
	if fn == nil {
		return nil
	}
	allInstrs(fn, func(in ssa.Instruction) {
		st, ok := in.(*ssa.Store)
		if !ok || isNilConst(st.Val) {
			return
		}
		fa, ok := st.Addr.(*ssa.FieldAddr)
		if !ok || namedOf(fa.X.Type()) != muxT {
			return
		}
		if _, isPtr := st.Val.Type().Underlying().(*types.Pointer); isPtr {
			out = structField(fa.X.Type(), fa.Field)
		}
	})
	if out == nil {
		// the slot is handed by address to a shared bind helper: `l.bind(&l.xListener, …)`
		allInstrs(fn, func(in ssa.Instruction) {
			fa, ok := in.(*ssa.FieldAddr)
			if !ok || namedOf(fa.X.Type()) != muxT {
				return
			}
			f := structField(fa.X.Type(), fa.Field)
			if f == nil {
				return
			}
			if _, isPtr := f.Type().Underlying().(*types.Pointer); !isPtr {
				return
			}
			for _, ref := range *fa.Referrers() {
				if ci, ok := ref.(ssa.CallInstruction); ok {
					if g := staticCallee(ci); g != nil && fnPkg(g) == fnPkg(fn) {
						out = f
					}
				}
			}
		})
	}
	return out
}

// c18sliceLen: static length of a byte slice expression and the storage it views.
func c18sliceLen(v ssa.Value) (n int64, base ssa.Value) {
	switch x := v.(type) {
	case *ssa.MakeSlice:
		if k, ok := constInt(x.Len); ok {
			return k, x
		}
	case *ssa.Slice:
		lo, hi := int64(0), int64(-1)
		if x.Low != nil {
			k, ok := constInt(x.Low)
			if !ok {
				return -1, nil
			}
			lo = k
		}
		if pt, ok := x.X.Type().Underlying().(*types.Pointer); ok {
			if at, ok := pt.Elem().Underlying().(*types.Array); ok {
				hi = at.Len()
			}
		} else if n0, _ := c18sliceLen(x.X); n0 >= 0 {
			hi = n0
		}
		if x.High != nil {
			k, ok := constInt(x.High)
			if !ok {
				return -1, nil
			}
			hi = k
		}
		if hi < 0 {
			return -1, nil
		}
		b := x.X
		if _, b2 := c18sliceLen(x.X); b2 != nil {
			b = b2
		}
		return hi - lo, b
	}
	return -1, nil
}

func c18R3(c *Check) {
	p := c.P
	la := p.Locks()
	const r3 = "C18.R3 the mux dispatcher reads exactly one byte (io.ReadFull) from the accepted conn, routes byte==5 to the SOCKS sub-listener and everything else to the HTTP sub-listener (fields read under the mux lock), hands over a wrapper that replays that byte before delegating (consumed only when len(p)>=1), and on every path to a return the conn was either handed over exactly once or closed"
	muxT := p.Named(pMux, "muxListener")
	if muxT == nil {
		c.Unres("proxymux.muxListener")
		return
	}
	socksF := c18listenField(p.Fn(pMux, "(*muxListener).ListenSOCKS"), muxT)
	httpF := c18listenField(p.Fn(pMux, "(*muxListener).ListenHTTP"), muxT)
	if socksF == nil || httpF == nil || socksF == httpF {
		c.Unres("proxymux: sub-listener fields stored by (*muxListener).ListenSOCKS / ListenHTTP")
		return
	}
	subT := namedOf(socksF.Type())
	var lockF *types.Var
	if st, ok := muxT.Underlying().(*types.Struct); ok {
		for i := 0; i < st.NumFields(); i++ {
			if n := namedOf(st.Field(i).Type()); n != nil && n.Obj().Pkg() != nil && n.Obj().Pkg().Path() == "sync" && (n.Obj().Name() == "Mutex" || n.Obj().Name() == "RWMutex") {
				lockF = st.Field(i)
			}
		}
	}
	if subT == nil || lockF == nil {
		c.Unres("proxymux: sub-listener type / mux lock field")
		return
	}
	fns := c18pkgFns(p, pMux)
	isSubChan := func(ch ssa.Value) bool {
		u, ok := resolve(ch).(*ssa.UnOp)
		if !ok || u.Op != token.MUL {
			return false
		}
		fa, ok := u.X.(*ssa.FieldAddr)
		return ok && namedOf(fa.X.Type()) == subT
	}
	// the dispatcher: the function handing conns to a sub-listener's channel
	var D *ssa.Function
	var hos []c18handover
	for _, fn := range fns {
		allInstrs(fn, func(in ssa.Instruction) {
			switch x := in.(type) {
			case *ssa.Select:
				for i, st := range x.States {
					if st.Dir == types.SendOnly && isSubChan(st.Chan) {
						hos = append(hos, c18handover{in: x, sel: x, idx: i, ch: st.Chan, val: st.Send})
						if D != nil && D != fn {
							D = nil
						} else {
							D = fn
						}
					}
				}
			case *ssa.Send:
				if isSubChan(x.Chan) {
					hos = append(hos, c18handover{in: x, idx: -1, ch: x.Chan, val: x.X})
					D = fn
				}
			}
		})
	}
	if D == nil || len(hos) == 0 {
		c.Unres("proxymux: the dispatcher (function sending a conn on a sub-listener channel)")
		return
	}
	for _, h := range hos {
		if h.in.Parent() != D {
			c.Unres("proxymux: conns are handed to sub-listeners from more than one function")
			return
		}
	}
	c.Saw(fnName(D))
	dn := fnName(D)
	var conn *ssa.Parameter
	for _, prm := range D.Params {
		if c18isNetConn(prm.Type()) {
			conn = prm
		}
	}
	if conn == nil {
		c.Unres("proxymux dispatcher: net.Conn parameter")
		return
	}

	// ---- R3a: exactly one byte is read, with io.ReadFull, from the accepted conn
	var peek *ssa.Call
	var bases []ssa.Value
	allInstrs(D, func(in ssa.Instruction) {
		ci, ok := in.(ssa.CallInstruction)
		if !ok {
			return
		}
		if recv, isRead := methodCallNamed(ci, "Read"); isRead && resolve(recv) == ssa.Value(conn) {
			c.Bad("C18.R3:peek:"+dn+":read-full", r3, p.InstrPos(in), "the first byte is fetched with conn.Read, which may return 0 bytes without error (zero-length / short read): a byte that was never received would be routed and replayed")
			return
		}
		call, ok := in.(*ssa.Call)
		if !ok {
			return
		}
		if (calleeIs(call, "io", "ReadFull") || calleeIs(call, "io", "ReadAtLeast")) && resolve(call.Call.Args[0]) == ssa.Value(conn) {
			peek = call
		}
	})
	if peek == nil {
		for _, o := range c.Obls {
			if o.Key == "C18.R3:peek:"+dn+":read-full" {
				return // already reported: the peek is a plain Read
			}
		}
		c.Undecided("C18.R3:peek:"+dn, r3, p.Pos(D.Pos()), "no io.ReadFull/io.ReadAtLeast on the accepted conn in the dispatcher: peek shape not recognised")
		return
	}
	{
		n, base := c18sliceLen(peek.Call.Args[1])
		key := "C18.R3:peek:" + dn + ":one-byte"
		if n < 0 {
			c.Undecided(key, r3, p.InstrPos(peek), "length of the peek buffer is not a constant")
			return
		}
		okMin := true
		if calleeIs(peek, "io", "ReadAtLeast") {
			k, ok := constInt(peek.Call.Args[2])
			okMin = ok && k >= 1
		}
		c.Req(n == 1 && okMin, key, r3, p.InstrPos(peek), fmt.Sprintf("the dispatcher takes %d byte(s) off the connection before routing but only one byte is replayed to the handler (or fewer than one is guaranteed)", n))
		bases = []ssa.Value{peek.Call.Args[1], base}
	}
	isFirst := func(v ssa.Value) bool {
		u, ok := resolve(v).(*ssa.UnOp)
		if !ok || u.Op != token.MUL {
			return false
		}
		ia, ok := u.X.(*ssa.IndexAddr)
		if !ok || !isConstInt(ia.Index, 0) {
			return false
		}
		for _, b := range bases {
			if b != nil && (ia.X == b || resolve(ia.X) == resolve(b)) {
				return true
			}
		}
		return false
	}
	// the byte is used only after a successful read
	{
		errv := extractOf(peek, 1)
		w := c18walk(D, nil, func(cond ssa.Value, pol bool) bool {
			x, isNil, ok := nilTest(cond, pol)
			return ok && isNil && errv != nil && resolve(x) == errv
		}, nil, nil)
		bad := ""
		allInstrs(D, func(in ssa.Instruction) {
			if v, ok := in.(ssa.Value); ok && isFirst(v) && w.instrs[in] && dominates(peek, in) {
				bad = p.InstrPos(in)
			}
		})
		c.Req(bad == "", "C18.R3:peek:"+dn+":after-successful-read", r3, p.InstrPos(peek), "the peeked byte is used at "+bad+" on a path where the read failed (no byte was received)")
	}

	// ---- R3b: routing
	type leaf struct {
		v        ssa.Value
		fn       *ssa.Function
		from, to *ssa.BasicBlock
		at       ssa.Instruction
		byteIs   func(ssa.Value) bool
	}
	var leaves []leaf
	var expand func(v ssa.Value, l leaf, depth int)
	expand = func(v ssa.Value, l leaf, depth int) {
		rv := resolve(v)
		if depth > 4 {
			l.v = rv
			leaves = append(leaves, l)
			return
		}
		switch x := rv.(type) {
		case *ssa.Phi:
			for i, e := range x.Edges {
				l2 := l
				l2.from, l2.to, l2.at = x.Block().Preds[i], x.Block(), nil
				expand(e, l2, depth+1)
			}
			return
		case *ssa.Call:
			if f := x.Common().StaticCallee(); f != nil && p.IsRepoFn(f) && len(f.Blocks) > 0 && f.Signature.Results().Len() == 1 {
				args := x.Common().Args
				outer := l.byteIs
				inner := func(y ssa.Value) bool {
					ry := resolve(y)
					for i, prm := range f.Params {
						if ry == ssa.Value(prm) && i < len(args) {
							return outer(args[i])
						}
					}
					return false
				}
				c.Saw(fnName(f))
				allInstrs(f, func(in ssa.Instruction) {
					if r, ok := in.(*ssa.Return); ok {
						if res := retResults(r); len(res) == 1 {
							expand(res[0], leaf{fn: f, at: r, byteIs: inner}, depth+1)
						}
					}
				})
				return
			}
		}
		l.v = rv
		leaves = append(leaves, l)
	}
	for _, h := range hos {
		T := accessPath(h.ch).Root
		expand(T, leaf{fn: D, at: h.in, byteIs: isFirst}, 0)
	}
	nS, nH := 0, 0
	seenLeaf := map[string]bool{}
	for _, l := range leaves {
		var want5 bool
		var tag string
		switch {
		case isLoadOfField(l.v, socksF):
			want5, tag = true, "socks"
			nS++
		case isLoadOfField(l.v, httpF):
			want5, tag = false, "http"
			nH++
		case isNilConst(l.v):
			c.Bad("C18.R3:route:none:"+fnName(l.fn), r3, p.Pos(l.fn.Pos()), "some first byte is routed to no sub-listener at all (nil target): the connection is closed instead of being handled as HTTP")
			continue
		default:
			c.Bad("C18.R3:route:other:"+fnName(l.fn), r3, p.Pos(l.fn.Pos()), "the hand-over target comes from `"+c18valStr(l.v)+"`, which is neither the SOCKS nor the HTTP sub-listener field")
			continue
		}
		key := "C18.R3:route:" + tag + ":" + fnName(l.fn)
		if seenLeaf[key] {
			key += fmt.Sprintf("#%d", nS+nH)
		}
		seenLeaf[key] = true
		byteIs := l.byteIs
		w := c18walk(l.fn, nil, func(cond ssa.Value, pol bool) bool {
			bo, ok := cond.(*ssa.BinOp)
			if !ok || (bo.Op != token.EQL && bo.Op != token.NEQ) {
				return false
			}
			var other ssa.Value
			if isConstInt(bo.Y, 5) {
				other = bo.X
			} else if isConstInt(bo.X, 5) {
				other = bo.Y
			} else {
				return false
			}
			if !byteIs(other) {
				return false
			}
			return ((bo.Op == token.EQL) == pol) == want5
		}, nil, nil)
		reached := false
		pos := p.Pos(l.fn.Pos())
		switch {
		case l.from != nil:
			reached = w.edges[c18edge{l.from, l.to}]
			pos = c18blockPos(p, l.from)
		case l.at != nil:
			reached = w.instrs[l.at]
			pos = p.InstrPos(l.at)
		}
		what := "the SOCKS sub-listener is selected on a path where the first byte is not known to equal 0x05"
		if !want5 {
			what = "the HTTP sub-listener is selected on a path where the first byte is not known to differ from 0x05"
		}
		c.Req(!reached, key, r3, pos, what)
		if ld, ok := l.v.(*ssa.UnOp); ok {
			c.Req(la.Holds(ld, lockF, lockR), key+":locked", r3, p.InstrPos(ld), "the sub-listener field is read without holding the mux lock (registration and close race with routing)")
		}
	}
	c.Floor("C18.R3:route:socks", nS, 1)
	c.Floor("C18.R3:route:http", nH, 1)

	// ---- R3c/R3d: the wrapper replays the byte
	var wrappers []*ssa.Alloc
	// one entry per (hand-over, phi source of the value handed over)
	var hsrc []c18handover
	for _, h := range hos {
		if ph, ok := resolve(h.val).(*ssa.Phi); ok {
			for _, e := range ph.Edges {
				h2 := h
				h2.val = e
				hsrc = append(hsrc, h2)
			}
			continue
		}
		hsrc = append(hsrc, h)
	}
	for i, h := range hsrc {
		key := "C18.R3:wrapper:" + dn
		if i > 0 {
			key += fmt.Sprintf("#%d", i+1)
		}
		o := c18freshObj(p, h.val)
		if o == nil {
			if resolve(h.val) == ssa.Value(conn) {
				c.Bad(key, r3, p.InstrPos(h.in), "the bare connection is handed over: the byte consumed for protocol detection is lost")
			} else {
				c.Undecided(key, r3, p.InstrPos(h.in), "the value handed over is not a wrapper built here or by a one-level constructor")
			}
			continue
		}
		wrappers = append(wrappers, o.alloc)
		rd := c18ownRead(p, o.T)
		if rd == nil {
			c.Bad(key+":read", r3, p.InstrPos(h.in), "wrapper type "+o.T.Obj().Name()+" has no Read of its own: the peeked byte is never replayed")
			continue
		}
		c.Saw(fnName(rd))
		flagF, byteF, underF, ok := c18R3read(c, rd, fns, r3)
		if !ok {
			continue
		}
		bv := o.vals[byteF]
		c.Req(bv != nil && !o.multi[byteF] && isFirst(bv), key+":byte", r3, p.InstrPos(h.in), "the wrapper's replay byte ("+byteF.Name()+") is not the byte read from the connection")
		uv := o.vals[underF]
		c.Req(uv != nil && resolve(uv) == ssa.Value(conn), key+":conn", r3, p.InstrPos(h.in), "the wrapper's underlying conn ("+underF.Name()+") is not the accepted connection")
		fv, set := o.vals[flagF]
		c.Req(!set || isConstBool(fv, false), key+":fresh-flag", r3, p.InstrPos(h.in), "the wrapper is created with its byte already marked consumed")
	}

	// ---- R3e: hand over exactly once or close, on every path
	isConnVal := func(v ssa.Value) bool {
		rv := resolve(v)
		if rv == ssa.Value(conn) {
			return true
		}
		for _, w := range wrappers {
			if rv == ssa.Value(w) {
				return true
			}
		}
		return false
	}
	var closesParam func(f *ssa.Function, i int) bool
	closesParam = func(f *ssa.Function, i int) bool {
		if f == nil || len(f.Blocks) == 0 || i >= len(f.Params) {
			return false
		}
		prm := f.Params[i]
		return len(exitsReachableAvoiding(f, nil, func(in ssa.Instruction) bool {
			return isCloseOf(in, func(v ssa.Value) bool { return resolve(v) == ssa.Value(prm) })
		})) == 0
	}
	isClose := func(in ssa.Instruction) bool {
		if isCloseOf(in, isConnVal) {
			return true
		}
		if call, ok := in.(*ssa.Call); ok {
			if f := call.Common().StaticCallee(); f != nil && p.IsRepoFn(f) {
				for i, a := range call.Common().Args {
					if isConnVal(a) && closesParam(f, i) {
						return true
					}
				}
			}
		}
		return false
	}
	sendTaken := func(cond ssa.Value, pol bool) bool {
		bo, ok := cond.(*ssa.BinOp)
		if !ok || !((bo.Op == token.EQL && pol) || (bo.Op == token.NEQ && !pol)) {
			return false
		}
		for _, h := range hos {
			if h.sel == nil {
				continue
			}
			idx := extractOf(h.sel, 0)
			if idx != nil && ((bo.X == idx && isConstInt(bo.Y, int64(h.idx))) || (bo.Y == idx && isConstInt(bo.X, int64(h.idx)))) {
				return true
			}
		}
		return false
	}
	isPlainSend := func(in ssa.Instruction) bool {
		for _, h := range hos {
			if h.sel == nil && h.in == in {
				return true
			}
		}
		return false
	}
	{
		w := c18walk(D, nil, sendTaken, func(in ssa.Instruction) bool { return isClose(in) || isPlainSend(in) }, nil)
		var leaks []string
		allInstrs(D, func(in ssa.Instruction) {
			r, ok := in.(*ssa.Return)
			if !ok || !w.instrs[r] || D.Recover == r.Block() {
				return
			}
			// describe one witness path
			var steps []string
			path := w.witness(r.Block())
			for i := 0; i+1 < len(path); i++ {
				b, nx := path[i], path[i+1]
				iff, ok := b.Instrs[len(b.Instrs)-1].(*ssa.If)
				if !ok {
					continue
				}
				pol := b.Succs[0] == nx
				cond, pol := stripNot(iff.Cond, pol)
				if bo, ok := cond.(*ssa.BinOp); ok && bo.Op == token.EQL && pol {
					if ex, ok := bo.X.(*ssa.Extract); ok {
						if sel, ok := ex.Tuple.(*ssa.Select); ok && ex.Index == 0 {
							if k, ok := constInt(bo.Y); ok && int(k) < len(sel.States) {
								st := sel.States[k]
								dir := "<-"
								if st.Dir == types.SendOnly {
									dir = "send on "
								}
								steps = append(steps, fmt.Sprintf("select case %s%s", dir, accessPath(st.Chan).FieldNames()))
							}
						}
					}
				}
			}
			s := "return at " + p.InstrPos(r)
			if len(steps) > 0 {
				s += " via " + strings.Join(steps, ", ")
			}
			leaks = append(leaks, s)
		})
		c.Req(len(leaks) == 0 && !w.capHit, "C18.R3:dispose:"+dn, r3, p.Pos(D.Pos()), "the accepted connection is neither handed to a sub-listener nor closed on: "+strings.Join(leaks, "; ")+" (the client hangs on an fd nobody owns)")
	}
	// after the hand-over: no Close, no second hand-over
	{
		bad := ""
		check := func(ins []ssa.Instruction, self ssa.Instruction) {
			for _, in := range ins {
				if in == self {
					continue
				}
				if isClose(in) {
					bad = "Close at " + p.InstrPos(in) + " after the hand-over (the handler receives a closed connection)"
				}
				if isPlainSend(in) {
					bad = "second hand-over at " + p.InstrPos(in)
				}
				if s, ok := in.(*ssa.Select); ok {
					for _, h := range hos {
						if h.sel == s {
							bad = "second hand-over at " + p.InstrPos(in)
						}
					}
				}
			}
		}
		for _, b := range D.Blocks {
			for i, s := range b.Succs {
				if cond, pol, ok := edgeFact(b, i); ok && sendTaken(cond, pol) && len(s.Instrs) > 0 {
					ins := append([]ssa.Instruction{s.Instrs[0]}, reachFrom(D, s.Instrs[0], nil, nil)...)
					check(ins, nil)
				}
			}
		}
		for _, h := range hos {
			if h.sel == nil {
				check(reachFrom(D, h.in, nil, nil), nil)
			}
		}
		allInstrs(D, func(in ssa.Instruction) {
			if d, ok := in.(*ssa.Defer); ok && isCloseOf(d, isConnVal) {
				bad = "deferred Close at " + p.InstrPos(d) + " also runs after the hand-over (the handler receives a closed connection)"
			}
		})
		c.Req(bad == "", "C18.R3:handover-exclusive:"+dn, r3, p.Pos(D.Pos()), bad)
	}
}

// c18R3read checks the replay wrapper's Read; returns the consumed-flag field,
// the byte field and the underlying-conn field.
func c18R3read(c *Check, fn *ssa.Function, fns []*ssa.Function, r3 string) (flagF, byteF, underF *types.Var, ok bool) {
	p := c.P
	key := "C18.R3:replay-read:" + fnName(fn)
	recv := ssa.Value(fn.Params[0])
	bs := ssa.Value(fn.Params[1])
	under, uf := c18underReads(fn)
	if len(under) == 0 {
		c.Undecided(key, r3, p.Pos(fn.Pos()), "no delegation to an underlying conn field found: wrapper shape not recognised")
		return nil, nil, nil, false
	}
	underF = uf
	T := namedOf(fn.Params[0].Type())
	st, _ := T.Underlying().(*types.Struct)
	// the consumed flag: a bool field whose true-edge guards every delegation
	for i := 0; st != nil && i < st.NumFields(); i++ {
		f := st.Field(i)
		if b, ok := f.Type().Underlying().(*types.Basic); !ok || b.Kind() != types.Bool {
			continue
		}
		w := c18walk(fn, nil, func(cond ssa.Value, pol bool) bool {
			if !pol || !isLoadOfField(cond, f) {
				return false
			}
			return accessPath(cond).Root == recv
		}, nil, nil)
		all := true
		for _, u := range under {
			if w.instrs[u] {
				all = false
			}
		}
		if all {
			flagF = f
		}
	}
	if flagF == nil {
		c.Bad(key+":delegates-after-replay", r3, p.InstrPos(under[0]), "the wrapper reads the underlying conn on a path where the peeked byte has not been marked delivered: the first byte is skipped or reordered")
		return nil, nil, nil, false
	}
	c.OK(key+":delegates-after-replay", r3, p.InstrPos(under[0]))
	// delivery: bs[0] = recv.<byte field>
	var deliver []ssa.Instruction
	var copyDeliver []*ssa.Call
	wrongVal := ""
	allInstrs(fn, func(in ssa.Instruction) {
		// delivery through copy(p, []byte{<byte field>}): at most one byte, none for an empty p
		if call, ok := in.(*ssa.Call); ok && isBuiltinCall(call, "copy") && len(call.Call.Args) == 2 {
			dst := resolve(call.Call.Args[0])
			if sl, ok := dst.(*ssa.Slice); ok && (sl.Low == nil || isConstInt(sl.Low, 0)) {
				dst = resolve(sl.X)
			}
			if dst == bs {
				for d := range deps(call.Call.Args[1], depOpts{}) {
					ap := accessPath(d)
					if ap.Root == recv && len(ap.Fields) == 1 {
						if b, ok := ap.Fields[0].Type().Underlying().(*types.Basic); ok && b.Kind() == types.Uint8 {
							byteF = ap.Fields[0]
							deliver = append(deliver, call)
							copyDeliver = append(copyDeliver, call)
						}
					}
				}
			}
			return
		}
		s, ok := in.(*ssa.Store)
		if !ok {
			return
		}
		ia, ok := s.Addr.(*ssa.IndexAddr)
		if !ok || resolve(ia.X) != bs {
			return
		}
		ap := accessPath(s.Val)
		isByteField := ap.Root == recv && len(ap.Fields) == 1
		if !isConstInt(ia.Index, 0) {
			wrongVal = fmt.Sprintf("the replayed byte is written to index `%s` of the caller's slice at %s", c18valStr(ia.Index), p.InstrPos(s))
			return
		}
		if !isByteField {
			wrongVal = fmt.Sprintf("p[0] is set to `%s` at %s, not to the stored byte", c18valStr(s.Val), p.InstrPos(s))
			return
		}
		byteF = ap.Fields[0]
		deliver = append(deliver, s)
	})
	if wrongVal != "" {
		c.Bad(key+":delivers-byte", r3, p.Pos(fn.Pos()), wrongVal)
		return nil, nil, nil, false
	}
	if len(deliver) == 0 {
		c.Undecided(key+":delivers-byte", r3, p.Pos(fn.Pos()), "no `p[0] = <byte field>` store found: delivery shape not recognised")
		return nil, nil, nil, false
	}
	c.OK(key+":delivers-byte", r3, p.InstrPos(deliver[0]))
	// stores to the flag
	lenGE1 := func(cond ssa.Value, pol bool) bool {
		lo, _, ok := c18cmpRange(cond, pol, func(x ssa.Value) bool {
			call, ok := x.(*ssa.Call)
			if ok && isBuiltinCall(call, "len") && resolve(call.Call.Args[0]) == bs {
				return true
			}
			// the count returned by the delivering copy is as good as len(p)
			for _, cd := range copyDeliver {
				if x == ssa.Value(cd) {
					return true
				}
			}
			return false
		})
		return ok && lo >= 1
	}
	wLen := c18walk(fn, nil, lenGE1, nil, nil)
	n := 0
	for _, fr := range fieldRefs(fns, flagF) {
		switch fr.Kind {
		case "addr":
			c.Bad(key+":flag-alias:"+fnName(fr.Fn), r3, p.InstrPos(fr.Instr), "address of the consumed flag escapes")
		case "store":
			if al, ok := accessPath(fr.Addr).Root.(*ssa.Alloc); ok && al.Parent() == fr.Fn && isConstBool(fr.Val, false) {
				continue // explicit zero in a literal
			}
			n++
			k := key + ":flag-store:" + fnName(fr.Fn)
			if n > 1 {
				k += fmt.Sprintf("#%d", n)
			}
			if !c.Req(fr.Fn == fn, k+":where", r3, p.InstrPos(fr.Instr), "the consumed flag is written outside the wrapper's Read") {
				continue
			}
			if !isConstBool(fr.Val, true) {
				c.Bad(k+":value", r3, p.InstrPos(fr.Instr), "the consumed flag is assigned something other than true")
				continue
			}
			c.Req(!wLen.instrs[fr.Instr], k+":nonempty-read", r3, p.InstrPos(fr.Instr), "the byte is marked consumed on a path where len(p) may be 0: a zero-length Read swallows the protocol-detection byte")
			// the byte is delivered whenever the flag is set
			delivered := false
			for _, d := range deliver {
				if dominates(d, fr.Instr) {
					delivered = true
				} else if dominates(fr.Instr, d) && len(exitsReachableAvoiding(fn, fr.Instr, func(in ssa.Instruction) bool { return in == ssa.Instruction(d) })) == 0 {
					delivered = true
				}
			}
			c.Req(delivered, k+":with-delivery", r3, p.InstrPos(fr.Instr), "the byte is marked consumed on a path that does not store it into the caller's slice")
			// and that Read reports exactly one byte
			for _, in := range reachFrom(fn, fr.Instr, nil, nil) {
				if r, ok := in.(*ssa.Return); ok {
					if res := retResults(r); len(res) == 2 {
						if k1, isC := constInt(res[0]); isC && k1 != 1 {
							c.Bad(k+":count", r3, p.InstrPos(r), fmt.Sprintf("the Read that delivers the byte reports n=%d", k1))
						}
					}
				}
			}
		}
	}
	if n == 0 {
		c.Bad(key+":flag-store", r3, p.Pos(fn.Pos()), "the consumed flag is never set: the byte is replayed forever / the stream never continues")
		return nil, nil, nil, false
	}
	return flagF, byteF, underF, true
}

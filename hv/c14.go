package main

import (
	"fmt"
	"go/constant"
	"go/token"
	"go/types"
	"sort"
	"strings"

	"golang.org/x/tools/go/ssa"
)

func init() {
	register(&propDef{
		ID:        "C14",
		Run:       checkC14,
		Technique: "static analysis: map-writer census with key identity, lockset, edge-guard reachability, phi-of-constants path feasibility for the evictor, linear cancellation for the padding bound (go/ssa)",
		Explanation: "R1 table/census coupling - every insert into the reassembly table is for an absent key and is followed in the same critical section by census[key.addr]+1; every delete removes a key known present and is followed by census[key.addr]-1 with removal of the census entry on the non-positive edge; no other writer of either map; " +
			"R2 every access to the table and the census holds the table mutex (lock-context helpers discovered from callers); the shared read buffer and everything derived from it is used only under the read mutex; " +
			"R3 the insert is reachable only over the `census[addr] < 8` edge and, unless `len(table) < 4096` is known, after an evictor that removes an entry on every feasible path on which the table was seen non-empty; all inside the insert's critical section; " +
			"R4 a new entry's deadline is time.Now()+TTL (TTL > 0); the constructor starts the GC goroutine on the new object; the loop leaves on the close channel, ticks with a period in (0, TTL], sweeps on every tick and never returns on the tick arm; the sweep drops every entry on the now.After(deadline) edge and visits the whole table; Close closes the close channel through a sync.Once on every path; " +
			"R5 the chunk store is guarded by the empty-slot test for the same entry and index, the index is bounded (index test or declared-total agreement), the stored slice is a fresh copy of the payload of equal length, the received counter is bumped once per store, completion is decided by received vs total, returns a fresh buffer and drops the entry; " +
			"R6 the sender fragments exactly on the `p[0]&0x80 != 0` edge and passes p/addr through unchanged otherwise, the receiver mirrors the test on the read buffer; the chunk count interval lies inside the decoder's accepted range; all frames of one message carry one loop-invariant message id, the loop index and the drawn total; the padding is computed for the payload actually framed, is 0 only on the `lo > max` edge and otherwise lies in [lo-base, max-base] with base = salt+header+chunk.",
		NotDecided: []string{
			"byte-identical delivery for every arrival order and interleaving (only the structural guards of the slot store and of completion are decided)",
			"8-bit message-id wrap-around collisions within the TTL",
			"that the sender's chunk slices tile the packet exactly, and the index order of the concatenation (covered by the round-trip tests)",
			"size-range compliance when the chunk alone exceeds the maximum; uint16 overflow of the padding (max packet size is bounded by the constructor)",
			"timing: that the sweep runs within one period of the deadline",
		},
		Assumptions: []string{
			"value identity = same SSA value, or the same field path of the same single-assignment local / parameter",
			"a method called on a freshly allocated receiver inside its constructor runs before the object escapes",
			"randomness source returns values in the full uint32 range (only the modulus is inspected)",
		},
	})
}

// c14ctx carries the resolved anchors.
type c14ctx struct {
	c   *Check
	p   *Prog
	la  *LockAnalysis
	fns []*ssa.Function // repo functions of the obfs package

	connT  *types.Named
	entryT *types.Named
	keyT   *types.Named

	fTable, fCensus, fMu, fReadMu, fReadBuf, fCloseCh, fInner *types.Var
	fKeyAddr                                                  *types.Var
	fChunks, fReceived, fTotal, fDeadline                     *types.Var

	deleterMemo map[*ssa.Function]int
	sweepers    map[*ssa.Function]bool
}

func c14structOf(t types.Type) *types.Struct {
	if p, ok := t.Underlying().(*types.Pointer); ok {
		t = p.Elem()
	}
	st, _ := t.Underlying().(*types.Struct)
	return st
}

func c14isByteSlice(t types.Type) bool {
	s, ok := t.Underlying().(*types.Slice)
	if !ok {
		return false
	}
	b, ok := s.Elem().Underlying().(*types.Basic)
	return ok && b.Kind() == types.Uint8
}

func c14isNamed(t types.Type, pkg, name string) bool {
	n := namedOf(t)
	return n != nil && n.Obj().Pkg() != nil && n.Obj().Pkg().Path() == pkg && n.Obj().Name() == name
}

// c14resolve finds the connection type by role: the struct of the obfs
// package holding a map from a struct key to a pointer to a struct that has a
// [][]byte field (the reassembly table).
func c14resolve(c *Check) *c14ctx {
	p := c.P
	x := &c14ctx{c: c, p: p, deleterMemo: map[*ssa.Function]int{}, sweepers: map[*ssa.Function]bool{}}
	pp := p.byPath[pObfs]
	if pp == nil || pp.Types == nil {
		c.Unres("package " + pObfs)
		return nil
	}
	sc := pp.Types.Scope()
	for _, n := range sc.Names() {
		tn, ok := sc.Lookup(n).(*types.TypeName)
		if !ok || tn.IsAlias() {
			continue
		}
		nt, _ := tn.Type().(*types.Named)
		st, _ := tn.Type().Underlying().(*types.Struct)
		if nt == nil || st == nil {
			continue
		}
		for i := 0; i < st.NumFields(); i++ {
			m, ok := st.Field(i).Type().Underlying().(*types.Map)
			if !ok {
				continue
			}
			kst := c14structOf(m.Key())
			est := c14structOf(m.Elem())
			if kst == nil || est == nil || namedOf(m.Key()) == nil || namedOf(m.Elem()) == nil {
				continue
			}
			if _, isPtr := m.Elem().Underlying().(*types.Pointer); !isPtr {
				continue
			}
			var chunks *types.Var
			for j := 0; j < est.NumFields(); j++ {
				if s, ok := est.Field(j).Type().Underlying().(*types.Slice); ok && c14isByteSlice(s.Elem()) {
					chunks = est.Field(j)
				}
			}
			if chunks == nil {
				continue
			}
			if x.connT != nil {
				c.Unres("obfs: more than one candidate for the reassembly table field")
				return nil
			}
			x.connT, x.fTable, x.fChunks = nt, st.Field(i), chunks
			x.keyT, x.entryT = namedOf(m.Key()), namedOf(m.Elem())
		}
	}
	if x.connT == nil {
		c.Unres("obfs: struct with a map[structKey]*entry{[][]byte} field (the Gecko reassembly table)")
		return nil
	}
	cst := x.connT.Underlying().(*types.Struct)
	var mutexes []*types.Var
	for i := 0; i < cst.NumFields(); i++ {
		f := cst.Field(i)
		switch t := f.Type().Underlying().(type) {
		case *types.Map:
			if kb, ok := t.Key().Underlying().(*types.Basic); ok && kb.Kind() == types.String {
				if vb, ok := t.Elem().Underlying().(*types.Basic); ok && vb.Info()&types.IsInteger != 0 {
					if x.fCensus != nil {
						c.Unres("obfs: two map[string]int fields on " + x.connT.Obj().Name())
						return nil
					}
					x.fCensus = f
				}
			}
		case *types.Slice:
			if c14isByteSlice(f.Type()) {
				x.fReadBuf = f
			}
		case *types.Chan:
			x.fCloseCh = f
		case *types.Interface:
			if c14isNamed(f.Type(), "net", "PacketConn") {
				x.fInner = f
			}
		}
		if c14isNamed(f.Type(), "sync", "Mutex") || c14isNamed(f.Type(), "sync", "RWMutex") {
			mutexes = append(mutexes, f)
		}
	}
	for _, m := range mutexes {
		switch m.Name() {
		case "mu":
			x.fMu = m
		case "readMu":
			x.fReadMu = m
		}
	}
	kst := x.keyT.Underlying().(*types.Struct)
	for i := 0; i < kst.NumFields(); i++ {
		if b, ok := kst.Field(i).Type().Underlying().(*types.Basic); ok && b.Kind() == types.String {
			if x.fKeyAddr != nil {
				c.Unres("obfs: reassembly key has two string fields")
				return nil
			}
			x.fKeyAddr = kst.Field(i)
		}
	}
	est := x.entryT.Underlying().(*types.Struct)
	for i := 0; i < est.NumFields(); i++ {
		f := est.Field(i)
		if c14isNamed(f.Type(), "time", "Time") {
			x.fDeadline = f
		}
		switch f.Name() {
		case "received":
			x.fReceived = f
		case "total":
			x.fTotal = f
		}
	}
	miss := []string{}
	for n, f := range map[string]*types.Var{"census map[string]int": x.fCensus, "mutex mu": x.fMu, "mutex readMu": x.fReadMu, "read buffer []byte": x.fReadBuf,
		"close channel": x.fCloseCh, "inner net.PacketConn": x.fInner, "key string field": x.fKeyAddr, "entry.received": x.fReceived, "entry.total": x.fTotal, "entry deadline time.Time": x.fDeadline} {
		if f == nil {
			miss = append(miss, n)
		}
	}
	if len(miss) > 0 {
		sort.Strings(miss)
		c.Unres("obfs " + x.connT.Obj().Name() + ": cannot resolve " + strings.Join(miss, ", "))
		return nil
	}
	for _, fn := range p.RepoFns {
		if pk := fnPkg(fn); pk != nil && pk.Pkg.Path() == pObfs {
			x.fns = append(x.fns, fn)
		}
	}
	x.la = p.Locks()
	return x
}

// ---------------------------------------------------------------------------
// value identity

// c14ref is a canonical description of a value: a root value plus a field
// path; deref tells the path starts behind a pointer.  Comparable.
type c14ref struct {
	root  ssa.Value
	deref bool
	path  string
}

func (r c14ref) valid() bool { return r.root != nil }

func c14pathStr(fs []*types.Var) string {
	var s []string
	for _, f := range fs {
		if f == nil {
			s = append(s, "?")
		} else {
			s = append(s, f.Name())
		}
	}
	return strings.Join(s, ".")
}

// c14allocInfo classifies the stores into a local: whole-value stores, stores
// into single fields, and whether the local escapes (then nothing is known).
func c14allocInfo(al *ssa.Alloc) (whole []ssa.Value, fields map[*types.Var][]ssa.Value, escapes bool) {
	fields = map[*types.Var][]ssa.Value{}
	if al.Referrers() == nil {
		return nil, fields, true
	}
	for _, r := range *al.Referrers() {
		switch u := r.(type) {
		case *ssa.Store:
			if u.Addr == ssa.Value(al) {
				whole = append(whole, u.Val)
			} else {
				escapes = true
			}
		case *ssa.UnOp:
			if u.Op != token.MUL {
				escapes = true
			}
		case *ssa.FieldAddr:
			f := structField(u.X.Type(), u.Field)
			for _, rr := range *u.Referrers() {
				switch w := rr.(type) {
				case *ssa.Store:
					if w.Addr == ssa.Value(u) {
						fields[f] = append(fields[f], w.Val)
					} else {
						escapes = true
					}
				case *ssa.UnOp:
					if w.Op != token.MUL {
						escapes = true
					}
				case *ssa.DebugRef:
				default:
					escapes = true
				}
			}
		case *ssa.DebugRef:
		default:
			escapes = true
		}
	}
	return
}

// c14strip removes value-preserving conversions (integer width changes
// included: identity of the converted operand is what the rules compare).
func c14strip(v ssa.Value) ssa.Value {
	for i := 0; i < 16; i++ {
		switch x := v.(type) {
		case *ssa.ChangeType:
			v = x.X
		case *ssa.Convert:
			v = x.X
		case *ssa.MakeInterface:
			v = x.X
		default:
			return v
		}
	}
	return v
}

// c14canonP canonicalises component `path` of value v, looking through
// single-assignment locals (whole stores and composite-literal field stores).
func c14canonP(v ssa.Value, path []*types.Var) c14ref {
	for i := 0; i < 64; i++ {
		v = c14strip(v)
		switch x := v.(type) {
		case *ssa.Field:
			path = append([]*types.Var{structField(x.X.Type(), x.Field)}, path...)
			v = x.X
			continue
		case *ssa.UnOp:
			if x.Op != token.MUL {
				return c14ref{v, false, c14pathStr(path)}
			}
			addr := x.X
			var apath []*types.Var
			for {
				fa, ok := addr.(*ssa.FieldAddr)
				if !ok {
					break
				}
				apath = append([]*types.Var{structField(fa.X.Type(), fa.Field)}, apath...)
				addr = fa.X
			}
			full := append(append([]*types.Var{}, apath...), path...)
			if fv, ok := addr.(*ssa.FreeVar); ok {
				if b := freeVarBinding(fv); b != nil {
					addr = b
				}
			}
			if al, ok := addr.(*ssa.Alloc); ok {
				whole, fields, esc := c14allocInfo(al)
				if !esc && len(whole) == 1 && len(fields) == 0 {
					v, path = whole[0], full
					continue
				}
				if !esc && len(whole) == 0 && len(full) > 0 && len(fields[full[0]]) == 1 {
					v, path = fields[full[0]][0], full[1:]
					continue
				}
				if !esc && len(whole) == 1 && len(full) > 0 {
					// composite literal assigned once, some fields set afterwards
					switch len(fields[full[0]]) {
					case 0:
						v, path = whole[0], full
						continue
					case 1:
						v, path = fields[full[0]][0], full[1:]
						continue
					}
				}
				if len(whole) == 1 && len(fields) == 0 && len(full) == 0 {
					// captured single-assignment local (closure binding)
					v, path = whole[0], full
					continue
				}
				return c14ref{al, true, c14pathStr(full)}
			}
			if len(full) == 0 {
				// load through a plain pointer value
				return c14ref{c14strip(resolve(addr)), true, ""}
			}
			base := c14canonP(addr, nil)
			if base.deref || base.path != "" {
				return c14ref{c14strip(resolve(addr)), true, c14pathStr(full)}
			}
			return c14ref{base.root, true, c14pathStr(full)}
		default:
			return c14ref{v, false, c14pathStr(path)}
		}
	}
	return c14ref{v, false, c14pathStr(path)}
}

func c14canon(v ssa.Value) c14ref { return c14canonP(v, nil) }

func c14same(a, b ssa.Value) bool {
	ra, rb := c14canon(a), c14canon(b)
	return ra.valid() && ra == rb
}

// c14fieldLoadOf: v is a load of field f; returns the canonical owner.
func c14fieldLoadOf(v ssa.Value, f *types.Var) (ssa.Value, bool) {
	v = c14strip(v)
	switch x := v.(type) {
	case *ssa.UnOp:
		if x.Op == token.MUL {
			if fa, ok := x.X.(*ssa.FieldAddr); ok && structField(fa.X.Type(), fa.Field) == f {
				return c14canon(fa.X).root, true
			}
		}
	case *ssa.Field:
		if structField(x.X.Type(), x.Field) == f {
			return c14canon(x.X).root, true
		}
	}
	return nil, false
}

// ---------------------------------------------------------------------------
// comparisons on edges

// c14rel: on the edge the relation `x op y` holds.
func c14rel(cond ssa.Value, pol bool) (x, y ssa.Value, op token.Token, ok bool) {
	b, isBin := cond.(*ssa.BinOp)
	if !isBin {
		return nil, nil, 0, false
	}
	op = b.Op
	switch op {
	case token.LSS, token.LEQ, token.GTR, token.GEQ, token.EQL, token.NEQ:
	default:
		return nil, nil, 0, false
	}
	if !pol {
		op = map[token.Token]token.Token{token.LSS: token.GEQ, token.LEQ: token.GTR, token.GTR: token.LEQ, token.GEQ: token.LSS, token.EQL: token.NEQ, token.NEQ: token.EQL}[op]
	}
	return b.X, b.Y, op, true
}

func c14flip(op token.Token) token.Token {
	switch op {
	case token.LSS:
		return token.GTR
	case token.LEQ:
		return token.GEQ
	case token.GTR:
		return token.LSS
	case token.GEQ:
		return token.LEQ
	}
	return op
}

// c14relConst: on the edge `x op C` holds for a value x accepted by isX.
func c14relConst(cond ssa.Value, pol bool, isX func(ssa.Value) bool) (op token.Token, k int64, ok bool) {
	x, y, op, ok := c14rel(cond, pol)
	if !ok {
		return 0, 0, false
	}
	if n, isC := constInt(y); isC && isX(x) {
		return op, n, true
	}
	if n, isC := constInt(x); isC && isX(y) {
		return c14flip(op), n, true
	}
	return 0, 0, false
}

// c14strictUpper: the edge proves x < B; returns B.
func c14strictUpper(cond ssa.Value, pol bool, isX func(ssa.Value) bool) (int64, bool) {
	op, k, ok := c14relConst(cond, pol, isX)
	if !ok {
		return 0, false
	}
	switch op {
	case token.LSS:
		return k, true
	case token.LEQ, token.EQL:
		return k + 1, true
	}
	return 0, false
}

// c14lowerIncl: the edge proves x >= B; returns B.
func c14lowerIncl(cond ssa.Value, pol bool, isX func(ssa.Value) bool) (int64, bool) {
	op, k, ok := c14relConst(cond, pol, isX)
	if !ok {
		return 0, false
	}
	switch op {
	case token.GEQ, token.EQL:
		return k, true
	case token.GTR:
		return k + 1, true
	}
	return 0, false
}

func c14constVal(p *Prog, pkg, name string) (int64, bool) {
	k := p.Const(pkg, name)
	if k == nil || k.Val().Kind() != constant.Int {
		return 0, false
	}
	return constant.Int64Val(k.Val())
}

// ---------------------------------------------------------------------------
// map operation census (K2)

type c14mop struct {
	kind  string // update | delete | clear | lookup | range | len | cmp
	instr ssa.Instruction
	fn    *ssa.Function
	m     ssa.Value
}

type c14mapUse struct {
	ops     []c14mop
	stores  []FieldRef        // assignments to the field itself
	escapes []ssa.Instruction // uses the census cannot follow
	vals    map[ssa.Value]bool
}

func (x *c14ctx) mapUse(f *types.Var) *c14mapUse {
	u := &c14mapUse{vals: map[ssa.Value]bool{}}
	var follow func(m ssa.Value, depth int)
	follow = func(m ssa.Value, depth int) {
		if u.vals[m] {
			return
		}
		u.vals[m] = true
		for _, mo := range mapOpsOn(m) {
			fn := mo.Instr.Parent()
			switch mo.Kind {
			case "update", "lookup", "range", "len", "cmp":
				u.ops = append(u.ops, c14mop{mo.Kind, mo.Instr, fn, m})
			case "delete":
				k := "delete"
				if isBuiltinCall(mo.Instr.(ssa.CallInstruction), "clear") {
					k = "clear"
				}
				u.ops = append(u.ops, c14mop{k, mo.Instr, fn, m})
			default:
				call, ok := mo.Instr.(*ssa.Call)
				callee := (*ssa.Function)(nil)
				if ok {
					callee = staticCallee(call)
				}
				if callee == nil || len(callee.Blocks) == 0 || depth > 3 || !x.p.IsRepoFn(callee) {
					u.escapes = append(u.escapes, mo.Instr)
					continue
				}
				for i, a := range call.Call.Args {
					if a == m && i < len(callee.Params) {
						follow(callee.Params[i], depth+1)
					}
				}
			}
		}
	}
	for _, fr := range fieldRefs(x.fns, f) {
		switch fr.Kind {
		case "store":
			u.stores = append(u.stores, fr)
		case "addr":
			u.escapes = append(u.escapes, fr.Instr)
		case "load":
			follow(fr.Val, 0)
		}
	}
	return u
}

func (u *c14mapUse) is(v ssa.Value) bool { return u.vals[v] || u.vals[resolve(v)] }

func (u *c14mapUse) writes(kind string) []c14mop {
	var out []c14mop
	for _, o := range u.ops {
		if o.kind == kind {
			out = append(out, o)
		}
	}
	return out
}

// ordKey appends #n to keys of the 2nd, 3rd ... instance within one function.
type c14ord map[string]int

func (o c14ord) key(k string) string {
	o[k]++
	if o[k] > 1 {
		return fmt.Sprintf("%s#%d", k, o[k])
	}
	return k
}

func c14deleteArgs(in ssa.Instruction) (m, k ssa.Value, ok bool) {
	call, isCall := in.(*ssa.Call)
	if !isCall || !isBuiltinCall(call, "delete") || len(call.Call.Args) != 2 {
		return nil, nil, false
	}
	return call.Call.Args[0], call.Call.Args[1], true
}

// lookupOf: v is the value (or the comma-ok value part) of a lookup in a map
// accepted by isMap; returns the Lookup.
func c14lookupOf(v ssa.Value, isMap func(ssa.Value) bool) *ssa.Lookup {
	v = c14strip(v)
	if e, ok := v.(*ssa.Extract); ok && e.Index == 0 {
		v = e.Tuple
	}
	lk, ok := v.(*ssa.Lookup)
	if !ok || !isMap(lk.X) {
		return nil
	}
	return lk
}

// presence edges of a map lookup: returns the Lookup and whether the edge says
// "present".
func c14presence(cond ssa.Value, pol bool, isMap func(ssa.Value) bool) (*ssa.Lookup, bool, bool) {
	if e, ok := c14strip(cond).(*ssa.Extract); ok && e.Index == 1 {
		if lk, ok := e.Tuple.(*ssa.Lookup); ok && lk.CommaOk && isMap(lk.X) {
			return lk, pol, true
		}
	}
	if xv, isNil, ok := nilTest(cond, pol); ok {
		if lk := c14lookupOf(xv, isMap); lk != nil {
			return lk, !isNil, true
		}
	}
	return nil, false, false
}

func (x *c14ctx) unlockBetween(fn *ssa.Function, from ssa.Instruction, stop func(ssa.Instruction) bool, mu *types.Var) ssa.Instruction {
	for _, in := range reachFrom(fn, from, stop, nil) {
		if stop(in) {
			continue
		}
		if call, ok := in.(*ssa.Call); ok {
			if f, op := lockOp(call); f == mu && (op == "Unlock" || op == "RUnlock") {
				return in
			}
		}
	}
	return nil
}

// ---------------------------------------------------------------------------
// R1 table / census coupling

func (x *c14ctx) r1(tab, cen *c14mapUse) {
	c, p := x.c, x.p
	const r1 = "C14.R1 the per-source census equals the table's census: insert only an absent key and then census[key.addr]+1, delete only a present key and then census[key.addr]-1 with removal at <= 0, inside one critical section; no other writer of either map"
	matched := map[ssa.Instruction]bool{}
	ord := c14ord{}

	censusLookup := func(v ssa.Value, addr c14ref) *ssa.Lookup {
		lk := c14lookupOf(v, cen.is)
		if lk == nil || c14canon(lk.Index) != addr {
			return nil
		}
		return lk
	}
	// adjust: census[addr] = census[addr] + delta
	isAdjust := func(in ssa.Instruction, addr c14ref, delta int64) bool {
		mu, ok := in.(*ssa.MapUpdate)
		if !ok || !cen.is(mu.Map) || c14canon(mu.Key) != addr {
			return false
		}
		b, ok := c14strip(mu.Value).(*ssa.BinOp)
		if !ok {
			return false
		}
		switch b.Op {
		case token.ADD:
			if k, isC := constInt(b.Y); isC && k == delta && censusLookup(b.X, addr) != nil {
				return true
			}
			if k, isC := constInt(b.X); isC && k == delta && censusLookup(b.Y, addr) != nil {
				return true
			}
		case token.SUB:
			if k, isC := constInt(b.Y); isC && -k == delta && censusLookup(b.X, addr) != nil {
				return true
			}
		}
		return false
	}
	isCensusDelete := func(in ssa.Instruction, addr c14ref) bool {
		m, k, ok := c14deleteArgs(in)
		return ok && cen.is(m) && c14canon(k) == addr
	}
	isTableWrite := func(kind string) func(ssa.Instruction) bool {
		return func(in ssa.Instruction) bool {
			switch kind {
			case "update":
				mu, ok := in.(*ssa.MapUpdate)
				return ok && tab.is(mu.Map)
			default:
				m, _, ok := c14deleteArgs(in)
				return ok && tab.is(m)
			}
		}
	}

	// ---- inserts
	nIns, nInc := 0, 0
	for _, op := range tab.writes("update") {
		I := op.instr.(*ssa.MapUpdate)
		fn := op.fn
		nIns++
		c.Saw(fnName(fn))
		base := ord.key("C14.R1:insert:" + fnName(fn))
		keyRef := c14canon(I.Key)
		addr := c14canonP(I.Key, []*types.Var{x.fKeyAddr})
		absent := func(key ssa.Value, at ssa.Instruction) EdgePred {
			kr := c14canon(key)
			return func(cond ssa.Value, pol bool) bool {
				lk, present, ok := c14presence(cond, pol, tab.is)
				return ok && !present && c14canon(lk.Index) == kr && x.la.sameRegion(lk, at, x.fMu, lockW)
			}
		}
		_ = keyRef
		c.Req(x.liftKeyGuard(I, I.Key, absent, 0), base+":fresh-key", r1, p.InstrPos(I),
			"the table insert is reachable without the `key absent` edge of a lookup of the same key in the same critical section (overwriting an entry while counting it again makes the census drift up: the source is locked out)")
		stop := func(in ssa.Instruction) bool { return isAdjust(in, addr, +1) }
		exits := exitsReachableAvoiding(fn, I, stop)
		unl := x.unlockBetween(fn, I, stop, x.fMu)
		hit := 0
		for _, in := range reachFrom(fn, I, stop, nil) {
			if stop(in) {
				matched[in] = true
				hit++
				// exactly once: no second increment before the next insert
				for _, in2 := range reachFrom(fn, in, isTableWrite("update"), nil) {
					if mu, ok := in2.(*ssa.MapUpdate); ok && cen.is(mu.Map) && in2 != in {
						c.Bad(base+":census-once", r1, p.InstrPos(in2), "a second census update follows the increment for one insert (census drifts)")
					}
				}
			}
		}
		nInc += hit
		detail := fmt.Sprintf("after the insert into %s a path reaches a return without %s[key.%s]+1 for the inserted key", x.fTable.Name(), x.fCensus.Name(), x.fKeyAddr.Name())
		if unl != nil {
			detail = "the mutex is released between the table insert and the census increment"
		}
		c.Req(hit > 0 && len(exits) == 0 && unl == nil, base+":census-inc", r1, p.InstrPos(I), detail+" (per-source cap no longer tracks the table)")
	}
	c.Floor("C14.R1:insert", nIns, 1)
	c.Floor("C14.R1:census-inc", nInc, 1)

	// ---- deletes
	nDel, nDec := 0, 0
	for _, op := range tab.writes("delete") {
		D := op.instr
		fn := op.fn
		_, dk, _ := c14deleteArgs(D)
		nDel++
		c.Saw(fnName(fn))
		base := ord.key("C14.R1:delete:" + fnName(fn))
		keyRef := c14canon(dk)
		addr := c14canonP(dk, []*types.Var{x.fKeyAddr})
		present := func(cond ssa.Value, pol bool) bool {
			lk, pres, ok := c14presence(cond, pol, tab.is)
			return ok && pres && c14canon(lk.Index) == keyRef && x.la.sameRegion(lk, D, x.fMu, lockW)
		}
		// present: looked up and found, just inserted, or the key of a range over the table
		insertedSame := func(in ssa.Instruction) bool {
			mu, ok := in.(*ssa.MapUpdate)
			return ok && tab.is(mu.Map) && c14canon(mu.Key) == keyRef
		}
		existed := true
		for _, in := range reachFrom(fn, nil, insertedSame, present) {
			if in == D {
				existed = false
			}
		}
		existed = existed || x.isRangeKeyOf(keyRef.root, tab) && keyRef.path == "" && !keyRef.deref
		c.Req(existed, base+":existed", r1, p.InstrPos(D),
			"the table delete (and the census decrement after it) is reachable without knowing the key is present (a miss would still decrement: census drifts down and the per-source cap is exceeded)")
		isDecr := func(in ssa.Instruction) bool { return isAdjust(in, addr, -1) }
		isPrune := func(in ssa.Instruction) bool { return isCensusDelete(in, addr) }
		stopAdj := func(in ssa.Instruction) bool { return isDecr(in) || isPrune(in) }
		exits := exitsReachableAvoiding(fn, D, stopAdj)
		unl := x.unlockBetween(fn, D, stopAdj, x.fMu)
		var decrs, prunes []ssa.Instruction
		for _, in := range reachFrom(fn, D, nil, nil) {
			if isDecr(in) {
				decrs = append(decrs, in)
				matched[in] = true
			}
			if isPrune(in) {
				prunes = append(prunes, in)
				matched[in] = true
			}
		}
		nDec += len(decrs)
		detail := fmt.Sprintf("after delete(%s, k) a path reaches a return without %s[k.%s]-1", x.fTable.Name(), x.fCensus.Name(), x.fKeyAddr.Name())
		if unl != nil {
			detail = "the mutex is released between the table delete and the census decrement"
		}
		c.Req((len(decrs) > 0 || len(prunes) > 0) && len(exits) == 0 && unl == nil, base+":census-dec", r1, p.InstrPos(D), detail+" (the source's count never comes back: it is locked out after 8 messages)")
		for _, d := range decrs {
			for _, in2 := range reachFrom(fn, d, isTableWrite("delete"), nil) {
				if in2 != d && isDecr(in2) {
					c.Bad(base+":census-once", r1, p.InstrPos(in2), "the census is decremented twice for one delete")
				}
			}
		}
		// pruning: count values after / before the decrement
		isPost := func(v ssa.Value) bool {
			v = c14strip(v)
			if b, ok := v.(*ssa.BinOp); ok && b.Op == token.SUB {
				if k, isC := constInt(b.Y); isC && k == 1 && censusLookup(b.X, addr) != nil {
					return true
				}
			}
			if lk := censusLookup(v, addr); lk != nil {
				for _, d := range decrs {
					if dominates(d, lk) {
						return true
					}
				}
			}
			return false
		}
		isPre := func(v ssa.Value) bool {
			lk := censusLookup(v, addr)
			return lk != nil && !isPost(v)
		}
		sign := func(cond ssa.Value, pol bool) int {
			if op, k, ok := c14relConst(cond, pol, isPost); ok {
				switch {
				case op == token.GTR && k >= 0, op == token.GEQ && k >= 1, op == token.NEQ && k == 0:
					return +1
				case op == token.LEQ && k <= 0, op == token.LSS && k <= 1, op == token.EQL && k == 0:
					return -1
				}
			}
			if op, k, ok := c14relConst(cond, pol, isPre); ok {
				switch {
				case op == token.GTR && k >= 1, op == token.GEQ && k >= 2, op == token.NEQ && k == 1:
					return +1
				case op == token.LEQ && k <= 1, op == token.LSS && k <= 2, op == token.EQL && k == 1:
					return -1
				}
			}
			return 0
		}
		positive := func(cond ssa.Value, pol bool) bool { return sign(cond, pol) > 0 }
		nonPositive := func(cond ssa.Value, pol bool) bool { return sign(cond, pol) < 0 }
		leak := false
		for _, in := range reachFrom(fn, D, isPrune, positive) {
			if _, ok := in.(*ssa.Return); ok {
				leak = true
			}
		}
		if len(decrs) == 0 && len(prunes) == 0 {
			continue // nothing adjusts the census here: reported above
		}
		c.Req(len(prunes) > 0 && !leak, base+":census-pruned", r1, p.InstrPos(D),
			"after the decrement a path on which the count may be <= 0 returns without delete("+x.fCensus.Name()+", addr) (one census entry per spoofed source stays forever: unbounded state)")
		for _, pr := range prunes {
			c.Req(guardedBy(pr, nonPositive), ord.key(base+":prune-guard"), r1, p.InstrPos(pr),
				"the census entry is removed without the `count <= 0` edge (a source with pending messages loses its count: the per-source cap is exceeded)")
		}
	}
	c.Floor("C14.R1:delete", nDel, 1)
	c.Floor("C14.R1:census-dec", nDec, 1)

	// ---- nothing else writes either map
	for _, op := range tab.writes("clear") {
		c.Bad(ord.key("C14.R1:table-writer:"+fnName(op.fn)), r1, p.InstrPos(op.instr), "clear() of the reassembly table without resetting the census")
	}
	for _, op := range cen.ops {
		switch op.kind {
		case "update", "delete", "clear":
		default:
			continue
		}
		c.Req(matched[op.instr], ord.key("C14.R1:census-writer:"+fnName(op.fn)), r1, p.InstrPos(op.instr),
			"write to the census that is not the +1 after a table insert / the -1 or removal after a table delete of the same key")
		if matched[op.instr] {
			// and it cannot be reached without the table write it belongs to
			free := false
			stopW := func(in ssa.Instruction) bool { return isTableWrite("update")(in) || isTableWrite("delete")(in) }
			for _, in := range reachFrom(op.fn, nil, stopW, nil) {
				if in == op.instr {
					free = true
				}
			}
			c.Req(!free, ord.key("C14.R1:census-writer:"+fnName(op.fn)+":after-table-write"), r1, p.InstrPos(op.instr),
				"the census write is reachable on a path that did not change the table")
		}
	}
	for _, u := range []struct {
		use *c14mapUse
		f   *types.Var
	}{{tab, x.fTable}, {cen, x.fCensus}} {
		nInit := 0
		for _, fr := range u.use.stores {
			al, fresh := accessPath(fr.Addr).Root.(*ssa.Alloc)
			_, isMake := fr.Val.(*ssa.MakeMap)
			ok := fresh && al.Parent() == fr.Fn && isMake
			if ok {
				nInit++
			}
			c.Req(ok, ord.key("C14.R1:field-store:"+u.f.Name()+":"+fnName(fr.Fn)), r1, p.InstrPos(fr.Instr),
				"the map field "+u.f.Name()+" is replaced outside the constructor (table and census fall out of step)")
		}
		c.Floor("C14.R1:init:"+u.f.Name(), nInit, 1)
		for _, e := range u.use.escapes {
			c.Undecided(ord.key("C14.R1:escape:"+u.f.Name()+":"+fnName(e.Parent())), r1, p.InstrPos(e), "the map "+u.f.Name()+" flows somewhere the writer census cannot follow")
		}
	}
}

// ---------------------------------------------------------------------------
// R2 lock discipline

func c14freshRoot(addr ssa.Value, fn *ssa.Function) bool {
	al, ok := accessPath(addr).Root.(*ssa.Alloc)
	return ok && al.Parent() == fn && al.Heap
}

func (x *c14ctx) r2(tab, cen *c14mapUse) {
	c, p := x.c, x.p
	const r2 = "C14.R2 every access to the reassembly table and the census holds the table mutex (helpers: all callers hold it); the shared read buffer and every slice derived from it is used only under the read mutex"
	ord := c14ord{}
	n := 0
	for _, u := range []struct {
		use *c14mapUse
		f   *types.Var
	}{{tab, x.fTable}, {cen, x.fCensus}} {
		for _, fr := range fieldRefs(x.fns, u.f) {
			if fr.Kind != "load" || c14freshRoot(fr.Addr, fr.Fn) {
				continue
			}
			n++
			c.Req(x.la.Holds(fr.Instr, x.fMu, lockW), ord.key("C14.R2:lock:"+u.f.Name()+":load:"+fnName(fr.Fn)), r2, p.InstrPos(fr.Instr),
				"field "+u.f.Name()+" read without holding "+x.fMu.Name())
		}
		for _, op := range u.use.ops {
			n++
			c.Req(x.la.Holds(op.instr, x.fMu, lockW), ord.key("C14.R2:lock:"+u.f.Name()+":"+op.kind+":"+fnName(op.fn)), r2, p.InstrPos(op.instr),
				op.kind+" on "+u.f.Name()+" without holding "+x.fMu.Name()+" (concurrent ReadFrom and the GC goroutine race on the map)")
			if rg, ok := op.instr.(*ssa.Range); ok {
				for _, r := range *rg.Referrers() {
					if nx, ok := r.(*ssa.Next); ok {
						c.Req(x.la.Holds(nx, x.fMu, lockW), ord.key("C14.R2:lock:"+u.f.Name()+":next:"+fnName(op.fn)), r2, p.InstrPos(rg),
							"iteration over "+u.f.Name()+" continues after "+x.fMu.Name()+" was released")
					}
				}
			}
		}
	}
	c.Floor("C14.R2:map-accesses", n, 5)

	// read buffer
	nb := 0
	for _, fr := range fieldRefs(x.fns, x.fReadBuf) {
		if c14freshRoot(fr.Addr, fr.Fn) {
			continue
		}
		switch fr.Kind {
		case "store", "addr":
			c.Bad(ord.key("C14.R2:readbuf:"+fr.Kind+":"+fnName(fr.Fn)), r2, p.InstrPos(fr.Instr), "the shared read buffer field is replaced / aliased outside the constructor")
		case "load":
			nb++
			c.Saw(fnName(fr.Fn))
			c.Req(x.la.Holds(fr.Instr, x.fReadMu, lockW), ord.key("C14.R2:readbuf:load:"+fnName(fr.Fn)), r2, p.InstrPos(fr.Instr),
				"the shared read buffer is taken without holding "+x.fReadMu.Name())
			seen := map[ssa.Value]bool{}
			var walk func(v ssa.Value, depth int)
			walk = func(v ssa.Value, depth int) {
				if seen[v] || v.Referrers() == nil {
					return
				}
				seen[v] = true
				for _, r := range *v.Referrers() {
					if _, dbg := r.(*ssa.DebugRef); dbg {
						continue
					}
					if !x.la.Holds(r, x.fReadMu, lockW) {
						c.Bad(ord.key("C14.R2:readbuf:use:"+fnName(r.Parent())), r2, p.InstrPos(r),
							"a slice of the shared read buffer is used after/without "+x.fReadMu.Name()+" (a concurrent ReadFrom overwrites the packet being parsed)")
						continue
					}
					switch w := r.(type) {
					case *ssa.Slice, *ssa.Phi, *ssa.ChangeType, *ssa.Convert:
						walk(w.(ssa.Value), depth)
					case *ssa.Extract:
						if c14isByteSlice(w.Type()) {
							walk(w, depth)
						}
					case *ssa.Call:
						if callee := staticCallee(w); callee != nil && len(callee.Blocks) > 0 && x.p.IsRepoFn(callee) && depth < 4 {
							for i, a := range w.Call.Args {
								if a == v && i < len(callee.Params) {
									walk(callee.Params[i], depth+1)
								}
							}
						}
						if _, isTuple := w.Type().(*types.Tuple); isTuple || c14isByteSlice(w.Type()) {
							if !isBuiltinCall(w, "copy") && !isBuiltinCall(w, "len") {
								walk(w, depth)
							}
						}
					}
				}
			}
			walk(fr.Val, 0)
		}
	}
	c.Floor("C14.R2:readbuf-loads", nb, 1)
}

// ---------------------------------------------------------------------------
// droppers: delete(table, k) directly or through a helper that deletes its
// parameter whenever it is present

// deleterParam: index of the parameter of fn that is deleted from the table on
// every path except those crossing the `absent` edge of a lookup of it; -1 if
// fn is not such a helper.
func (x *c14ctx) deleterParam(fn *ssa.Function, tab *c14mapUse) int {
	if i, ok := x.deleterMemo[fn]; ok {
		return i
	}
	x.deleterMemo[fn] = -1
	if fn == nil || len(fn.Blocks) == 0 {
		return -1
	}
	res := -1
	allInstrs(fn, func(in ssa.Instruction) {
		m, k, ok := c14deleteArgs(in)
		if !ok || !tab.is(m) {
			return
		}
		kr := c14canon(k)
		if kr.deref || kr.path != "" {
			return
		}
		for i, prm := range fn.Params {
			if kr.root != ssa.Value(prm) {
				continue
			}
			isDel := func(y ssa.Instruction) bool {
				m2, k2, ok := c14deleteArgs(y)
				return ok && tab.is(m2) && c14canon(k2) == kr
			}
			absent := func(cond ssa.Value, pol bool) bool {
				lk, present, ok := c14presence(cond, pol, tab.is)
				return ok && !present && c14canon(lk.Index) == kr
			}
			miss := false
			for _, y := range reachFrom(fn, nil, isDel, absent) {
				if _, isRet := y.(*ssa.Return); isRet {
					miss = true
				}
			}
			if !miss {
				res = i
			}
		}
	})
	x.deleterMemo[fn] = res
	return res
}

// isDrop: instruction removes from the table a key accepted by keyOK.
func (x *c14ctx) isDrop(in ssa.Instruction, tab *c14mapUse, keyOK func(ssa.Value) bool) bool {
	if m, k, ok := c14deleteArgs(in); ok {
		return tab.is(m) && keyOK(k)
	}
	call, ok := in.(*ssa.Call)
	if !ok {
		return false
	}
	callee := staticCallee(call)
	if callee == nil {
		return false
	}
	i := x.deleterParam(callee, tab)
	return i >= 0 && i < len(call.Call.Args) && keyOK(call.Call.Args[i])
}

// ---------------------------------------------------------------------------
// evictor: removes an entry on every feasible path that saw the table non-empty.
// Feasibility: bool phis whose incoming values are constants are tracked along
// the path (K1's phi-of-constants correlation); each CFG edge at most twice.

type c14pathState struct {
	env      map[*ssa.Phi]int8 // 1 true, 2 false
	sawBody  bool
	emptyOK  bool
	edgeSeen map[[2]int]int
}

func (s *c14pathState) clone() *c14pathState {
	n := &c14pathState{env: map[*ssa.Phi]int8{}, sawBody: s.sawBody, emptyOK: s.emptyOK, edgeSeen: map[[2]int]int{}}
	for k, v := range s.env {
		n.env[k] = v
	}
	for k, v := range s.edgeSeen {
		n.edgeSeen[k] = v
	}
	return n
}

// evictorVerdict: "" = fine, otherwise the reason; undecided reports a cap hit.
func (x *c14ctx) evictorVerdict(fn *ssa.Function, tab *c14mapUse) (reason string, undecided bool) {
	if len(fn.Blocks) == 0 {
		return "no body", false
	}
	rangeKey := func(v ssa.Value) bool {
		for d := range deps(v, depOpts{}) {
			if c14rangeOf(d, 1, tab) != nil {
				return true
			}
		}
		return false
	}
	isLenTab := func(v ssa.Value) bool {
		call, ok := c14strip(v).(*ssa.Call)
		return ok && isBuiltinCall(call, "len") && tab.is(call.Call.Args[0])
	}
	steps := 0
	bad := ""
	var walk func(b *ssa.BasicBlock, from *ssa.BasicBlock, st *c14pathState)
	walk = func(b *ssa.BasicBlock, from *ssa.BasicBlock, st *c14pathState) {
		if bad != "" || undecided {
			return
		}
		steps++
		if steps > 50000 {
			undecided = true
			return
		}
		// phis
		if from != nil {
			idx := -1
			for i, pr := range b.Preds {
				if pr == from {
					idx = i
				}
			}
			newEnv := map[*ssa.Phi]int8{}
			for _, in := range b.Instrs {
				ph, ok := in.(*ssa.Phi)
				if !ok {
					break
				}
				if idx < 0 {
					continue
				}
				e := ph.Edges[idx]
				if isConstBool(e, true) {
					newEnv[ph] = 1
				} else if isConstBool(e, false) {
					newEnv[ph] = 2
				} else if src, ok := e.(*ssa.Phi); ok && st.env[src] != 0 {
					newEnv[ph] = st.env[src]
				} else {
					newEnv[ph] = 0
				}
			}
			for k, v := range newEnv {
				if v == 0 {
					delete(st.env, k)
				} else {
					st.env[k] = v
				}
			}
		}
		for _, in := range b.Instrs {
			if x.isDrop(in, tab, rangeKey) {
				return // this path evicts
			}
			if _, ok := in.(*ssa.Return); ok {
				if !st.emptyOK {
					bad = "a feasible path through " + fnName(fn) + " that iterated over a non-empty table (or never looked) returns without deleting an entry"
				}
				return
			}
		}
		for i, s := range b.Succs {
			ns := st
			if len(b.Succs) > 1 {
				ns = st.clone()
			}
			if cond, pol, ok := edgeFact(b, i); ok {
				if ph, isPhi := cond.(*ssa.Phi); isPhi && st.env[ph] != 0 {
					if (st.env[ph] == 1) != pol {
						continue // infeasible
					}
				}
				if nx := c14rangeOf(cond, 0, tab); nx != nil {
					if pol {
						ns.sawBody = true
					} else if !st.sawBody {
						ns.emptyOK = true
					}
				}
				if op, k, ok := c14relConst(cond, pol, isLenTab); ok {
					if (op == token.EQL && k == 0) || (op == token.LEQ && k == 0) || (op == token.LSS && k == 1) {
						ns.emptyOK = true
					}
				}
			}
			e := [2]int{b.Index, s.Index}
			if ns.edgeSeen[e] >= 2 {
				continue
			}
			ns.edgeSeen[e]++
			walk(s, b, ns)
		}
	}
	walk(fn.Blocks[0], nil, &c14pathState{env: map[*ssa.Phi]int8{}, edgeSeen: map[[2]int]int{}})
	return bad, undecided
}

// ---------------------------------------------------------------------------
// interprocedural lifting (K1): a guard missing inside a helper is demanded at
// every call site of the helper, with the key argument substituted

func (x *c14ctx) forCallers(fn *ssa.Function, key ssa.Value, depth int, f func(cs ssa.Instruction, arg ssa.Value) bool) bool {
	if depth >= 2 {
		return false
	}
	idx := -1
	if key != nil {
		kr := c14canon(key)
		for i, prm := range fn.Params {
			if kr.root == ssa.Value(prm) && !kr.deref && kr.path == "" {
				idx = i
			}
		}
		if idx < 0 {
			return false
		}
	}
	cs := x.la.callers[fn]
	if len(cs) == 0 || x.la.escaped[fn] {
		return false
	}
	for _, call := range cs {
		var arg ssa.Value
		if idx >= 0 {
			if idx >= len(call.Common().Args) {
				return false
			}
			arg = call.Common().Args[idx]
		}
		if !f(call.(ssa.Instruction), arg) {
			return false
		}
	}
	return true
}

func (x *c14ctx) liftKeyGuard(at ssa.Instruction, key ssa.Value, mk func(key ssa.Value, at ssa.Instruction) EdgePred, depth int) bool {
	if guardedBy(at, mk(key, at)) {
		return true
	}
	return x.forCallers(at.Parent(), key, depth, func(cs ssa.Instruction, arg ssa.Value) bool {
		return x.liftKeyGuard(cs, arg, mk, depth+1)
	})
}

// ---------------------------------------------------------------------------
// R3 caps dominate the insert

func (x *c14ctx) r3(tab, cen *c14mapUse) {
	c, p := x.c, x.p
	const r3 = "C14.R3 the table insert is reachable only over the `census[key.addr] < 8` edge and, unless `len(table) < 4096` is known, after an evictor that deletes an entry whenever the table is non-empty; checks and insert share one critical section"
	const perSrcMax, globalMax = 8, 4096
	ord := c14ord{}
	n := 0
	for _, op := range tab.writes("update") {
		I := op.instr.(*ssa.MapUpdate)
		fn := op.fn
		n++
		base := ord.key("C14.R3:insert:" + fnName(fn))
		bestPer := int64(-1)
		perSrc := func(key ssa.Value, at ssa.Instruction) EdgePred {
			addr := c14canonP(key, []*types.Var{x.fKeyAddr})
			return func(cond ssa.Value, pol bool) bool {
				var hit *ssa.Lookup
				b, ok := c14strictUpper(cond, pol, func(v ssa.Value) bool {
					lk := c14lookupOf(v, cen.is)
					if lk != nil && c14canon(lk.Index) == addr {
						hit = lk
						return true
					}
					return false
				})
				if !ok || hit == nil {
					return false
				}
				if b > bestPer {
					bestPer = b
				}
				return b <= perSrcMax && x.la.sameRegion(hit, at, x.fMu, lockW)
			}
		}
		okPer := x.liftKeyGuard(I, I.Key, perSrc, 0)
		detail := "the insert is reachable without crossing an edge on which " + x.fCensus.Name() + "[key." + x.fKeyAddr.Name() + "] < 8 is known in the same critical section"
		if !okPer && bestPer > perSrcMax {
			detail = fmt.Sprintf("the per-source test only proves count < %d before the insert (more than 8 pending messages per source)", bestPer)
		}
		c.Req(okPer, base+":per-source-cap", r3, p.InstrPos(I), detail)

		// global cap
		bestG := int64(-1)
		var evictCalls []*ssa.Call
		evictWhy := ""
		var capOK func(at ssa.Instruction, depth int) bool
		capOK = func(at ssa.Instruction, depth int) bool {
			lenLT := func(cond ssa.Value, pol bool) bool {
				b, ok := c14strictUpper(cond, pol, func(v ssa.Value) bool {
					call, ok := c14strip(v).(*ssa.Call)
					return ok && isBuiltinCall(call, "len") && tab.is(call.Call.Args[0]) && x.la.sameRegion(call, at, x.fMu, lockW)
				})
				if ok && b > bestG {
					bestG = b
				}
				return ok && b <= globalMax
			}
			isEvict := func(in ssa.Instruction) bool {
				call, ok := in.(*ssa.Call)
				if !ok {
					return false
				}
				callee := staticCallee(call)
				if callee == nil || !x.p.IsRepoFn(callee) || len(callee.Blocks) == 0 {
					return false
				}
				// candidate: a repo function that drops a key of the table and is not the plain delete helper
				cand := false
				allInstrs(callee, func(y ssa.Instruction) {
					if x.isDrop(y, tab, func(ssa.Value) bool { return true }) {
						cand = true
					}
				})
				if !cand || x.deleterParam(callee, tab) >= 0 {
					return false
				}
				why, und := x.evictorVerdict(callee, tab)
				if und {
					c.Undecided("C14.R3:evictor:"+fnName(callee), r3, p.Pos(callee.Pos()), "path enumeration cap hit")
					return false
				}
				if why != "" {
					evictWhy = why
					return false
				}
				if !x.la.sameRegion(call, at, x.fMu, lockW) {
					evictWhy = "the mutex is released between the eviction and the insert"
					return false
				}
				evictCalls = append(evictCalls, call)
				return true
			}
			reached := false
			for _, in := range reachFrom(at.Parent(), nil, isEvict, lenLT) {
				if in == at {
					reached = true
				}
			}
			if !reached {
				return true
			}
			return x.forCallers(at.Parent(), nil, depth, func(cs ssa.Instruction, _ ssa.Value) bool { return capOK(cs, depth+1) })
		}
		reached := !capOK(I, 0)
		detail = "the insert is reachable with len(" + x.fTable.Name() + ") >= 4096 possible and no eviction before it"
		if bestG > globalMax {
			detail = fmt.Sprintf("the global test only proves len < %d before the insert (more than 4096 pending messages)", bestG)
		}
		if evictWhy != "" {
			detail += ": " + evictWhy
		}
		c.Req(!reached, base+":global-cap", r3, p.InstrPos(I), detail)
		for _, ec := range evictCalls {
			c.Saw(fnName(staticCallee(ec)))
			c.OK("C14.R3:evictor:"+fnName(staticCallee(ec)), r3, p.InstrPos(ec))
		}
	}
	c.Floor("C14.R3:insert", n, 1)
}

// ---------------------------------------------------------------------------
// R4 TTL

func c14timeCall(v ssa.Value, name string) *ssa.Call {
	call, ok := c14strip(v).(*ssa.Call)
	if !ok {
		return nil
	}
	f := staticCallee(call)
	if f == nil || f.Pkg == nil || f.Pkg.Pkg.Path() != "time" || f.Name() != name {
		return nil
	}
	return call
}

// entryAlloc finds the allocation of the entry stored by an insert (directly
// or as the single result of a constructor helper).
func c14entryAlloc(v ssa.Value) *ssa.Alloc {
	v = resolve(v)
	if al, ok := v.(*ssa.Alloc); ok {
		return al
	}
	if call, ok := v.(*ssa.Call); ok {
		if callee := staticCallee(call); callee != nil {
			var found *ssa.Alloc
			n := 0
			allInstrs(callee, func(in ssa.Instruction) {
				if r, ok := in.(*ssa.Return); ok && len(r.Results) == 1 {
					n++
					if al, ok := resolve(r.Results[0]).(*ssa.Alloc); ok {
						found = al
					}
				}
			})
			if n == 1 {
				return found
			}
		}
	}
	return nil
}

func (x *c14ctx) r4(tab *c14mapUse) {
	c, p := x.c, x.p
	const r4 = "C14.R4 new entries expire at time.Now()+TTL (TTL > 0, never extended); the constructor starts the GC goroutine; it leaves on the close channel, sweeps on every tick of a period in (0, TTL] and keeps running; the sweep drops every entry on the now.After(deadline) edge and visits the whole table; Close closes the close channel"
	ord := c14ord{}
	var ttl int64 = -1

	// ---- deadline of new entries
	nDl := 0
	for _, op := range tab.writes("update") {
		I := op.instr.(*ssa.MapUpdate)
		key := ord.key("C14.R4:deadline:" + fnName(op.fn))
		al := c14entryAlloc(I.Value)
		if al == nil {
			c.Undecided(key, r4, p.InstrPos(I), "cannot find the allocation of the inserted entry")
			continue
		}
		_, fields, _ := c14allocInfo(al)
		vals := fields[x.fDeadline]
		good := false
		detail := "the inserted entry's " + x.fDeadline.Name() + " is not set exactly once to time.Now().Add(<positive constant>)"
		if len(vals) == 1 {
			if add := c14timeCall(vals[0], "Add"); add != nil && len(add.Call.Args) == 2 {
				d, isC := constInt(add.Call.Args[1])
				if c14timeCall(add.Call.Args[0], "Now") != nil && isC {
					if d > 0 {
						good = true
						nDl++
						if ttl < 0 || d < ttl {
							ttl = d
						}
					} else {
						detail = fmt.Sprintf("the TTL added to time.Now() is %d ns: entries are born expired and every multi-chunk message is swept", d)
					}
				}
			}
		}
		c.Req(good, key, r4, p.InstrPos(I), detail)
	}
	c.Floor("C14.R4:deadline", nDl, 1)
	if want, ok := c14constVal(p, pObfs, "geckoReassemblyTTL"); ok && ttl > 0 {
		c.Req(ttl == want, "C14.R4:ttl-constant", r4, "", fmt.Sprintf("entries live %d ns but the declared TTL constant is %d ns", ttl, want))
	}
	for _, fr := range fieldRefs(x.fns, x.fDeadline) {
		if fr.Kind == "store" {
			al, ok := accessPath(fr.Addr).Root.(*ssa.Alloc)
			c.Req(ok && al.Parent() == fr.Fn, ord.key("C14.R4:deadline-fixed:"+fnName(fr.Fn)), r4, p.InstrPos(fr.Instr),
				"the deadline of an existing entry is rewritten (an incomplete message can be kept alive past its TTL)")
		}
	}

	// ---- sweeper
	nowOK := func(v ssa.Value, S *ssa.Function) bool {
		if c14timeCall(v, "Now") != nil {
			return true
		}
		r := c14canon(v)
		if r.deref || r.path != "" {
			return false
		}
		prm, ok := r.root.(*ssa.Parameter)
		if !ok || prm.Parent() != S || len(x.la.callers[S]) == 0 || x.la.escaped[S] {
			return false
		}
		idx := -1
		for i, q := range S.Params {
			if q == prm {
				idx = i
			}
		}
		for _, cs := range x.la.callers[S] {
			a := c14strip(cs.Common().Args[idx])
			if c14timeCall(a, "Now") != nil {
				continue
			}
			if e, ok := a.(*ssa.Extract); ok {
				if _, isSel := e.Tuple.(*ssa.Select); isSel {
					continue
				}
			}
			if u, ok := a.(*ssa.UnOp); ok && u.Op == token.ARROW {
				continue
			}
			return false
		}
		return true
	}
	sweeperVerdict := func(S *ssa.Function) (bool, string) {
		var nexts []*ssa.Next
		allInstrs(S, func(in ssa.Instruction) {
			if nx, ok := in.(*ssa.Next); ok {
				if rg, ok := nx.Iter.(*ssa.Range); ok && tab.is(rg.X) {
					nexts = append(nexts, nx)
				}
			}
		})
		if len(nexts) != 1 {
			return false, "does not range over the table exactly once"
		}
		nx := nexts[0]
		isDl := func(v ssa.Value) bool {
			root, ok := c14fieldLoadOf(v, x.fDeadline)
			return ok && c14rangeOf(root, 2, tab) == nx
		}
		blocked := func(cond ssa.Value, pol bool) bool {
			if c14rangeOf(cond, 0, tab) == nx {
				return !pol // loop exit
			}
			if pol {
				return false
			}
			if call := c14timeCall(cond, "After"); call != nil && len(call.Call.Args) == 2 {
				return nowOK(call.Call.Args[0], S) && isDl(call.Call.Args[1])
			}
			if call := c14timeCall(cond, "Before"); call != nil && len(call.Call.Args) == 2 {
				return isDl(call.Call.Args[0]) && nowOK(call.Call.Args[1], S)
			}
			return false
		}
		isMyDrop := func(in ssa.Instruction) bool {
			return x.isDrop(in, tab, func(k ssa.Value) bool { return c14rangeOf(c14canon(k).root, 1, tab) == nx && c14canon(k).path == "" })
		}
		nDrop := 0
		for _, in := range reachFrom(S, nx, isMyDrop, blocked) {
			if isMyDrop(in) {
				nDrop++
				continue
			}
			if in == ssa.Instruction(nx) {
				return false, "an entry with now.After(deadline) can be skipped (the iteration continues without dropping it)"
			}
			if _, ok := in.(*ssa.Return); ok {
				return false, "the sweep can return before an expired entry is dropped"
			}
		}
		if nDrop == 0 {
			return false, "no drop of the visited key on the expired edge"
		}
		ok := true
		allInstrs(S, func(in ssa.Instruction) {
			if !isMyDrop(in) {
				return
			}
			back := false
			for _, y := range reachFrom(S, in, func(z ssa.Instruction) bool { return z == ssa.Instruction(nx) }, nil) {
				if y == ssa.Instruction(nx) {
					back = true
				}
				if _, isRet := y.(*ssa.Return); isRet {
					ok = false
				}
			}
			if !back {
				ok = false
			}
		})
		if !ok {
			return false, "the sweep stops after dropping one entry instead of visiting the whole table"
		}
		return true, ""
	}

	// ---- GC goroutine started by the constructor
	nCtor := 0
	for _, fn := range x.fns {
		var obj *ssa.Alloc
		allInstrs(fn, func(in ssa.Instruction) {
			if al, ok := in.(*ssa.Alloc); ok && al.Heap && namedOf(al.Type()) == x.connT {
				obj = al
			}
		})
		if obj == nil {
			continue
		}
		nCtor++
		c.Saw(fnName(fn))
		var loops []*ssa.Function
		allInstrs(fn, func(in ssa.Instruction) {
			g, ok := in.(*ssa.Go)
			if !ok {
				return
			}
			callee := staticCallee(g)
			if callee == nil || len(g.Call.Args) == 0 || resolve(g.Call.Args[0]) != ssa.Value(obj) {
				if mc, isMC := g.Call.Value.(*ssa.MakeClosure); isMC {
					callee = mc.Fn.(*ssa.Function)
				} else {
					return
				}
			}
			loops = append(loops, callee)
		})
		base := "C14.R4:gc:" + fnName(fn)
		started := false
		why := "the constructor starts no goroutine on the new object (incomplete messages are never forgotten: after 8 lost handshakes a source is locked out, 4096 entries stay pinned)"
		for _, L := range loops {
			ok, w := x.gcLoopVerdict(L, tab, ttl, sweeperVerdict)
			if ok {
				started = true
				c.Saw(fnName(L))
			} else {
				why = fnName(L) + ": " + w
			}
		}
		if !started && strings.Contains(why, ": ?") {
			c.Undecided(base+":started", r4, p.Pos(fn.Pos()), strings.Replace(why, ": ?", ": ", 1))
		} else {
			c.Req(started, base+":started", r4, p.Pos(fn.Pos()), why)
		}
	}
	c.Floor("C14.R4:constructor", nCtor, 1)
	nSw := 0
	for _, fn := range x.fns {
		if !x.sweepers[fn] {
			continue
		}
		nSw++
		c.Saw(fnName(fn))
		ok, why := sweeperVerdict(fn)
		c.Req(ok, "C14.R4:sweep:"+fnName(fn), r4, p.Pos(fn.Pos()), why+" (an incomplete message outlives its TTL)")
	}
	c.Floor("C14.R4:sweep", nSw, 1)

	// ---- Close stops it
	closeFn := p.MethodOf(types.NewPointer(x.connT), "Close")
	if closeFn == nil {
		c.Unres("(*" + x.connT.Obj().Name() + ").Close")
		return
	}
	c.Saw(fnName(closeFn))
	isCloseCh := func(in ssa.Instruction) bool {
		call, ok := in.(*ssa.Call)
		return ok && isBuiltinCall(call, "close") && isLoadOfField(call.Call.Args[0], x.fCloseCh)
	}
	closer := func(in ssa.Instruction) bool {
		if isCloseCh(in) {
			return true
		}
		call, ok := in.(*ssa.Call)
		if !ok || !calleeIs(call, "sync", "(*Once).Do") || len(call.Call.Args) != 2 {
			return false
		}
		mc, ok := call.Call.Args[1].(*ssa.MakeClosure)
		if !ok {
			return false
		}
		cl := mc.Fn.(*ssa.Function)
		return len(callsIn(cl, func(ci ssa.CallInstruction) bool { return isCloseCh(ci.(ssa.Instruction)) })) > 0 &&
			len(exitsReachableAvoiding(cl, nil, isCloseCh)) == 0
	}
	c.Req(len(exitsReachableAvoiding(closeFn, nil, closer)) == 0, "C14.R4:close-stops-gc", r4, p.Pos(closeFn.Pos()),
		"a path through Close does not close "+x.fCloseCh.Name()+" (the GC goroutine, its ticker and the whole reassembly table of a closed connection are kept forever)")
}

// gcLoopVerdict checks the shape of the maintenance goroutine.
func (x *c14ctx) gcLoopVerdict(L *ssa.Function, tab *c14mapUse, ttl int64, sweeperVerdict func(*ssa.Function) (bool, string)) (bool, string) {
	var sel *ssa.Select
	allInstrs(L, func(in ssa.Instruction) {
		if s, ok := in.(*ssa.Select); ok && s.Blocking {
			sel = s
		}
	})
	if sel == nil {
		return false, "?no blocking select (loop shape not recognised)"
	}
	ci, ti := -1, -1
	var period int64 = -1
	for i, st := range sel.States {
		if st.Dir != types.RecvOnly {
			continue
		}
		if isLoadOfField(st.Chan, x.fCloseCh) {
			ci = i
			continue
		}
		ch := c14strip(st.Chan)
		var mk *ssa.Call
		if u, ok := ch.(*ssa.UnOp); ok && u.Op == token.MUL {
			if fa, ok := u.X.(*ssa.FieldAddr); ok {
				mk = c14timeCall(fa.X, "NewTicker")
			}
		} else if k := c14timeCall(ch, "Tick"); k != nil {
			mk = k
		} else if k := c14timeCall(ch, "After"); k != nil {
			mk = k
		}
		if mk != nil && len(mk.Call.Args) >= 1 {
			if d, ok := constInt(mk.Call.Args[0]); ok {
				ti, period = i, d
			}
		}
	}
	if ci < 0 {
		return false, "the select has no receive from " + x.fCloseCh.Name() + " (the goroutine cannot be stopped)"
	}
	if ti < 0 {
		return false, "?the select has no receive from a ticker with a constant period (loop shape not recognised)"
	}
	if period <= 0 || (ttl > 0 && period > ttl) {
		return false, fmt.Sprintf("tick period %d ns is not in (0, TTL=%d ns]", period, ttl)
	}
	idxVal := extractOf(sel, 0)
	only := func(j int) EdgePred {
		return func(cond ssa.Value, pol bool) bool {
			b, ok := cond.(*ssa.BinOp)
			if !ok || b.Op != token.EQL || idxVal == nil || b.X != idxVal {
				return false
			}
			k, isC := constInt(b.Y)
			if !isC {
				return false
			}
			return (pol && int(k) != j) || (!pol && int(k) == j)
		}
	}
	isSel := func(in ssa.Instruction) bool { return in == ssa.Instruction(sel) }
	// close arm: returns, never waits again
	ret := false
	for _, in := range reachFrom(L, sel, isSel, only(ci)) {
		if isSel(in) {
			return false, "the close arm of the select loops back instead of returning"
		}
		if _, ok := in.(*ssa.Return); ok {
			ret = true
		}
	}
	if !ret {
		return false, "the close arm of the select never returns"
	}
	// tick arm: sweep on every path, then wait again
	var sweepWhy string
	isSweep := func(in ssa.Instruction) bool {
		call, ok := in.(*ssa.Call)
		if !ok {
			return false
		}
		S := staticCallee(call)
		if S == nil || !x.p.IsRepoFn(S) || len(S.Blocks) == 0 {
			return false
		}
		ranges := false
		allInstrs(S, func(y ssa.Instruction) {
			if rg, ok := y.(*ssa.Range); ok && tab.is(rg.X) {
				ranges = true
			}
		})
		if ranges {
			x.sweepers[S] = true
		}
		return ranges
	}
	nSweep := 0
	for _, in := range reachFrom(L, sel, func(in ssa.Instruction) bool { return isSweep(in) || isSel(in) }, only(ti)) {
		if isSweep(in) {
			nSweep++
			again := false
			for _, y := range reachFrom(L, in, isSel, nil) {
				if isSel(y) {
					again = true
				}
				if _, ok := y.(*ssa.Return); ok {
					return false, "the goroutine returns after a sweep instead of waiting for the next tick"
				}
			}
			if !again {
				return false, "after a sweep the goroutine never waits for the next tick"
			}
			continue
		}
		if isSel(in) {
			if sweepWhy != "" {
				return false, sweepWhy
			}
			return false, "a tick can pass without sweeping expired entries"
		}
		if _, ok := in.(*ssa.Return); ok {
			if sweepWhy != "" {
				return false, sweepWhy
			}
			return false, "the tick arm returns without sweeping"
		}
	}
	if nSweep == 0 {
		if sweepWhy != "" {
			return false, sweepWhy
		}
		return false, "the tick arm calls no function that sweeps the table"
	}
	return true, ""
}

// ---------------------------------------------------------------------------
// R5 chunk store and completion

func c14freshSlice(v ssa.Value, seen map[ssa.Value]bool) bool {
	v = c14strip(resolve(v))
	if seen[v] {
		return true
	}
	seen[v] = true
	switch w := v.(type) {
	case *ssa.MakeSlice:
		return true
	case *ssa.Alloc:
		return true
	case *ssa.Slice:
		return c14freshSlice(w.X, seen)
	case *ssa.Phi:
		for _, e := range w.Edges {
			if !c14freshSlice(e, seen) {
				return false
			}
		}
		return true
	case *ssa.Call:
		if isBuiltinCall(w, "append") {
			return isNilConst(w.Call.Args[0]) || c14freshSlice(w.Call.Args[0], seen)
		}
		if calleeIs(w, "bytes", "Clone") || calleeIs(w, "slices", "Clone") {
			return true
		}
		// helper returning a buffer it allocated itself
		if callee := staticCallee(w); callee != nil && len(callee.Blocks) > 0 && callee.Signature.Results().Len() == 1 && len(seen) < 64 {
			ok, n := true, 0
			allInstrs(callee, func(in ssa.Instruction) {
				if r, isRet := in.(*ssa.Return); isRet {
					res := retResults(r)
					if len(res) != 1 || !c14freshSlice(res[0], seen) {
						ok = false
					}
					n++
				}
			})
			return ok && n > 0
		}
	}
	return false
}

// c14neverNil: the slice value is non-nil whatever the length of its source
// (make, append onto a non-nil slice, Clone of a sub-slice, local array slice).
func c14neverNil(v ssa.Value, seen map[ssa.Value]bool) bool {
	v = c14strip(resolve(v))
	if seen[v] {
		return true
	}
	seen[v] = true
	switch w := v.(type) {
	case *ssa.MakeSlice, *ssa.Alloc:
		return true
	case *ssa.Slice:
		if _, isPtr := w.X.Type().Underlying().(*types.Pointer); isPtr {
			return true // slice of an array
		}
		return c14neverNil(w.X, seen)
	case *ssa.Phi:
		for _, e := range w.Edges {
			if !c14neverNil(e, seen) {
				return false
			}
		}
		return true
	case *ssa.Call:
		if isBuiltinCall(w, "append") {
			return !isNilConst(w.Call.Args[0]) && c14neverNil(w.Call.Args[0], seen)
		}
		if calleeIs(w, "bytes", "Clone") || calleeIs(w, "slices", "Clone") {
			// Clone(x) is nil only for a nil x; chunk payloads are sub-slices of the read buffer
			return true
		}
		if callee := staticCallee(w); callee != nil && len(callee.Blocks) > 0 && callee.Signature.Results().Len() == 1 && len(seen) < 64 {
			ok, n := true, 0
			allInstrs(callee, func(in ssa.Instruction) {
				if r, isRet := in.(*ssa.Return); isRet {
					res := retResults(r)
					if len(res) != 1 || !c14neverNil(res[0], seen) {
						ok = false
					}
					n++
				}
			})
			return ok && n > 0
		}
	case *ssa.Parameter:
		return true // decided where the argument is produced (the fresh-copy rule lifts through parameters)
	}
	return false
}

func c14lenArg(v ssa.Value) ssa.Value {
	call, ok := c14strip(v).(*ssa.Call)
	if !ok || !isBuiltinCall(call, "len") {
		return nil
	}
	return call.Call.Args[0]
}

type c14chunkStore struct {
	st    *ssa.Store
	ia    *ssa.IndexAddr
	eRoot ssa.Value
	idx   c14ref
}

func (x *c14ctx) chunkStores() []c14chunkStore {
	var out []c14chunkStore
	for _, fn := range x.fns {
		allInstrs(fn, func(in ssa.Instruction) {
			st, ok := in.(*ssa.Store)
			if !ok {
				return
			}
			ia, ok := st.Addr.(*ssa.IndexAddr)
			if !ok {
				return
			}
			root, ok := c14fieldLoadOf(ia.X, x.fChunks)
			if !ok {
				return
			}
			out = append(out, c14chunkStore{st, ia, root, c14canon(ia.Index)})
		})
	}
	return out
}

func (x *c14ctx) r5(tab *c14mapUse) {
	c, p := x.c, x.p
	const r5 = "C14.R5 a chunk is stored only into an empty slot of its own entry at a bounded index, as a fresh full copy of the payload; received is bumped once per store; the message completes exactly when received reaches total, is returned in a fresh buffer and its entry is dropped"
	ord := c14ord{}
	stores := x.chunkStores()
	c.Floor("C14.R5:chunk-store", len(stores), 1)
	isChunkStore := func(in ssa.Instruction) bool {
		for _, s := range stores {
			if in == ssa.Instruction(s.st) {
				return true
			}
		}
		return false
	}
	for _, cs := range stores {
		St, fn, eRoot, idx := cs.st, cs.st.Parent(), cs.eRoot, cs.idx
		c.Saw(fnName(fn))
		base := ord.key("C14.R5:store:" + fnName(fn))
		ofEntry := func(v ssa.Value, f *types.Var) bool {
			r, ok := c14fieldLoadOf(v, f)
			return ok && r == eRoot
		}
		// ---- duplicate guard
		dup := func(cond ssa.Value, pol bool) bool {
			xv, isNil, ok := nilTest(cond, pol)
			if !ok || !isNil {
				return false
			}
			u, ok := c14strip(xv).(*ssa.UnOp)
			if !ok || u.Op != token.MUL {
				return false
			}
			ia2, ok := u.X.(*ssa.IndexAddr)
			return ok && ofEntry(ia2.X, x.fChunks) && c14canon(ia2.Index) == idx
		}
		c.Req(guardedBy(St, dup), base+":empty-slot", r5, p.InstrPos(St),
			"the slot store is reachable without the `chunks[idx] == nil` edge for the same entry and index (a duplicate is counted again: the message completes with a missing chunk)")

		// ---- index bounded
		inRange := func(cond ssa.Value, pol bool) bool {
			a, b, op, ok := c14rel(cond, pol)
			if !ok {
				return false
			}
			if op == token.GTR {
				a, b, op = b, a, token.LSS
			}
			if op != token.LSS {
				return false
			}
			la := c14lenArg(b)
			return la != nil && ofEntry(la, x.fChunks) && c14canon(a) == idx
		}
		bounded := guardedBy(St, inRange)
		if !bounded {
			bounded = x.totalAgreement(cs, tab)
		}
		c.Req(bounded, base+":index-bounded", r5, p.InstrPos(St),
			"neither `idx < len(chunks)` nor agreement of the entry's total with the frame's declared total is established before chunks[idx] is written (a frame with another chunk count indexes outside the slot array)")

		// ---- fresh full copy
		fresh, why := x.freshCopy(St.Val, St, 0)
		c.Req(fresh, base+":fresh-copy", r5, p.InstrPos(St), why+" (the read buffer is reused by the next ReadFrom: earlier chunks are overwritten, which corrupts only some arrival orders)")
		// the slot's occupancy marker is `!= nil` (empty-slot guard above): the
		// stored copy must be non-nil even for a zero-length chunk
		c.Req(c14neverNil(St.Val, map[ssa.Value]bool{}), base+":stored-copy-never-nil", r5, p.InstrPos(St),
			"the stored copy can be nil for an empty chunk (append to a nil slice yields nil when nothing is appended) while `chunks[idx] == nil` is the empty-slot test: a duplicated empty chunk is counted again and the message completes truncated")

		// ---- received++ exactly with the store
		isInc := func(in ssa.Instruction) bool {
			s, ok := in.(*ssa.Store)
			if !ok {
				return false
			}
			fa, ok := s.Addr.(*ssa.FieldAddr)
			if !ok || structField(fa.X.Type(), fa.Field) != x.fReceived || c14canon(fa.X).root != eRoot {
				return false
			}
			b, ok := c14strip(s.Val).(*ssa.BinOp)
			if !ok || b.Op != token.ADD {
				return false
			}
			k, isC := constInt(b.Y)
			return isC && k == 1 && ofEntry(b.X, x.fReceived)
		}
		c.Req(len(exitsReachableAvoiding(fn, St, isInc)) == 0, base+":received-inc", r5, p.InstrPos(St),
			"after the slot store a path returns without received+1 on the same entry (the message never completes)")
		var incs []ssa.Instruction
		for _, in := range reachFrom(fn, St, nil, nil) {
			if isInc(in) {
				incs = append(incs, in)
			}
		}

		// ---- completion
		isPostReceived := func(v ssa.Value) bool {
			v = c14strip(v)
			if ofEntry(v, x.fReceived) {
				ld := v.(ssa.Instruction)
				for _, inc := range incs {
					if dominates(inc, ld) {
						return true
					}
				}
				return false
			}
			for _, inc := range incs {
				if c14strip(inc.(*ssa.Store).Val) == v {
					return true
				}
			}
			return false
		}
		isTotal := func(v ssa.Value) bool {
			v = c14strip(v)
			if ofEntry(v, x.fTotal) {
				return true
			}
			la := c14lenArg(v)
			return la != nil && ofEntry(la, x.fChunks)
		}
		complete := func(cond ssa.Value, pol bool) bool {
			a, b, op, ok := c14rel(cond, pol)
			if !ok {
				return false
			}
			if op == token.LEQ {
				a, b, op = b, a, token.GEQ
			}
			return (op == token.GEQ || op == token.EQL) && ((isPostReceived(a) && isTotal(b)) || (op == token.EQL && isPostReceived(b) && isTotal(a)))
		}
		keyRefs := map[c14ref]bool{}
		for _, op := range tab.ops {
			if op.fn != fn {
				continue
			}
			switch y := op.instr.(type) {
			case *ssa.Lookup:
				keyRefs[c14canon(y.Index)] = true
			case *ssa.MapUpdate:
				keyRefs[c14canon(y.Key)] = true
			}
		}
		isDrop := func(in ssa.Instruction) bool {
			return x.isDrop(in, tab, func(k ssa.Value) bool { return keyRefs[c14canon(k)] })
		}
		undropped := map[ssa.Instruction]bool{}
		for _, r := range exitsReachableAvoiding(fn, St, isDrop) {
			undropped[r] = true
		}
		nDone := 0
		for _, in := range reachFrom(fn, St, nil, nil) {
			r, ok := in.(*ssa.Return)
			if !ok {
				continue
			}
			res := retResults(r)
			done := false
			for _, v := range res {
				if isConstBool(v, true) {
					done = true
				}
			}
			if !done {
				continue
			}
			nDone++
			k := ord.key(base + ":complete")
			c.Req(guardedBy(r, complete), k+":guard", r5, p.InstrPos(r),
				"the packet is handed up without the `received >= total` edge on the updated counter of this entry (assembled with holes, or one chunk early)")
			c.Req(!undropped[r], k+":drops-entry", r5, p.InstrPos(r),
				"the completed message's entry is not dropped (it pins a table slot and the source's count until the TTL: the 9th handshake packet within 8 s is refused)")
			freshOut := false
			for _, v := range res {
				if c14isByteSlice(v.Type()) {
					freshOut = c14freshSlice(v, map[ssa.Value]bool{})
				}
			}
			c.Req(freshOut, k+":fresh-out", r5, p.InstrPos(r), "the assembled packet is not a freshly allocated buffer")
		}
		c.Floor(base+":complete-return", nDone, 1)
	}
	// no other writer of received
	for _, fr := range fieldRefs(x.fns, x.fReceived) {
		if fr.Kind != "store" {
			continue
		}
		if al, ok := accessPath(fr.Addr).Root.(*ssa.Alloc); ok && al.Parent() == fr.Fn {
			continue
		}
		free := false
		for _, in := range reachFrom(fr.Fn, nil, isChunkStore, nil) {
			if in == fr.Instr {
				free = true
			}
		}
		c.Req(!free, ord.key("C14.R5:received-writer:"+fnName(fr.Fn)), r5, p.InstrPos(fr.Instr), "received is written on a path that stored no chunk")
	}
}

// totalAgreement: every source of the entry pointer is either the new entry
// (slots = declared total of this frame) or an existing one reached over the
// `entry.total == declared total` edge; index and total come from one header.
func (x *c14ctx) totalAgreement(cs c14chunkStore, tab *c14mapUse) bool {
	type src struct {
		v        ssa.Value
		from, to *ssa.BasicBlock
	}
	var srcs []src
	if ph, ok := cs.eRoot.(*ssa.Phi); ok {
		for i, e := range ph.Edges {
			srcs = append(srcs, src{e, ph.Block().Preds[i], ph.Block()})
		}
	} else {
		srcs = []src{{cs.eRoot, cs.st.Block(), nil}}
	}
	var declared *c14ref
	for _, s := range srcs {
		if al := c14entryAlloc(s.v); al != nil {
			_, fields, _ := c14allocInfo(al)
			if vs := fields[x.fChunks]; len(vs) == 1 {
				if mk, ok := c14strip(vs[0]).(*ssa.MakeSlice); ok {
					r := c14canon(mk.Len)
					declared = &r
				}
			}
		}
	}
	if declared == nil || declared.root != cs.idx.root {
		return false
	}
	for _, s := range srcs {
		if c14entryAlloc(s.v) != nil {
			continue
		}
		sv := c14canon(s.v).root
		agree := func(cond ssa.Value, pol bool) bool {
			a, b, op, ok := c14rel(cond, pol)
			if !ok || op != token.EQL {
				return false
			}
			isEntryTotal := func(v ssa.Value) bool {
				if r, ok := c14fieldLoadOf(v, x.fTotal); ok && r == sv {
					return true
				}
				if la := c14lenArg(v); la != nil {
					r, ok := c14fieldLoadOf(la, x.fChunks)
					return ok && r == sv
				}
				return false
			}
			return (isEntryTotal(a) && c14canon(b) == *declared) || (isEntryTotal(b) && c14canon(a) == *declared)
		}
		if !srcGuarded(s.from, s.to, agree) {
			return false
		}
	}
	return true
}

// freshCopy: the stored slice is freshly allocated with the length of, and
// filled from, its source before the store.
func (x *c14ctx) freshCopy(v ssa.Value, at ssa.Instruction, depth int) (bool, string) {
	v = c14strip(resolve(v))
	switch w := v.(type) {
	case *ssa.MakeSlice:
		var cp *ssa.Call
		for _, r := range *w.Referrers() {
			if call, ok := r.(*ssa.Call); ok && isBuiltinCall(call, "copy") && c14strip(call.Call.Args[0]) == ssa.Value(w) && dominates(call, at) {
				cp = call
			}
		}
		if cp == nil {
			return false, "the stored chunk is allocated but never filled by copy() before the store"
		}
		src := cp.Call.Args[1]
		la := c14lenArg(w.Len)
		if la == nil || !c14same(la, src) {
			return false, "the stored chunk is not allocated with len(payload) of the payload copied into it (truncated or zero-padded chunk)"
		}
		return true, ""
	case *ssa.Call:
		if calleeIs(w, "bytes", "Clone") || calleeIs(w, "slices", "Clone") {
			return true, ""
		}
		if isBuiltinCall(w, "append") && len(w.Call.Args) == 2 && (isNilConst(w.Call.Args[0])) {
			return true, ""
		}
	case *ssa.Parameter:
		fn := w.Parent()
		idx := -1
		for i, q := range fn.Params {
			if q == w {
				idx = i
			}
		}
		cs := x.la.callers[fn]
		if depth < 2 && idx >= 0 && len(cs) > 0 && !x.la.escaped[fn] {
			for _, call := range cs {
				if ok, _ := x.freshCopy(call.Common().Args[idx], call.(ssa.Instruction), depth+1); !ok {
					return false, "the slice stored in the slot is the caller's buffer (a sub-slice of the shared read buffer), not a copy"
				}
			}
			return true, ""
		}
		return false, "the slice stored in the slot is the caller's buffer (a sub-slice of the shared read buffer), not a copy"
	}
	return false, "the slice stored in the slot is not a fresh copy of the payload"
}

// ---------------------------------------------------------------------------
// K6: tiny interval evaluator and linear normaliser

type c14iv struct {
	lo, hi int64
	ok     bool
}

func c14join(a, b c14iv) c14iv {
	if !a.ok || !b.ok {
		return c14iv{}
	}
	if b.lo < a.lo {
		a.lo = b.lo
	}
	if b.hi > a.hi {
		a.hi = b.hi
	}
	return a
}

func c14ival(v ssa.Value, env map[ssa.Value]c14iv, depth int) c14iv {
	v = c14strip(v)
	if iv, ok := env[v]; ok {
		return iv
	}
	if k, ok := constInt(v); ok {
		return c14iv{k, k, true}
	}
	if depth > 4 {
		return c14iv{}
	}
	switch w := v.(type) {
	case *ssa.BinOp:
		a, b := c14ival(w.X, env, depth), c14ival(w.Y, env, depth)
		if !a.ok || !b.ok {
			return c14iv{}
		}
		switch w.Op {
		case token.ADD:
			return c14iv{a.lo + b.lo, a.hi + b.hi, true}
		case token.SUB:
			return c14iv{a.lo - b.hi, a.hi - b.lo, true}
		case token.REM:
			if b.lo >= 1 && a.lo >= 0 {
				return c14iv{0, b.hi - 1, true}
			}
			if b.lo >= 1 {
				// unsigned operand of unknown size
				return c14iv{0, b.hi - 1, true}
			}
		case token.MUL:
			if a.lo >= 0 && b.lo >= 0 {
				return c14iv{a.lo * b.lo, a.hi * b.hi, true}
			}
		}
	case *ssa.Call:
		if isBuiltinCall(w, "max") || isBuiltinCall(w, "min") {
			return c14iv{}
		}
		callee := staticCallee(w)
		if callee == nil || len(callee.Blocks) == 0 || callee.Signature.Results().Len() != 1 {
			return c14iv{}
		}
		env2 := map[ssa.Value]c14iv{}
		for i, prm := range callee.Params {
			if i < len(w.Call.Args) {
				if iv := c14ival(w.Call.Args[i], env, depth+1); iv.ok {
					env2[prm] = iv
				}
			}
		}
		var res c14iv
		first := true
		bad := false
		allInstrs(callee, func(in ssa.Instruction) {
			r, ok := in.(*ssa.Return)
			if !ok {
				return
			}
			rv := retResults(r)
			if len(rv) != 1 {
				bad = true
				return
			}
			iv := c14ivalRem(rv[0], env2, depth+1)
			if first {
				res, first = iv, false
			} else {
				res = c14join(res, iv)
			}
		})
		if bad || first {
			return c14iv{}
		}
		return res
	}
	return c14iv{}
}

// c14ivalRem: like c14ival but `x % n` needs only n's interval.
func c14ivalRem(v ssa.Value, env map[ssa.Value]c14iv, depth int) c14iv {
	if b, ok := c14strip(v).(*ssa.BinOp); ok && b.Op == token.REM {
		if n := c14ival(b.Y, env, depth); n.ok && n.lo >= 1 {
			return c14iv{0, n.hi - 1, true}
		}
	}
	return c14ival(v, env, depth)
}

type c14lin struct {
	k int64
	t map[c14ref]int64
}

func c14linOf(v ssa.Value) c14lin {
	out := c14lin{t: map[c14ref]int64{}}
	var add func(v ssa.Value, sign int64, depth int)
	add = func(v ssa.Value, sign int64, depth int) {
		v = c14strip(v)
		if k, ok := constInt(v); ok {
			out.k += sign * k
			return
		}
		if b, ok := v.(*ssa.BinOp); ok && depth < 16 {
			switch b.Op {
			case token.ADD:
				add(b.X, sign, depth+1)
				add(b.Y, sign, depth+1)
				return
			case token.SUB:
				add(b.X, sign, depth+1)
				add(b.Y, -sign, depth+1)
				return
			case token.MUL:
				if k, ok := constInt(b.X); ok {
					add(b.Y, sign*k, depth+1)
					return
				}
				if k, ok := constInt(b.Y); ok {
					add(b.X, sign*k, depth+1)
					return
				}
			}
		}
		if la := c14lenArg(v); la != nil {
			r := c14canon(la)
			r.path = "len(" + r.path + ")"
			out.t[r] += sign
			return
		}
		out.t[c14canon(v)] += sign
	}
	add(v, 1, 0)
	for k, n := range out.t {
		if n == 0 {
			delete(out.t, k)
		}
	}
	return out
}

func (a c14lin) plus(b c14lin, sign int64) c14lin {
	o := c14lin{k: a.k + sign*b.k, t: map[c14ref]int64{}}
	for k, n := range a.t {
		o.t[k] += n
	}
	for k, n := range b.t {
		o.t[k] += sign * n
	}
	for k, n := range o.t {
		if n == 0 {
			delete(o.t, k)
		}
	}
	return o
}

func (a c14lin) eq(b c14lin) bool {
	d := a.plus(b, -1)
	return d.k == 0 && len(d.t) == 0
}

func (a c14lin) String() string {
	var parts []string
	for k, n := range a.t {
		name := k.root.Name()
		if k.path != "" {
			name += "." + k.path
		}
		parts = append(parts, fmt.Sprintf("%+d*%s", n, name))
	}
	sort.Strings(parts)
	return strings.Join(parts, "") + fmt.Sprintf("%+d", a.k)
}

// ---------------------------------------------------------------------------
// R6 sender / header-bit dispatch

// c14topBit: the edge decides bit 0x80 of byte 0 of a buffer accepted by isBuf;
// returns whether the bit is set on the edge.
func c14topBit(cond ssa.Value, pol bool, isBuf func(ssa.Value) bool) (set bool, ok bool) {
	isByte0 := func(v ssa.Value) bool {
		u, ok := c14strip(v).(*ssa.UnOp)
		if !ok || u.Op != token.MUL {
			return false
		}
		ia, ok := u.X.(*ssa.IndexAddr)
		return ok && isConstInt(ia.Index, 0) && isBuf(ia.X)
	}
	isMasked := func(v ssa.Value) bool {
		b, ok := c14strip(v).(*ssa.BinOp)
		if !ok || b.Op != token.AND {
			return false
		}
		return (isConstInt(b.Y, 0x80) && isByte0(b.X)) || (isConstInt(b.X, 0x80) && isByte0(b.Y))
	}
	if op, k, ok := c14relConst(cond, pol, isMasked); ok {
		switch {
		case op == token.NEQ && k == 0, op == token.EQL && k == 0x80, op == token.GTR && k == 0:
			return true, true
		case op == token.EQL && k == 0, op == token.NEQ && k == 0x80:
			return false, true
		}
	}
	if op, k, ok := c14relConst(cond, pol, isByte0); ok {
		switch {
		case op == token.GEQ && k == 0x80, op == token.GTR && k == 0x7f:
			return true, true
		case op == token.LSS && k == 0x80, op == token.LEQ && k == 0x7f:
			return false, true
		}
	}
	return false, false
}

// c14totalRange: the interval of header.total accepted on the way to the
// success return (error result nil) of a frame encoder / decoder.
func (x *c14ctx) totalRange(fn *ssa.Function, fTotal *types.Var) (lo, hi int64, ok bool) {
	var succ []*ssa.Return
	allInstrs(fn, func(in ssa.Instruction) {
		r, isRet := in.(*ssa.Return)
		if !isRet {
			return
		}
		res := retResults(r)
		if len(res) > 0 && isNilConst(res[len(res)-1]) {
			succ = append(succ, r)
		}
	})
	if len(succ) == 0 {
		return 0, 0, false
	}
	isTot := func(v ssa.Value) bool {
		_, ok := c14fieldLoadOf(v, fTotal)
		return ok
	}
	lo, hi = -1<<62, 1<<62
	for _, b := range fn.Blocks {
		for i := range b.Succs {
			cond, pol, okE := edgeFact(b, i)
			if !okE {
				continue
			}
			c0, p0 := cond, pol
			this := func(cc ssa.Value, pp bool) bool { return cc == c0 && pp == p0 }
			all := true
			for _, r := range succ {
				if !guardedBy(r, this) {
					all = false
				}
			}
			if !all {
				continue
			}
			if l, okL := c14lowerIncl(cond, pol, isTot); okL && l > lo {
				lo = l
			}
			if u, okU := c14strictUpper(cond, pol, isTot); okU && u-1 < hi {
				hi = u - 1
			}
		}
	}
	return lo, hi, lo > -1<<62 && hi < 1<<62
}

func c14blockReaches(from, to *ssa.BasicBlock) bool {
	seen := map[*ssa.BasicBlock]bool{}
	var walk func(b *ssa.BasicBlock) bool
	walk = func(b *ssa.BasicBlock) bool {
		for _, s := range b.Succs {
			if s == to {
				return true
			}
			if !seen[s] {
				seen[s] = true
				if walk(s) {
					return true
				}
			}
		}
		return false
	}
	return walk(from)
}

func (x *c14ctx) r6() {
	c, p := x.c, x.p
	const r6 = "C14.R6 long-header packets (p[0]&0x80 != 0) and only they are fragmented / reassembled, everything else passes through unchanged; chunk count within the decoder's range; one message id, the loop index and the drawn total in every frame; padding computed for the framed payload and within [lo-base, max-base]"
	enc, dec := p.Fn(pObfs, "encodeFrame"), p.Fn(pObfs, "decodeFrame")
	fHdrTotal := p.Field(pObfs, "frameHeader", "totalChunks")
	fHdrIdx := p.Field(pObfs, "frameHeader", "chunkIdx")
	fHdrID := p.Field(pObfs, "frameHeader", "msgID")
	fHdrPad := p.Field(pObfs, "frameHeader", "padLen")
	fMin, fMax := p.Field(pObfs, x.connT.Obj().Name(), "minPkt"), p.Field(pObfs, x.connT.Obj().Name(), "maxPkt")
	writeFn := p.MethodOf(types.NewPointer(x.connT), "WriteTo")
	readFn := p.MethodOf(types.NewPointer(x.connT), "ReadFrom")
	saltLen, ok1 := c14constVal(p, pObfs, "smSaltLen")
	hdrLen, ok2 := c14constVal(p, pObfs, "geckoHeaderSize")
	if enc == nil || dec == nil || fHdrTotal == nil || fHdrIdx == nil || fHdrID == nil || fHdrPad == nil || fMin == nil || fMax == nil || writeFn == nil || readFn == nil || !ok1 || !ok2 {
		c.Unres("obfs encodeFrame/decodeFrame, frameHeader.{totalChunks,chunkIdx,msgID,padLen}, minPkt/maxPkt, WriteTo/ReadFrom, smSaltLen/geckoHeaderSize")
		return
	}
	for _, f := range []*ssa.Function{enc, dec, writeFn, readFn} {
		c.Saw(fnName(f))
	}
	ord := c14ord{}
	isInnerCall := func(in ssa.Instruction, method string) *ssa.Call {
		call, ok := in.(*ssa.Call)
		if !ok || !invokeIs(call, method) || !isLoadOfField(call.Call.Value, x.fInner) {
			return nil
		}
		return call
	}

	// ---- the fragmenting functions: callers of the encoder
	var frags []*ssa.Function
	for _, fn := range x.fns {
		if len(callsIn(fn, func(ci ssa.CallInstruction) bool { return staticCallee(ci) == enc })) > 0 {
			frags = append(frags, fn)
		}
	}
	c.Floor("C14.R6:fragmenter", len(frags), 1)
	isFrag := func(f *ssa.Function) bool {
		for _, g := range frags {
			if g == f {
				return true
			}
		}
		return false
	}

	// ---- WriteTo dispatch
	{
		pBuf := func(v ssa.Value) bool {
			return len(writeFn.Params) > 1 && c14strip(resolve(v)) == ssa.Value(writeFn.Params[1])
		}
		long := func(cond ssa.Value, pol bool) bool { s, ok := c14topBit(cond, pol, pBuf); return ok && s }
		short := func(cond ssa.Value, pol bool) bool { s, ok := c14topBit(cond, pol, pBuf); return ok && !s }
		sameArgs := func(args []ssa.Value) bool {
			if len(args) != 2 || len(writeFn.Params) != 3 {
				return false
			}
			return c14strip(resolve(args[0])) == ssa.Value(writeFn.Params[1]) && c14strip(resolve(args[1])) == ssa.Value(writeFn.Params[2])
		}
		nF, nP := 0, 0
		allInstrs(writeFn, func(in ssa.Instruction) {
			if call, ok := in.(*ssa.Call); ok && staticCallee(call) != nil && isFrag(staticCallee(call)) {
				nF++
				c.Req(guardedBy(call, long) && sameArgs(callArgs(call)), ord.key("C14.R6:WriteTo:fragment-long-header"), r6, p.InstrPos(call),
					"fragmentation is not reached exactly over the `p[0]&0x80 != 0` edge with the caller's p and addr (a short-header packet gets framed: the peer cannot tell it from data)")
			}
			if call := isInnerCall(in, "WriteTo"); call != nil {
				nP++
				c.Req(guardedBy(call, short) && sameArgs(call.Call.Args), ord.key("C14.R6:WriteTo:passthrough-short-header"), r6, p.InstrPos(call),
					"the raw pass-through to the inner conn is not confined to the `p[0]&0x80 == 0` edge with p and addr unchanged (a long-header packet sent raw is parsed as a Gecko frame and dropped by the receiver)")
			}
		})
		c.Floor("C14.R6:WriteTo:fragment-call", nF, 1)
		c.Floor("C14.R6:WriteTo:passthrough-call", nP, 1)
	}

	// ---- ReadFrom dispatch
	{
		isBuf := func(v ssa.Value) bool { return isLoadOfField(v, x.fReadBuf) }
		long := func(cond ssa.Value, pol bool) bool { s, ok := c14topBit(cond, pol, isBuf); return ok && s }
		short := func(cond ssa.Value, pol bool) bool { s, ok := c14topBit(cond, pol, isBuf); return ok && !s }
		var innerRead *ssa.Call
		allInstrs(readFn, func(in ssa.Instruction) {
			if call := isInnerCall(in, "ReadFrom"); call != nil {
				innerRead = call
			}
		})
		nOf := func(v ssa.Value) bool {
			return innerRead != nil && c14strip(resolve(v)) == extractOf(innerRead, 0)
		}
		rawSlice := func(v ssa.Value) bool {
			s, ok := c14strip(v).(*ssa.Slice)
			return ok && isBuf(s.X) && s.Low == nil && s.High != nil && nOf(s.High)
		}
		nD, nRaw := 0, 0
		allInstrs(readFn, func(in ssa.Instruction) {
			call, ok := in.(*ssa.Call)
			if !ok {
				return
			}
			if staticCallee(call) == dec {
				nD++
				c.Req(guardedBy(call, long) && len(call.Call.Args) == 1 && rawSlice(call.Call.Args[0]), ord.key("C14.R6:ReadFrom:decode-long-header"), r6, p.InstrPos(call),
					"the frame decoder is not applied exactly on the `buf[0]&0x80 != 0` edge to buf[:n] of the datagram just read")
			}
			if isBuiltinCall(call, "copy") && len(call.Call.Args) == 2 {
				if s, ok := c14strip(call.Call.Args[1]).(*ssa.Slice); ok && isBuf(s.X) {
					nRaw++
					c.Req(guardedBy(call, short) && rawSlice(call.Call.Args[1]) && c14strip(resolve(call.Call.Args[0])) == ssa.Value(readFn.Params[1]), ord.key("C14.R6:ReadFrom:passthrough-short-header"), r6, p.InstrPos(call),
						"raw bytes of the read buffer are handed up outside the `buf[0]&0x80 == 0` edge or not as buf[:n] (short-header packets must pass through unchanged, fragments must not leak up)")
				}
			}
		})
		c.Floor("C14.R6:ReadFrom:decode-call", nD, 1)
		c.Floor("C14.R6:ReadFrom:passthrough-copy", nRaw, 1)
	}

	// ---- chunk count range
	decLo, decHi, okD := x.totalRange(dec, fHdrTotal)
	encLo, encHi, okE := x.totalRange(enc, fHdrTotal)
	if !okD || !okE {
		c.Undecided("C14.R6:total-range", r6, p.Pos(dec.Pos()), "cannot derive the accepted range of totalChunks from the encoder/decoder guards")
	}

	// ---- per fragmenter
	for _, W := range frags {
		c.Saw(fnName(W))
		base := "C14.R6:" + fnName(W)
		for _, ci := range callsIn(W, func(ci ssa.CallInstruction) bool { return staticCallee(ci) == enc }) {
			E := ci.(*ssa.Call)
			hdr := E.Call.Args[0]
			comp := func(f *types.Var) ssa.Value { return c14canonP(hdr, []*types.Var{f}).root }
			// total: interval within both ranges
			T := comp(fHdrTotal)
			iv := c14ival(T, map[ssa.Value]c14iv{}, 0)
			if !iv.ok {
				c.Undecided(base+":chunk-count", r6, p.InstrPos(E), "cannot bound the drawn chunk count")
			} else if okD && okE {
				lo, hi := c14maxI(decLo, encLo), c14minI(c14minI(decHi, encHi), 15)
				c.Req(iv.lo >= lo && iv.hi <= hi, base+":chunk-count", r6, p.InstrPos(E),
					fmt.Sprintf("the sender draws a chunk count in [%d,%d] but encoder/decoder and the 4-bit field accept only [%d,%d] (such handshake packets are lost)", iv.lo, iv.hi, lo, hi))
			}
			// index: induction variable of the enclosing loop, bound = total
			idxV := comp(fHdrIdx)
			ph, isPhi := idxV.(*ssa.Phi)
			okIdx := false
			if isPhi && len(ph.Edges) == 2 {
				var inc *ssa.BinOp
				zero := false
				for _, e := range ph.Edges {
					if isConstInt(e, 0) {
						zero = true
					} else if b, ok := e.(*ssa.BinOp); ok && b.Op == token.ADD && b.X == ssa.Value(ph) && isConstInt(b.Y, 1) {
						inc = b
					}
				}
				if zero && inc != nil {
					for _, iv := range []ssa.Value{inc, ph} {
						for _, r := range *iv.Referrers() {
							b, ok := r.(*ssa.BinOp)
							if !ok || b.Op != token.LSS || b.X != iv || c14strip(b.Y) != c14strip(T) {
								continue
							}
							// the test controls the loop: it is the condition of a branch
							for _, rr := range *b.Referrers() {
								if _, isIf := rr.(*ssa.If); isIf {
									okIdx = true
								}
							}
						}
					}
				}
			}
			c.Req(okIdx && c14blockReaches(E.Block(), E.Block()), base+":index-and-total", r6, p.InstrPos(E),
				"the frames of one message do not carry chunkIdx = loop index i (0,1,..) and totalChunks = the loop bound (chunks land in wrong slots or the receiver waits for a different count)")
			// message id: not a constant, evaluated once per message
			idV := comp(fHdrID)
			idIn, isInstr := idV.(ssa.Instruction)
			_, isConst := idV.(*ssa.Const)
			okID := !isConst && (!isInstr || !c14blockReaches(E.Block(), idIn.Block()))
			c.Req(okID, base+":one-message-id", r6, p.InstrPos(E),
				"the message id is a constant or is re-evaluated per chunk (chunks of one packet are filed under different messages / different packets share one)")
			// padding computed for this payload
			padV := comp(fHdrPad)
			padCall, _ := padV.(*ssa.Call)
			okPad := false
			if padCall != nil && staticCallee(padCall) != nil {
				for _, a := range callArgs(padCall) {
					if la := c14lenArg(a); la != nil && c14same(la, E.Call.Args[1]) {
						okPad = true
					}
				}
			}
			c.Req(okPad, base+":pad-for-payload", r6, p.InstrPos(E),
				"the padding is not computed from len() of the payload that is framed (the last chunk is longer: datagram exceeds the maximum size)")
			if padCall != nil && staticCallee(padCall) != nil {
				x.padBound(staticCallee(padCall), fMin, fMax, saltLen+hdrLen, r6)
			}
			// the encoded frame goes to the inner conn, to the caller's address
			out := E.Call.Args[2]
			nW := extractOf(E, 0)
			isSend := func(in ssa.Instruction) bool {
				call := isInnerCall(in, "WriteTo")
				if call == nil || len(call.Call.Args) != 2 {
					return false
				}
				s, ok := c14strip(call.Call.Args[0]).(*ssa.Slice)
				if !ok || c14strip(s.X) != c14strip(out) || s.Low != nil || s.High == nil || c14strip(s.High) != nW {
					return false
				}
				return len(W.Params) == 3 && c14strip(resolve(call.Call.Args[1])) == ssa.Value(W.Params[2])
			}
			errV := extractOf(E, 1)
			failed := func(cond ssa.Value, pol bool) bool {
				v, isNil, ok := nilTest(cond, pol)
				return ok && !isNil && errV != nil && c14strip(v) == errV
			}
			lost := false
			for _, in := range reachFrom(W, E, isSend, failed) {
				if isSend(in) {
					continue
				}
				if in == ssa.Instruction(E) {
					lost = true
				}
				if _, ok := in.(*ssa.Return); ok {
					lost = true
				}
			}
			c.Req(!lost, base+":frame-sent", r6, p.InstrPos(E),
				"an encoded frame is not written as out[:n] to the inner conn at the caller's address before the next chunk / the return (a chunk is missing: the packet never reassembles)")
		}
	}
}

func c14maxI(a, b int64) int64 {
	if a > b {
		return a
	}
	return b
}

func c14minI(a, b int64) int64 {
	if a < b {
		return a
	}
	return b
}

// c14randBound: fn(n) returns 0 or x % n, i.e. a value in [0, n-1] for n >= 1.
func c14randBound(fn *ssa.Function) bool {
	if fn == nil || len(fn.Blocks) == 0 || len(fn.Params) != 1 {
		return false
	}
	ok, n := true, 0
	allInstrs(fn, func(in ssa.Instruction) {
		r, isRet := in.(*ssa.Return)
		if !isRet {
			return
		}
		res := retResults(r)
		if len(res) != 1 {
			ok = false
			return
		}
		n++
		if isConstInt(res[0], 0) {
			return
		}
		b, isBin := c14strip(res[0]).(*ssa.BinOp)
		if !isBin || b.Op != token.REM || c14strip(b.Y) != ssa.Value(fn.Params[0]) {
			ok = false
		}
	})
	return ok && n > 0
}

// padBound: the padding function returns 0 only on the `lo > max` edge and
// otherwise (lo-base) + rnd(max-lo+1) with lo = max(min, base),
// base = salt + header + chunkLen: the datagram size base+pad lies in [lo, max].
func (x *c14ctx) padBound(PF *ssa.Function, fMin, fMax *types.Var, overhead int64, rule string) {
	c, p := x.c, x.p
	if x.deleterMemo[PF] == -2 {
		return // already examined
	}
	x.deleterMemo[PF] = -2
	c.Saw(fnName(PF))
	base := "C14.R6:" + fnName(PF)
	var chunkLen *ssa.Parameter
	for _, prm := range PF.Params {
		if b, ok := prm.Type().Underlying().(*types.Basic); ok && b.Info()&types.IsInteger != 0 {
			chunkLen = prm
		}
	}
	if chunkLen == nil {
		c.Undecided(base+":pad-range", rule, p.Pos(PF.Pos()), "no integer parameter (chunk length)")
		return
	}
	baseLin := c14lin{k: overhead, t: map[c14ref]int64{c14canon(chunkLen): 1}}
	maxLin := func(v ssa.Value) bool { return isLoadOfField(v, fMax) }
	linEq := func(a, b ssa.Value) bool { return c14linOf(a).eq(c14linOf(b)) }
	// lo = max(min, base)
	baseSeen := ""
	isLo := func(v ssa.Value) bool {
		v = c14strip(v)
		if call, ok := v.(*ssa.Call); ok && isBuiltinCall(call, "max") && len(call.Call.Args) == 2 {
			a, b := call.Call.Args[0], call.Call.Args[1]
			for _, pr := range [][2]ssa.Value{{a, b}, {b, a}} {
				if isLoadOfField(pr[0], fMin) {
					if c14linOf(pr[1]).eq(baseLin) {
						return true
					}
					baseSeen = c14linOf(pr[1]).String()
				}
			}
			return false
		}
		ph, ok := v.(*ssa.Phi)
		if !ok || len(ph.Edges) != 2 {
			return false
		}
		hasMin, hasBase := false, false
		for i, e := range ph.Edges {
			o := ph.Edges[1-i]
			if isLoadOfField(e, fMin) {
				hasMin = true
			} else if c14linOf(e).eq(baseLin) {
				hasBase = true
			} else {
				return false
			}
			ge := func(cond ssa.Value, pol bool) bool {
				a, b, op, ok := c14rel(cond, pol)
				if !ok {
					return false
				}
				if op == token.LSS || op == token.LEQ {
					a, b, op = b, a, c14flip(op)
				}
				return (op == token.GTR || op == token.GEQ) && linEq(a, e) && linEq(b, o)
			}
			if !cfgEdgeGuardedBy(ph.Block().Preds[i], ph.Block(), ge) {
				return false
			}
		}
		return hasMin && hasBase
	}
	var loVal ssa.Value
	loGTmax := func(want bool) EdgePred {
		return func(cond ssa.Value, pol bool) bool {
			a, b, op, ok := c14rel(cond, pol)
			if !ok {
				return false
			}
			if op == token.LSS || op == token.GEQ {
				a, b, op = b, a, c14flip(op)
			}
			// now op is GTR (a > b) or LEQ (a <= b)
			if !(isLo(a) && maxLin(b)) {
				return false
			}
			loVal = c14strip(a)
			return (op == token.GTR) == want
		}
	}
	nRet := 0
	allInstrs(PF, func(in ssa.Instruction) {
		r, ok := in.(*ssa.Return)
		if !ok {
			return
		}
		res := retResults(r)
		if len(res) != 1 {
			return
		}
		nRet++
		if isConstInt(res[0], 0) {
			c.Req(guardedBy(r, loGTmax(true)), base+":zero-only-when-too-big", rule, p.InstrPos(r),
				"padding 0 is returned without the `max(min, salt+header+chunk) > max` edge (a small chunk goes out unpadded: datagram below the configured minimum)")
			return
		}
		good := false
		detail := "the padding is not (lo - base) + rnd(max - lo + 1) with lo = max(min, base), base = salt+header+chunkLen"
		{
			L := c14linOf(res[0])
			for atom, coef := range L.t {
				call, ok := atom.root.(*ssa.Call)
				if !ok || coef != 1 || atom.deref || atom.path != "" || staticCallee(call) == nil || !c14randBound(staticCallee(call)) || len(call.Call.Args) != 1 {
					continue
				}
				linA := L.plus(c14lin{t: map[c14ref]int64{atom: 1}}, -1)
				if !guardedBy(r, loGTmax(false)) || loVal == nil {
					detail = "the random part's range max-lo+1 is not known positive (no `lo <= max` edge before it)"
					continue
				}
				B := call.Call.Args[0]
				loLin := c14lin{t: map[c14ref]int64{c14canon(loVal): 1}}
				maxL := c14lin{t: map[c14ref]int64{}}
				// any load of max is the same atom
				allInstrs(PF, func(y ssa.Instruction) {
					if v, ok := y.(ssa.Value); ok && isLoadOfField(v, fMax) && len(maxL.t) == 0 {
						maxL.t[c14canon(v)] = 1
					}
				})
				upper := linA.plus(c14linOf(B), 1).plus(c14lin{k: 1, t: map[c14ref]int64{}}, -1)
				wantUpper := maxL.plus(baseLin, -1)
				lower := linA
				wantLower := loLin.plus(baseLin, -1)
				if d := upper.plus(wantUpper, -1); len(d.t) != 0 || d.k > 0 {
					detail = "the largest padding is " + upper.String() + " but max - (salt+header+chunk) is " + wantUpper.String() + " (datagram can exceed the configured maximum)"
					continue
				}
				if d := lower.plus(wantLower, -1); len(d.t) != 0 || d.k < 0 {
					detail = "the smallest padding is " + lower.String() + " but lo - (salt+header+chunk) is " + wantLower.String() + " (datagram can fall below the configured minimum)"
					continue
				}
				good = true
			}
		}
		if !good && baseSeen != "" {
			detail = fmt.Sprintf("lo is max(min, %s) but a datagram is salt+header+chunk = %s bytes before padding (sizes are off by the difference)", baseSeen, baseLin.String())
		}
		c.Req(good, base+":pad-range", rule, p.InstrPos(r), detail)
	})
	c.Floor(base+":returns", nRet, 2)
}

// ---------------------------------------------------------------------------

func checkC14(c *Check) {
	lockBalanceRule(c, "C14", pObfs)
	x := c14resolve(c)
	if x == nil {
		return
	}
	tab, cen := x.mapUse(x.fTable), x.mapUse(x.fCensus)
	x.r1(tab, cen)
	x.r2(tab, cen)
	x.r3(tab, cen)
	x.r4(tab)
	x.r5(tab)
	x.r6()
}

// isRangeKeyOf: v is the key produced by ranging over the map.
func (x *c14ctx) isRangeKeyOf(v ssa.Value, m *c14mapUse) bool {
	return c14rangeOf(v, 1, m) != nil
}

// c14rangeOf: v is `extract (next (range m)) #idx`; returns the Next.
func c14rangeOf(v ssa.Value, idx int, m *c14mapUse) *ssa.Next {
	e, ok := c14strip(v).(*ssa.Extract)
	if !ok || e.Index != idx {
		return nil
	}
	nx, ok := e.Tuple.(*ssa.Next)
	if !ok {
		return nil
	}
	rg, ok := nx.Iter.(*ssa.Range)
	if !ok || !m.is(rg.X) {
		return nil
	}
	return nx
}

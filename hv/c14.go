package main

import (
	"fmt"
	"go/constant"
	"go/token"
	"go/types"
	"os"
	"sort"
	"strings"

	"golang.org/x/tools/go/ssa"
)

func init() {
	register(&propDef{
		ID:        "C14",
		Run:       checkC14,
		Technique: "static analysis: map-writer census with key identity, lockset, edge-guard reachability, phi-of-constants path feasibility for the evictor, linear cancellation for the padding bound, address-part dependence (whole / host / port) of the key's source component through helpers and call sites (go/ssa)",
		Explanation: "R1 table/census coupling - every insert into the reassembly table is for an absent key and is followed in the same critical section by census[key.addr]+1; every delete removes a key known present and is followed by census[key.addr]-1 with removal of the census entry on the non-positive edge; no other writer of either map; " +
			"R2 every access to the table and the census holds the table mutex (lock-context helpers discovered from callers); the shared read buffer and everything derived from it is used only under the read mutex; " +
			"R3 the insert is reachable only over the `census[addr] < 8` edge and, unless `len(table) < 4096` is known, after an evictor that removes an entry on every feasible path on which the table was seen non-empty; all inside the insert's critical section; " +
			"R4 a new entry's deadline is time.Now()+TTL (TTL > 0); the constructor starts the GC goroutine on the new object; the loop leaves on the close channel, ticks with a period in (0, TTL], sweeps on every tick and never returns on the tick arm; the sweep drops every entry on the now.After(deadline) edge and visits the whole table; Close closes the close channel through a sync.Once on every path; " +
			"R5 the chunk store is guarded by the empty-slot test for the same entry and index, the index is bounded (index test or declared-total agreement), the stored slice is a fresh copy of the payload of equal length, the received counter is bumped once per store, completion is decided by received vs total, returns a fresh buffer and drops the entry; " +
			"R6 the sender fragments exactly on the `p[0]&0x80 != 0` edge and passes p/addr through unchanged otherwise, the receiver mirrors the test on the read buffer; the chunk count interval lies inside the decoder's accepted range; all frames of one message carry one loop-invariant message id, the loop index and the drawn total; the padding is computed for the payload actually framed, is 0 only on the `lo > max` edge and otherwise lies in [lo-base, max-base] with base = salt+header+chunk; " +
			"R7 the source component of the key under which an entry enters the table is computed from the whole source address handed out by the inner ReadFrom (addr.String() or a value carrying host and port; followed through same-package helpers, locals and call sites): no definition of it is a projection that keeps the host and drops the port (UDPAddr.IP, AddrPort.Addr(), SplitHostPort host), and it depends on the address at all - otherwise sources behind one host share table slots and the per-source budget and their chunks are mixed.",
		NotDecided: []string{
			"byte-identical delivery for every arrival order and interleaving (only the structural guards of the slot store and of completion are decided)",
			"8-bit message-id wrap-around collisions within the TTL",
			"that the sender's chunk slices tile the packet exactly, and the index order of the concatenation (covered by the round-trip tests)",
			"size-range compliance when the chunk alone exceeds the maximum; uint16 overflow of the padding (max packet size is bounded by the constructor)",
			"timing: that the sweep runs within one period of the deadline",
			"R7: loss of the IPv6 zone in the source key; key components that flow through memory, indirect calls or string builders (treated as unknown, no verdict)",
		},
		Assumptions: []string{
			"value identity = same SSA value, or the same field path of the same single-assignment local / parameter",
			"a method called on a freshly allocated receiver inside its constructor runs before the object escapes",
			"randomness source returns values in the full uint32 range (only the modulus is inspected)",
			"anchors (table, census, mutexes, entry counters, frame codec and header fields, size-range fields, salt/header sizes) are resolved by type, signature, data flow and use; declared names are only a fallback (HV_C14_NONAMES=1 disables it)",
			"package-level error variables and errors.New/fmt.Errorf results are non-nil (used to tell a validator's failure returns from its success return)",
			"a helper entered from a call site that holds a mutex runs under it unless the helper itself unlocks it",
		},
	})
}

// c14ctx carries the resolved anchors.
type c14ctx struct {
	c   *Check
	p   *Prog
	la  *LockAnalysis
	fns []*ssa.Function // repo functions of the obfs package

	connT  *types.Named
	entryT *types.Named
	keyT   *types.Named

	fTable, fCensus, fMu, fReadMu, fReadBuf, fCloseCh, fInner *types.Var
	fKeyAddr                                                  *types.Var
	fChunks, fReceived, fTotal, fDeadline                     *types.Var

	deleterMemo map[*ssa.Function]int
	sweepers    map[*ssa.Function]bool
}

func c14structOf(t types.Type) *types.Struct {
	if p, ok := t.Underlying().(*types.Pointer); ok {
		t = p.Elem()
	}
	st, _ := t.Underlying().(*types.Struct)
	return st
}

func c14isByteSlice(t types.Type) bool {
	s, ok := t.Underlying().(*types.Slice)
	if !ok {
		return false
	}
	b, ok := s.Elem().Underlying().(*types.Basic)
	return ok && b.Kind() == types.Uint8
}

func c14isNamed(t types.Type, pkg, name string) bool {
	n := namedOf(t)
	return n != nil && n.Obj().Pkg() != nil && n.Obj().Pkg().Path() == pkg && n.Obj().Name() == name
}

// c14resolve finds the connection type by role: the struct of the obfs
// package holding a map from a struct key to a pointer to a struct that has a
// [][]byte field (the reassembly table).
func c14resolve(c *Check) *c14ctx {
	p := c.P
	x := &c14ctx{c: c, p: p, deleterMemo: map[*ssa.Function]int{}, sweepers: map[*ssa.Function]bool{}}
	pp := p.byPath[pObfs]
	if pp == nil || pp.Types == nil {
		c.Unres("package " + pObfs)
		return nil
	}
	sc := pp.Types.Scope()
	for _, n := range sc.Names() {
		tn, ok := sc.Lookup(n).(*types.TypeName)
		if !ok || tn.IsAlias() {
			continue
		}
		nt, _ := tn.Type().(*types.Named)
		st, _ := tn.Type().Underlying().(*types.Struct)
		if nt == nil || st == nil {
			continue
		}
		for i := 0; i < st.NumFields(); i++ {
			m, ok := st.Field(i).Type().Underlying().(*types.Map)
			if !ok {
				continue
			}
			kst := c14structOf(m.Key())
			est := c14structOf(m.Elem())
			if kst == nil || est == nil || namedOf(m.Key()) == nil || namedOf(m.Elem()) == nil {
				continue
			}
			if _, isPtr := m.Elem().Underlying().(*types.Pointer); !isPtr {
				continue
			}
			var chunks *types.Var
			for j := 0; j < est.NumFields(); j++ {
				if s, ok := est.Field(j).Type().Underlying().(*types.Slice); ok && c14isByteSlice(s.Elem()) {
					chunks = est.Field(j)
				}
			}
			if chunks == nil {
				continue
			}
			if x.connT != nil {
				c.Unres("obfs: more than one candidate for the reassembly table field")
				return nil
			}
			x.connT, x.fTable, x.fChunks = nt, st.Field(i), chunks
			x.keyT, x.entryT = namedOf(m.Key()), namedOf(m.Elem())
		}
	}
	if x.connT == nil {
		c.Unres("obfs: struct with a map[structKey]*entry{[][]byte} field (the Gecko reassembly table)")
		return nil
	}
	cst := x.connT.Underlying().(*types.Struct)
	var mutexes []*types.Var
	for i := 0; i < cst.NumFields(); i++ {
		f := cst.Field(i)
		switch t := f.Type().Underlying().(type) {
		case *types.Map:
			if kb, ok := t.Key().Underlying().(*types.Basic); ok && kb.Kind() == types.String {
				if vb, ok := t.Elem().Underlying().(*types.Basic); ok && vb.Info()&types.IsInteger != 0 {
					if x.fCensus != nil {
						c.Unres("obfs: two map[string]int fields on " + x.connT.Obj().Name())
						return nil
					}
					x.fCensus = f
				}
			}
		case *types.Slice:
			if c14isByteSlice(f.Type()) {
				x.fReadBuf = f
			}
		case *types.Chan:
			x.fCloseCh = f
		case *types.Interface:
			if c14isNamed(f.Type(), "net", "PacketConn") {
				x.fInner = f
			}
		}
		if c14isNamed(f.Type(), "sync", "Mutex") || c14isNamed(f.Type(), "sync", "RWMutex") {
			mutexes = append(mutexes, f)
		}
	}
	for _, fn := range p.RepoFns {
		if pk := fnPkg(fn); pk != nil && pk.Pkg.Path() == pObfs {
			x.fns = append(x.fns, fn)
		}
	}
	// mutexes by role: the one locked by the functions that touch the table,
	// the one locked by the functions that take the read buffer; names only as
	// a fallback.
	x.fMu = c14mutexFor(x.fns, mutexes, x.fTable, nil)
	if x.fReadBuf != nil {
		x.fReadMu = c14mutexFor(x.fns, mutexes, x.fReadBuf, x.fMu)
	}
	if x.fMu == nil || x.fReadMu == nil || x.fMu == x.fReadMu {
		x.fMu, x.fReadMu = nil, nil
		for _, m := range mutexes {
			if !c14names() {
				break
			}
			switch m.Name() {
			case "mu":
				x.fMu = m
			case "readMu":
				x.fReadMu = m
			}
		}
	}
	kst := x.keyT.Underlying().(*types.Struct)
	for i := 0; i < kst.NumFields(); i++ {
		if b, ok := kst.Field(i).Type().Underlying().(*types.Basic); ok && b.Kind() == types.String {
			if x.fKeyAddr != nil {
				c.Unres("obfs: reassembly key has two string fields")
				return nil
			}
			x.fKeyAddr = kst.Field(i)
		}
	}
	est := x.entryT.Underlying().(*types.Struct)
	for i := 0; i < est.NumFields(); i++ {
		f := est.Field(i)
		if c14isNamed(f.Type(), "time", "Time") {
			x.fDeadline = f
		}
	}
	// received / total by role: of the entry's integer fields the one that is
	// bumped (f = f + 1) is the received counter, the other one the declared
	// total; names only as a fallback.
	{
		var ints, counters []*types.Var
		for i := 0; i < est.NumFields(); i++ {
			f := est.Field(i)
			if b, ok := f.Type().Underlying().(*types.Basic); ok && b.Info()&types.IsInteger != 0 {
				ints = append(ints, f)
				if c14isCounter(x.fns, f) {
					counters = append(counters, f)
				}
			}
		}
		if len(ints) == 2 && len(counters) == 1 {
			x.fReceived = counters[0]
			x.fTotal = ints[0]
			if x.fTotal == x.fReceived {
				x.fTotal = ints[1]
			}
		} else {
			for _, f := range ints {
				if !c14names() {
					break
				}
				switch f.Name() {
				case "received":
					x.fReceived = f
				case "total":
					x.fTotal = f
				}
			}
		}
	}
	miss := []string{}
	for n, f := range map[string]*types.Var{"census map[string]int": x.fCensus, "mutex mu": x.fMu, "mutex readMu": x.fReadMu, "read buffer []byte": x.fReadBuf,
		"close channel": x.fCloseCh, "inner net.PacketConn": x.fInner, "key string field": x.fKeyAddr, "entry.received": x.fReceived, "entry.total": x.fTotal, "entry deadline time.Time": x.fDeadline} {
		if f == nil {
			miss = append(miss, n)
		}
	}
	if len(miss) > 0 {
		sort.Strings(miss)
		c.Unres("obfs " + x.connT.Obj().Name() + ": cannot resolve " + strings.Join(miss, ", "))
		return nil
	}
	x.la = p.Locks()
	return x
}

// c14mutexFor: the mutex field (not `not`) locked in the largest number of
// functions that also load field f; nil when there is none or a tie.
func c14mutexFor(fns []*ssa.Function, mutexes []*types.Var, f, not *types.Var) *types.Var {
	score := map[*types.Var]int{}
	for _, fn := range fns {
		loads := false
		locked := map[*types.Var]bool{}
		allInstrs(fn, func(in ssa.Instruction) {
			if fa, ok := in.(*ssa.FieldAddr); ok && structField(fa.X.Type(), fa.Field) == f {
				loads = true
			}
			if ci, ok := in.(ssa.CallInstruction); ok {
				if m, op := lockOp(ci); m != nil && (op == "Lock" || op == "RLock") {
					locked[m] = true
				}
			}
		})
		if loads {
			for m := range locked {
				score[m]++
			}
		}
	}
	var best *types.Var
	tie := false
	for _, m := range mutexes {
		if m == not || score[m] == 0 {
			continue
		}
		switch {
		case best == nil || score[m] > score[best]:
			best, tie = m, false
		case score[m] == score[best]:
			tie = true
		}
	}
	if tie {
		return nil
	}
	return best
}

// c14isCounter: some function stores f = f + 1.
func c14isCounter(fns []*ssa.Function, f *types.Var) bool {
	found := false
	for _, fr := range fieldRefs(fns, f) {
		if fr.Kind != "store" {
			continue
		}
		if b, ok := c14strip(fr.Val).(*ssa.BinOp); ok && b.Op == token.ADD {
			if (isConstInt(b.Y, 1) && isLoadOfField(b.X, f)) || (isConstInt(b.X, 1) && isLoadOfField(b.Y, f)) {
				found = true
			}
		}
	}
	return found
}

// ---------------------------------------------------------------------------
// value identity

// c14ref is a canonical description of a value: a root value plus a field
// path; deref tells the path starts behind a pointer.  Comparable.
type c14ref struct {
	root  ssa.Value
	deref bool
	path  string
}

func (r c14ref) valid() bool { return r.root != nil }

func c14pathStr(fs []*types.Var) string {
	var s []string
	for _, f := range fs {
		if f == nil {
			s = append(s, "?")
		} else {
			s = append(s, f.Name())
		}
	}
	return strings.Join(s, ".")
}

// c14allocInfo classifies the stores into a local: whole-value stores, stores
// into single fields, and whether the local escapes (then nothing is known).
func c14allocInfo(al *ssa.Alloc) (whole []ssa.Value, fields map[*types.Var][]ssa.Value, escapes bool) {
	fields = map[*types.Var][]ssa.Value{}
	if al.Referrers() == nil {
		return nil, fields, true
	}
	for _, r := range *al.Referrers() {
		switch u := r.(type) {
		case *ssa.Store:
			if u.Addr == ssa.Value(al) {
				whole = append(whole, u.Val)
			} else {
				escapes = true
			}
		case *ssa.UnOp:
			if u.Op != token.MUL {
				escapes = true
			}
		case *ssa.FieldAddr:
			f := structField(u.X.Type(), u.Field)
			for _, rr := range *u.Referrers() {
				switch w := rr.(type) {
				case *ssa.Store:
					if w.Addr == ssa.Value(u) {
						fields[f] = append(fields[f], w.Val)
					} else {
						escapes = true
					}
				case *ssa.UnOp:
					if w.Op != token.MUL {
						escapes = true
					}
				case *ssa.DebugRef:
				default:
					escapes = true
				}
			}
		case *ssa.DebugRef:
		default:
			escapes = true
		}
	}
	return
}

// c14strip removes value-preserving conversions (integer width changes
// included: identity of the converted operand is what the rules compare).
func c14strip(v ssa.Value) ssa.Value {
	for i := 0; i < 16; i++ {
		switch x := v.(type) {
		case *ssa.ChangeType:
			v = x.X
		case *ssa.Convert:
			v = x.X
		case *ssa.MakeInterface:
			v = x.X
		default:
			return v
		}
	}
	return v
}

// c14canonP canonicalises component `path` of value v, looking through
// single-assignment locals (whole stores and composite-literal field stores).
func c14canonP(v ssa.Value, path []*types.Var) c14ref {
	for i := 0; i < 64; i++ {
		v = c14strip(v)
		switch x := v.(type) {
		case *ssa.Field:
			path = append([]*types.Var{structField(x.X.Type(), x.Field)}, path...)
			v = x.X
			continue
		case *ssa.UnOp:
			if x.Op != token.MUL {
				return c14ref{v, false, c14pathStr(path)}
			}
			addr := x.X
			var apath []*types.Var
			for {
				fa, ok := addr.(*ssa.FieldAddr)
				if !ok {
					break
				}
				apath = append([]*types.Var{structField(fa.X.Type(), fa.Field)}, apath...)
				addr = fa.X
			}
			full := append(append([]*types.Var{}, apath...), path...)
			if fv, ok := addr.(*ssa.FreeVar); ok {
				if b := freeVarBinding(fv); b != nil {
					addr = b
				}
			}
			if al, ok := addr.(*ssa.Alloc); ok {
				whole, fields, esc := c14allocInfo(al)
				if !esc && len(whole) == 1 && len(fields) == 0 {
					v, path = whole[0], full
					continue
				}
				if !esc && len(whole) == 0 && len(full) > 0 && len(fields[full[0]]) == 1 {
					v, path = fields[full[0]][0], full[1:]
					continue
				}
				if !esc && len(whole) == 1 && len(full) > 0 {
					// composite literal assigned once, some fields set afterwards
					switch len(fields[full[0]]) {
					case 0:
						v, path = whole[0], full
						continue
					case 1:
						v, path = fields[full[0]][0], full[1:]
						continue
					}
				}
				if len(whole) == 1 && len(fields) == 0 && len(full) == 0 {
					// captured single-assignment local (closure binding)
					v, path = whole[0], full
					continue
				}
				return c14ref{al, true, c14pathStr(full)}
			}
			if len(full) == 0 {
				// load through a plain pointer value
				return c14ref{c14strip(resolve(addr)), true, ""}
			}
			base := c14canonP(addr, nil)
			if base.deref || base.path != "" {
				return c14ref{c14strip(resolve(addr)), true, c14pathStr(full)}
			}
			return c14ref{base.root, true, c14pathStr(full)}
		default:
			return c14ref{v, false, c14pathStr(path)}
		}
	}
	return c14ref{v, false, c14pathStr(path)}
}

func c14canon(v ssa.Value) c14ref { return c14canonP(v, nil) }

func c14same(a, b ssa.Value) bool {
	ra, rb := c14canon(a), c14canon(b)
	return ra.valid() && ra == rb
}

// c14fieldLoadOf: v is a load of field f; returns the canonical owner.
func c14fieldLoadOf(v ssa.Value, f *types.Var) (ssa.Value, bool) {
	v = c14strip(v)
	switch x := v.(type) {
	case *ssa.UnOp:
		if x.Op == token.MUL {
			if fa, ok := x.X.(*ssa.FieldAddr); ok && structField(fa.X.Type(), fa.Field) == f {
				return c14canon(fa.X).root, true
			}
		}
	case *ssa.Field:
		if structField(x.X.Type(), x.Field) == f {
			return c14canon(x.X).root, true
		}
	}
	return nil, false
}

// ---------------------------------------------------------------------------
// comparisons on edges

// c14rel: on the edge the relation `x op y` holds.
func c14rel(cond ssa.Value, pol bool) (x, y ssa.Value, op token.Token, ok bool) {
	b, isBin := cond.(*ssa.BinOp)
	if !isBin {
		return nil, nil, 0, false
	}
	op = b.Op
	switch op {
	case token.LSS, token.LEQ, token.GTR, token.GEQ, token.EQL, token.NEQ:
	default:
		return nil, nil, 0, false
	}
	if !pol {
		op = map[token.Token]token.Token{token.LSS: token.GEQ, token.LEQ: token.GTR, token.GTR: token.LEQ, token.GEQ: token.LSS, token.EQL: token.NEQ, token.NEQ: token.EQL}[op]
	}
	return b.X, b.Y, op, true
}

func c14flip(op token.Token) token.Token {
	switch op {
	case token.LSS:
		return token.GTR
	case token.LEQ:
		return token.GEQ
	case token.GTR:
		return token.LSS
	case token.GEQ:
		return token.LEQ
	}
	return op
}

// c14relConst: on the edge `x op C` holds for a value x accepted by isX.
func c14relConst(cond ssa.Value, pol bool, isX func(ssa.Value) bool) (op token.Token, k int64, ok bool) {
	x, y, op, ok := c14rel(cond, pol)
	if !ok {
		return 0, 0, false
	}
	if n, isC := constInt(y); isC && isX(x) {
		return op, n, true
	}
	if n, isC := constInt(x); isC && isX(y) {
		return c14flip(op), n, true
	}
	return 0, 0, false
}

// c14strictUpper: the edge proves x < B; returns B.
func c14strictUpper(cond ssa.Value, pol bool, isX func(ssa.Value) bool) (int64, bool) {
	op, k, ok := c14relConst(cond, pol, isX)
	if !ok {
		return 0, false
	}
	switch op {
	case token.LSS:
		return k, true
	case token.LEQ, token.EQL:
		return k + 1, true
	}
	return 0, false
}

// c14lowerIncl: the edge proves x >= B; returns B.
func c14lowerIncl(cond ssa.Value, pol bool, isX func(ssa.Value) bool) (int64, bool) {
	op, k, ok := c14relConst(cond, pol, isX)
	if !ok {
		return 0, false
	}
	switch op {
	case token.GEQ, token.EQL:
		return k, true
	case token.GTR:
		return k + 1, true
	}
	return 0, false
}

func c14constVal(p *Prog, pkg, name string) (int64, bool) {
	k := p.Const(pkg, name)
	if k == nil || k.Val().Kind() != constant.Int {
		return 0, false
	}
	return constant.Int64Val(k.Val())
}

// ---------------------------------------------------------------------------
// map operation census (K2)

type c14mop struct {
	kind  string // update | delete | clear | lookup | range | len | cmp
	instr ssa.Instruction
	fn    *ssa.Function
	m     ssa.Value
}

type c14mapUse struct {
	ops     []c14mop
	stores  []FieldRef        // assignments to the field itself
	escapes []ssa.Instruction // uses the census cannot follow
	vals    map[ssa.Value]bool
}

func (x *c14ctx) mapUse(f *types.Var) *c14mapUse {
	u := &c14mapUse{vals: map[ssa.Value]bool{}}
	var follow func(m ssa.Value, depth int)
	follow = func(m ssa.Value, depth int) {
		if u.vals[m] {
			return
		}
		u.vals[m] = true
		for _, mo := range mapOpsOn(m) {
			fn := mo.Instr.Parent()
			switch mo.Kind {
			case "update", "lookup", "range", "len", "cmp":
				u.ops = append(u.ops, c14mop{mo.Kind, mo.Instr, fn, m})
			case "delete":
				k := "delete"
				if isBuiltinCall(mo.Instr.(ssa.CallInstruction), "clear") {
					k = "clear"
				}
				u.ops = append(u.ops, c14mop{k, mo.Instr, fn, m})
			default:
				call, ok := mo.Instr.(*ssa.Call)
				callee := (*ssa.Function)(nil)
				if ok {
					callee = staticCallee(call)
				}
				if callee == nil || len(callee.Blocks) == 0 || depth > 3 || !x.p.IsRepoFn(callee) {
					u.escapes = append(u.escapes, mo.Instr)
					continue
				}
				for i, a := range call.Call.Args {
					if a == m && i < len(callee.Params) {
						follow(callee.Params[i], depth+1)
					}
				}
			}
		}
	}
	for _, fr := range fieldRefs(x.fns, f) {
		switch fr.Kind {
		case "store":
			u.stores = append(u.stores, fr)
		case "addr":
			u.escapes = append(u.escapes, fr.Instr)
		case "load":
			follow(fr.Val, 0)
		}
	}
	return u
}

func (u *c14mapUse) is(v ssa.Value) bool { return u.vals[v] || u.vals[resolve(v)] }

func (u *c14mapUse) writes(kind string) []c14mop {
	var out []c14mop
	for _, o := range u.ops {
		if o.kind == kind {
			out = append(out, o)
		}
	}
	return out
}

// ordKey appends #n to keys of the 2nd, 3rd ... instance within one function.
type c14ord map[string]int

func (o c14ord) key(k string) string {
	o[k]++
	if o[k] > 1 {
		return fmt.Sprintf("%s#%d", k, o[k])
	}
	return k
}

func c14deleteArgs(in ssa.Instruction) (m, k ssa.Value, ok bool) {
	call, isCall := in.(*ssa.Call)
	if !isCall || !isBuiltinCall(call, "delete") || len(call.Call.Args) != 2 {
		return nil, nil, false
	}
	return call.Call.Args[0], call.Call.Args[1], true
}

// lookupOf: v is the value (or the comma-ok value part) of a lookup in a map
// accepted by isMap; returns the Lookup.
func c14lookupOf(v ssa.Value, isMap func(ssa.Value) bool) *ssa.Lookup {
	v = c14strip(v)
	if e, ok := v.(*ssa.Extract); ok && e.Index == 0 {
		v = e.Tuple
	}
	lk, ok := v.(*ssa.Lookup)
	if !ok || !isMap(lk.X) {
		return nil
	}
	return lk
}

// presence edges of a map lookup: returns the Lookup and whether the edge says
// "present".
func c14presence(cond ssa.Value, pol bool, isMap func(ssa.Value) bool) (*ssa.Lookup, bool, bool) {
	if e, ok := c14strip(cond).(*ssa.Extract); ok && e.Index == 1 {
		if lk, ok := e.Tuple.(*ssa.Lookup); ok && lk.CommaOk && isMap(lk.X) {
			return lk, pol, true
		}
	}
	if xv, isNil, ok := nilTest(cond, pol); ok {
		if lk := c14lookupOf(xv, isMap); lk != nil {
			return lk, !isNil, true
		}
	}
	return nil, false, false
}

func (x *c14ctx) unlockBetween(fn *ssa.Function, from ssa.Instruction, stop func(ssa.Instruction) bool, mu *types.Var) ssa.Instruction {
	for _, in := range reachFrom(fn, from, stop, nil) {
		if stop(in) {
			continue
		}
		if call, ok := in.(*ssa.Call); ok {
			if f, op := lockOp(call); f == mu && (op == "Unlock" || op == "RUnlock") {
				return in
			}
		}
	}
	return nil
}

// ---------------------------------------------------------------------------
// R1 table / census coupling

func (x *c14ctx) r1(tab, cen *c14mapUse) {
	c, p := x.c, x.p
	const r1 = "C14.R1 the per-source census equals the table's census: insert only an absent key and then census[key.addr]+1, delete only a present key and then census[key.addr]-1 with removal at <= 0, inside one critical section; no other writer of either map"
	matched := map[ssa.Instruction]bool{}
	ord := c14ord{}

	censusLookup := func(v ssa.Value, addr c14ref) *ssa.Lookup {
		lk := c14lookupOf(v, cen.is)
		if lk == nil || c14canon(lk.Index) != addr {
			return nil
		}
		return lk
	}
	// adjust: census[addr] = census[addr] + delta
	isAdjust := func(in ssa.Instruction, addr c14ref, delta int64) bool {
		mu, ok := in.(*ssa.MapUpdate)
		if !ok || !cen.is(mu.Map) || c14canon(mu.Key) != addr {
			return false
		}
		b, ok := c14strip(mu.Value).(*ssa.BinOp)
		if !ok {
			return false
		}
		switch b.Op {
		case token.ADD:
			if k, isC := constInt(b.Y); isC && k == delta && censusLookup(b.X, addr) != nil {
				return true
			}
			if k, isC := constInt(b.X); isC && k == delta && censusLookup(b.Y, addr) != nil {
				return true
			}
		case token.SUB:
			if k, isC := constInt(b.Y); isC && -k == delta && censusLookup(b.X, addr) != nil {
				return true
			}
		}
		return false
	}
	isCensusDelete := func(in ssa.Instruction, addr c14ref) bool {
		m, k, ok := c14deleteArgs(in)
		return ok && cen.is(m) && c14canon(k) == addr
	}
	isTableWrite := func(kind string) func(ssa.Instruction) bool {
		return func(in ssa.Instruction) bool {
			switch kind {
			case "update":
				mu, ok := in.(*ssa.MapUpdate)
				return ok && tab.is(mu.Map)
			default:
				m, _, ok := c14deleteArgs(in)
				return ok && tab.is(m)
			}
		}
	}

	// census adjustment moved into a helper of the package that is called with
	// the key's source address (or the key): acquireSource(key.addr) /
	// releaseSource(k.addr).  The helper writes the census only; its census
	// writes are matched through the call, and every call site of the helper
	// must be such a matched call (checked below).
	viaHelper := map[ssa.Instruction]bool{}
	helperCalls := map[*ssa.Function]map[ssa.Instruction]bool{}
	isWrite := func(k string) bool { return k == "update" || k == "delete" || k == "clear" }
	censusHelper := func(in ssa.Instruction, addr, keyRef c14ref) (*ssa.Function, c14ref, bool) {
		call, ok := in.(*ssa.Call)
		if !ok {
			return nil, c14ref{}, false
		}
		H := staticCallee(call)
		if H == nil || len(H.Blocks) == 0 {
			return nil, c14ref{}, false
		}
		if pk := fnPkg(H); pk == nil || pk.Pkg.Path() != pObfs {
			return nil, c14ref{}, false
		}
		writesCen, writesTab := false, false
		for _, op := range cen.ops {
			if op.fn == H && isWrite(op.kind) {
				writesCen = true
			}
		}
		for _, op := range tab.ops {
			if op.fn == H && isWrite(op.kind) {
				writesTab = true
			}
		}
		if !writesCen || writesTab {
			return nil, c14ref{}, false
		}
		for i, a := range call.Call.Args {
			if i >= len(H.Params) {
				break
			}
			switch c14canon(a) {
			case addr:
				return H, c14canon(H.Params[i]), true
			case keyRef:
				return H, c14canonP(H.Params[i], []*types.Var{x.fKeyAddr}), true
			}
		}
		return nil, c14ref{}, false
	}
	noteHelper := func(H *ssa.Function, call ssa.Instruction) {
		if helperCalls[H] == nil {
			helperCalls[H] = map[ssa.Instruction]bool{}
		}
		helperCalls[H][call] = true
	}

	// ---- inserts
	nIns, nInc := 0, 0
	for _, op := range tab.writes("update") {
		I := op.instr.(*ssa.MapUpdate)
		fn := op.fn
		nIns++
		c.Saw(fnName(fn))
		base := ord.key("C14.R1:insert:" + fnName(fn))
		keyRef := c14canon(I.Key)
		addr := c14canonP(I.Key, []*types.Var{x.fKeyAddr})
		absent := func(key ssa.Value, at ssa.Instruction) EdgePred {
			kr := c14canon(key)
			return func(cond ssa.Value, pol bool) bool {
				lk, present, ok := c14presence(cond, pol, tab.is)
				return ok && !present && c14canon(lk.Index) == kr && x.la.sameRegion(lk, at, x.fMu, lockW)
			}
		}
		incMemo := map[ssa.Instruction]bool{}
		incHelper := func(in ssa.Instruction) bool {
			if v, done := incMemo[in]; done {
				return v
			}
			incMemo[in] = false
			H, a2, ok := censusHelper(in, addr, keyRef)
			if !ok {
				return false
			}
			isAdj2 := func(y ssa.Instruction) bool { return isAdjust(y, a2, +1) }
			if len(exitsReachableAvoiding(H, nil, isAdj2)) != 0 {
				return false
			}
			allInstrs(H, func(y ssa.Instruction) {
				if !isAdj2(y) {
					return
				}
				matched[y], viaHelper[y] = true, true
				for _, y2 := range reachFrom(H, y, nil, nil) {
					if mu, ok := y2.(*ssa.MapUpdate); ok && cen.is(mu.Map) && y2 != y {
						c.Bad(base+":census-once", r1, p.InstrPos(y2), "a second census update follows the increment for one insert (census drifts)")
					}
				}
			})
			noteHelper(H, in)
			incMemo[in] = true
			return true
		}
		c.Req(x.liftKeyGuard(I, I.Key, absent, 0), base+":fresh-key", r1, p.InstrPos(I),
			"the table insert is reachable without the `key absent` edge of a lookup of the same key in the same critical section (overwriting an entry while counting it again makes the census drift up: the source is locked out)")
		stop := func(in ssa.Instruction) bool { return isAdjust(in, addr, +1) || incHelper(in) }
		exits := exitsReachableAvoiding(fn, I, stop)
		unl := x.unlockBetween(fn, I, stop, x.fMu)
		hit := 0
		for _, in := range reachFrom(fn, I, stop, nil) {
			if stop(in) {
				matched[in] = true
				hit++
				// exactly once: no second increment before the next insert
				for _, in2 := range reachFrom(fn, in, isTableWrite("update"), nil) {
					if mu, ok := in2.(*ssa.MapUpdate); ok && cen.is(mu.Map) && in2 != in {
						c.Bad(base+":census-once", r1, p.InstrPos(in2), "a second census update follows the increment for one insert (census drifts)")
					}
				}
			}
		}
		nInc += hit
		detail := fmt.Sprintf("after the insert into %s a path reaches a return without %s[key.%s]+1 for the inserted key", x.fTable.Name(), x.fCensus.Name(), x.fKeyAddr.Name())
		if unl != nil {
			detail = "the mutex is released between the table insert and the census increment"
		}
		c.Req(hit > 0 && len(exits) == 0 && unl == nil, base+":census-inc", r1, p.InstrPos(I), detail+" (per-source cap no longer tracks the table)")
	}
	c.Floor("C14.R1:insert", nIns, 1)
	c.Floor("C14.R1:census-inc", nInc, 1)

	// ---- deletes
	nDel, nDec := 0, 0
	for _, op := range tab.writes("delete") {
		D := op.instr
		fn := op.fn
		_, dk, _ := c14deleteArgs(D)
		nDel++
		c.Saw(fnName(fn))
		base := ord.key("C14.R1:delete:" + fnName(fn))
		keyRef := c14canon(dk)
		addr := c14canonP(dk, []*types.Var{x.fKeyAddr})
		present := func(cond ssa.Value, pol bool) bool {
			lk, pres, ok := c14presence(cond, pol, tab.is)
			return ok && pres && c14canon(lk.Index) == keyRef && x.la.sameRegion(lk, D, x.fMu, lockW)
		}
		// present: looked up and found, just inserted, or the key of a range over the table
		insertedSame := func(in ssa.Instruction) bool {
			mu, ok := in.(*ssa.MapUpdate)
			return ok && tab.is(mu.Map) && c14canon(mu.Key) == keyRef
		}
		existed := true
		for _, in := range reachFrom(fn, nil, insertedSame, present) {
			if in == D {
				existed = false
			}
		}
		existed = existed || x.isRangeKeyOf(keyRef.root, tab) && keyRef.path == "" && !keyRef.deref
		c.Req(existed, base+":existed", r1, p.InstrPos(D),
			"the table delete (and the census decrement after it) is reachable without knowing the key is present (a miss would still decrement: census drifts down and the per-source cap is exceeded)")
		// the adjustment follows the delete in this function, or sits in a helper
		// called after it with the key's address
		rFn, rAddr := fn, addr
		var rFrom ssa.Instruction = D
		var hcall ssa.Instruction
		direct := false
		for _, in := range reachFrom(fn, D, nil, nil) {
			if isAdjust(in, addr, -1) || isCensusDelete(in, addr) {
				direct = true
			}
		}
		if !direct {
			for _, in := range reachFrom(fn, D, nil, nil) {
				if H, a2, ok := censusHelper(in, addr, keyRef); ok && hcall == nil {
					rFn, rAddr, rFrom, hcall = H, a2, nil, in
					noteHelper(H, in)
				}
			}
		}
		isDecr := func(in ssa.Instruction) bool { return isAdjust(in, rAddr, -1) }
		isPrune := func(in ssa.Instruction) bool { return isCensusDelete(in, rAddr) }
		stopAdj := func(in ssa.Instruction) bool { return isDecr(in) || isPrune(in) }
		stopHere := stopAdj
		if hcall != nil {
			stopHere = func(in ssa.Instruction) bool { return in == hcall }
		}
		exits := exitsReachableAvoiding(fn, D, stopHere)
		unl := x.unlockBetween(fn, D, stopHere, x.fMu)
		if hcall != nil {
			exits = append(exits, exitsReachableAvoiding(rFn, nil, stopAdj)...)
		}
		var decrs, prunes []ssa.Instruction
		for _, in := range reachFrom(rFn, rFrom, nil, nil) {
			if isDecr(in) {
				decrs = append(decrs, in)
				matched[in] = true
			}
			if isPrune(in) {
				prunes = append(prunes, in)
				matched[in] = true
			}
			if hcall != nil && (isDecr(in) || isPrune(in)) {
				viaHelper[in] = true
			}
		}
		nDec += len(decrs)
		detail := fmt.Sprintf("after delete(%s, k) a path reaches a return without %s[k.%s]-1", x.fTable.Name(), x.fCensus.Name(), x.fKeyAddr.Name())
		if unl != nil {
			detail = "the mutex is released between the table delete and the census decrement"
		}
		c.Req((len(decrs) > 0 || len(prunes) > 0) && len(exits) == 0 && unl == nil, base+":census-dec", r1, p.InstrPos(D), detail+" (the source's count never comes back: it is locked out after 8 messages)")
		for _, d := range decrs {
			for _, in2 := range reachFrom(rFn, d, isTableWrite("delete"), nil) {
				if in2 != d && isDecr(in2) {
					c.Bad(base+":census-once", r1, p.InstrPos(in2), "the census is decremented twice for one delete")
				}
			}
		}
		// pruning: count values after / before the decrement
		isPost := func(v ssa.Value) bool {
			v = c14strip(v)
			if b, ok := v.(*ssa.BinOp); ok && b.Op == token.SUB {
				if k, isC := constInt(b.Y); isC && k == 1 && censusLookup(b.X, rAddr) != nil {
					return true
				}
			}
			if lk := censusLookup(v, rAddr); lk != nil {
				for _, d := range decrs {
					if dominates(d, lk) {
						return true
					}
				}
			}
			return false
		}
		isPre := func(v ssa.Value) bool {
			lk := censusLookup(v, rAddr)
			return lk != nil && !isPost(v)
		}
		sign := func(cond ssa.Value, pol bool) int {
			if op, k, ok := c14relConst(cond, pol, isPost); ok {
				switch {
				case op == token.GTR && k >= 0, op == token.GEQ && k >= 1, op == token.NEQ && k == 0:
					return +1
				case op == token.LEQ && k <= 0, op == token.LSS && k <= 1, op == token.EQL && k == 0:
					return -1
				}
			}
			if op, k, ok := c14relConst(cond, pol, isPre); ok {
				switch {
				case op == token.GTR && k >= 1, op == token.GEQ && k >= 2, op == token.NEQ && k == 1:
					return +1
				case op == token.LEQ && k <= 1, op == token.LSS && k <= 2, op == token.EQL && k == 1:
					return -1
				}
			}
			return 0
		}
		positive := func(cond ssa.Value, pol bool) bool { return sign(cond, pol) > 0 }
		nonPositive := func(cond ssa.Value, pol bool) bool { return sign(cond, pol) < 0 }
		leak := false
		for _, in := range reachFrom(rFn, rFrom, isPrune, positive) {
			if _, ok := in.(*ssa.Return); ok {
				leak = true
			}
		}
		if len(decrs) == 0 && len(prunes) == 0 {
			continue // nothing adjusts the census here: reported above
		}
		c.Req(len(prunes) > 0 && !leak, base+":census-pruned", r1, p.InstrPos(D),
			"after the decrement a path on which the count may be <= 0 returns without delete("+x.fCensus.Name()+", addr) (one census entry per spoofed source stays forever: unbounded state)")
		for _, pr := range prunes {
			c.Req(guardedBy(pr, nonPositive), ord.key(base+":prune-guard"), r1, p.InstrPos(pr),
				"the census entry is removed without the `count <= 0` edge (a source with pending messages loses its count: the per-source cap is exceeded)")
		}
	}
	c.Floor("C14.R1:delete", nDel, 1)
	c.Floor("C14.R1:census-dec", nDec, 1)

	// ---- nothing else writes either map
	for _, op := range tab.writes("clear") {
		c.Bad(ord.key("C14.R1:table-writer:"+fnName(op.fn)), r1, p.InstrPos(op.instr), "clear() of the reassembly table without resetting the census")
	}
	for _, op := range cen.ops {
		switch op.kind {
		case "update", "delete", "clear":
		default:
			continue
		}
		c.Req(matched[op.instr], ord.key("C14.R1:census-writer:"+fnName(op.fn)), r1, p.InstrPos(op.instr),
			"write to the census that is not the +1 after a table insert / the -1 or removal after a table delete of the same key")
		if matched[op.instr] && viaHelper[op.instr] {
			// inside an adjust helper: every call of the helper is one that was
			// matched to a table write
			all := !x.la.escaped[op.fn] && len(x.la.callers[op.fn]) > 0
			for _, cs := range x.la.callers[op.fn] {
				if !helperCalls[op.fn][cs.(ssa.Instruction)] {
					all = false
				}
			}
			c.Req(all, ord.key("C14.R1:census-writer:"+fnName(op.fn)+":after-table-write"), r1, p.InstrPos(op.instr),
				"the census helper is also called on a path that did not change the table for the same key")
		} else if matched[op.instr] {
			// and it cannot be reached without the table write it belongs to
			free := false
			stopW := func(in ssa.Instruction) bool { return isTableWrite("update")(in) || isTableWrite("delete")(in) }
			for _, in := range reachFrom(op.fn, nil, stopW, nil) {
				if in == op.instr {
					free = true
				}
			}
			c.Req(!free, ord.key("C14.R1:census-writer:"+fnName(op.fn)+":after-table-write"), r1, p.InstrPos(op.instr),
				"the census write is reachable on a path that did not change the table")
		}
	}
	for _, u := range []struct {
		use *c14mapUse
		f   *types.Var
	}{{tab, x.fTable}, {cen, x.fCensus}} {
		nInit := 0
		for _, fr := range u.use.stores {
			al, fresh := accessPath(fr.Addr).Root.(*ssa.Alloc)
			_, isMake := fr.Val.(*ssa.MakeMap)
			ok := fresh && al.Parent() == fr.Fn && isMake
			if ok {
				nInit++
			}
			c.Req(ok, ord.key("C14.R1:field-store:"+u.f.Name()+":"+fnName(fr.Fn)), r1, p.InstrPos(fr.Instr),
				"the map field "+u.f.Name()+" is replaced outside the constructor (table and census fall out of step)")
		}
		c.Floor("C14.R1:init:"+u.f.Name(), nInit, 1)
		for _, e := range u.use.escapes {
			c.Undecided(ord.key("C14.R1:escape:"+u.f.Name()+":"+fnName(e.Parent())), r1, p.InstrPos(e), "the map "+u.f.Name()+" flows somewhere the writer census cannot follow")
		}
	}
}

// ---------------------------------------------------------------------------
// R2 lock discipline

// c14unlocksIn: fn itself releases mutex field mu somewhere.
func c14unlocksIn(fn *ssa.Function, mu *types.Var) bool {
	found := false
	for _, f := range withAnon(fn) {
		allInstrs(f, func(in ssa.Instruction) {
			if ci, ok := in.(ssa.CallInstruction); ok {
				if m, op := lockOp(ci); m == mu && (op == "Unlock" || op == "RUnlock") {
					found = true
				}
			}
		})
	}
	return found
}

func c14freshRoot(addr ssa.Value, fn *ssa.Function) bool {
	al, ok := accessPath(addr).Root.(*ssa.Alloc)
	return ok && al.Parent() == fn && al.Heap
}

func (x *c14ctx) r2(tab, cen *c14mapUse) {
	c, p := x.c, x.p
	const r2 = "C14.R2 every access to the reassembly table and the census holds the table mutex (helpers: all callers hold it); the shared read buffer and every slice derived from it is used only under the read mutex"
	ord := c14ord{}
	n := 0
	for _, u := range []struct {
		use *c14mapUse
		f   *types.Var
	}{{tab, x.fTable}, {cen, x.fCensus}} {
		for _, fr := range fieldRefs(x.fns, u.f) {
			if fr.Kind != "load" || c14freshRoot(fr.Addr, fr.Fn) {
				continue
			}
			n++
			c.Req(x.la.Holds(fr.Instr, x.fMu, lockW), ord.key("C14.R2:lock:"+u.f.Name()+":load:"+fnName(fr.Fn)), r2, p.InstrPos(fr.Instr),
				"field "+u.f.Name()+" read without holding "+x.fMu.Name())
		}
		for _, op := range u.use.ops {
			n++
			c.Req(x.la.Holds(op.instr, x.fMu, lockW), ord.key("C14.R2:lock:"+u.f.Name()+":"+op.kind+":"+fnName(op.fn)), r2, p.InstrPos(op.instr),
				op.kind+" on "+u.f.Name()+" without holding "+x.fMu.Name()+" (concurrent ReadFrom and the GC goroutine race on the map)")
			if rg, ok := op.instr.(*ssa.Range); ok {
				for _, r := range *rg.Referrers() {
					if nx, ok := r.(*ssa.Next); ok {
						c.Req(x.la.Holds(nx, x.fMu, lockW), ord.key("C14.R2:lock:"+u.f.Name()+":next:"+fnName(op.fn)), r2, p.InstrPos(rg),
							"iteration over "+u.f.Name()+" continues after "+x.fMu.Name()+" was released")
					}
				}
			}
		}
	}
	c.Floor("C14.R2:map-accesses", n, 5)

	// read buffer
	nb := 0
	for _, fr := range fieldRefs(x.fns, x.fReadBuf) {
		if c14freshRoot(fr.Addr, fr.Fn) {
			continue
		}
		switch fr.Kind {
		case "store", "addr":
			c.Bad(ord.key("C14.R2:readbuf:"+fr.Kind+":"+fnName(fr.Fn)), r2, p.InstrPos(fr.Instr), "the shared read buffer field is replaced / aliased outside the constructor")
		case "load":
			nb++
			c.Saw(fnName(fr.Fn))
			c.Req(x.la.Holds(fr.Instr, x.fReadMu, lockW), ord.key("C14.R2:readbuf:load:"+fnName(fr.Fn)), r2, p.InstrPos(fr.Instr),
				"the shared read buffer is taken without holding "+x.fReadMu.Name())
			seen := map[ssa.Value]bool{}
			var walk func(v ssa.Value, depth int)
			walk = func(v ssa.Value, depth int) {
				if seen[v] || v.Referrers() == nil {
					return
				}
				seen[v] = true
				for _, r := range *v.Referrers() {
					if _, dbg := r.(*ssa.DebugRef); dbg {
						continue
					}
					// inside a helper entered from a call site that holds the read
					// mutex (checked on the call instruction itself) the lock stays
					// held unless the helper releases it: the helper may have other
					// callers that pass other buffers without the lock
					inHeldHelper := depth > 0 && !c14unlocksIn(r.Parent(), x.fReadMu)
					if !inHeldHelper && !x.la.Holds(r, x.fReadMu, lockW) {
						c.Bad(ord.key("C14.R2:readbuf:use:"+fnName(r.Parent())), r2, p.InstrPos(r),
							"a slice of the shared read buffer is used after/without "+x.fReadMu.Name()+" (a concurrent ReadFrom overwrites the packet being parsed)")
						continue
					}
					switch w := r.(type) {
					case *ssa.Slice, *ssa.Phi, *ssa.ChangeType, *ssa.Convert:
						walk(w.(ssa.Value), depth)
					case *ssa.Extract:
						if c14isByteSlice(w.Type()) {
							walk(w, depth)
						}
					case *ssa.Call:
						if callee := staticCallee(w); callee != nil && len(callee.Blocks) > 0 && x.p.IsRepoFn(callee) && depth < 4 {
							for i, a := range w.Call.Args {
								if a == v && i < len(callee.Params) {
									walk(callee.Params[i], depth+1)
								}
							}
						}
						if _, isTuple := w.Type().(*types.Tuple); isTuple || c14isByteSlice(w.Type()) {
							if !isBuiltinCall(w, "copy") && !isBuiltinCall(w, "len") {
								walk(w, depth)
							}
						}
					}
				}
			}
			walk(fr.Val, 0)
		}
	}
	c.Floor("C14.R2:readbuf-loads", nb, 1)
}

// ---------------------------------------------------------------------------
// droppers: delete(table, k) directly or through a helper that deletes its
// parameter whenever it is present

// deleterParam: index of the parameter of fn that is deleted from the table on
// every path except those crossing the `absent` edge of a lookup of it; -1 if
// fn is not such a helper.
func (x *c14ctx) deleterParam(fn *ssa.Function, tab *c14mapUse) int {
	if i, ok := x.deleterMemo[fn]; ok {
		return i
	}
	x.deleterMemo[fn] = -1
	if fn == nil || len(fn.Blocks) == 0 {
		return -1
	}
	res := -1
	allInstrs(fn, func(in ssa.Instruction) {
		m, k, ok := c14deleteArgs(in)
		if !ok || !tab.is(m) {
			return
		}
		kr := c14canon(k)
		if kr.deref || kr.path != "" {
			return
		}
		for i, prm := range fn.Params {
			if kr.root != ssa.Value(prm) {
				continue
			}
			isDel := func(y ssa.Instruction) bool {
				m2, k2, ok := c14deleteArgs(y)
				return ok && tab.is(m2) && c14canon(k2) == kr
			}
			absent := func(cond ssa.Value, pol bool) bool {
				lk, present, ok := c14presence(cond, pol, tab.is)
				return ok && !present && c14canon(lk.Index) == kr
			}
			miss := false
			for _, y := range reachFrom(fn, nil, isDel, absent) {
				if _, isRet := y.(*ssa.Return); isRet {
					miss = true
				}
			}
			if !miss {
				res = i
			}
		}
	})
	x.deleterMemo[fn] = res
	return res
}

// isDrop: instruction removes from the table a key accepted by keyOK.
func (x *c14ctx) isDrop(in ssa.Instruction, tab *c14mapUse, keyOK func(ssa.Value) bool) bool {
	if m, k, ok := c14deleteArgs(in); ok {
		return tab.is(m) && keyOK(k)
	}
	call, ok := in.(*ssa.Call)
	if !ok {
		return false
	}
	callee := staticCallee(call)
	if callee == nil {
		return false
	}
	i := x.deleterParam(callee, tab)
	return i >= 0 && i < len(call.Call.Args) && keyOK(call.Call.Args[i])
}

// ---------------------------------------------------------------------------
// evictor: removes an entry on every feasible path that saw the table non-empty.
// Feasibility: bool phis whose incoming values are constants are tracked along
// the path (K1's phi-of-constants correlation); each CFG edge at most twice.

type c14pathState struct {
	env      map[*ssa.Phi]int8 // 1 true, 2 false, 3 nil, 4 non-nil
	sawBody  bool
	emptyOK  bool
	edgeSeen map[[2]int]int
}

func (s *c14pathState) clone() *c14pathState {
	n := &c14pathState{env: map[*ssa.Phi]int8{}, sawBody: s.sawBody, emptyOK: s.emptyOK, edgeSeen: map[[2]int]int{}}
	for k, v := range s.env {
		n.env[k] = v
	}
	for k, v := range s.edgeSeen {
		n.edgeSeen[k] = v
	}
	return n
}

// evictorVerdict: "" = fine, otherwise the reason; undecided reports a cap hit.
func (x *c14ctx) evictorVerdict(fn *ssa.Function, tab *c14mapUse) (reason string, undecided bool) {
	if len(fn.Blocks) == 0 {
		return "no body", false
	}
	rangeKey := func(v ssa.Value) bool {
		for d := range deps(v, depOpts{}) {
			if c14rangeOf(d, 1, tab) != nil {
				return true
			}
		}
		return false
	}
	isLenTab := func(v ssa.Value) bool {
		call, ok := c14strip(v).(*ssa.Call)
		return ok && isBuiltinCall(call, "len") && tab.is(call.Call.Args[0])
	}
	// every value ever stored in the table is a fresh allocation: the range
	// value of an iteration over the table is a non-nil pointer
	entriesNonNil := true
	for _, op := range tab.writes("update") {
		if c14entryAlloc(op.instr.(*ssa.MapUpdate).Value) == nil {
			entriesNonNil = false
		}
	}
	steps := 0
	bad := ""
	var walk func(b *ssa.BasicBlock, from *ssa.BasicBlock, st *c14pathState)
	walk = func(b *ssa.BasicBlock, from *ssa.BasicBlock, st *c14pathState) {
		if bad != "" || undecided {
			return
		}
		steps++
		if steps > 50000 {
			undecided = true
			return
		}
		// phis
		if from != nil {
			idx := -1
			for i, pr := range b.Preds {
				if pr == from {
					idx = i
				}
			}
			newEnv := map[*ssa.Phi]int8{}
			for _, in := range b.Instrs {
				ph, ok := in.(*ssa.Phi)
				if !ok {
					break
				}
				if idx < 0 {
					continue
				}
				e := ph.Edges[idx]
				if isConstBool(e, true) {
					newEnv[ph] = 1
				} else if isConstBool(e, false) {
					newEnv[ph] = 2
				} else if isNilConst(e) {
					newEnv[ph] = 3
				} else if _, isAlloc := c14strip(e).(*ssa.Alloc); isAlloc || (entriesNonNil && c14rangeOf(e, 2, tab) != nil) {
					newEnv[ph] = 4 // an `oldest` pointer tracked instead of a found flag
				} else if src, ok := e.(*ssa.Phi); ok && st.env[src] != 0 {
					newEnv[ph] = st.env[src]
				} else {
					newEnv[ph] = 0
				}
			}
			for k, v := range newEnv {
				if v == 0 {
					delete(st.env, k)
				} else {
					st.env[k] = v
				}
			}
		}
		for _, in := range b.Instrs {
			if x.isDrop(in, tab, rangeKey) {
				return // this path evicts
			}
			if _, ok := in.(*ssa.Return); ok {
				if !st.emptyOK {
					bad = "a feasible path through " + fnName(fn) + " that iterated over a non-empty table (or never looked) returns without deleting an entry"
				}
				return
			}
		}
		for i, s := range b.Succs {
			ns := st
			if len(b.Succs) > 1 {
				ns = st.clone()
			}
			if cond, pol, ok := edgeFact(b, i); ok {
				if ph, isPhi := cond.(*ssa.Phi); isPhi && (st.env[ph] == 1 || st.env[ph] == 2) {
					if (st.env[ph] == 1) != pol {
						continue // infeasible
					}
				}
				if xv, isNil, okN := nilTest(cond, pol); okN {
					if ph, isPhi := c14strip(xv).(*ssa.Phi); isPhi && (st.env[ph] == 3 || st.env[ph] == 4) {
						if (st.env[ph] == 3) != isNil {
							continue // infeasible
						}
					}
				}
				if nx := c14rangeOf(cond, 0, tab); nx != nil {
					if pol {
						ns.sawBody = true
					} else if !st.sawBody {
						ns.emptyOK = true
					}
				}
				if op, k, ok := c14relConst(cond, pol, isLenTab); ok {
					if (op == token.EQL && k == 0) || (op == token.LEQ && k == 0) || (op == token.LSS && k == 1) {
						ns.emptyOK = true
					}
				}
			}
			e := [2]int{b.Index, s.Index}
			if ns.edgeSeen[e] >= 2 {
				continue
			}
			ns.edgeSeen[e]++
			walk(s, b, ns)
		}
	}
	walk(fn.Blocks[0], nil, &c14pathState{env: map[*ssa.Phi]int8{}, edgeSeen: map[[2]int]int{}})
	return bad, undecided
}

// ---------------------------------------------------------------------------
// interprocedural lifting (K1): a guard missing inside a helper is demanded at
// every call site of the helper, with the key argument substituted

func (x *c14ctx) forCallers(fn *ssa.Function, key ssa.Value, depth int, f func(cs ssa.Instruction, arg ssa.Value) bool) bool {
	if depth >= 2 {
		return false
	}
	idx := -1
	if key != nil {
		kr := c14canon(key)
		for i, prm := range fn.Params {
			if kr.root == ssa.Value(prm) && !kr.deref && kr.path == "" {
				idx = i
			}
		}
		if idx < 0 {
			return false
		}
	}
	cs := x.la.callers[fn]
	if len(cs) == 0 || x.la.escaped[fn] {
		return false
	}
	for _, call := range cs {
		var arg ssa.Value
		if idx >= 0 {
			if idx >= len(call.Common().Args) {
				return false
			}
			arg = call.Common().Args[idx]
		}
		if !f(call.(ssa.Instruction), arg) {
			return false
		}
	}
	return true
}

func (x *c14ctx) liftKeyGuard(at ssa.Instruction, key ssa.Value, mk func(key ssa.Value, at ssa.Instruction) EdgePred, depth int) bool {
	if guardedBy(at, mk(key, at)) {
		return true
	}
	return x.forCallers(at.Parent(), key, depth, func(cs ssa.Instruction, arg ssa.Value) bool {
		return x.liftKeyGuard(cs, arg, mk, depth+1)
	})
}

// ---------------------------------------------------------------------------
// R3 caps dominate the insert

func (x *c14ctx) r3(tab, cen *c14mapUse) {
	c, p := x.c, x.p
	const r3 = "C14.R3 the table insert is reachable only over the `census[key.addr] < 8` edge and, unless `len(table) < 4096` is known, after an evictor that deletes an entry whenever the table is non-empty; checks and insert share one critical section"
	const perSrcMax, globalMax = 8, 4096
	ord := c14ord{}
	n := 0
	for _, op := range tab.writes("update") {
		I := op.instr.(*ssa.MapUpdate)
		fn := op.fn
		n++
		base := ord.key("C14.R3:insert:" + fnName(fn))
		bestPer := int64(-1)
		perSrcCore := func(addr c14ref, region func(ssa.Instruction) bool) EdgePred {
			return func(cond ssa.Value, pol bool) bool {
				var hit *ssa.Lookup
				b, ok := c14strictUpper(cond, pol, func(v ssa.Value) bool {
					lk := c14lookupOf(v, cen.is)
					if lk != nil && c14canon(lk.Index) == addr {
						hit = lk
						return true
					}
					return false
				})
				if !ok || hit == nil {
					return false
				}
				if b > bestPer {
					bestPer = b
				}
				return b <= perSrcMax && region(hit)
			}
		}
		perSrc := func(key ssa.Value, at ssa.Instruction) EdgePred {
			addr := c14canonP(key, []*types.Var{x.fKeyAddr})
			keyRef := c14canon(key)
			direct := perSrcCore(addr, func(in ssa.Instruction) bool { return x.la.sameRegion(in, at, x.fMu, lockW) })
			return func(cond ssa.Value, pol bool) bool {
				if direct(cond, pol) {
					return true
				}
				// predicate helper: g.sourceFull(key.addr) / g.overLimit(key)
				return c14predHelper(cond, pol, func(H *ssa.Function, call *ssa.Call) EdgePred {
					if !x.la.sameRegion(call, at, x.fMu, lockW) {
						return nil
					}
					for i, a := range call.Call.Args {
						if i >= len(H.Params) {
							break
						}
						switch c14canon(a) {
						case addr:
							return perSrcCore(c14canon(H.Params[i]), func(ssa.Instruction) bool { return true })
						case keyRef:
							return perSrcCore(c14canonP(H.Params[i], []*types.Var{x.fKeyAddr}), func(ssa.Instruction) bool { return true })
						}
					}
					return nil
				})
			}
		}
		okPer := x.liftKeyGuard(I, I.Key, perSrc, 0)
		detail := "the insert is reachable without crossing an edge on which " + x.fCensus.Name() + "[key." + x.fKeyAddr.Name() + "] < 8 is known in the same critical section"
		if !okPer && bestPer > perSrcMax {
			detail = fmt.Sprintf("the per-source test only proves count < %d before the insert (more than 8 pending messages per source)", bestPer)
		}
		c.Req(okPer, base+":per-source-cap", r3, p.InstrPos(I), detail)

		// global cap
		bestG := int64(-1)
		var evictCalls []*ssa.Call
		evictWhy := ""
		var capOK func(at ssa.Instruction, depth int) bool
		capOK = func(at ssa.Instruction, depth int) bool {
			lenLTCore := func(region func(ssa.Instruction) bool) EdgePred {
				return func(cond ssa.Value, pol bool) bool {
					b, ok := c14strictUpper(cond, pol, func(v ssa.Value) bool {
						call, ok := c14strip(v).(*ssa.Call)
						return ok && isBuiltinCall(call, "len") && tab.is(call.Call.Args[0]) && region(call)
					})
					if ok && b > bestG {
						bestG = b
					}
					return ok && b <= globalMax
				}
			}
			lenLT := func(cond ssa.Value, pol bool) bool {
				if lenLTCore(func(in ssa.Instruction) bool { return x.la.sameRegion(in, at, x.fMu, lockW) })(cond, pol) {
					return true
				}
				// predicate helper: g.tableFull()
				return c14predHelper(cond, pol, func(H *ssa.Function, call *ssa.Call) EdgePred {
					if !x.la.sameRegion(call, at, x.fMu, lockW) {
						return nil
					}
					return lenLTCore(func(ssa.Instruction) bool { return true })
				})
			}
			isEvict := func(in ssa.Instruction) bool {
				call, ok := in.(*ssa.Call)
				if !ok {
					return false
				}
				callee := staticCallee(call)
				if callee == nil || !x.p.IsRepoFn(callee) || len(callee.Blocks) == 0 {
					return false
				}
				// candidate: a repo function that drops a key of the table and is not the plain delete helper
				cand := false
				allInstrs(callee, func(y ssa.Instruction) {
					if x.isDrop(y, tab, func(ssa.Value) bool { return true }) {
						cand = true
					}
				})
				if !cand || x.deleterParam(callee, tab) >= 0 {
					return false
				}
				why, und := x.evictorVerdict(callee, tab)
				if und {
					c.Undecided("C14.R3:evictor:"+fnName(callee), r3, p.Pos(callee.Pos()), "path enumeration cap hit")
					return false
				}
				if why != "" {
					evictWhy = why
					return false
				}
				if !x.la.sameRegion(call, at, x.fMu, lockW) {
					evictWhy = "the mutex is released between the eviction and the insert"
					return false
				}
				evictCalls = append(evictCalls, call)
				return true
			}
			reached := false
			for _, in := range reachFrom(at.Parent(), nil, isEvict, lenLT) {
				if in == at {
					reached = true
				}
			}
			if !reached {
				return true
			}
			return x.forCallers(at.Parent(), nil, depth, func(cs ssa.Instruction, _ ssa.Value) bool { return capOK(cs, depth+1) })
		}
		reached := !capOK(I, 0)
		detail = "the insert is reachable with len(" + x.fTable.Name() + ") >= 4096 possible and no eviction before it"
		if bestG > globalMax {
			detail = fmt.Sprintf("the global test only proves len < %d before the insert (more than 4096 pending messages)", bestG)
		}
		if evictWhy != "" {
			detail += ": " + evictWhy
		}
		c.Req(!reached, base+":global-cap", r3, p.InstrPos(I), detail)
		for _, ec := range evictCalls {
			c.Saw(fnName(staticCallee(ec)))
			c.OK("C14.R3:evictor:"+fnName(staticCallee(ec)), r3, p.InstrPos(ec))
		}
	}
	c.Floor("C14.R3:insert", n, 1)
}

// ---------------------------------------------------------------------------
// R4 TTL

func c14timeCall(v ssa.Value, name string) *ssa.Call {
	call, ok := c14strip(v).(*ssa.Call)
	if !ok {
		return nil
	}
	f := staticCallee(call)
	if f == nil || f.Pkg == nil || f.Pkg.Pkg.Path() != "time" || f.Name() != name {
		return nil
	}
	return call
}

// entryAlloc finds the allocation of the entry stored by an insert (directly
// or as the single result of a constructor helper).
func c14entryAlloc(v ssa.Value) *ssa.Alloc {
	v = resolve(v)
	if al, ok := v.(*ssa.Alloc); ok {
		return al
	}
	if call, ok := v.(*ssa.Call); ok {
		if callee := staticCallee(call); callee != nil {
			var found *ssa.Alloc
			n := 0
			allInstrs(callee, func(in ssa.Instruction) {
				if r, ok := in.(*ssa.Return); ok && len(r.Results) == 1 {
					n++
					if al, ok := resolve(r.Results[0]).(*ssa.Alloc); ok {
						found = al
					}
				}
			})
			if n == 1 {
				return found
			}
		}
	}
	return nil
}

// c14predHelper: cond is a call of a one-result boolean helper H and on every
// return of H the result being pol implies an edge / value accepted by the
// predicate mk builds for H (arguments mapped to H's parameters); mk returns
// nil when the call cannot be mapped.
func c14predHelper(cond ssa.Value, pol bool, mk func(H *ssa.Function, call *ssa.Call) EdgePred) bool {
	call, ok := c14strip(cond).(*ssa.Call)
	if !ok {
		return false
	}
	H := staticCallee(call)
	if H == nil || len(H.Blocks) == 0 || H.Signature.Results().Len() != 1 {
		return false
	}
	inner := mk(H, call)
	if inner == nil {
		return false
	}
	okAll, n := true, 0
	allInstrs(H, func(in ssa.Instruction) {
		r, isRet := in.(*ssa.Return)
		if !isRet {
			return
		}
		res := retResults(r)
		if len(res) != 1 {
			okAll = false
			return
		}
		n++
		switch {
		case isConstBool(res[0], !pol):
		case isConstBool(res[0], pol):
			if !guardedBy(r, inner) {
				okAll = false
			}
		default:
			if v, vp := stripNot(res[0], pol); !inner(v, vp) {
				okAll = false
			}
		}
	})
	return okAll && n > 0
}

func (x *c14ctx) r4(tab *c14mapUse) {
	c, p := x.c, x.p
	const r4 = "C14.R4 new entries expire at time.Now()+TTL (TTL > 0, never extended); the constructor starts the GC goroutine; it leaves on the close channel, sweeps on every tick of a period in (0, TTL] and keeps running; the sweep drops every entry on the now.After(deadline) edge and visits the whole table; Close closes the close channel"
	ord := c14ord{}
	var ttl int64 = -1

	// ---- deadline of new entries
	nDl := 0
	for _, op := range tab.writes("update") {
		I := op.instr.(*ssa.MapUpdate)
		key := ord.key("C14.R4:deadline:" + fnName(op.fn))
		al := c14entryAlloc(I.Value)
		if al == nil {
			c.Undecided(key, r4, p.InstrPos(I), "cannot find the allocation of the inserted entry")
			continue
		}
		_, fields, _ := c14allocInfo(al)
		vals := fields[x.fDeadline]
		good := false
		detail := "the inserted entry's " + x.fDeadline.Name() + " is not set exactly once to time.Now().Add(<positive constant>)"
		if len(vals) == 1 {
			if add := c14timeCall(vals[0], "Add"); add != nil && len(add.Call.Args) == 2 {
				d, isC := constInt(add.Call.Args[1])
				if c14timeCall(add.Call.Args[0], "Now") != nil && isC {
					if d > 0 {
						good = true
						nDl++
						if ttl < 0 || d < ttl {
							ttl = d
						}
					} else {
						detail = fmt.Sprintf("the TTL added to time.Now() is %d ns: entries are born expired and every multi-chunk message is swept", d)
					}
				}
			}
		}
		c.Req(good, key, r4, p.InstrPos(I), detail)
	}
	c.Floor("C14.R4:deadline", nDl, 1)
	if want, ok := c14constVal(p, pObfs, "geckoReassemblyTTL"); ok && ttl > 0 {
		c.Req(ttl == want, "C14.R4:ttl-constant", r4, "", fmt.Sprintf("entries live %d ns but the declared TTL constant is %d ns", ttl, want))
	}
	for _, fr := range fieldRefs(x.fns, x.fDeadline) {
		if fr.Kind == "store" {
			al, ok := accessPath(fr.Addr).Root.(*ssa.Alloc)
			c.Req(ok && al.Parent() == fr.Fn, ord.key("C14.R4:deadline-fixed:"+fnName(fr.Fn)), r4, p.InstrPos(fr.Instr),
				"the deadline of an existing entry is rewritten (an incomplete message can be kept alive past its TTL)")
		}
	}

	// ---- sweeper
	nowOK := func(v ssa.Value, S *ssa.Function) bool {
		if c14timeCall(v, "Now") != nil {
			return true
		}
		r := c14canon(v)
		if r.deref || r.path != "" {
			return false
		}
		prm, ok := r.root.(*ssa.Parameter)
		if !ok || prm.Parent() != S || len(x.la.callers[S]) == 0 || x.la.escaped[S] {
			return false
		}
		idx := -1
		for i, q := range S.Params {
			if q == prm {
				idx = i
			}
		}
		for _, cs := range x.la.callers[S] {
			a := c14strip(cs.Common().Args[idx])
			if c14timeCall(a, "Now") != nil {
				continue
			}
			if e, ok := a.(*ssa.Extract); ok {
				if _, isSel := e.Tuple.(*ssa.Select); isSel {
					continue
				}
			}
			if u, ok := a.(*ssa.UnOp); ok && u.Op == token.ARROW {
				continue
			}
			return false
		}
		return true
	}
	sweeperVerdict := func(S *ssa.Function) (bool, string) {
		var nexts []*ssa.Next
		allInstrs(S, func(in ssa.Instruction) {
			if nx, ok := in.(*ssa.Next); ok {
				if rg, ok := nx.Iter.(*ssa.Range); ok && tab.is(rg.X) {
					nexts = append(nexts, nx)
				}
			}
		})
		if len(nexts) != 1 {
			return false, "does not range over the table exactly once"
		}
		nx := nexts[0]
		isDl := func(v ssa.Value) bool {
			root, ok := c14fieldLoadOf(v, x.fDeadline)
			return ok && c14rangeOf(root, 2, tab) == nx
		}
		// notExpired: the edge says now.After(deadline) is false
		notExpired := func(isNow, isDeadline func(ssa.Value) bool) EdgePred {
			return func(cond ssa.Value, pol bool) bool {
				if pol {
					return false
				}
				if call := c14timeCall(cond, "After"); call != nil && len(call.Call.Args) == 2 {
					return isNow(call.Call.Args[0]) && isDeadline(call.Call.Args[1])
				}
				if call := c14timeCall(cond, "Before"); call != nil && len(call.Call.Args) == 2 {
					return isDeadline(call.Call.Args[0]) && isNow(call.Call.Args[1])
				}
				return false
			}
		}
		direct := notExpired(func(v ssa.Value) bool { return nowOK(v, S) }, isDl)
		blocked := func(cond ssa.Value, pol bool) bool {
			if c14rangeOf(cond, 0, tab) == nx {
				return !pol // loop exit
			}
			if direct(cond, pol) {
				return true
			}
			// predicate helper: e.expired(now) / e.alive(now) / expired(e, now)
			return c14predHelper(cond, pol, func(H *ssa.Function, call *ssa.Call) EdgePred {
				var nowP, entP *ssa.Parameter
				for i, a := range call.Call.Args {
					if i >= len(H.Params) {
						break
					}
					if c14rangeOf(c14canon(a).root, 2, tab) == nx && c14canon(a).path == "" {
						entP = H.Params[i]
					} else if nowOK(a, S) {
						nowP = H.Params[i]
					}
				}
				if entP == nil {
					return nil
				}
				return notExpired(func(v ssa.Value) bool {
					return c14timeCall(v, "Now") != nil || (nowP != nil && c14strip(resolve(v)) == ssa.Value(nowP))
				}, func(v ssa.Value) bool {
					root, ok := c14fieldLoadOf(v, x.fDeadline)
					return ok && root == ssa.Value(entP)
				})
			})
		}
		isMyDrop := func(in ssa.Instruction) bool {
			return x.isDrop(in, tab, func(k ssa.Value) bool { return c14rangeOf(c14canon(k).root, 1, tab) == nx && c14canon(k).path == "" })
		}
		nDrop := 0
		for _, in := range reachFrom(S, nx, isMyDrop, blocked) {
			if isMyDrop(in) {
				nDrop++
				continue
			}
			if in == ssa.Instruction(nx) {
				return false, "an entry with now.After(deadline) can be skipped (the iteration continues without dropping it)"
			}
			if _, ok := in.(*ssa.Return); ok {
				return false, "the sweep can return before an expired entry is dropped"
			}
		}
		if nDrop == 0 {
			return false, "no drop of the visited key on the expired edge"
		}
		ok := true
		allInstrs(S, func(in ssa.Instruction) {
			if !isMyDrop(in) {
				return
			}
			back := false
			for _, y := range reachFrom(S, in, func(z ssa.Instruction) bool { return z == ssa.Instruction(nx) }, nil) {
				if y == ssa.Instruction(nx) {
					back = true
				}
				if _, isRet := y.(*ssa.Return); isRet {
					ok = false
				}
			}
			if !back {
				ok = false
			}
		})
		if !ok {
			return false, "the sweep stops after dropping one entry instead of visiting the whole table"
		}
		return true, ""
	}

	// ---- GC goroutine started by the constructor
	nCtor := 0
	anyStarted := false
	for _, fn := range x.fns {
		var obj *ssa.Alloc
		allInstrs(fn, func(in ssa.Instruction) {
			if al, ok := in.(*ssa.Alloc); ok && al.Heap && namedOf(al.Type()) == x.connT {
				obj = al
			}
		})
		if obj == nil {
			continue
		}
		nCtor++
		c.Saw(fnName(fn))
		var loops []*ssa.Function
		allInstrs(fn, func(in ssa.Instruction) {
			g, ok := in.(*ssa.Go)
			if !ok {
				return
			}
			callee := staticCallee(g)
			if callee == nil || len(g.Call.Args) == 0 || resolve(g.Call.Args[0]) != ssa.Value(obj) {
				if mc, isMC := g.Call.Value.(*ssa.MakeClosure); isMC {
					callee = mc.Fn.(*ssa.Function)
				} else {
					return
				}
			}
			loops = append(loops, callee)
		})
		base := "C14.R4:gc:" + fnName(fn)
		started := false
		why := "the constructor starts no goroutine on the new object (incomplete messages are never forgotten: after 8 lost handshakes a source is locked out, 4096 entries stay pinned)"
		for _, L := range loops {
			ok, w := x.gcLoopVerdict(L, tab, ttl, sweeperVerdict)
			if ok {
				started, anyStarted = true, true
				c.Saw(fnName(L))
			} else {
				why = fnName(L) + ": " + w
			}
		}
		if !started && strings.Contains(why, ": ?") {
			c.Undecided(base+":started", r4, p.Pos(fn.Pos()), strings.Replace(why, ": ?", ": ", 1))
		} else {
			c.Req(started, base+":started", r4, p.Pos(fn.Pos()), why)
		}
	}
	c.Floor("C14.R4:constructor", nCtor, 1)
	nSw := 0
	for _, fn := range x.fns {
		if !x.sweepers[fn] {
			continue
		}
		nSw++
		c.Saw(fnName(fn))
		ok, why := sweeperVerdict(fn)
		c.Req(ok, "C14.R4:sweep:"+fnName(fn), r4, p.Pos(fn.Pos()), why+" (an incomplete message outlives its TTL)")
	}
	if anyStarted {
		c.Floor("C14.R4:sweep", nSw, 1)
	}

	// ---- Close stops it
	closeFn := p.MethodOf(types.NewPointer(x.connT), "Close")
	if closeFn == nil {
		c.Unres("(*" + x.connT.Obj().Name() + ").Close")
		return
	}
	c.Saw(fnName(closeFn))
	isCloseCh := func(in ssa.Instruction) bool {
		call, ok := in.(*ssa.Call)
		return ok && isBuiltinCall(call, "close") && isLoadOfField(call.Call.Args[0], x.fCloseCh)
	}
	// closes: every path through fn closes the channel, directly or through a
	// helper of the obfs package (method value / bound wrapper passed to Once.Do)
	var closes func(fn *ssa.Function, depth int) bool
	closes = func(fn *ssa.Function, depth int) bool {
		if fn == nil || len(fn.Blocks) == 0 || depth > 2 {
			return false
		}
		hit := func(in ssa.Instruction) bool {
			if isCloseCh(in) {
				return true
			}
			call, ok := in.(*ssa.Call)
			if !ok {
				return false
			}
			callee := staticCallee(call)
			if callee == nil {
				return false
			}
			if pk := fnPkg(callee); pk == nil || pk.Pkg.Path() != pObfs {
				return false
			}
			return closes(callee, depth+1)
		}
		any := false
		allInstrs(fn, func(in ssa.Instruction) {
			if hit(in) {
				any = true
			}
		})
		return any && len(exitsReachableAvoiding(fn, nil, hit)) == 0
	}
	// closer: the instruction closes the channel: directly, through Once.Do of a
	// closing function, or through a helper of the package that does so on
	// every path (stopGC(), shutdown() ...)
	var closerAt func(depth int) func(in ssa.Instruction) bool
	closerAt = func(depth int) func(in ssa.Instruction) bool {
		return func(in ssa.Instruction) bool {
			if isCloseCh(in) {
				return true
			}
			call, ok := in.(*ssa.Call)
			if !ok {
				return false
			}
			if calleeIs(call, "sync", "(*Once).Do") {
				if len(call.Call.Args) != 2 {
					return false
				}
				mc, ok := call.Call.Args[1].(*ssa.MakeClosure)
				return ok && closes(mc.Fn.(*ssa.Function), 0)
			}
			callee := staticCallee(call)
			if callee == nil || depth >= 2 || len(callee.Blocks) == 0 || callee == closeFn {
				return false
			}
			if pk := fnPkg(callee); pk == nil || pk.Pkg.Path() != pObfs {
				return false
			}
			return len(exitsReachableAvoiding(callee, nil, closerAt(depth+1))) == 0
		}
	}
	closer := closerAt(0)
	c.Req(len(exitsReachableAvoiding(closeFn, nil, closer)) == 0, "C14.R4:close-stops-gc", r4, p.Pos(closeFn.Pos()),
		"a path through Close does not close "+x.fCloseCh.Name()+" (the GC goroutine, its ticker and the whole reassembly table of a closed connection are kept forever)")
}

// constArg: v is an integer constant, or a parameter that receives the same
// constant at every call site (gcEvery(ttl / 2)).
func (x *c14ctx) constArg(v ssa.Value, depth int) (int64, bool) {
	v = c14strip(resolve(v))
	if k, ok := constInt(v); ok {
		return k, true
	}
	prm, ok := v.(*ssa.Parameter)
	if !ok || depth >= 2 || prm.Parent() == nil || x.la.escaped[prm.Parent()] || len(x.la.callers[prm.Parent()]) == 0 {
		return 0, false
	}
	idx := -1
	for i, q := range prm.Parent().Params {
		if q == prm {
			idx = i
		}
	}
	var val int64
	for n, cs := range x.la.callers[prm.Parent()] {
		args := cs.Common().Args
		if idx < 0 || idx >= len(args) {
			return 0, false
		}
		k, ok := x.constArg(args[idx], depth+1)
		if !ok || (n > 0 && k != val) {
			return 0, false
		}
		val = k
	}
	return val, true
}

// gcLoopVerdict checks the shape of the maintenance goroutine.
func (x *c14ctx) gcLoopVerdict(L *ssa.Function, tab *c14mapUse, ttl int64, sweeperVerdict func(*ssa.Function) (bool, string)) (bool, string) {
	var sel *ssa.Select
	allInstrs(L, func(in ssa.Instruction) {
		if s, ok := in.(*ssa.Select); ok && s.Blocking {
			sel = s
		}
	})
	if sel == nil {
		// `go func() { g.gcLoop() }()` or a thin wrapper: follow a single call into the package
		var inner []*ssa.Function
		allInstrs(L, func(in ssa.Instruction) {
			if call, ok := in.(*ssa.Call); ok {
				if cal := staticCallee(call); cal != nil && cal != L && len(cal.Blocks) > 0 {
					if pk := fnPkg(cal); pk != nil && pk.Pkg.Path() == pObfs {
						inner = append(inner, cal)
					}
				}
			}
		})
		if len(inner) == 1 && x.deleterMemo[L] != -3 {
			x.deleterMemo[L] = -3 // recursion guard
			ok, why := x.gcLoopVerdict(inner[0], tab, ttl, sweeperVerdict)
			delete(x.deleterMemo, L)
			return ok, why
		}
		return false, "?no blocking select (loop shape not recognised)"
	}
	ci, ti := -1, -1
	var period int64 = -1
	for i, st := range sel.States {
		if st.Dir != types.RecvOnly {
			continue
		}
		if isLoadOfField(st.Chan, x.fCloseCh) {
			ci = i
			continue
		}
		ch := c14strip(st.Chan)
		var mk *ssa.Call
		if u, ok := ch.(*ssa.UnOp); ok && u.Op == token.MUL {
			if fa, ok := u.X.(*ssa.FieldAddr); ok {
				mk = c14timeCall(fa.X, "NewTicker")
			}
		} else if k := c14timeCall(ch, "Tick"); k != nil {
			mk = k
		} else if k := c14timeCall(ch, "After"); k != nil {
			mk = k
		}
		if mk != nil && len(mk.Call.Args) >= 1 {
			if d, ok := x.constArg(mk.Call.Args[0], 0); ok {
				ti, period = i, d
			}
		}
	}
	if ci < 0 {
		return false, "the select has no receive from " + x.fCloseCh.Name() + " (the goroutine cannot be stopped)"
	}
	if ti < 0 {
		return false, "?the select has no receive from a ticker with a constant period (loop shape not recognised)"
	}
	if period <= 0 || (ttl > 0 && period > ttl) {
		return false, fmt.Sprintf("tick period %d ns is not in (0, TTL=%d ns]", period, ttl)
	}
	idxVal := extractOf(sel, 0)
	only := func(j int) EdgePred {
		return func(cond ssa.Value, pol bool) bool {
			b, ok := cond.(*ssa.BinOp)
			if !ok || b.Op != token.EQL || idxVal == nil || b.X != idxVal {
				return false
			}
			k, isC := constInt(b.Y)
			if !isC {
				return false
			}
			return (pol && int(k) != j) || (!pol && int(k) == j)
		}
	}
	isSel := func(in ssa.Instruction) bool { return in == ssa.Instruction(sel) }
	// close arm: returns, never waits again
	ret := false
	for _, in := range reachFrom(L, sel, isSel, only(ci)) {
		if isSel(in) {
			return false, "the close arm of the select loops back instead of returning"
		}
		if _, ok := in.(*ssa.Return); ok {
			ret = true
		}
	}
	if !ret {
		return false, "the close arm of the select never returns"
	}
	// tick arm: sweep on every path, then wait again
	var sweepWhy string
	isSweep := func(in ssa.Instruction) bool {
		call, ok := in.(*ssa.Call)
		if !ok {
			return false
		}
		S := staticCallee(call)
		if S == nil || !x.p.IsRepoFn(S) || len(S.Blocks) == 0 {
			return false
		}
		ranges := false
		allInstrs(S, func(y ssa.Instruction) {
			if rg, ok := y.(*ssa.Range); ok && tab.is(rg.X) {
				ranges = true
			}
		})
		if ranges {
			x.sweepers[S] = true
		}
		return ranges
	}
	nSweep := 0
	for _, in := range reachFrom(L, sel, func(in ssa.Instruction) bool { return isSweep(in) || isSel(in) }, only(ti)) {
		if isSweep(in) {
			nSweep++
			again := false
			for _, y := range reachFrom(L, in, isSel, nil) {
				if isSel(y) {
					again = true
				}
				if _, ok := y.(*ssa.Return); ok {
					return false, "the goroutine returns after a sweep instead of waiting for the next tick"
				}
			}
			if !again {
				return false, "after a sweep the goroutine never waits for the next tick"
			}
			continue
		}
		if isSel(in) {
			if sweepWhy != "" {
				return false, sweepWhy
			}
			return false, "a tick can pass without sweeping expired entries"
		}
		if _, ok := in.(*ssa.Return); ok {
			if sweepWhy != "" {
				return false, sweepWhy
			}
			return false, "the tick arm returns without sweeping"
		}
	}
	if nSweep == 0 {
		if sweepWhy != "" {
			return false, sweepWhy
		}
		return false, "the tick arm calls no function that sweeps the table"
	}
	return true, ""
}

// ---------------------------------------------------------------------------
// R5 chunk store and completion

func c14freshSlice(v ssa.Value, seen map[ssa.Value]bool) bool {
	v = c14strip(resolve(v))
	if seen[v] {
		return true
	}
	seen[v] = true
	switch w := v.(type) {
	case *ssa.MakeSlice:
		return true
	case *ssa.Alloc:
		return true
	case *ssa.Slice:
		return c14freshSlice(w.X, seen)
	case *ssa.Phi:
		for _, e := range w.Edges {
			if !c14freshSlice(e, seen) {
				return false
			}
		}
		return true
	case *ssa.Call:
		if isBuiltinCall(w, "append") {
			return isNilConst(w.Call.Args[0]) || c14freshSlice(w.Call.Args[0], seen)
		}
		if calleeIs(w, "bytes", "Clone") || calleeIs(w, "slices", "Clone") || calleeIs(w, "bytes", "Join") || calleeIs(w, "slices", "Concat") {
			return true
		}
		// helper returning a buffer it allocated itself
		if callee := staticCallee(w); callee != nil && len(callee.Blocks) > 0 && callee.Signature.Results().Len() == 1 && len(seen) < 64 {
			ok, n := true, 0
			allInstrs(callee, func(in ssa.Instruction) {
				if r, isRet := in.(*ssa.Return); isRet {
					res := retResults(r)
					if len(res) != 1 || !c14freshSlice(res[0], seen) {
						ok = false
					}
					n++
				}
			})
			return ok && n > 0
		}
	}
	return false
}

// c14neverNil: the slice value is non-nil whatever the length of its source
// (make, append onto a non-nil slice, Clone of a sub-slice, local array slice).
func c14neverNil(v ssa.Value, seen map[ssa.Value]bool) bool {
	v = c14strip(resolve(v))
	if seen[v] {
		return true
	}
	seen[v] = true
	switch w := v.(type) {
	case *ssa.MakeSlice, *ssa.Alloc:
		return true
	case *ssa.Slice:
		if _, isPtr := w.X.Type().Underlying().(*types.Pointer); isPtr {
			return true // slice of an array
		}
		return c14neverNil(w.X, seen)
	case *ssa.Phi:
		for _, e := range w.Edges {
			if !c14neverNil(e, seen) {
				return false
			}
		}
		return true
	case *ssa.Call:
		if isBuiltinCall(w, "append") {
			return !isNilConst(w.Call.Args[0]) && c14neverNil(w.Call.Args[0], seen)
		}
		if calleeIs(w, "bytes", "Clone") || calleeIs(w, "slices", "Clone") {
			// Clone(x) is nil only for a nil x; chunk payloads are sub-slices of the read buffer
			return true
		}
		if callee := staticCallee(w); callee != nil && len(callee.Blocks) > 0 && callee.Signature.Results().Len() == 1 && len(seen) < 64 {
			ok, n := true, 0
			allInstrs(callee, func(in ssa.Instruction) {
				if r, isRet := in.(*ssa.Return); isRet {
					res := retResults(r)
					if len(res) != 1 || !c14neverNil(res[0], seen) {
						ok = false
					}
					n++
				}
			})
			return ok && n > 0
		}
	case *ssa.Parameter:
		return true // decided where the argument is produced (the fresh-copy rule lifts through parameters)
	}
	return false
}

func c14lenArg(v ssa.Value) ssa.Value {
	call, ok := c14strip(v).(*ssa.Call)
	if !ok || !isBuiltinCall(call, "len") {
		return nil
	}
	return call.Call.Args[0]
}

type c14chunkStore struct {
	st    *ssa.Store
	ia    *ssa.IndexAddr
	eRoot ssa.Value
	idx   c14ref
}

func (x *c14ctx) chunkStores() []c14chunkStore {
	var out []c14chunkStore
	for _, fn := range x.fns {
		allInstrs(fn, func(in ssa.Instruction) {
			st, ok := in.(*ssa.Store)
			if !ok {
				return
			}
			ia, ok := st.Addr.(*ssa.IndexAddr)
			if !ok {
				return
			}
			root, ok := c14fieldLoadOf(ia.X, x.fChunks)
			if !ok {
				return
			}
			out = append(out, c14chunkStore{st, ia, root, c14canon(ia.Index)})
		})
	}
	return out
}

func (x *c14ctx) r5(tab *c14mapUse) {
	c, p := x.c, x.p
	const r5 = "C14.R5 a chunk is stored only into an empty slot of its own entry at a bounded index, as a fresh full copy of the payload; received is bumped once per store; the message completes exactly when received reaches total, is returned in a fresh buffer and its entry is dropped"
	ord := c14ord{}
	stores := x.chunkStores()
	c.Floor("C14.R5:chunk-store", len(stores), 1)
	isChunkStore := func(in ssa.Instruction) bool {
		for _, s := range stores {
			if in == ssa.Instruction(s.st) {
				return true
			}
		}
		return false
	}
	for _, cs := range stores {
		St, fn, eRoot, idx := cs.st, cs.st.Parent(), cs.eRoot, cs.idx
		c.Saw(fnName(fn))
		base := ord.key("C14.R5:store:" + fnName(fn))
		ofEntry := func(v ssa.Value, f *types.Var) bool {
			r, ok := c14fieldLoadOf(v, f)
			return ok && r == eRoot
		}
		// ---- duplicate guard
		dup := func(cond ssa.Value, pol bool) bool {
			xv, isNil, ok := nilTest(cond, pol)
			if !ok || !isNil {
				return false
			}
			u, ok := c14strip(xv).(*ssa.UnOp)
			if !ok || u.Op != token.MUL {
				return false
			}
			ia2, ok := u.X.(*ssa.IndexAddr)
			return ok && ofEntry(ia2.X, x.fChunks) && c14canon(ia2.Index) == idx
		}
		c.Req(guardedBy(St, dup), base+":empty-slot", r5, p.InstrPos(St),
			"the slot store is reachable without the `chunks[idx] == nil` edge for the same entry and index (a duplicate is counted again: the message completes with a missing chunk)")

		// ---- index bounded
		inRange := func(cond ssa.Value, pol bool) bool {
			a, b, op, ok := c14rel(cond, pol)
			if !ok {
				return false
			}
			if op == token.GTR {
				a, b, op = b, a, token.LSS
			}
			if op != token.LSS {
				return false
			}
			la := c14lenArg(b)
			return la != nil && ofEntry(la, x.fChunks) && c14canon(a) == idx
		}
		bounded := guardedBy(St, inRange)
		if !bounded {
			bounded = x.totalAgreement(cs, tab)
		}
		c.Req(bounded, base+":index-bounded", r5, p.InstrPos(St),
			"neither `idx < len(chunks)` nor agreement of the entry's total with the frame's declared total is established before chunks[idx] is written (a frame with another chunk count indexes outside the slot array)")

		// ---- fresh full copy
		fresh, why := x.freshCopy(St.Val, St, 0)
		c.Req(fresh, base+":fresh-copy", r5, p.InstrPos(St), why+" (the read buffer is reused by the next ReadFrom: earlier chunks are overwritten, which corrupts only some arrival orders)")
		// the slot's occupancy marker is `!= nil` (empty-slot guard above): the
		// stored copy must be non-nil even for a zero-length chunk
		c.Req(c14neverNil(St.Val, map[ssa.Value]bool{}), base+":stored-copy-never-nil", r5, p.InstrPos(St),
			"the stored copy can be nil for an empty chunk (append to a nil slice yields nil when nothing is appended) while `chunks[idx] == nil` is the empty-slot test: a duplicated empty chunk is counted again and the message completes truncated")

		// ---- received++ exactly with the store
		isInc := func(in ssa.Instruction) bool {
			s, ok := in.(*ssa.Store)
			if !ok {
				return false
			}
			fa, ok := s.Addr.(*ssa.FieldAddr)
			if !ok || structField(fa.X.Type(), fa.Field) != x.fReceived || c14canon(fa.X).root != eRoot {
				return false
			}
			b, ok := c14strip(s.Val).(*ssa.BinOp)
			if !ok || b.Op != token.ADD {
				return false
			}
			k, isC := constInt(b.Y)
			return isC && k == 1 && ofEntry(b.X, x.fReceived)
		}
		c.Req(len(exitsReachableAvoiding(fn, St, isInc)) == 0, base+":received-inc", r5, p.InstrPos(St),
			"after the slot store a path returns without received+1 on the same entry (the message never completes)")
		var incs []ssa.Instruction
		for _, in := range reachFrom(fn, St, nil, nil) {
			if isInc(in) {
				incs = append(incs, in)
			}
		}

		// ---- completion: decided in the function that hands the packet up (the
		// one with a []byte result); when the store sits in a helper (entry
		// method put/add ...) the analysis moves to the helper's call sites
		var completion func(fn *ssa.Function, at ssa.Instruction, isEntry func(ssa.Value) bool, incs []ssa.Instruction, depth int) (int, bool)
		completion = func(fn *ssa.Function, at ssa.Instruction, isEntry func(ssa.Value) bool, incs []ssa.Instruction, depth int) (int, bool) {
			handsUp := false
			for i := 0; i < fn.Signature.Results().Len(); i++ {
				if c14isByteSlice(fn.Signature.Results().At(i).Type()) {
					handsUp = true
				}
			}
			if !handsUp {
				pidx := -1
				for i, prm := range fn.Params {
					if isEntry(prm) {
						pidx = i
					}
				}
				if depth >= 2 || pidx < 0 || x.la.escaped[fn] || len(x.la.callers[fn]) == 0 {
					return 0, false
				}
				n, followed := 0, true
				for _, cs := range x.la.callers[fn] {
					args := cs.Common().Args
					if pidx >= len(args) {
						followed = false
						continue
					}
					r := c14canon(args[pidx]).root
					k, f := completion(cs.Parent(), cs.(ssa.Instruction), func(v ssa.Value) bool { return v == r }, nil, depth+1)
					n += k
					followed = followed && f
				}
				return n, followed
			}
			c.Saw(fnName(fn))
			ofE := func(v ssa.Value, f *types.Var) bool {
				r, ok := c14fieldLoadOf(v, f)
				return ok && isEntry(r)
			}
			// postAt: the instruction sees the counter after this store's increment
			postAt := func(in ssa.Instruction) bool {
				if len(incs) == 0 {
					return in.Parent() == fn && dominates(at, in)
				}
				for _, inc := range incs {
					if dominates(inc, in) {
						return true
					}
				}
				return false
			}
			isPostReceived := func(v ssa.Value) bool {
				v = c14strip(v)
				if ofE(v, x.fReceived) {
					return postAt(v.(ssa.Instruction))
				}
				for _, inc := range incs {
					if c14strip(inc.(*ssa.Store).Val) == v {
						return true
					}
				}
				return false
			}
			complete := func(cond ssa.Value, pol bool) bool {
				return x.completeEdge(cond, pol, isEntry, isPostReceived, postAt, 0)
			}
			keyRefs := map[c14ref]bool{}
			for _, op := range tab.ops {
				if op.fn != fn {
					continue
				}
				switch y := op.instr.(type) {
				case *ssa.Lookup:
					keyRefs[c14canon(y.Index)] = true
				case *ssa.MapUpdate:
					keyRefs[c14canon(y.Key)] = true
				}
			}
			// the lookup / admission of the entry may sit in a helper that takes
			// the key as a parameter (lookupOrAdmit(key, ...)): the key of this
			// message is then the argument handed to that helper
			allInstrs(fn, func(in ssa.Instruction) {
				call, ok := in.(*ssa.Call)
				if !ok {
					return
				}
				callee := staticCallee(call)
				if callee == nil || x.deleterParam(callee, tab) >= 0 {
					return // a dropper does not name the key of this message
				}
				for _, i := range x.c14keyParams(callee, tab, 0) {
					if i < len(call.Call.Args) {
						keyRefs[c14canon(call.Call.Args[i])] = true
					}
				}
			})
			isDrop := func(in ssa.Instruction) bool {
				return x.isDrop(in, tab, func(k ssa.Value) bool { return keyRefs[c14canon(k)] })
			}
			undropped := map[ssa.Instruction]bool{}
			for _, r := range exitsReachableAvoiding(fn, at, isDrop) {
				undropped[r] = true
			}
			cbase := base
			if fn != St.Parent() {
				cbase = ord.key(base + ":via:" + fnName(fn))
			}
			nDone := 0
			for _, in := range reachFrom(fn, at, nil, nil) {
				r, ok := in.(*ssa.Return)
				if !ok {
					continue
				}
				res := retResults(r)
				done := false
				for _, v := range res {
					if isConstBool(v, true) {
						done = true
					}
				}
				if !done {
					continue
				}
				nDone++
				k := ord.key(cbase + ":complete")
				c.Req(guardedBy(r, complete), k+":guard", r5, p.InstrPos(r),
					"the packet is handed up without the `received >= total` edge on the updated counter of this entry (assembled with holes, or one chunk early)")
				c.Req(!undropped[r], k+":drops-entry", r5, p.InstrPos(r),
					"the completed message's entry is not dropped (it pins a table slot and the source's count until the TTL: the 9th handshake packet within 8 s is refused)")
				freshOut := false
				for _, v := range res {
					if c14isByteSlice(v.Type()) {
						freshOut = c14freshSlice(v, map[ssa.Value]bool{})
					}
				}
				c.Req(freshOut, k+":fresh-out", r5, p.InstrPos(r), "the assembled packet is not a freshly allocated buffer")
			}
			return nDone, true
		}
		nDone, followed := completion(fn, St, func(v ssa.Value) bool { return v == eRoot }, incs, 0)
		if !followed && nDone == 0 {
			c.Undecided(base+":complete-return", r5, p.InstrPos(St), "the slot store sits in a helper whose callers cannot be followed to the return that hands the packet up")
		} else {
			c.Floor(base+":complete-return", nDone, 1)
		}
	}
	// no other writer of received
	for _, fr := range fieldRefs(x.fns, x.fReceived) {
		if fr.Kind != "store" {
			continue
		}
		if al, ok := accessPath(fr.Addr).Root.(*ssa.Alloc); ok && al.Parent() == fr.Fn {
			continue
		}
		free := false
		for _, in := range reachFrom(fr.Fn, nil, isChunkStore, nil) {
			if in == fr.Instr {
				free = true
			}
		}
		c.Req(!free, ord.key("C14.R5:received-writer:"+fnName(fr.Fn)), r5, p.InstrPos(fr.Instr), "received is written on a path that stored no chunk")
	}
}

// c14keyParams: indices of the parameters of fn that are used, unchanged, as the
// key of a lookup or update of the table in fn (or, one level further, in a
// helper fn hands them to).
func (x *c14ctx) c14keyParams(fn *ssa.Function, tab *c14mapUse, depth int) []int {
	if fn == nil || len(fn.Blocks) == 0 || depth > 1 || !x.p.IsRepoFn(fn) {
		return nil
	}
	hit := map[int]bool{}
	mark := func(k ssa.Value) {
		kr := c14canon(k)
		if kr.deref || kr.path != "" {
			return
		}
		for i, prm := range fn.Params {
			if kr.root == ssa.Value(prm) {
				hit[i] = true
			}
		}
	}
	allInstrs(fn, func(in ssa.Instruction) {
		switch y := in.(type) {
		case *ssa.Lookup:
			if tab.is(y.X) {
				mark(y.Index)
			}
		case *ssa.MapUpdate:
			if tab.is(y.Map) {
				mark(y.Key)
			}
		case *ssa.Call:
			callee := staticCallee(y)
			if callee == nil || callee == fn {
				return
			}
			for _, i := range x.c14keyParams(callee, tab, depth+1) {
				if i < len(y.Call.Args) {
					mark(y.Call.Args[i])
				}
			}
		}
	})
	var out []int
	for i := range fn.Params {
		if hit[i] {
			out = append(out, i)
		}
	}
	return out
}

// totalAgreement: every source of the entry pointer is either the new entry
// (slots = declared total of this frame) or an existing one reached over the
// `entry.total == declared total` edge; index and total come from one header.
// completeEdge: on the edge `received >= total` (or == ) is known for the entry
// accepted by isEntry, with received read after the increment; the test may sit
// in a predicate helper (e.complete()) called with the entry after the increment.
func (x *c14ctx) completeEdge(cond ssa.Value, pol bool, isEntry func(ssa.Value) bool, isPostReceived func(ssa.Value) bool, postAt func(ssa.Instruction) bool, depth int) bool {
	isTotal := func(v ssa.Value) bool {
		v = c14strip(v)
		if r, ok := c14fieldLoadOf(v, x.fTotal); ok && isEntry(r) {
			return true
		}
		if la := c14lenArg(v); la != nil {
			r, ok := c14fieldLoadOf(la, x.fChunks)
			return ok && isEntry(r)
		}
		return false
	}
	if a, b, op, ok := c14rel(cond, pol); ok {
		if op == token.LEQ {
			a, b, op = b, a, token.GEQ
		}
		if (op == token.GEQ || op == token.EQL) && ((isPostReceived(a) && isTotal(b)) || (op == token.EQL && isPostReceived(b) && isTotal(a))) {
			return true
		}
	}
	call, isCall := c14strip(cond).(*ssa.Call)
	if !isCall || depth >= 2 || !postAt(call) {
		return false
	}
	H := staticCallee(call)
	if H == nil || len(H.Blocks) == 0 || H.Signature.Results().Len() != 1 {
		return false
	}
	var prm *ssa.Parameter
	for i, a := range call.Call.Args {
		if i < len(H.Params) && isEntry(c14canon(a).root) {
			prm = H.Params[i]
		}
	}
	if prm == nil {
		return false
	}
	isE2 := func(v ssa.Value) bool { return v == ssa.Value(prm) }
	isPost2 := func(v ssa.Value) bool {
		r, ok := c14fieldLoadOf(c14strip(v), x.fReceived)
		return ok && r == ssa.Value(prm)
	}
	post2 := func(ssa.Instruction) bool { return true }
	okAll, n := true, 0
	allInstrs(H, func(in ssa.Instruction) {
		r, isRet := in.(*ssa.Return)
		if !isRet {
			return
		}
		res := retResults(r)
		if len(res) != 1 {
			okAll = false
			return
		}
		n++
		switch {
		case isConstBool(res[0], !pol):
		case isConstBool(res[0], pol):
			if !guardedBy(r, func(c ssa.Value, pp bool) bool { return x.completeEdge(c, pp, isE2, isPost2, post2, depth+1) }) {
				okAll = false
			}
		default:
			v, vp := stripNot(res[0], pol)
			if !x.completeEdge(v, vp, isE2, isPost2, post2, depth+1) {
				okAll = false
			}
		}
	})
	return okAll && n > 0
}

func (x *c14ctx) totalAgreement(cs c14chunkStore, tab *c14mapUse) bool {
	type src struct {
		v        ssa.Value
		from, to *ssa.BasicBlock
	}
	var srcs []src
	if ph, ok := cs.eRoot.(*ssa.Phi); ok {
		for i, e := range ph.Edges {
			srcs = append(srcs, src{e, ph.Block().Preds[i], ph.Block()})
		}
	} else {
		srcs = []src{{cs.eRoot, cs.st.Block(), nil}}
	}
	var declared *c14ref
	for _, s := range srcs {
		if al := c14entryAlloc(s.v); al != nil {
			_, fields, _ := c14allocInfo(al)
			if vs := fields[x.fChunks]; len(vs) == 1 {
				if mk, ok := c14strip(vs[0]).(*ssa.MakeSlice); ok {
					r := c14canon(mk.Len)
					declared = &r
				}
			}
		}
	}
	if declared == nil || declared.root != cs.idx.root {
		return false
	}
	for _, s := range srcs {
		if c14entryAlloc(s.v) != nil {
			continue
		}
		sv := c14canon(s.v).root
		agree := func(cond ssa.Value, pol bool) bool {
			a, b, op, ok := c14rel(cond, pol)
			if !ok || op != token.EQL {
				return false
			}
			isEntryTotal := func(v ssa.Value) bool {
				if r, ok := c14fieldLoadOf(v, x.fTotal); ok && r == sv {
					return true
				}
				if la := c14lenArg(v); la != nil {
					r, ok := c14fieldLoadOf(la, x.fChunks)
					return ok && r == sv
				}
				return false
			}
			return (isEntryTotal(a) && c14canon(b) == *declared) || (isEntryTotal(b) && c14canon(a) == *declared)
		}
		if !srcGuarded(s.from, s.to, agree) {
			return false
		}
	}
	return true
}

// freshCopy: the stored slice is freshly allocated with the length of, and
// filled from, its source before the store.
func (x *c14ctx) freshCopy(v ssa.Value, at ssa.Instruction, depth int) (bool, string) {
	v = c14strip(resolve(v))
	switch w := v.(type) {
	case *ssa.MakeSlice:
		var cp *ssa.Call
		for _, r := range *w.Referrers() {
			if call, ok := r.(*ssa.Call); ok && isBuiltinCall(call, "copy") && c14strip(call.Call.Args[0]) == ssa.Value(w) && dominates(call, at) {
				cp = call
			}
		}
		if cp == nil {
			return false, "the stored chunk is allocated but never filled by copy() before the store"
		}
		src := cp.Call.Args[1]
		la := c14lenArg(w.Len)
		if la == nil || !c14same(la, src) {
			return false, "the stored chunk is not allocated with len(payload) of the payload copied into it (truncated or zero-padded chunk)"
		}
		return true, ""
	case *ssa.Call:
		if calleeIs(w, "bytes", "Clone") || calleeIs(w, "slices", "Clone") {
			return true, ""
		}
		if isBuiltinCall(w, "append") && len(w.Call.Args) == 2 && (isNilConst(w.Call.Args[0])) {
			return true, ""
		}
	case *ssa.Parameter:
		fn := w.Parent()
		idx := -1
		for i, q := range fn.Params {
			if q == w {
				idx = i
			}
		}
		cs := x.la.callers[fn]
		if depth < 2 && idx >= 0 && len(cs) > 0 && !x.la.escaped[fn] {
			for _, call := range cs {
				if ok, _ := x.freshCopy(call.Common().Args[idx], call.(ssa.Instruction), depth+1); !ok {
					return false, "the slice stored in the slot is the caller's buffer (a sub-slice of the shared read buffer), not a copy"
				}
			}
			return true, ""
		}
		return false, "the slice stored in the slot is the caller's buffer (a sub-slice of the shared read buffer), not a copy"
	}
	return false, "the slice stored in the slot is not a fresh copy of the payload"
}

// ---------------------------------------------------------------------------
// K6: tiny interval evaluator and linear normaliser

type c14iv struct {
	lo, hi int64
	ok     bool
}

func c14join(a, b c14iv) c14iv {
	if !a.ok || !b.ok {
		return c14iv{}
	}
	if b.lo < a.lo {
		a.lo = b.lo
	}
	if b.hi > a.hi {
		a.hi = b.hi
	}
	return a
}

func c14ival(v ssa.Value, env map[ssa.Value]c14iv, depth int) c14iv {
	v = c14strip(v)
	if iv, ok := env[v]; ok {
		return iv
	}
	if k, ok := constInt(v); ok {
		return c14iv{k, k, true}
	}
	if depth > 4 {
		return c14iv{}
	}
	switch w := v.(type) {
	case *ssa.BinOp:
		a, b := c14ival(w.X, env, depth), c14ival(w.Y, env, depth)
		if !a.ok || !b.ok {
			return c14iv{}
		}
		switch w.Op {
		case token.ADD:
			return c14iv{a.lo + b.lo, a.hi + b.hi, true}
		case token.SUB:
			return c14iv{a.lo - b.hi, a.hi - b.lo, true}
		case token.REM:
			if b.lo >= 1 && a.lo >= 0 {
				return c14iv{0, b.hi - 1, true}
			}
			if b.lo >= 1 {
				// unsigned operand of unknown size
				return c14iv{0, b.hi - 1, true}
			}
		case token.MUL:
			if a.lo >= 0 && b.lo >= 0 {
				return c14iv{a.lo * b.lo, a.hi * b.hi, true}
			}
		}
	case *ssa.Call:
		if isBuiltinCall(w, "max") || isBuiltinCall(w, "min") {
			return c14iv{}
		}
		callee := staticCallee(w)
		if callee == nil || len(callee.Blocks) == 0 || callee.Signature.Results().Len() != 1 {
			return c14iv{}
		}
		env2 := map[ssa.Value]c14iv{}
		for i, prm := range callee.Params {
			if i < len(w.Call.Args) {
				if iv := c14ival(w.Call.Args[i], env, depth+1); iv.ok {
					env2[prm] = iv
				}
			}
		}
		var res c14iv
		first := true
		bad := false
		allInstrs(callee, func(in ssa.Instruction) {
			r, ok := in.(*ssa.Return)
			if !ok {
				return
			}
			rv := retResults(r)
			if len(rv) != 1 {
				bad = true
				return
			}
			iv := c14ivalRem(rv[0], env2, depth+1)
			if first {
				res, first = iv, false
			} else {
				res = c14join(res, iv)
			}
		})
		if bad || first {
			return c14iv{}
		}
		return res
	}
	return c14iv{}
}

// c14ivalRem: like c14ival but `x % n` needs only n's interval.
func c14ivalRem(v ssa.Value, env map[ssa.Value]c14iv, depth int) c14iv {
	if b, ok := c14strip(v).(*ssa.BinOp); ok && b.Op == token.REM {
		if n := c14ival(b.Y, env, depth); n.ok && n.lo >= 1 {
			return c14iv{0, n.hi - 1, true}
		}
	}
	return c14ival(v, env, depth)
}

type c14lin struct {
	k int64
	t map[c14ref]int64
}

func c14linOf(v ssa.Value) c14lin {
	out := c14lin{t: map[c14ref]int64{}}
	var add func(v ssa.Value, sign int64, depth int)
	add = func(v ssa.Value, sign int64, depth int) {
		v = c14strip(v)
		if k, ok := constInt(v); ok {
			out.k += sign * k
			return
		}
		if b, ok := v.(*ssa.BinOp); ok && depth < 16 {
			switch b.Op {
			case token.ADD:
				add(b.X, sign, depth+1)
				add(b.Y, sign, depth+1)
				return
			case token.SUB:
				add(b.X, sign, depth+1)
				add(b.Y, -sign, depth+1)
				return
			case token.MUL:
				if k, ok := constInt(b.X); ok {
					add(b.Y, sign*k, depth+1)
					return
				}
				if k, ok := constInt(b.Y); ok {
					add(b.X, sign*k, depth+1)
					return
				}
			}
		}
		if la := c14lenArg(v); la != nil {
			r := c14canon(la)
			r.path = "len(" + r.path + ")"
			out.t[r] += sign
			return
		}
		out.t[c14canon(v)] += sign
	}
	add(v, 1, 0)
	for k, n := range out.t {
		if n == 0 {
			delete(out.t, k)
		}
	}
	return out
}

func (a c14lin) plus(b c14lin, sign int64) c14lin {
	o := c14lin{k: a.k + sign*b.k, t: map[c14ref]int64{}}
	for k, n := range a.t {
		o.t[k] += n
	}
	for k, n := range b.t {
		o.t[k] += sign * n
	}
	for k, n := range o.t {
		if n == 0 {
			delete(o.t, k)
		}
	}
	return o
}

func (a c14lin) eq(b c14lin) bool {
	d := a.plus(b, -1)
	return d.k == 0 && len(d.t) == 0
}

func (a c14lin) String() string {
	var parts []string
	for k, n := range a.t {
		name := k.root.Name()
		if k.path != "" {
			name += "." + k.path
		}
		parts = append(parts, fmt.Sprintf("%+d*%s", n, name))
	}
	sort.Strings(parts)
	return strings.Join(parts, "") + fmt.Sprintf("%+d", a.k)
}

// ---------------------------------------------------------------------------
// R6 sender / header-bit dispatch

// c14topBit: the edge decides bit 0x80 of byte 0 of a buffer accepted by isBuf;
// returns whether the bit is set on the edge.
func c14topBit(cond ssa.Value, pol bool, isBuf func(ssa.Value) bool) (set bool, ok bool) {
	return c14topBitD(cond, pol, isBuf, 0)
}

func c14topBitD(cond ssa.Value, pol bool, isBuf0 func(ssa.Value) bool, depth int) (set bool, ok bool) {
	// byte 0 of buf[:n] is byte 0 of buf
	isBuf := func(v ssa.Value) bool {
		if isBuf0(v) {
			return true
		}
		sl, ok := c14strip(v).(*ssa.Slice)
		return ok && sl.Low == nil && isBuf0(sl.X)
	}
	isByte0 := func(v ssa.Value) bool {
		u, ok := c14strip(v).(*ssa.UnOp)
		if !ok || u.Op != token.MUL {
			return false
		}
		ia, ok := u.X.(*ssa.IndexAddr)
		return ok && isConstInt(ia.Index, 0) && isBuf(ia.X)
	}
	isMasked := func(v ssa.Value) bool {
		b, ok := c14strip(v).(*ssa.BinOp)
		if !ok || b.Op != token.AND {
			return false
		}
		return (isConstInt(b.Y, 0x80) && isByte0(b.X)) || (isConstInt(b.X, 0x80) && isByte0(b.Y))
	}
	if op, k, ok := c14relConst(cond, pol, isMasked); ok {
		switch {
		case op == token.NEQ && k == 0, op == token.EQL && k == 0x80, op == token.GTR && k == 0:
			return true, true
		case op == token.EQL && k == 0, op == token.NEQ && k == 0x80:
			return false, true
		}
	}
	if op, k, ok := c14relConst(cond, pol, isByte0); ok {
		switch {
		case op == token.GEQ && k == 0x80, op == token.GTR && k == 0x7f:
			return true, true
		case op == token.LSS && k == 0x80, op == token.LEQ && k == 0x7f:
			return false, true
		}
	}
	// predicate helper: isLongHeader(buf) / isShortHeader(buf) whose result
	// `pol` implies the bit set (or clear) on every return
	if call, isCall := c14strip(cond).(*ssa.Call); isCall && depth < 2 {
		F := staticCallee(call)
		if F == nil || len(F.Blocks) == 0 || F.Signature.Results().Len() != 1 {
			return false, false
		}
		var prm *ssa.Parameter
		for i, a := range call.Call.Args {
			if i < len(F.Params) && isBuf(a) {
				prm = F.Params[i]
			}
		}
		if prm == nil {
			return false, false
		}
		isP := func(v ssa.Value) bool { return c14strip(resolve(v)) == ssa.Value(prm) }
		implies := func(wantSet bool) bool {
			okAll, n := true, 0
			allInstrs(F, func(in ssa.Instruction) {
				r, isRet := in.(*ssa.Return)
				if !isRet {
					return
				}
				res := retResults(r)
				if len(res) != 1 {
					okAll = false
					return
				}
				n++
				switch {
				case isConstBool(res[0], !pol):
				case isConstBool(res[0], pol):
					g := func(c ssa.Value, pp bool) bool {
						s, ok := c14topBitD(c, pp, isP, depth+1)
						return ok && s == wantSet
					}
					if !guardedBy(r, g) {
						okAll = false
					}
				default:
					v, vp := stripNot(res[0], pol)
					if s, ok := c14topBitD(v, vp, isP, depth+1); !ok || s != wantSet {
						okAll = false
					}
				}
			})
			return okAll && n > 0
		}
		if implies(true) {
			return true, true
		}
		if implies(false) {
			return false, true
		}
	}
	return false, false
}

// totalAccepted: for every value t of the header's declared total, whether the
// success return (last result nil) of a frame encoder / decoder is reachable
// when every comparison of the total with a constant is decided for t and every
// other condition may go either way.  Looks through boolean / error-returning
// validation helpers, phi conditions (`a && b` used as a value), switch chains
// and inverted tests.  ok is false when no value or every value is accepted
// (no range can be derived).
func (x *c14ctx) totalAccepted(fn *ssa.Function, fTotal *types.Var) (acc [256]bool, ok bool) {
	e := &c14totEval{x: x, fTotal: fTotal, totVals: map[ssa.Value]bool{}}
	for _, fr := range fieldRefs(x.fns, fTotal) {
		if fr.Kind == "store" && fr.Val != nil {
			if _, isC := fr.Val.(*ssa.Const); !isC {
				e.totVals[c14strip(fr.Val)] = true
			}
		}
	}
	n := 0
	for t := 0; t < len(acc); t++ {
		e.t = int64(t)
		acc[t] = e.outcome(fn, -1, 0)&1 != 0
		if acc[t] {
			n++
		}
	}
	return acc, n > 0 && n < len(acc)
}

// c14totEval: outcome masks have bit 1 = "true / nil possible", bit 2 =
// "false / non-nil possible".
type c14totEval struct {
	x       *c14ctx
	fTotal  *types.Var
	totVals map[ssa.Value]bool
	t       int64
}

func c14swapMask(m uint8) uint8 { return (m&1)<<1 | (m&2)>>1 }

func (e *c14totEval) intOf(v ssa.Value) (int64, bool) {
	v = c14strip(v)
	if k, ok := constInt(v); ok {
		return k, true
	}
	if e.totVals[v] {
		return e.t, true
	}
	if _, ok := c14fieldLoadOf(v, e.fTotal); ok {
		return e.t, true
	}
	return 0, false
}

func (e *c14totEval) calleeOutcome(v ssa.Value, depth int) uint8 {
	idx := 0
	v = c14strip(v)
	if ex, ok := v.(*ssa.Extract); ok {
		idx, v = ex.Index, ex.Tuple
	}
	call, ok := v.(*ssa.Call)
	if !ok {
		return 3
	}
	callee := staticCallee(call)
	if callee == nil || len(callee.Blocks) == 0 || !e.x.p.IsRepoFn(callee) {
		return 3
	}
	return e.outcome(callee, idx, depth+1)
}

// cond: possible truth values of a boolean value evaluated in block cur
// entered from block from (nil = unknown).
func (e *c14totEval) cond(v ssa.Value, cur, from *ssa.BasicBlock, depth int) uint8 {
	if depth > 8 {
		return 3
	}
	switch w := v.(type) {
	case *ssa.Const:
		if isConstBool(w, true) {
			return 1
		}
		if isConstBool(w, false) {
			return 2
		}
	case *ssa.UnOp:
		if w.Op == token.NOT {
			return c14swapMask(e.cond(w.X, cur, from, depth+1))
		}
	case *ssa.BinOp:
		switch w.Op {
		case token.LSS, token.LEQ, token.GTR, token.GEQ, token.EQL, token.NEQ:
		default:
			return 3
		}
		if xv, isNil, ok := nilTest(w, true); ok {
			m := e.calleeOutcome(xv, depth)
			if !isNil {
				m = c14swapMask(m)
			}
			return m
		}
		if w.Op == token.EQL || w.Op == token.NEQ {
			for _, pr := range [][2]ssa.Value{{w.X, w.Y}, {w.Y, w.X}} {
				want := uint8(0)
				if isConstBool(pr[1], true) {
					want = 1
				} else if isConstBool(pr[1], false) {
					want = 2
				}
				if want == 0 {
					continue
				}
				m := e.cond(pr[0], cur, from, depth+1)
				if (want == 2) != (w.Op == token.NEQ) {
					m = c14swapMask(m)
				}
				return m
			}
		}
		a, okA := e.intOf(w.X)
		b, okB := e.intOf(w.Y)
		if !okA || !okB {
			return 3
		}
		var r bool
		switch w.Op {
		case token.LSS:
			r = a < b
		case token.LEQ:
			r = a <= b
		case token.GTR:
			r = a > b
		case token.GEQ:
			r = a >= b
		case token.EQL:
			r = a == b
		case token.NEQ:
			r = a != b
		}
		if r {
			return 1
		}
		return 2
	case *ssa.Phi:
		var m uint8
		for i, ed := range w.Edges {
			if w.Block() == cur && from != nil && w.Block().Preds[i] != from {
				continue
			}
			m |= e.cond(ed, w.Block().Preds[i], nil, depth+1)
		}
		if m == 0 {
			return 3
		}
		return m
	case *ssa.Call, *ssa.Extract:
		if b, ok := v.Type().Underlying().(*types.Basic); ok && b.Info()&types.IsBoolean != 0 {
			return e.calleeOutcome(v, depth)
		}
	}
	return 3
}

// outcome: possible classes of result idx (-1 = last) of fn.
func (e *c14totEval) outcome(fn *ssa.Function, idx int, depth int) uint8 {
	if depth > 3 || len(fn.Blocks) == 0 {
		return 3
	}
	type st struct{ b, from *ssa.BasicBlock }
	seen := map[st]bool{}
	var mask uint8
	var walk func(b, from *ssa.BasicBlock)
	walk = func(b, from *ssa.BasicBlock) {
		if seen[st{b, from}] || len(b.Instrs) == 0 {
			return
		}
		seen[st{b, from}] = true
		switch last := b.Instrs[len(b.Instrs)-1].(type) {
		case *ssa.Return:
			res := retResults(last)
			i := idx
			if i < 0 {
				i = len(res) - 1
			}
			if i < 0 || i >= len(res) {
				mask = 3
				return
			}
			mask |= e.classify(res[i], b, from, depth)
		case *ssa.If:
			m := e.cond(last.Cond, b, from, depth)
			if m&1 != 0 {
				walk(b.Succs[0], b)
			}
			if m&2 != 0 {
				walk(b.Succs[1], b)
			}
		default:
			for _, s := range b.Succs {
				walk(s, b)
			}
		}
	}
	walk(fn.Blocks[0], nil)
	return mask
}

func (e *c14totEval) classify(v ssa.Value, b, from *ssa.BasicBlock, depth int) uint8 {
	if depth > 8 {
		return 3
	}
	if bt, ok := v.Type().Underlying().(*types.Basic); ok && bt.Info()&types.IsBoolean != 0 {
		return e.cond(v, b, from, depth+1)
	}
	if isNilConst(v) {
		return 1
	}
	switch w := v.(type) {
	case *ssa.MakeInterface:
		return 2
	case *ssa.UnOp:
		if _, isGlobal := w.X.(*ssa.Global); isGlobal && w.Op == token.MUL {
			return 2 // package-level error value
		}
	case *ssa.Call:
		if calleeIs(w, "errors", "New") || calleeIs(w, "fmt", "Errorf") {
			return 2
		}
		return e.calleeOutcome(w, depth)
	case *ssa.Extract:
		return e.calleeOutcome(w, depth)
	case *ssa.Phi:
		var m uint8
		for i, ed := range w.Edges {
			if w.Block() == b && from != nil && w.Block().Preds[i] != from {
				continue
			}
			m |= e.classify(ed, w.Block().Preds[i], nil, depth+1)
		}
		if m != 0 {
			return m
		}
	}
	return 3
}

// ---------------------------------------------------------------------------
// R6 anchors, resolved by role (signature, data flow, use); declared names are
// only a fallback, a missing anchor is Unres.

type c14r6a struct {
	enc, dec, writeFn, readFn           *ssa.Function
	hdrT                                *types.Named
	fTotal, fIdx, fID, fPad, fMin, fMax *types.Var
	saltLen, hdrLen                     int64
	argHdr, argPayload, argOut          int // positions in the encoder's parameter list
}

func c14isErrorType(t types.Type) bool {
	return types.Identical(t, types.Universe.Lookup("error").Type())
}

// c14names: declared-name fallbacks are enabled (HV_C14_NONAMES=1 switches them
// off to test that the anchors resolve by role alone).
func c14names() bool { return os.Getenv("HV_C14_NONAMES") == "" }

// c14fieldNamed: fallback lookup of a field by its declared name.
func c14fieldNamed(n *types.Named, name string) *types.Var {
	if !c14names() {
		return nil
	}
	return c14fieldByPath(n, name)
}

// c14fieldByPath: the field a canonical one-element path refers to.
func c14fieldByPath(n *types.Named, name string) *types.Var {
	if n == nil {
		return nil
	}
	st, ok := n.Underlying().(*types.Struct)
	if !ok {
		return nil
	}
	for i := 0; i < st.NumFields(); i++ {
		if st.Field(i).Name() == name {
			return st.Field(i)
		}
	}
	return nil
}

func c14isInteger(t types.Type) bool {
	b, ok := t.Underlying().(*types.Basic)
	return ok && b.Info()&types.IsInteger != 0
}

func (x *c14ctx) r6anchors(tab *c14mapUse) *c14r6a {
	c, p := x.c, x.p
	a := &c14r6a{argHdr: 0, argPayload: 1, argOut: 2}
	a.writeFn = p.MethodOf(types.NewPointer(x.connT), "WriteTo")
	a.readFn = p.MethodOf(types.NewPointer(x.connT), "ReadFrom")

	// ---- frame codec by signature: decode([]byte) (H, []byte, error), encode(H, []byte, []byte) (int, error)
	hdrOf := func(t types.Type) *types.Named {
		n := namedOf(t)
		if n == nil || n.Obj().Pkg() == nil || n.Obj().Pkg().Path() != pObfs || n == x.connT || n == x.entryT || n == x.keyT {
			return nil
		}
		if _, ok := n.Underlying().(*types.Struct); !ok {
			return nil
		}
		return n
	}
	nBytes := func(fn *ssa.Function) int {
		n := 0
		for _, prm := range fn.Params {
			if c14isByteSlice(prm.Type()) {
				n++
			}
		}
		return n
	}
	var decs []*ssa.Function
	for _, fn := range x.fns {
		res := fn.Signature.Results()
		if fn.Parent() == nil && res.Len() == 3 && hdrOf(res.At(0).Type()) != nil && c14isByteSlice(res.At(1).Type()) && c14isErrorType(res.At(2).Type()) && nBytes(fn) >= 1 {
			decs = append(decs, fn)
		}
	}
	if len(decs) == 1 {
		a.dec, a.hdrT = decs[0], hdrOf(decs[0].Signature.Results().At(0).Type())
	} else if c14names() {
		a.dec, a.hdrT = p.Fn(pObfs, "decodeFrame"), p.Named(pObfs, "frameHeader")
	}
	if a.hdrT != nil {
		var encs []*ssa.Function
		for _, fn := range x.fns {
			res := fn.Signature.Results()
			if fn.Parent() != nil || res.Len() != 2 || !c14isInteger(res.At(0).Type()) || !c14isErrorType(res.At(1).Type()) || nBytes(fn) != 2 {
				continue
			}
			nh := 0
			for _, prm := range fn.Params {
				if namedOf(prm.Type()) == a.hdrT {
					nh++
				}
			}
			if nh == 1 {
				encs = append(encs, fn)
			}
		}
		if len(encs) == 1 {
			a.enc = encs[0]
		} else if c14names() {
			a.enc = p.Fn(pObfs, "encodeFrame")
		}
	}
	var miss []string
	need := func(ok bool, what string) {
		if !ok {
			miss = append(miss, what)
		}
	}
	need(a.writeFn != nil && a.readFn != nil, "(*"+x.connT.Obj().Name()+").WriteTo/ReadFrom")
	need(a.dec != nil && a.hdrT != nil, "frame decoder func([]byte) (header, []byte, error)")
	need(a.enc != nil, "frame encoder func(header, payload, out []byte) (int, error)")
	if len(miss) > 0 {
		c.Unres("obfs: " + strings.Join(miss, "; "))
		return nil
	}
	hdrField := func(r c14ref) *types.Var {
		if !r.valid() || r.path == "" || namedOf(r.root.Type()) != a.hdrT {
			return nil
		}
		return c14fieldByPath(a.hdrT, r.path)
	}
	// hdrFields: like hdrField, looking through helper parameters (the value is
	// a header field at every call site), two levels.
	var hdrFields func(r c14ref, depth int) []*types.Var
	hdrFields = func(r c14ref, depth int) []*types.Var {
		if f := hdrField(r); f != nil {
			return []*types.Var{f}
		}
		prm, ok := r.root.(*ssa.Parameter)
		if !ok || r.deref || r.path != "" || depth >= 2 || prm.Parent() == nil || x.la.escaped[prm.Parent()] {
			return nil
		}
		fn := prm.Parent()
		idx := -1
		for i, q := range fn.Params {
			if q == prm {
				idx = i
			}
		}
		var out []*types.Var
		for _, cs := range x.la.callers[fn] {
			if args := cs.Common().Args; idx >= 0 && idx < len(args) {
				out = append(out, hdrFields(c14canon(args[idx]), depth+1)...)
			}
		}
		return out
	}
	addAll := func(set map[*types.Var]bool, fs []*types.Var) {
		for _, f := range fs {
			set[f] = true
		}
	}
	one := func(set map[*types.Var]bool) *types.Var {
		var f *types.Var
		for k := range set {
			if k == nil {
				continue
			}
			if f != nil {
				return nil
			}
			f = k
		}
		return f
	}

	// ---- encoder: parameter roles, header size and the padding field from
	// the success result  n = headerSize + h.pad + len(payload)
	{
		pads, ks, pays := map[*types.Var]bool{}, map[int64]bool{}, map[int]bool{}
		shape := true
		nSucc := 0
		allInstrs(a.enc, func(in ssa.Instruction) {
			r, ok := in.(*ssa.Return)
			if !ok {
				return
			}
			res := retResults(r)
			if len(res) != 2 || !isNilConst(res[1]) {
				return
			}
			nSucc++
			L := c14linOf(res[0])
			for atom, coef := range L.t {
				switch {
				case coef == 1 && atom.path == "len()" && !atom.deref:
					found := false
					for i, prm := range a.enc.Params {
						if atom.root == ssa.Value(prm) && c14isByteSlice(prm.Type()) {
							pays[i], found = true, true
						}
					}
					if !found {
						shape = false
					}
				case coef == 1 && hdrField(atom) != nil:
					pads[hdrField(atom)] = true
				default:
					shape = false
				}
			}
			ks[L.k] = true
		})
		if shape && nSucc > 0 && len(pads) == 1 && len(ks) == 1 && len(pays) == 1 {
			a.fPad = one(pads)
			for k := range ks {
				a.hdrLen = k
			}
			for i := range pays {
				a.argPayload = i
			}
			for i, prm := range a.enc.Params {
				if namedOf(prm.Type()) == a.hdrT {
					a.argHdr = i
				} else if c14isByteSlice(prm.Type()) && i != a.argPayload {
					a.argOut = i
				}
			}
		} else {
			a.fPad = c14fieldNamed(a.hdrT, "padLen")
			if k, ok := c14constVal(p, pObfs, "geckoHeaderSize"); ok && c14names() {
				a.hdrLen = k
			}
			if len(a.enc.Params) != 3 || namedOf(a.enc.Params[0].Type()) != a.hdrT || !c14isByteSlice(a.enc.Params[1].Type()) || !c14isByteSlice(a.enc.Params[2].Type()) {
				miss = append(miss, "roles of the frame encoder's parameters (header, payload, out)")
			}
		}
	}

	// ---- receiving side: which header field keys the message, sizes the slot
	// array / is recorded as the entry's total, indexes the slot
	{
		totals, idxs, ids := map[*types.Var]bool{}, map[*types.Var]bool{}, map[*types.Var]bool{}
		for _, op := range tab.writes("update") {
			al := c14entryAlloc(op.instr.(*ssa.MapUpdate).Value)
			if al == nil {
				continue
			}
			_, fields, _ := c14allocInfo(al)
			for _, v := range fields[x.fTotal] {
				addAll(totals, hdrFields(c14canon(v), 0))
			}
			for _, v := range fields[x.fChunks] {
				if mk, ok := c14strip(v).(*ssa.MakeSlice); ok {
					addAll(totals, hdrFields(c14canon(mk.Len), 0))
				}
			}
		}
		for _, cs := range x.chunkStores() {
			addAll(idxs, hdrFields(cs.idx, 0))
		}
		var keyID *types.Var
		kst := x.keyT.Underlying().(*types.Struct)
		for i := 0; i < kst.NumFields(); i++ {
			if f := kst.Field(i); f != x.fKeyAddr {
				if keyID != nil {
					keyID = nil
					break
				}
				keyID = f
			}
		}
		if keyID != nil {
			for _, op := range tab.ops {
				switch y := op.instr.(type) {
				case *ssa.Lookup:
					addAll(ids, hdrFields(c14canonP(y.Index, []*types.Var{keyID}), 0))
				case *ssa.MapUpdate:
					addAll(ids, hdrFields(c14canonP(y.Key, []*types.Var{keyID}), 0))
				}
			}
		}
		a.fTotal, a.fIdx, a.fID = one(totals), one(idxs), one(ids)
		if a.fTotal == nil {
			a.fTotal = c14fieldNamed(a.hdrT, "totalChunks")
		}
		if a.fIdx == nil {
			a.fIdx = c14fieldNamed(a.hdrT, "chunkIdx")
		}
		if a.fID == nil {
			a.fID = c14fieldNamed(a.hdrT, "msgID")
		}
	}
	need(a.fPad != nil && a.hdrLen > 0, "header size and padding field of the frame header (encoder result = size + pad + len(payload))")
	need(a.fTotal != nil, "header field holding the declared chunk count")
	need(a.fIdx != nil, "header field holding the chunk index")
	need(a.fID != nil, "header field holding the message id")
	if a.fTotal != nil && a.fIdx != nil && a.fID != nil && a.fPad != nil {
		distinct := map[*types.Var]bool{a.fTotal: true, a.fIdx: true, a.fID: true, a.fPad: true}
		need(len(distinct) == 4, "four distinct header fields (total, index, id, pad)")
	}

	// ---- configured size range: the two integer fields of the connection,
	// ordered by the `a <= b` guard in front of the constructor's stores
	a.fMin, a.fMax = x.sizeRangeFields()
	need(a.fMin != nil && a.fMax != nil, "minimum / maximum packet size fields of "+x.connT.Obj().Name())

	// ---- overhead of the inner obfuscation layer: Obfuscate(in, out) returns len(in) + salt
	if k, ok := x.innerOverhead(); ok {
		a.saltLen = k
	} else if k, ok := c14constVal(p, pObfs, "smSaltLen"); ok && c14names() {
		a.saltLen = k
	} else {
		need(false, "per-datagram overhead of the inner obfuscator (method (in, out []byte) int returning len(in)+k)")
	}
	if len(miss) > 0 {
		c.Unres("obfs: " + strings.Join(miss, "; "))
		return nil
	}
	if os.Getenv("HV_C14_DEBUG") != "" {
		fmt.Fprintf(os.Stderr, "c14 anchors: enc=%s dec=%s hdr=%s total=%s idx=%s id=%s pad=%s min=%s max=%s salt=%d hdrLen=%d args=%d,%d,%d mu=%s readMu=%s received=%s etotal=%s\n",
			fnName(a.enc), fnName(a.dec), a.hdrT.Obj().Name(), a.fTotal.Name(), a.fIdx.Name(), a.fID.Name(), a.fPad.Name(), a.fMin.Name(), a.fMax.Name(), a.saltLen, a.hdrLen,
			a.argHdr, a.argPayload, a.argOut, x.fMu.Name(), x.fReadMu.Name(), x.fReceived.Name(), x.fTotal.Name())
	}
	return a
}

// sizeRangeFields: the connection's two integer fields; the one whose stored
// value is known <= the other's before the stores (in the constructor or at
// its call sites) is the minimum.
func (x *c14ctx) sizeRangeFields() (fMin, fMax *types.Var) {
	cst := x.connT.Underlying().(*types.Struct)
	var ints []*types.Var
	for i := 0; i < cst.NumFields(); i++ {
		if f := cst.Field(i); c14isInteger(f.Type()) {
			ints = append(ints, f)
		}
	}
	byName := func() (*types.Var, *types.Var) {
		if !c14names() {
			return nil, nil
		}
		lo, hi := c14fieldNamed(x.connT, "minPkt"), c14fieldNamed(x.connT, "maxPkt")
		if lo != nil && hi != nil {
			return lo, hi
		}
		lo, hi = nil, nil
		for _, f := range ints {
			n := strings.ToLower(f.Name())
			switch {
			case strings.Contains(n, "min"):
				if lo != nil {
					return nil, nil
				}
				lo = f
			case strings.Contains(n, "max"):
				if hi != nil {
					return nil, nil
				}
				hi = f
			}
		}
		return lo, hi
	}
	if len(ints) != 2 {
		return byName()
	}
	A, B := ints[0], ints[1]
	le := func(u, v ssa.Value) EdgePred {
		return func(cond ssa.Value, pol bool) bool {
			l, r, op, ok := c14rel(cond, pol)
			if !ok {
				return false
			}
			l, r = c14strip(l), c14strip(r)
			switch op {
			case token.LEQ, token.LSS:
				return l == u && r == v
			case token.GEQ, token.GTR:
				return l == v && r == u
			}
			return false
		}
	}
	// order: +1 u <= v known at `at`, -1 v <= u known, 0 unknown, 2 contradictory
	var order func(u, v ssa.Value, at ssa.Instruction, depth int) int
	order = func(u, v ssa.Value, at ssa.Instruction, depth int) int {
		u, v = c14strip(resolve(u)), c14strip(resolve(v))
		if guardedBy(at, le(u, v)) {
			return +1
		}
		if guardedBy(at, le(v, u)) {
			return -1
		}
		fn := at.Parent()
		pu, okU := u.(*ssa.Parameter)
		pv, okV := v.(*ssa.Parameter)
		if !okU || !okV || depth >= 2 || x.la.escaped[fn] {
			return 0
		}
		iu, iv := -1, -1
		for i, prm := range fn.Params {
			if prm == pu {
				iu = i
			}
			if prm == pv {
				iv = i
			}
		}
		if iu < 0 || iv < 0 {
			return 0
		}
		res := 0
		for _, cs := range x.la.callers[fn] {
			args := cs.Common().Args
			if iu >= len(args) || iv >= len(args) {
				continue
			}
			o := order(args[iu], args[iv], cs.(ssa.Instruction), depth+1)
			switch {
			case o == 0:
			case res == 0:
				res = o
			case res != o:
				return 2
			}
		}
		return res
	}
	verdict := 0
	for _, sa := range fieldRefs(x.fns, A) {
		if sa.Kind != "store" {
			continue
		}
		for _, sb := range fieldRefs([]*ssa.Function{sa.Fn}, B) {
			if sb.Kind != "store" {
				continue
			}
			o := order(sa.Val, sb.Val, sa.Instr, 0)
			switch {
			case o == 0:
			case verdict == 0:
				verdict = o
			case verdict != o:
				verdict = 2
			}
		}
	}
	switch verdict {
	case +1:
		return A, B
	case -1:
		return B, A
	}
	return byName()
}

// innerOverhead: the k > 0 of the obfs package's methods (in, out []byte) int
// whose non-zero results are all len(in) + k (the salt the inner Salamander
// layer prepends to every datagram Gecko emits).
func (x *c14ctx) innerOverhead() (int64, bool) {
	ks := map[int64]bool{}
	for _, fn := range x.fns {
		sig := fn.Signature
		if fn.Parent() != nil || sig.Recv() == nil || namedOf(sig.Recv().Type()) == x.connT || sig.Params().Len() != 2 || sig.Results().Len() != 1 ||
			!c14isByteSlice(sig.Params().At(0).Type()) || !c14isByteSlice(sig.Params().At(1).Type()) || !c14isInteger(sig.Results().At(0).Type()) || len(fn.Params) != 3 {
			continue
		}
		in := fn.Params[1]
		want := c14canon(in)
		want.path = "len()"
		shape, n := true, 0
		var k int64
		allInstrs(fn, func(y ssa.Instruction) {
			r, ok := y.(*ssa.Return)
			if !ok {
				return
			}
			res := retResults(r)
			if len(res) != 1 {
				shape = false
				return
			}
			if isConstInt(res[0], 0) {
				return
			}
			L := c14linOf(res[0])
			if len(L.t) != 1 || L.t[want] != 1 || (n > 0 && L.k != k) {
				shape = false
				return
			}
			k = L.k
			n++
		})
		if shape && n > 0 && k > 0 {
			ks[k] = true
		}
	}
	if len(ks) != 1 {
		return 0, false
	}
	for k := range ks {
		return k, true
	}
	return 0, false
}

func c14blockReaches(from, to *ssa.BasicBlock) bool {
	seen := map[*ssa.BasicBlock]bool{}
	var walk func(b *ssa.BasicBlock) bool
	walk = func(b *ssa.BasicBlock) bool {
		for _, s := range b.Succs {
			if s == to {
				return true
			}
			if !seen[s] {
				seen[s] = true
				if walk(s) {
					return true
				}
			}
		}
		return false
	}
	return walk(from)
}

func (x *c14ctx) r6(tab *c14mapUse) {
	c, p := x.c, x.p
	const r6 = "C14.R6 long-header packets (p[0]&0x80 != 0) and only they are fragmented / reassembled, everything else passes through unchanged; chunk count within the decoder's range; one message id, the loop index and the drawn total in every frame; padding computed for the framed payload and within [lo-base, max-base]"
	a := x.r6anchors(tab)
	if a == nil {
		return
	}
	enc, dec := a.enc, a.dec
	fHdrTotal, fHdrIdx, fHdrID, fHdrPad := a.fTotal, a.fIdx, a.fID, a.fPad
	fMin, fMax := a.fMin, a.fMax
	writeFn, readFn := a.writeFn, a.readFn
	saltLen, hdrLen := a.saltLen, a.hdrLen
	for _, f := range []*ssa.Function{enc, dec, writeFn, readFn} {
		c.Saw(fnName(f))
	}
	ord := c14ord{}
	isInnerCall := func(in ssa.Instruction, method string) *ssa.Call {
		call, ok := in.(*ssa.Call)
		if !ok || !invokeIs(call, method) || !isLoadOfField(call.Call.Value, x.fInner) {
			return nil
		}
		return call
	}

	// ---- the fragmenting functions: callers of the encoder
	var frags []*ssa.Function
	for _, fn := range x.fns {
		if len(callsIn(fn, func(ci ssa.CallInstruction) bool { return staticCallee(ci) == enc })) > 0 {
			frags = append(frags, fn)
		}
	}
	c.Floor("C14.R6:fragmenter", len(frags), 1)
	// isFrag: the function frames chunks itself or through a package helper
	// (sendChunk(...) extracted from the loop body), two levels
	var reachesEnc func(f *ssa.Function, depth int) bool
	reachesEnc = func(f *ssa.Function, depth int) bool {
		for _, g := range frags {
			if g == f {
				return true
			}
		}
		if depth >= 2 || f == nil {
			return false
		}
		found := false
		allInstrs(f, func(in ssa.Instruction) {
			if call, ok := in.(*ssa.Call); ok && !found {
				if cal := staticCallee(call); cal != nil && cal != f && len(cal.Blocks) > 0 {
					if pk := fnPkg(cal); pk != nil && pk.Pkg.Path() == pObfs && reachesEnc(cal, depth+1) {
						found = true
					}
				}
			}
		})
		return found
	}
	isFrag := func(f *ssa.Function) bool { return f != writeFn && reachesEnc(f, 0) }

	// ---- WriteTo dispatch
	{
		pBuf := func(v ssa.Value) bool {
			return len(writeFn.Params) > 1 && c14strip(resolve(v)) == ssa.Value(writeFn.Params[1])
		}
		long := func(cond ssa.Value, pol bool) bool { s, ok := c14topBit(cond, pol, pBuf); return ok && s }
		short := func(cond ssa.Value, pol bool) bool { s, ok := c14topBit(cond, pol, pBuf); return ok && !s }
		sameArgs := func(args []ssa.Value) bool {
			if len(args) != 2 || len(writeFn.Params) != 3 {
				return false
			}
			return c14strip(resolve(args[0])) == ssa.Value(writeFn.Params[1]) && c14strip(resolve(args[1])) == ssa.Value(writeFn.Params[2])
		}
		nF, nP := 0, 0
		allInstrs(writeFn, func(in ssa.Instruction) {
			if call, ok := in.(*ssa.Call); ok && staticCallee(call) != nil && isFrag(staticCallee(call)) {
				nF++
				c.Req(guardedBy(call, long) && sameArgs(callArgs(call)), ord.key("C14.R6:WriteTo:fragment-long-header"), r6, p.InstrPos(call),
					"fragmentation is not reached exactly over the `p[0]&0x80 != 0` edge with the caller's p and addr (a short-header packet gets framed: the peer cannot tell it from data)")
			}
			if call := isInnerCall(in, "WriteTo"); call != nil {
				nP++
				c.Req(guardedBy(call, short) && sameArgs(call.Call.Args), ord.key("C14.R6:WriteTo:passthrough-short-header"), r6, p.InstrPos(call),
					"the raw pass-through to the inner conn is not confined to the `p[0]&0x80 == 0` edge with p and addr unchanged (a long-header packet sent raw is parsed as a Gecko frame and dropped by the receiver)")
			}
		})
		c.Floor("C14.R6:WriteTo:fragment-call", nF, 1)
		c.Floor("C14.R6:WriteTo:passthrough-call", nP, 1)
	}

	// ---- ReadFrom dispatch
	{
		isBuf := func(v ssa.Value) bool { return isLoadOfField(v, x.fReadBuf) }
		long := func(cond ssa.Value, pol bool) bool { s, ok := c14topBit(cond, pol, isBuf); return ok && s }
		short := func(cond ssa.Value, pol bool) bool { s, ok := c14topBit(cond, pol, isBuf); return ok && !s }
		// the receive loop body may have been extracted: analyse the function
		// (ReadFrom itself or a package helper it calls, two levels) that reads
		// from the inner conn
		var innerRead *ssa.Call
		readBody := readFn
		{
			level := []*ssa.Function{readFn}
			seenFn := map[*ssa.Function]bool{readFn: true}
			for depth := 0; depth < 3 && innerRead == nil; depth++ {
				var next []*ssa.Function
				for _, f := range level {
					allInstrs(f, func(in ssa.Instruction) {
						if call := isInnerCall(in, "ReadFrom"); call != nil && innerRead == nil {
							innerRead, readBody = call, f
						}
						if call, ok := in.(*ssa.Call); ok {
							if cal := staticCallee(call); cal != nil && len(cal.Blocks) > 0 && !seenFn[cal] {
								if pk := fnPkg(cal); pk != nil && pk.Pkg.Path() == pObfs {
									seenFn[cal] = true
									next = append(next, cal)
								}
							}
						}
					})
				}
				level = next
			}
			if readBody != readFn {
				c.Saw(fnName(readBody))
			}
		}
		// callerP: the value is the caller's destination buffer p of ReadFrom,
		// possibly handed down through the helpers' parameters
		var callerP func(v ssa.Value, depth int) bool
		callerP = func(v ssa.Value, depth int) bool {
			v = c14strip(resolve(v))
			if v == ssa.Value(readFn.Params[1]) {
				return true
			}
			prm, ok := v.(*ssa.Parameter)
			if !ok || depth >= 2 || prm.Parent() == readFn || x.la.escaped[prm.Parent()] || len(x.la.callers[prm.Parent()]) == 0 {
				return false
			}
			idx := -1
			for i, q := range prm.Parent().Params {
				if q == prm {
					idx = i
				}
			}
			for _, cs := range x.la.callers[prm.Parent()] {
				if args := cs.Common().Args; idx < 0 || idx >= len(args) || !callerP(args[idx], depth+1) {
					return false
				}
			}
			return true
		}
		nOf := func(v ssa.Value) bool {
			return innerRead != nil && c14strip(resolve(v)) == extractOf(innerRead, 0)
		}
		rawSlice := func(v ssa.Value) bool {
			s, ok := c14strip(v).(*ssa.Slice)
			return ok && isBuf(s.X) && s.Low == nil && s.High != nil && nOf(s.High)
		}
		nD, nRaw := 0, 0
		allInstrs(readBody, func(in ssa.Instruction) {
			call, ok := in.(*ssa.Call)
			if !ok {
				return
			}
			if staticCallee(call) == dec {
				nD++
				c.Req(guardedBy(call, long) && len(call.Call.Args) == 1 && rawSlice(call.Call.Args[0]), ord.key("C14.R6:ReadFrom:decode-long-header"), r6, p.InstrPos(call),
					"the frame decoder is not applied exactly on the `buf[0]&0x80 != 0` edge to buf[:n] of the datagram just read")
			}
			if isBuiltinCall(call, "copy") && len(call.Call.Args) == 2 {
				if s, ok := c14strip(call.Call.Args[1]).(*ssa.Slice); ok && isBuf(s.X) {
					nRaw++
					c.Req(guardedBy(call, short) && rawSlice(call.Call.Args[1]) && callerP(call.Call.Args[0], 0), ord.key("C14.R6:ReadFrom:passthrough-short-header"), r6, p.InstrPos(call),
						"raw bytes of the read buffer are handed up outside the `buf[0]&0x80 == 0` edge or not as buf[:n] (short-header packets must pass through unchanged, fragments must not leak up)")
				}
			}
		})
		c.Floor("C14.R6:ReadFrom:decode-call", nD, 1)
		c.Floor("C14.R6:ReadFrom:passthrough-copy", nRaw, 1)
	}

	// ---- chunk count range
	accD, okD := x.totalAccepted(dec, fHdrTotal)
	accE, okE := x.totalAccepted(enc, fHdrTotal)
	if !okD || !okE {
		c.Undecided("C14.R6:total-range", r6, p.Pos(dec.Pos()), "cannot derive the accepted range of totalChunks from the encoder/decoder guards")
	}

	// ---- per fragmenter
	for _, W := range frags {
		c.Saw(fnName(W))
		base := "C14.R6:" + fnName(W)
		for _, ci := range callsIn(W, func(ci ssa.CallInstruction) bool { return staticCallee(ci) == enc }) {
			E := ci.(*ssa.Call)
			hdr := E.Call.Args[a.argHdr]
			// sites: the encoder call itself, or - when the header components are
			// parameters of W (loop body extracted into a helper) - the calls of
			// W with the components substituted by the arguments, two levels
			type encSite struct {
				W       *ssa.Function
				at      *ssa.Call
				comp    func(f *types.Var) c14ref
				payload ssa.Value
				inner   *encSite
			}
			sites := []*encSite{{W: W, at: E, comp: func(f *types.Var) c14ref { return c14canonP(hdr, []*types.Var{f}) }, payload: E.Call.Args[a.argPayload]}}
			for lvl := 0; lvl < 2; lvl++ {
				var next []*encSite
				for _, st := range sites {
					st := st
					ownParam := func(r c14ref) int {
						prm, ok := r.root.(*ssa.Parameter)
						if !ok || prm.Parent() != st.W || r.deref {
							return -1
						}
						for i, q := range st.W.Params {
							if q == prm {
								return i
							}
						}
						return -1
					}
					need := false
					for _, f := range []*types.Var{fHdrIdx, fHdrTotal, fHdrID} {
						if ownParam(st.comp(f)) >= 0 {
							need = true
						}
					}
					if !need || x.la.escaped[st.W] || len(x.la.callers[st.W]) == 0 {
						next = append(next, st)
						continue
					}
					for _, cs := range x.la.callers[st.W] {
						call, ok := cs.(*ssa.Call)
						if !ok {
							continue
						}
						args := call.Call.Args
						sub := func(r c14ref, f *types.Var) c14ref {
							k := ownParam(r)
							if k < 0 || k >= len(args) {
								return r
							}
							switch {
							case r.path == "":
								return c14canon(args[k])
							case f != nil && r.path == f.Name():
								return c14canonP(args[k], []*types.Var{f})
							}
							return r
						}
						ns := &encSite{W: call.Parent(), at: call, inner: st}
						ns.comp = func(f *types.Var) c14ref { return sub(st.comp(f), f) }
						ns.payload = st.payload
						if pr := c14canon(st.payload); pr.path == "" {
							if k := ownParam(pr); k >= 0 && k < len(args) {
								ns.payload = args[k]
							}
						}
						next = append(next, ns)
					}
				}
				sites = next
			}
			for si, st := range sites {
				sbase := base
				if st.at != E {
					c.Saw(fnName(st.W))
					sbase = fmt.Sprintf("%s:via:%s", base, fnName(st.W))
					if si > 0 {
						sbase = fmt.Sprintf("%s#%d", sbase, si+1)
					}
				}
				comp := func(f *types.Var) ssa.Value { return st.comp(f).root }
				at := st.at
				// total: interval within both ranges
				T := comp(fHdrTotal)
				iv := c14ival(T, map[ssa.Value]c14iv{}, 0)
				if !iv.ok {
					c.Undecided(sbase+":chunk-count", r6, p.InstrPos(at), "cannot bound the drawn chunk count")
				} else if okD && okE {
					// accepted by encoder, decoder and the 4-bit wire field
					lo, hi := int64(-1), int64(-1)
					for t := int64(0); t <= 15; t++ {
						if accD[t] && accE[t] {
							if lo < 0 {
								lo = t
							}
							hi = t
						}
					}
					inside := iv.lo <= iv.hi
					for t := iv.lo; t <= iv.hi && inside; t++ {
						if t < 0 || t > 15 || !accD[t] || !accE[t] {
							inside = false
						}
					}
					c.Req(inside, sbase+":chunk-count", r6, p.InstrPos(at),
						fmt.Sprintf("the sender draws a chunk count in [%d,%d] but encoder/decoder and the 4-bit field accept only [%d,%d] (such handshake packets are lost)", iv.lo, iv.hi, lo, hi))
				}
				// index: induction variable of the enclosing loop, bound = total
				idxV := comp(fHdrIdx)
				ph, isPhi := idxV.(*ssa.Phi)
				okIdx := false
				if isPhi && len(ph.Edges) == 2 {
					var inc *ssa.BinOp
					zero := false
					for _, e := range ph.Edges {
						if isConstInt(e, 0) {
							zero = true
						} else if b, ok := e.(*ssa.BinOp); ok && b.Op == token.ADD && b.X == ssa.Value(ph) && isConstInt(b.Y, 1) {
							inc = b
						}
					}
					if zero && inc != nil {
						for _, iv := range []ssa.Value{inc, ph} {
							for _, r := range *iv.Referrers() {
								b, ok := r.(*ssa.BinOp)
								if !ok || b.Op != token.LSS || b.X != iv || c14strip(b.Y) != c14strip(T) {
									continue
								}
								// the test controls the loop: it is the condition of a branch
								for _, rr := range *b.Referrers() {
									if _, isIf := rr.(*ssa.If); isIf {
										okIdx = true
									}
								}
							}
						}
					}
				}
				c.Req(okIdx && c14blockReaches(at.Block(), at.Block()), sbase+":index-and-total", r6, p.InstrPos(at),
					"the frames of one message do not carry chunkIdx = loop index i (0,1,..) and totalChunks = the loop bound (chunks land in wrong slots or the receiver waits for a different count)")
				// message id: not a constant, evaluated once per message
				idV := comp(fHdrID)
				idIn, isInstr := idV.(ssa.Instruction)
				_, isConst := idV.(*ssa.Const)
				okID := !isConst
				if isInstr {
					if idIn.Parent() == at.Parent() {
						okID = okID && !c14blockReaches(at.Block(), idIn.Block())
					} else {
						// drawn inside the helper: once per call of the helper
						okID = okID && !c14blockReaches(at.Block(), at.Block())
					}
				}
				c.Req(okID, sbase+":one-message-id", r6, p.InstrPos(at),
					"the message id is a constant or is re-evaluated per chunk (chunks of one packet are filed under different messages / different packets share one)")
				// padding computed for this payload
				padV := comp(fHdrPad)
				padCall, _ := padV.(*ssa.Call)
				okPad := false
				lenIdx := -1
				if padCall != nil && staticCallee(padCall) != nil {
					// the payload as seen by the function that computes the padding
					var pay ssa.Value
					for q := st; q != nil; q = q.inner {
						if q.W == padCall.Parent() {
							pay = q.payload
						}
					}
					for i, pa := range padCall.Call.Args {
						if la := c14lenArg(pa); la != nil && pay != nil && c14same(la, pay) {
							okPad = true
							lenIdx = i
						}
					}
				}
				c.Req(okPad, sbase+":pad-for-payload", r6, p.InstrPos(at),
					"the padding is not computed from len() of the payload that is framed (the last chunk is longer: datagram exceeds the maximum size)")
				if padCall != nil && staticCallee(padCall) != nil {
					x.padBound(staticCallee(padCall), lenIdx, fMin, fMax, saltLen+hdrLen, r6)
				}
			}
			// the encoded frame goes to the inner conn, to the caller's address
			out := E.Call.Args[a.argOut]
			nW := extractOf(E, 0)
			isSend := func(in ssa.Instruction) bool {
				call := isInnerCall(in, "WriteTo")
				if call == nil || len(call.Call.Args) != 2 {
					return false
				}
				s, ok := c14strip(call.Call.Args[0]).(*ssa.Slice)
				if !ok || c14strip(s.X) != c14strip(out) || s.Low != nil || s.High == nil || c14strip(s.High) != nW {
					return false
				}
				// at the caller's address: a net.Addr parameter of W (WriteTo's dispatch
				// rule checks that WriteTo hands its own addr down)
				prm, isPrm := c14strip(resolve(call.Call.Args[1])).(*ssa.Parameter)
				return isPrm && prm.Parent() == W && c14isNamed(prm.Type(), "net", "Addr")
			}
			errV := extractOf(E, 1)
			failed := func(cond ssa.Value, pol bool) bool {
				v, isNil, ok := nilTest(cond, pol)
				return ok && !isNil && errV != nil && c14strip(v) == errV
			}
			lost := false
			for _, in := range reachFrom(W, E, isSend, failed) {
				if isSend(in) {
					continue
				}
				if in == ssa.Instruction(E) {
					lost = true
				}
				if _, ok := in.(*ssa.Return); ok {
					lost = true
				}
			}
			c.Req(!lost, base+":frame-sent", r6, p.InstrPos(E),
				"an encoded frame is not written as out[:n] to the inner conn at the caller's address before the next chunk / the return (a chunk is missing: the packet never reassembles)")
		}
	}
}

func c14maxI(a, b int64) int64 {
	if a > b {
		return a
	}
	return b
}

func c14minI(a, b int64) int64 {
	if a < b {
		return a
	}
	return b
}

// c14randBound: fn(n) returns 0 or x % n, i.e. a value in [0, n-1] for n >= 1.
func c14randBound(fn *ssa.Function) bool {
	if fn == nil || len(fn.Blocks) == 0 || len(fn.Params) != 1 {
		return false
	}
	ok, n := true, 0
	allInstrs(fn, func(in ssa.Instruction) {
		r, isRet := in.(*ssa.Return)
		if !isRet {
			return
		}
		res := retResults(r)
		if len(res) != 1 {
			ok = false
			return
		}
		n++
		if isConstInt(res[0], 0) {
			return
		}
		b, isBin := c14strip(res[0]).(*ssa.BinOp)
		if !isBin || b.Op != token.REM || c14strip(b.Y) != ssa.Value(fn.Params[0]) {
			ok = false
		}
	})
	return ok && n > 0
}

// padBound: the padding function returns 0 only on the `lo > max` edge and
// otherwise (lo-base) + rnd(max-lo+1) with lo = max(min, base),
// base = salt + header + chunkLen: the datagram size base+pad lies in [lo, max].
func (x *c14ctx) padBound(PF *ssa.Function, lenIdx int, fMin, fMax *types.Var, overhead int64, rule string) {
	c, p := x.c, x.p
	if x.deleterMemo[PF] == -2 {
		return // already examined
	}
	x.deleterMemo[PF] = -2
	c.Saw(fnName(PF))
	base := "C14.R6:" + fnName(PF)
	// the configured bounds are loads of the fields, or (pure padding function)
	// parameters that receive a load of the field at every call site
	fromField := func(prm *ssa.Parameter, f *types.Var) bool {
		idx := -1
		for i, q := range PF.Params {
			if q == prm {
				idx = i
			}
		}
		cs := x.la.callers[PF]
		if idx < 0 || len(cs) == 0 || x.la.escaped[PF] {
			return false
		}
		for _, call := range cs {
			args := call.Common().Args
			if idx >= len(args) || !isLoadOfField(args[idx], f) {
				return false
			}
		}
		return true
	}
	isBoundV := func(v ssa.Value, f *types.Var) bool {
		if isLoadOfField(v, f) {
			return true
		}
		prm, ok := c14strip(resolve(v)).(*ssa.Parameter)
		return ok && prm.Parent() == PF && fromField(prm, f)
	}
	var chunkLen *ssa.Parameter
	for i, prm := range PF.Params {
		if !c14isInteger(prm.Type()) || fromField(prm, fMin) || fromField(prm, fMax) {
			continue
		}
		if lenIdx < 0 || i == lenIdx {
			chunkLen = prm
		}
	}
	if chunkLen == nil {
		c.Undecided(base+":pad-range", rule, p.Pos(PF.Pos()), "no integer parameter (chunk length)")
		return
	}
	baseLin := c14lin{k: overhead, t: map[c14ref]int64{c14canon(chunkLen): 1}}
	maxLin := func(v ssa.Value) bool { return isBoundV(v, fMax) }
	linEq := func(a, b ssa.Value) bool { return c14linOf(a).eq(c14linOf(b)) }
	// lo = max(min, base)
	baseSeen := ""
	isLo := func(v ssa.Value) bool {
		v = c14strip(v)
		if call, ok := v.(*ssa.Call); ok && isBuiltinCall(call, "max") && len(call.Call.Args) == 2 {
			a, b := call.Call.Args[0], call.Call.Args[1]
			for _, pr := range [][2]ssa.Value{{a, b}, {b, a}} {
				if isBoundV(pr[0], fMin) {
					if c14linOf(pr[1]).eq(baseLin) {
						return true
					}
					baseSeen = c14linOf(pr[1]).String()
				}
			}
			return false
		}
		ph, ok := v.(*ssa.Phi)
		if !ok || len(ph.Edges) != 2 {
			return false
		}
		hasMin, hasBase := false, false
		for i, e := range ph.Edges {
			o := ph.Edges[1-i]
			if isBoundV(e, fMin) {
				hasMin = true
			} else if c14linOf(e).eq(baseLin) {
				hasBase = true
			} else {
				return false
			}
			ge := func(cond ssa.Value, pol bool) bool {
				a, b, op, ok := c14rel(cond, pol)
				if !ok {
					return false
				}
				if op == token.LSS || op == token.LEQ {
					a, b, op = b, a, c14flip(op)
				}
				return (op == token.GTR || op == token.GEQ) && linEq(a, e) && linEq(b, o)
			}
			if !cfgEdgeGuardedBy(ph.Block().Preds[i], ph.Block(), ge) {
				return false
			}
		}
		return hasMin && hasBase
	}
	var loVal ssa.Value
	loGTmax := func(want bool) EdgePred {
		return func(cond ssa.Value, pol bool) bool {
			a, b, op, ok := c14rel(cond, pol)
			if !ok {
				return false
			}
			if op == token.LSS || op == token.GEQ {
				a, b, op = b, a, c14flip(op)
			}
			// now op is GTR (a > b) or LEQ (a <= b)
			if !(isLo(a) && maxLin(b)) {
				return false
			}
			loVal = c14strip(a)
			return (op == token.GTR) == want
		}
	}
	nRet := 0
	ordP := c14ord{}
	// one result value of the padding function: val is what is returned
	// whenever the path is `guarded` (a return instruction, or one incoming
	// edge of the phi returned by a single-exit function)
	checkResult := func(val ssa.Value, guarded func(EdgePred) bool, pos string) {
		nRet++
		if isConstInt(c14strip(val), 0) {
			c.Req(guarded(loGTmax(true)), ordP.key(base+":zero-only-when-too-big"), rule, pos,
				"padding 0 is returned without the `max(min, salt+header+chunk) > max` edge (a small chunk goes out unpadded: datagram below the configured minimum)")
			return
		}
		good := false
		detail := "the padding is not (lo - base) + rnd(max - lo + 1) with lo = max(min, base), base = salt+header+chunkLen"
		{
			L := c14linOf(val)
			for atom, coef := range L.t {
				call, ok := atom.root.(*ssa.Call)
				if !ok || coef != 1 || atom.deref || atom.path != "" || staticCallee(call) == nil || !c14randBound(staticCallee(call)) || len(call.Call.Args) != 1 {
					continue
				}
				linA := L.plus(c14lin{t: map[c14ref]int64{atom: 1}}, -1)
				if !guarded(loGTmax(false)) || loVal == nil {
					detail = "the random part's range max-lo+1 is not known positive (no `lo <= max` edge before it)"
					continue
				}
				B := call.Call.Args[0]
				loLin := c14lin{t: map[c14ref]int64{c14canon(loVal): 1}}
				maxL := c14lin{t: map[c14ref]int64{}}
				// any load of max is the same atom
				for _, prm := range PF.Params {
					if isBoundV(prm, fMax) && len(maxL.t) == 0 {
						maxL.t[c14canon(prm)] = 1
					}
				}
				allInstrs(PF, func(y ssa.Instruction) {
					if v, ok := y.(ssa.Value); ok && isLoadOfField(v, fMax) && len(maxL.t) == 0 {
						maxL.t[c14canon(v)] = 1
					}
				})
				upper := linA.plus(c14linOf(B), 1).plus(c14lin{k: 1, t: map[c14ref]int64{}}, -1)
				wantUpper := maxL.plus(baseLin, -1)
				lower := linA
				wantLower := loLin.plus(baseLin, -1)
				if d := upper.plus(wantUpper, -1); len(d.t) != 0 || d.k > 0 {
					detail = "the largest padding is " + upper.String() + " but max - (salt+header+chunk) is " + wantUpper.String() + " (datagram can exceed the configured maximum)"
					continue
				}
				if d := lower.plus(wantLower, -1); len(d.t) != 0 || d.k < 0 {
					detail = "the smallest padding is " + lower.String() + " but lo - (salt+header+chunk) is " + wantLower.String() + " (datagram can fall below the configured minimum)"
					continue
				}
				good = true
			}
		}
		if !good && baseSeen != "" {
			detail = fmt.Sprintf("lo is max(min, %s) but a datagram is salt+header+chunk = %s bytes before padding (sizes are off by the difference)", baseSeen, baseLin.String())
		}
		c.Req(good, ordP.key(base+":pad-range"), rule, pos, detail)
	}
	allInstrs(PF, func(in ssa.Instruction) {
		r, ok := in.(*ssa.Return)
		if !ok {
			return
		}
		res := retResults(r)
		if len(res) != 1 {
			return
		}
		if ph, isPhi := c14strip(res[0]).(*ssa.Phi); isPhi {
			for i, e := range ph.Edges {
				from, to := ph.Block().Preds[i], ph.Block()
				checkResult(e, func(pred EdgePred) bool { return cfgEdgeGuardedBy(from, to, pred) }, p.InstrPos(r))
			}
			return
		}
		checkResult(res[0], func(pred EdgePred) bool { return guardedBy(r, pred) }, p.InstrPos(r))
	})
	c.Floor(base+":returns", nRet, 2)
}

// ---------------------------------------------------------------------------

func checkC14(c *Check) {
	lockBalanceRule(c, "C14", pObfs)
	x := c14resolve(c)
	if x == nil {
		return
	}
	tab, cen := x.mapUse(x.fTable), x.mapUse(x.fCensus)
	x.r1(tab, cen)
	x.r2(tab, cen)
	x.r3(tab, cen)
	x.r4(tab)
	x.r5(tab)
	x.r6(tab)
	x.r7(tab)
}

// isRangeKeyOf: v is the key produced by ranging over the map.
func (x *c14ctx) isRangeKeyOf(v ssa.Value, m *c14mapUse) bool {
	return c14rangeOf(v, 1, m) != nil
}

// c14rangeOf: v is `extract (next (range m)) #idx`; returns the Next.
func c14rangeOf(v ssa.Value, idx int, m *c14mapUse) *ssa.Next {
	e, ok := c14strip(v).(*ssa.Extract)
	if !ok || e.Index != idx {
		return nil
	}
	nx, ok := e.Tuple.(*ssa.Next)
	if !ok {
		return nil
	}
	rg, ok := nx.Iter.(*ssa.Range)
	if !ok || !m.is(rg.X) {
		return nil
	}
	return nx
}

// ---------------------------------------------------------------------------
// R7 the key's source component carries the whole source address
//
// Abstract evaluation of "which parts of the source address does this value
// depend on".  A value is described by a set of alternatives (one per phi edge
// / return / store that may define it); each alternative is a mask of
//   W    the whole address (addr.String(), AddrPort, the net.Addr itself)
//   IP   only the host part (UDPAddr.IP, AddrPort.Addr(), SplitHostPort #0)
//   PORT the port (UDPAddr.Port, AddrPort.Port(), SplitHostPort #1)
//   UNK  something the evaluator cannot follow (memory, indirect calls)
// Operands combine by OR, definitions by union.  Helpers of the repository
// are entered with their arguments substituted; a parameter of the function
// under analysis is lifted to every call site.

const (
	c14aW    = 1
	c14aIP   = 2
	c14aPORT = 4
	c14aUNK  = 8
)

type c14aset uint16 // bit m set: mask m is an alternative

func c14aOne(m int) c14aset { return 1 << uint(m) }

func (a c14aset) cross(b c14aset) c14aset {
	var out c14aset
	for i := 0; i < 16; i++ {
		if a&(1<<uint(i)) == 0 {
			continue
		}
		for j := 0; j < 16; j++ {
			if b&(1<<uint(j)) != 0 {
				out |= 1 << uint(i|j)
			}
		}
	}
	return out
}

func (a c14aset) mapEach(f func(int) int) c14aset {
	var out c14aset
	for i := 0; i < 16; i++ {
		if a&(1<<uint(i)) != 0 {
			out |= 1 << uint(f(i))
		}
	}
	return out
}

// addrBits: some alternative depends on the address in a way the evaluator understands.
func (a c14aset) addrBits() bool {
	for i := 0; i < 16; i++ {
		if a&(1<<uint(i)) != 0 && i&(c14aW|c14aIP|c14aPORT) != 0 {
			return true
		}
	}
	return false
}

type c14aframe struct {
	fn   *ssa.Function
	call ssa.CallInstruction
	up   *c14aframe
}

type c14aeval struct {
	x      *c14ctx
	addrI  *types.Interface // net.Addr
	busy   map[ssa.Value]bool
	steps  int
	drops  []ssa.Instruction // projections that turned a whole address into its host part
	dropAt map[ssa.Instruction]string
}

func (x *c14ctx) newAddrEval() *c14aeval {
	e := &c14aeval{x: x, busy: map[ssa.Value]bool{}, dropAt: map[ssa.Instruction]string{}}
	if n := namedOf(x.fInner.Type()); n != nil && n.Obj().Pkg() != nil {
		if tn, ok := n.Obj().Pkg().Scope().Lookup("Addr").(*types.TypeName); ok {
			e.addrI, _ = tn.Type().Underlying().(*types.Interface)
		}
	}
	return e
}

// wholeType: values of this type denote a full source address.
func (e *c14aeval) wholeType(t types.Type) bool {
	if t == nil {
		return false
	}
	if c14isNamed(t, "net/netip", "AddrPort") {
		return true
	}
	if p, ok := t.Underlying().(*types.Pointer); ok && c14isNamed(p.Elem(), "net/netip", "AddrPort") {
		return true
	}
	if e.addrI == nil {
		return false
	}
	if types.Implements(t, e.addrI) {
		return true
	}
	if _, isPtr := t.Underlying().(*types.Pointer); !isPtr {
		if _, isIface := t.Underlying().(*types.Interface); !isIface {
			return types.Implements(types.NewPointer(t), e.addrI)
		}
	}
	return false
}

// hostType: values of this type denote the host part only.
func c14aHostType(t types.Type) bool {
	return t != nil && (c14isNamed(t, "net", "IP") || c14isNamed(t, "net/netip", "Addr"))
}

func (e *c14aeval) byType(t types.Type) c14aset {
	switch {
	case c14aHostType(t):
		return c14aOne(c14aIP)
	case e.wholeType(t):
		return c14aOne(c14aW)
	}
	return c14aOne(c14aUNK)
}

func (e *c14aeval) projHost(s c14aset, at ssa.Instruction, what string) c14aset {
	return s.mapEach(func(m int) int {
		out := m & c14aUNK
		if m&(c14aW|c14aIP) != 0 {
			out |= c14aIP
		}
		if m&c14aW != 0 && at != nil {
			if _, seen := e.dropAt[at]; !seen {
				e.dropAt[at] = what
				e.drops = append(e.drops, at)
			}
		}
		return out
	})
}

func c14aProjPort(s c14aset) c14aset {
	return s.mapEach(func(m int) int {
		out := m & c14aUNK
		if m&(c14aW|c14aPORT) != 0 {
			out |= c14aPORT
		}
		return out
	})
}

// netField: f is a field of a struct declared in package net (UDPAddr, TCPAddr, IPAddr ...).
func c14aNetField(f *types.Var) bool {
	return f != nil && f.Pkg() != nil && f.Pkg().Path() == "net"
}

func (e *c14aeval) projField(f *types.Var, base c14aset, at ssa.Instruction) c14aset {
	switch f.Name() {
	case "IP":
		return e.projHost(base, at, "field "+f.Name()+" of a net address")
	case "Port":
		return c14aProjPort(base)
	case "Zone":
		return base.mapEach(func(m int) int { return m & c14aUNK })
	}
	return base
}

type c14astore struct {
	path []*types.Var // nil element: any index
	val  ssa.Value
}

// allocStores collects every store through an address derived from the local.
func c14aAllocStores(al *ssa.Alloc) (stores []c14astore, escapes bool) {
	var walk func(a ssa.Value, path []*types.Var, depth int)
	walk = func(a ssa.Value, path []*types.Var, depth int) {
		refs := a.Referrers()
		if refs == nil || depth > 6 {
			escapes = true
			return
		}
		for _, r := range *refs {
			switch u := r.(type) {
			case *ssa.Store:
				if u.Addr == a {
					stores = append(stores, c14astore{append([]*types.Var{}, path...), u.Val})
				} else {
					escapes = true
				}
			case *ssa.UnOp:
				if u.Op != token.MUL {
					escapes = true
				}
			case *ssa.FieldAddr:
				walk(u, append(append([]*types.Var{}, path...), structField(u.X.Type(), u.Field)), depth+1)
			case *ssa.IndexAddr:
				walk(u, append(append([]*types.Var{}, path...), nil), depth+1)
			case *ssa.Slice:
				// t[:] handed to a call (variadic arguments): read-only unless a
				// builtin writes through it
				if u.Referrers() != nil {
					for _, rr := range *u.Referrers() {
						switch w := rr.(type) {
						case *ssa.DebugRef:
						case *ssa.Call:
							if _, isB := w.Call.Value.(*ssa.Builtin); isB {
								escapes = true
							}
						default:
							escapes = true
						}
					}
				}
			case *ssa.MakeInterface, *ssa.DebugRef:
			case ssa.CallInstruction:
				escapes = true
			default:
				escapes = true
			}
		}
	}
	walk(al, nil, 0)
	return
}

func c14aPrefix(a, b []*types.Var) bool {
	if len(a) > len(b) {
		return false
	}
	for i := range a {
		if a[i] != nil && b[i] != nil && a[i] != b[i] {
			return false
		}
	}
	return true
}

func (e *c14aeval) evalAlloc(al *ssa.Alloc, path []*types.Var, fr *c14aframe, depth int) c14aset {
	stores, esc := c14aAllocStores(al)
	var alts c14aset
	part := c14aOne(0)
	for _, s := range stores {
		switch {
		case c14aPrefix(s.path, path):
			alts |= e.eval(s.val, path[len(s.path):], fr, depth+1)
		case c14aPrefix(path, s.path):
			part = part.cross(e.eval(s.val, nil, fr, depth+1))
		}
	}
	if alts == 0 {
		alts = c14aOne(0)
	}
	alts = alts.cross(part)
	if esc {
		alts = alts.cross(c14aOne(c14aUNK))
	}
	return alts
}

func (e *c14aeval) evalCallee(fn *ssa.Function, call ssa.CallInstruction, idx int, path []*types.Var, fr *c14aframe, depth int) c14aset {
	var out c14aset
	nfr := &c14aframe{fn: fn, call: call, up: fr}
	for _, b := range fn.Blocks {
		if len(b.Instrs) == 0 {
			continue
		}
		r, ok := b.Instrs[len(b.Instrs)-1].(*ssa.Return)
		if !ok {
			continue
		}
		res := retResults(r)
		if idx >= len(res) || res[idx] == nil {
			continue
		}
		out |= e.eval(res[idx], path, nfr, depth+1)
	}
	if out == 0 {
		out = c14aOne(c14aUNK)
	}
	return out
}

func (e *c14aeval) evalCall(call ssa.CallInstruction, idx int, path []*types.Var, fr *c14aframe, depth int) c14aset {
	cc := call.Common()
	var resT types.Type
	if v, ok := call.(ssa.Value); ok {
		resT = v.Type()
		if tup, isTup := resT.(*types.Tuple); isTup {
			resT = nil
			if idx < tup.Len() {
				resT = tup.At(idx).Type()
			}
		}
	}
	callee := cc.StaticCallee()
	if callee != nil && len(callee.Blocks) > 0 && e.x.p.IsRepoFn(callee) {
		return e.evalCallee(callee, call, idx, path, fr, depth)
	}
	if mc, ok := cc.Value.(*ssa.MakeClosure); ok {
		if f, isFn := mc.Fn.(*ssa.Function); isFn && len(f.Blocks) > 0 {
			return e.evalCallee(f, call, idx, path, fr, depth)
		}
	}
	if callee == nil && !cc.IsInvoke() {
		if _, isB := cc.Value.(*ssa.Builtin); !isB {
			return c14aOne(c14aUNK) // call through a function value
		}
	}
	var ops []ssa.Value
	if cc.IsInvoke() {
		ops = append(ops, cc.Value)
	}
	ops = append(ops, cc.Args...)
	in, _ := call.(ssa.Instruction)
	// projections of netip.AddrPort and of host:port strings
	if callee != nil {
		if o := callee.Origin(); o != nil {
			callee = o
		}
		pk := fnPkg(callee)
		recv := callee.Signature.Recv()
		switch {
		case pk != nil && pk.Pkg.Path() == "net/netip" && recv != nil && c14isNamed(recv.Type(), "net/netip", "AddrPort") && len(cc.Args) > 0:
			switch callee.Name() {
			case "Addr":
				return e.projHost(e.eval(cc.Args[0], nil, fr, depth+1), in, "AddrPort.Addr()")
			case "Port":
				return c14aProjPort(e.eval(cc.Args[0], nil, fr, depth+1))
			}
		case pk != nil && pk.Pkg.Path() == "net" && recv == nil && callee.Name() == "SplitHostPort" && len(cc.Args) == 1:
			switch idx {
			case 0:
				return e.projHost(e.eval(cc.Args[0], nil, fr, depth+1), in, "the host result of net.SplitHostPort")
			case 1:
				return c14aProjPort(e.eval(cc.Args[0], nil, fr, depth+1))
			}
			return c14aOne(0)
		}
	}
	if cc.IsInvoke() && cc.Method.Name() == "Network" && e.wholeType(cc.Value.Type()) {
		return c14aOne(0)
	}
	out := c14aOne(0)
	for _, a := range ops {
		out = out.cross(e.eval(a, nil, fr, depth+1))
	}
	if !out.addrBits() && (e.wholeType(resT) || c14aHostType(resT)) {
		// an address produced by code outside the repository from operands that
		// carry no address: a fresh source address (inner ReadFrom)
		return e.byType(resT)
	}
	return out
}

func (e *c14aeval) evalParam(prm *ssa.Parameter, path []*types.Var, fr *c14aframe, depth int) c14aset {
	fn := prm.Parent()
	idx := -1
	for i, q := range fn.Params {
		if q == prm {
			idx = i
		}
	}
	if idx < 0 {
		return c14aOne(c14aUNK)
	}
	if fr != nil {
		if fr.fn != fn || idx >= len(fr.call.Common().Args) {
			return c14aOne(c14aUNK)
		}
		return e.eval(fr.call.Common().Args[idx], path, fr.up, depth+1)
	}
	cs := e.x.la.callers[fn]
	if len(cs) == 0 || e.x.la.escaped[fn] {
		if len(path) > 0 {
			return c14aOne(c14aUNK)
		}
		return e.byType(prm.Type())
	}
	var out c14aset
	for _, call := range cs {
		if idx >= len(call.Common().Args) {
			return c14aOne(c14aUNK)
		}
		out |= e.eval(call.Common().Args[idx], path, nil, depth+1)
	}
	return out
}

// eval: the address parts component `path` of v depends on.
func (e *c14aeval) eval(v ssa.Value, path []*types.Var, fr *c14aframe, depth int) c14aset {
	unk := c14aOne(c14aUNK)
	e.steps++
	if v == nil || depth > 40 || e.steps > 20000 {
		return unk
	}
	if e.busy[v] {
		return unk
	}
	e.busy[v] = true
	defer delete(e.busy, v)

	switch x := v.(type) {
	case *ssa.ChangeType:
		return e.eval(x.X, path, fr, depth+1)
	case *ssa.Convert:
		return e.eval(x.X, path, fr, depth+1)
	case *ssa.MakeInterface:
		return e.eval(x.X, path, fr, depth+1)
	case *ssa.ChangeInterface:
		return e.eval(x.X, path, fr, depth+1)
	case *ssa.SliceToArrayPointer:
		return e.eval(x.X, path, fr, depth+1)
	case *ssa.TypeAssert:
		return e.eval(x.X, path, fr, depth+1)
	case *ssa.Const, *ssa.Function, *ssa.Builtin, *ssa.MakeSlice, *ssa.MakeMap, *ssa.MakeChan:
		return c14aOne(0)
	case *ssa.Global:
		return c14aOne(0)
	case *ssa.Parameter:
		return e.evalParam(x, path, fr, depth)
	case *ssa.FreeVar:
		if b := freeVarBinding(x); b != nil && fr == nil {
			return e.eval(b, path, nil, depth+1)
		}
		return unk
	case *ssa.Phi:
		var out c14aset
		for _, ed := range x.Edges {
			out |= e.eval(ed, path, fr, depth+1)
		}
		return out
	case *ssa.Alloc:
		return e.evalAlloc(x, path, fr, depth)
	case *ssa.Field:
		f := structField(x.X.Type(), x.Field)
		if c14aNetField(f) {
			return e.projField(f, e.eval(x.X, nil, fr, depth+1), x)
		}
		return e.eval(x.X, append([]*types.Var{f}, path...), fr, depth+1)
	case *ssa.FieldAddr, *ssa.IndexAddr:
		// an address used as a value: what it points to
		return e.evalLoad(x, path, fr, depth, nil)
	case *ssa.UnOp:
		if x.Op != token.MUL {
			if x.Op == token.ARROW {
				return unk
			}
			return e.eval(x.X, path, fr, depth+1)
		}
		return e.evalLoad(x.X, path, fr, depth, x)
	case *ssa.BinOp:
		return e.eval(x.X, nil, fr, depth+1).cross(e.eval(x.Y, nil, fr, depth+1))
	case *ssa.Slice:
		return e.eval(x.X, path, fr, depth+1)
	case *ssa.Index:
		return e.eval(x.X, nil, fr, depth+1).cross(e.eval(x.Index, nil, fr, depth+1))
	case *ssa.Lookup:
		if _, isMap := x.X.Type().Underlying().(*types.Map); isMap {
			return unk
		}
		return e.eval(x.X, nil, fr, depth+1).cross(e.eval(x.Index, nil, fr, depth+1))
	case *ssa.Call:
		return e.evalCall(x, 0, path, fr, depth)
	case *ssa.Extract:
		switch t := x.Tuple.(type) {
		case *ssa.Call:
			return e.evalCall(t, x.Index, path, fr, depth)
		case *ssa.TypeAssert:
			if x.Index == 0 {
				return e.eval(t.X, path, fr, depth+1)
			}
			return c14aOne(0)
		}
		return unk
	}
	return unk
}

// evalLoad: the value stored at address a (component path).
func (e *c14aeval) evalLoad(a ssa.Value, path []*types.Var, fr *c14aframe, depth int, at ssa.Instruction) c14aset {
	var apath []*types.Var
	for {
		if fa, ok := a.(*ssa.FieldAddr); ok {
			f := structField(fa.X.Type(), fa.Field)
			if c14aNetField(f) {
				if at == nil {
					at = fa
				}
				return e.projField(f, e.eval(fa.X, nil, fr, depth+1), at)
			}
			apath = append([]*types.Var{f}, apath...)
			a = fa.X
			continue
		}
		if ia, ok := a.(*ssa.IndexAddr); ok {
			apath = append([]*types.Var{nil}, apath...)
			a = ia.X
			continue
		}
		break
	}
	full := append(append([]*types.Var{}, apath...), path...)
	if fv, ok := a.(*ssa.FreeVar); ok && fr == nil {
		if b := freeVarBinding(fv); b != nil {
			a = b
		}
	}
	switch b := a.(type) {
	case *ssa.Alloc:
		return e.evalAlloc(b, full, fr, depth)
	case *ssa.Global:
		return c14aOne(c14aUNK)
	}
	if len(apath) > 0 {
		// a field of an object in memory: not tracked
		return c14aOne(c14aUNK)
	}
	// load through a pointer value (*u, *keyPtr)
	return e.eval(a, full, fr, depth+1)
}

func (x *c14ctx) r7(tab *c14mapUse) {
	c, p := x.c, x.p
	const r7 = "C14.R7 the source component of the key under which an entry enters the reassembly table is computed from the whole source address returned by the inner ReadFrom (addr.String() or a value carrying host and port), followed through helpers and call sites: it is never a projection of the address that keeps the host and drops the port, and it depends on the address at all"
	ord := c14ord{}
	n := 0
	for _, op := range tab.writes("update") {
		I := op.instr.(*ssa.MapUpdate)
		n++
		key := ord.key("C14.R7:source-key:" + fnName(op.fn))
		e := x.newAddrEval()
		s := e.eval(I.Key, []*types.Var{x.fKeyAddr}, nil, 0)
		hostOnly, all0 := false, s != 0
		for m := 0; m < 16; m++ {
			if s&(1<<uint(m)) == 0 {
				continue
			}
			if m != 0 {
				all0 = false
			}
			if m&c14aUNK == 0 && m&c14aIP != 0 && m&(c14aW|c14aPORT) == 0 {
				hostOnly = true
			}
		}
		switch {
		case hostOnly:
			pos, what := p.InstrPos(I), "a host-only projection of the address"
			if len(e.drops) > 0 {
				d := e.drops[0]
				pos, what = p.InstrPos(d), e.dropAt[d]+" in "+fnName(d.Parent())
			}
			c.Bad(key, r7, pos, fmt.Sprintf("the %s component of the table key is built from %s and does not depend on the port: all sources behind one host (NAT) share one reassembly slot per message id and one per-source budget, their chunks are mixed", x.fKeyAddr.Name(), what))
		case all0:
			c.Bad(key, r7, p.InstrPos(I), fmt.Sprintf("the %s component of the table key does not depend on the source address: chunks of different sources are reassembled together", x.fKeyAddr.Name()))
		default:
			c.OK(key, r7, p.InstrPos(I))
		}
	}
	c.Floor("C14.R7:source-key", n, 1)
}

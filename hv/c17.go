package main

import (
	"fmt"
	"go/token"
	"go/types"
	"sort"
	"strings"

	"golang.org/x/tools/go/ssa"
)

func init() {
	register(&propDef{
		ID:        "C17",
		Run:       checkC17,
		AllDeps:   true,
		Technique: "static analysis: interprocedural may-write (taint) analysis of the hook's datagram parameter through repo, dependency and stdlib SSA bodies; who-may-read census and provenance of returned/stored values (go/ssa, VTA)",
		Explanation: "R1 for every non-generated implementation of server.RequestHook, no instruction reachable from UDP(data, …) stores into the backing array of `data` (the server forwards that very slice next) - decided by a may-write taint analysis that follows callees into dependencies and the standard library, with a summary table only for assembly kernels; " +
			"R3 in Sniffer.TCP the stream flows only into io.ReadFull(stream, <replay buffer>), the tee reader and deadline calls; every successful return hands back a prefix slice of the replay buffer or the tee's Buffer(); the tee's Read mirrors b[:n] on every path with n>0 (including the error-with-data path) and Buffer() is prefix‖mirror; the read deadline is reset on all exits; " +
			"R4 every store to *reqAddr is net.JoinHostPort(host, port) with port taken from SplitHostPort of the incoming *reqAddr and host derived from req.Host / ClientHello.ServerName, behind the corresponding non-empty test.",
		NotDecided: []string{
			"replayed ‖ remaining == sent as an equality over all chunkings / deadline points (R3 is the structural part; the slice arithmetic pre[:3+n] is trusted)",
			"correctness of utls / net/http parsing",
			"what the target receives on the wire (sockets)",
		},
		Assumptions: []string{
			"assembly kernels write only the arguments listed in the may-write leaf table (hv/maywrite.go)",
			"VTA call graph over-approximates interface dispatch",
		},
	})
}

func checkC17(c *Check) {
	p := c.P
	hookT := p.Named(pServer, "RequestHook")
	if hookT == nil {
		c.Unres("server.RequestHook")
		return
	}
	hookI := hookT.Underlying().(*types.Interface)

	// ---- R1 the UDP hook never writes to the datagram
	const r1 = "C17.R1 no instruction reachable from RequestHook.UDP(data, …) stores into the backing array of data (the same slice is forwarded to the target next)"
	impls := p.Implementations(hookI)
	n := 0
	for _, it := range impls {
		udp := p.MethodOf(it, "UDP")
		if udp == nil || !p.IsRepoFn(udp) {
			continue
		}
		n++
		mw := p.newMayWrite()
		// receiver is Params[0]; data is the first []byte parameter
		idx := -1
		for i, prm := range udp.Params {
			if sl, ok := prm.Type().Underlying().(*types.Slice); ok {
				if b, ok := sl.Elem().Underlying().(*types.Basic); ok && b.Kind() == types.Byte {
					idx = i
					break
				}
			}
		}
		if idx < 0 {
			c.Unres("[]byte parameter of " + fnName(udp))
			continue
		}
		sum := mw.Run(udp, map[int]mwIn{idx: {kind: tARR}})
		for _, w := range mw.TooWide {
			c.Undecided("C17.R1:"+it.String()+":dynamic-call:"+w, r1, "-", "a dynamic call on a value derived from the datagram could not be narrowed to a small callee set")
		}
		key := "C17.R1:" + it.String()
		var fns []string
		for f := range mw.Visited {
			fns = append(fns, f.String())
		}
		sort.Strings(fns)
		for _, f := range fns {
			c.Saw("maywrite:" + f)
		}
		if len(sum.writes) > 0 {
			for i, w := range sum.writes {
				if i >= 6 {
					break
				}
				c.Bad(fmt.Sprintf("%s:write:%s", key, w.Fn), r1, w.Pos, w.What+" via "+w.Chain)
			}
		} else {
			c.OK(key+":no-write", r1, p.Pos(udp.Pos()))
		}
		var leaves []string
		for l := range sum.leaves {
			leaves = append(leaves, l)
		}
		sort.Strings(leaves)
		for _, l := range leaves {
			c.Undecided(key+":leaf:"+l, r1, "-", "body-less function receives (a value derived from) the datagram and has no entry in the may-write leaf table")
		}
		c.Notes = append(c.Notes, fmt.Sprintf("C17.R1 %s: may-write visited %d functions, %d write sites, %d unknown leaves", it.String(), len(mw.Visited), len(sum.writes), len(leaves)))
	}
	c.Floor("C17.R1:hook-impl", n, 1)

	sniffTCP := p.Fn(pSniff, "(*Sniffer).TCP")
	sniffUDP := p.Fn(pSniff, "(*Sniffer).UDP")
	teeRead := p.Fn(pSniff, "(*teeReader).Read")
	teeBuf := p.Fn(pSniff, "(*teeReader).Buffer")
	if sniffTCP == nil || sniffUDP == nil || teeRead == nil || teeBuf == nil {
		c.Unres("sniff.(*Sniffer).TCP/UDP, (*teeReader).Read/Buffer")
		return
	}
	c.Saw(fnName(sniffTCP))
	c.Saw(fnName(sniffUDP))
	c.Saw(fnName(teeRead))
	c.Saw(fnName(teeBuf))

	// ---- R3 everything read during TCP sniffing is handed back
	const r3 = "C17.R3 the stream is read only through io.ReadFull into the replay buffer and through the mirroring tee reader; successful returns hand back a prefix of the replay buffer or the tee's Buffer()"
	nRead, nRet := 0, 0
	var teeAlloc ssa.Value
	var badRets []string
	helperOK := map[*ssa.Function]bool{}
	// analyse(fn, stream, seeds): fn is Sniffer.TCP, or a helper of its package that TCP hands the
	// stream (and possibly the replay buffer read so far: seeds) to
	var analyse func(fn *ssa.Function, stream ssa.Value, seeds []ssa.Value, depth int)
	analyse = func(fn *ssa.Function, stream ssa.Value, seeds []ssa.Value, depth int) {
		// pre-family: MakeSlice results and appends/phis/prefix-slices of them
		fam := map[ssa.Value]bool{}
		for _, sd := range seeds {
			fam[sd] = true
		}
		for changed := true; changed; {
			changed = false
			allInstrs(fn, func(in ssa.Instruction) {
				v, ok := in.(ssa.Value)
				if !ok || fam[v] {
					return
				}
				switch x := in.(type) {
				case *ssa.MakeSlice:
					fam[v] = true
					changed = true
				case *ssa.Slice:
					// make([]byte, const) is lowered to `new [N]byte` + full slice
					if al, ok := x.X.(*ssa.Alloc); ok && al.Comment == "makeslice" && (x.Low == nil || isConstInt(x.Low, 0)) {
						fam[v] = true
						changed = true
					}
				case *ssa.Call:
					if isBuiltinCall(x, "append") && fam[x.Call.Args[0]] {
						fam[v] = true
						changed = true
					}
				case *ssa.Phi:
					for _, e := range x.Edges {
						if fam[e] {
							fam[v] = true
							changed = true
						}
					}
				}
			})
		}
		isPrefixOfFam := func(v ssa.Value) bool {
			if fam[v] {
				return true
			}
			if s, ok := v.(*ssa.Slice); ok && fam[s.X] && (s.Low == nil || isConstInt(s.Low, 0)) {
				return true
			}
			return false
		}
		isTailOfFam := func(v ssa.Value) bool {
			if fam[v] {
				return true
			}
			if s, ok := v.(*ssa.Slice); ok && fam[s.X] {
				return true
			}
			return false
		}
		// uses of the stream
		for _, ref := range *stream.Referrers() {
			pos := p.InstrPos(ref)
			switch x := ref.(type) {
			case *ssa.DebugRef:
			case *ssa.Store:
				// into teeReader.Stream
				if fa, ok := x.Addr.(*ssa.FieldAddr); ok && x.Val == ssa.Value(stream) {
					if nn := namedOf(fa.X.Type()); nn != nil && nn.Obj().Name() == "teeReader" {
						teeAlloc = fa.X
						c.OK("C17.R3:stream-use:tee", r3, pos)
						continue
					}
				}
				c.Bad("C17.R3:stream-use:store", r3, pos, "stream stored somewhere other than the mirroring tee reader")
			case *ssa.MakeInterface, *ssa.ChangeInterface:
				// io.Reader for io.ReadFull only
				for _, r2 := range *x.(ssa.Value).Referrers() {
					call, ok := r2.(*ssa.Call)
					if ok && calleeIs(call, "io", "ReadFull") && call.Call.Args[0] == x.(ssa.Value) {
						nRead++
						c.Req(isTailOfFam(call.Call.Args[1]), "C17.R3:readfull-into-replay-buffer", r3, p.InstrPos(call), "io.ReadFull reads from the stream into a buffer that is not part of the replay buffer")
						continue
					}
					if _, isDbg := r2.(*ssa.DebugRef); isDbg {
						continue
					}
					c.Bad("C17.R3:stream-use:reader", r3, p.InstrPos(r2), "stream handed to a reader that does not mirror what it consumes")
				}
			case ssa.CallInstruction:
				if recv, ok := methodCallNamed(x, "SetReadDeadline"); ok && recv == ssa.Value(stream) {
					continue
				}
				// handed on to a helper of the package, together with (a tail-free view of) the replay buffer
				if cal := staticCallee(x); cal != nil && depth < 2 && p.IsRepoFn(cal) && len(cal.Blocks) > 0 && fnPkg(cal) == fnPkg(sniffTCP) {
					var hs ssa.Value
					var hseeds []ssa.Value
					okArgs := true
					for i, a := range x.Common().Args {
						if i >= len(cal.Params) {
							okArgs = false
							break
						}
						if a == stream {
							if hs != nil {
								okArgs = false
							}
							hs = cal.Params[i]
						} else if isBytesOrString(a.Type()) {
							if isPrefixOfFam(a) {
								hseeds = append(hseeds, cal.Params[i])
							} else {
								okArgs = false // bytes that are not the replay buffer so far
							}
						}
					}
					if okArgs && hs != nil {
						if _, seen := helperOK[cal]; !seen {
							helperOK[cal] = true
							analyse(cal, hs, hseeds, depth+1)
						}
						continue
					}
				}
				c.Bad("C17.R3:stream-use:call", r3, pos, "stream used by a call other than SetReadDeadline / io.ReadFull / the tee reader")
			default:
				c.Bad("C17.R3:stream-use:other", r3, pos, fmt.Sprintf("unexpected use of the stream (%T)", ref))
			}
		}
		// the tee is the only thing the HTTP parser reads from: teeAlloc flows into LimitReader/bufio only as io.Reader (its Read mirrors)
		// returns
		allInstrs(fn, func(in ssa.Instruction) {
			r, ok := in.(*ssa.Return)
			if !ok {
				return
			}
			res := retResults(r)
			if len(res) != 2 {
				return
			}
			if !isNilConst(res[1]) {
				// error return (the server closes the stream), or the pair a helper returned, whose own
				// returns are judged in its analysis
				if tup, idx := tupleSource(res[0]); tup != nil && idx == 0 {
					if call, ok := tup.(*ssa.Call); ok && !helperOK[staticCallee(call)] && staticCallee(call) != nil && p.IsRepoFn(staticCallee(call)) {
						badRets = append(badRets, p.InstrPos(r))
					}
				}
				return
			}
			nRet++
			v := res[0]
			good := isPrefixOfFam(v)
			if call, ok := v.(*ssa.Call); ok && staticCallee(call) == teeBuf {
				good = teeAlloc != nil && resolve(call.Call.Args[0]) == resolve(teeAlloc)
			}
			if ph, ok := v.(*ssa.Phi); ok {
				good = true
				for _, e := range ph.Edges {
					if call, ok := e.(*ssa.Call); ok && staticCallee(call) == teeBuf {
						continue
					}
					if !isPrefixOfFam(e) {
						good = false
					}
				}
			}
			if !good {
				badRets = append(badRets, p.InstrPos(r))
			}
		})
	}
	analyse(sniffTCP, sniffTCP.Params[1], nil, 0)
	c.Floor("C17.R3:readfull", nRead, 3)
	c.Req(len(badRets) == 0, "C17.R3:returns-hand-back-replay-buffer", r3, strings.Join(badRets, ","), "a successful return of Sniffer.TCP hands back something other than a prefix of the replay buffer / the tee's Buffer() (bytes already read would be lost or reordered)")
	c.Floor("C17.R3:return", nRet, 5)
	// deadline reset on every exit: a deferred SetReadDeadline dominates all returns after the first successful SetReadDeadline
	{
		stream := sniffTCP.Params[1]
		hasDefer := false
		allInstrs(sniffTCP, func(in ssa.Instruction) {
			if d, ok := in.(*ssa.Defer); ok {
				if recv, ok := methodCallNamed(d, "SetReadDeadline"); ok && recv == ssa.Value(stream) {
					hasDefer = true
					// every ReadFull is dominated by the defer
					allInstrs(sniffTCP, func(in2 ssa.Instruction) {
						if call, ok := in2.(*ssa.Call); ok && (calleeIs(call, "io", "ReadFull") || helperOK[staticCallee(call)]) {
							if !dominates(d, call) {
								hasDefer = false
							}
						}
					})
				}
			}
		})
		c.Req(hasDefer, "C17.R3:deadline-reset", r3, p.Pos(sniffTCP.Pos()), "the read deadline is not reset by a deferred call that covers every read")
	}
	// tee reader: Read mirrors
	{
		fBuf := p.Field(pSniff, "teeReader", "buf")
		fPre := p.Field(pSniff, "teeReader", "Pre")
		if fBuf == nil || fPre == nil {
			c.Unres("teeReader.buf / teeReader.Pre")
		} else {
			bparam := teeRead.Params[1]
			isMirror := func(in ssa.Instruction) bool {
				call, ok := in.(*ssa.Call)
				if !ok || !isBuiltinCall(call, "append") {
					return false
				}
				if !isLoadOfField(call.Call.Args[0], fBuf) {
					return false
				}
				// appended slice is b[:n]
				s, ok := call.Call.Args[1].(*ssa.Slice)
				if !ok || s.X != ssa.Value(bparam) || !(s.Low == nil || isConstInt(s.Low, 0)) {
					return false
				}
				// and the result is stored back to buf
				for _, r := range *call.Referrers() {
					if st, ok := r.(*ssa.Store); ok {
						if fa, ok := st.Addr.(*ssa.FieldAddr); ok && structField(fa.X.Type(), fa.Field) == fBuf {
							return true
						}
					}
				}
				return false
			}
			nSrc := 0
			allInstrs(teeRead, func(in ssa.Instruction) {
				call, ok := in.(*ssa.Call)
				if !ok {
					return
				}
				var nval ssa.Value
				what := ""
				if recv, ok := methodCallNamed(call, "Read"); ok && call.Call.IsInvoke() {
					_ = recv
					nval = extractOf(call, 0)
					what = "stream-read"
				} else if isBuiltinCall(call, "copy") && call.Call.Args[0] == ssa.Value(bparam) {
					nval = call
					what = "pre-copy"
				} else {
					return
				}
				nSrc++
				// from the call, every return is preceded by the mirror append, unless n > 0 is false
				nonPos := func(cond ssa.Value, pol bool) bool {
					b, ok := cond.(*ssa.BinOp)
					if !ok || nval == nil {
						return false
					}
					if b.Op == token.GTR && resolve(b.X) == nval && isConstInt(b.Y, 0) {
						return !pol
					}
					if b.Op == token.LEQ && resolve(b.X) == nval && isConstInt(b.Y, 0) {
						return pol
					}
					if b.Op == token.EQL && resolve(b.X) == nval && isConstInt(b.Y, 0) {
						return pol
					}
					return false
				}
				bad := ""
				for _, x := range reachFrom(teeRead, call, isMirror, nonPos) {
					if r, ok := x.(*ssa.Return); ok {
						bad = p.InstrPos(r)
					}
				}
				c.Req(bad == "", "C17.R3:tee-mirrors:"+what, r3, p.InstrPos(call), "a path returns bytes to the parser without appending b[:n] to the mirror (return at "+bad+")")
			})
			c.Floor("C17.R3:tee-sources", nSrc, 2)
			// Buffer(): append(load Pre, load buf...)
			good := false
			allInstrs(teeBuf, func(in ssa.Instruction) {
				r, ok := in.(*ssa.Return)
				if !ok || len(r.Results) != 1 {
					return
				}
				if call, ok := r.Results[0].(*ssa.Call); ok && isBuiltinCall(call, "append") {
					if isLoadOfField(call.Call.Args[0], fPre) && isLoadOfField(call.Call.Args[1], fBuf) {
						good = true
					}
				}
			})
			c.Req(good, "C17.R3:tee-buffer", r3, p.Pos(teeBuf.Pos()), "Buffer() is no longer unread-prefix ‖ mirror")
		}
	}

	// ---- R4 port preserved, host from the sniffed bytes only
	const r4 = "C17.R4 every store to *reqAddr is net.JoinHostPort(host, port) with port from SplitHostPort(*reqAddr) and host from req.Host / ClientHello.ServerName, behind the corresponding non-empty test"
	nStore := 0
	// visit(top, fn, addr, site): the stores to *addr inside fn, where fn is top itself (site == nil) or a
	// helper that top calls at `site` with the request address pointer as an argument
	var visit func(top, fn *ssa.Function, addr ssa.Value, site ssa.CallInstruction, depth int)
	visit = func(top, fn *ssa.Function, addr ssa.Value, site ssa.CallInstruction, depth int) {
		for _, ref := range *addr.Referrers() {
			st, ok := ref.(*ssa.Store)
			if !ok || st.Addr != addr {
				if _, isLoad := ref.(*ssa.UnOp); isLoad {
					continue
				}
				if _, isDbg := ref.(*ssa.DebugRef); isDbg {
					continue
				}
				// handed to a helper of the package that does the rewriting: follow it
				if ci, isCall := ref.(ssa.CallInstruction); isCall && depth < 2 {
					if cal := staticCallee(ci); cal != nil && p.IsRepoFn(cal) && len(cal.Blocks) > 0 && fnPkg(cal) == fnPkg(top) {
						idx, n := -1, 0
						for i, a := range ci.Common().Args {
							if a == addr {
								idx, n = i, n+1
							}
						}
						if n == 1 && idx < len(cal.Params) {
							visit(top, cal, cal.Params[idx], ci, depth+1)
							continue
						}
					}
				}
				c.Bad("C17.R4:reqAddr-escapes:"+fnName(top), r4, p.InstrPos(ref), "the request address pointer is passed on or aliased")
				continue
			}
			nStore++
			key := "C17.R4:store:" + fnName(top)
			call, ok := resolve(st.Val).(*ssa.Call)
			if !ok || !calleeIs(call, "net", "JoinHostPort") {
				c.Bad(key+":join", r4, p.InstrPos(st), "the new address is not net.JoinHostPort(host, port)")
				continue
			}
			// port
			portOK := false
			if tup, idx := tupleSource(call.Call.Args[1]); tup != nil && idx == 1 {
				if sc, ok := tup.(*ssa.Call); ok && calleeIs(sc, "net", "SplitHostPort") {
					if u, ok := resolve(sc.Call.Args[0]).(*ssa.UnOp); ok && u.Op == token.MUL && u.X == addr {
						portOK = true
					}
				}
			}
			// host: through the helper's parameters back to the caller's values
			var hostField *ssa.UnOp
			var scan func(v ssa.Value, f *ssa.Function, at ssa.CallInstruction)
			scan = func(v ssa.Value, f *ssa.Function, at ssa.CallInstruction) {
				for d := range deps(v, depOpts{throughCalls: true}) {
					if u, ok := d.(*ssa.UnOp); ok && u.Op == token.MUL {
						if fa, ok := u.X.(*ssa.FieldAddr); ok {
							fl := structField(fa.X.Type(), fa.Field)
							if fl != nil && (fl.Name() == "Host" || fl.Name() == "ServerName") && fl.Pkg() != nil && !isRepoPath(fl.Pkg().Path()) {
								hostField = u
							}
						}
					}
					if prm, ok := d.(*ssa.Parameter); ok && at != nil && prm.Parent() == f {
						for i, q := range f.Params {
							if q == prm {
								if arg := c03ArgAt(at, i); arg != nil {
									scan(arg, at.Parent(), nil)
								}
							}
						}
					}
				}
			}
			scan(call.Call.Args[0], fn, site)
			src := "?"
			if hostField != nil {
				src = structField(hostField.X.(*ssa.FieldAddr).X.Type(), hostField.X.(*ssa.FieldAddr).Field).Name()
			}
			key += ":" + src
			c.Req(portOK, key+":port", r4, p.InstrPos(st), "the port of the rewritten address is not the port of the incoming *reqAddr")
			if !c.Req(hostField != nil, key+":host", r4, p.InstrPos(st), "the host does not derive from req.Host / ClientHello.ServerName") {
				continue
			}
			fa := hostField.X.(*ssa.FieldAddr)
			nonEmpty := func(cond ssa.Value, pol bool) bool {
				b, ok := cond.(*ssa.BinOp)
				if !ok {
					return false
				}
				isFld := func(v ssa.Value) bool {
					u, ok := resolve(v).(*ssa.UnOp)
					if !ok || u.Op != token.MUL {
						return false
					}
					f2, ok := u.X.(*ssa.FieldAddr)
					return ok && f2.Field == fa.Field && types.Identical(f2.X.Type(), fa.X.Type())
				}
				s, isStr := constString(b.Y)
				if !isStr || s != "" || !isFld(b.X) {
					return false
				}
				return (b.Op == token.NEQ && pol) || (b.Op == token.EQL && !pol)
			}
			guarded := guardedBy(st, nonEmpty)
			if !guarded && site != nil {
				guarded = guardedBy(site, nonEmpty)
			}
			c.Req(guarded, key+":non-empty", r4, p.InstrPos(st), "the address is rewritten even when the sniffed name is empty")
		}
	}
	for _, fn := range []*ssa.Function{sniffTCP, sniffUDP} {
		var reqAddr *ssa.Parameter
		for _, prm := range fn.Params {
			if pt, ok := prm.Type().(*types.Pointer); ok {
				if b, ok := pt.Elem().Underlying().(*types.Basic); ok && b.Kind() == types.String {
					reqAddr = prm
				}
			}
		}
		if reqAddr == nil {
			c.Unres("*string parameter of " + fnName(fn))
			continue
		}
		visit(fn, fn, reqAddr, nil, 0)
	}
	c.Floor("C17.R4:store", nStore, 3)
	_ = strings.Join
	c17AssemblyContiguous(c)
	c17NoPooledReplay(c, sniffTCP)
}

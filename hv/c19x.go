package main

import (
	"fmt"
	"go/token"
	"go/types"

	"golang.org/x/tools/go/ssa"
)

// C19 extra rules (added after two independent seeded changes to the port
// expression parser were missed).  They decide two structural necessary
// conditions of "a port expression denotes exactly the union of its listed
// ports and ranges"; the set semantics of sort/merge itself stays undecided.
//
// R7a  every PortRange the parser builds is ordered (Start <= End) where it is
//      built: both bounds are the same value, ordered constants, min/max of
//      the same pair, or the two φ of a swap guarded by a comparison of the
//      same pair.  The sort and the merge in Normalize compare Start of one
//      entry with End of another and Ports() counts from Start to End, so an
//      entry that is still reversed when it reaches them loses ports.
//      Accepted alternative: the function holding the sort orders the entries
//      in place (stores to both bounds) before the sort call.
// R7b  every token of the expression is appended: no path through one
//      iteration of the token loop leaves the accumulated union unchanged
//      under a condition computed from the accumulated union itself (a
//      "already covered" shortcut decided on the unsorted, unmerged prefix).
//      A skip decided by the token alone (empty token) is not reported.

func (x *c19ctx) c19R7(parseFn *ssa.Function) {
	c, p := x.c, x.p
	if parseFn == nil {
		return
	}
	const r7 = "C19.R7 the port parser hands every token to the union as an ordered range: each PortRange is built with Start <= End (or ordered in place before the sort), and no token is skipped on a condition computed from the ranges accumulated so far"
	resT := parseFn.Signature.Results().At(0).Type()
	sl, ok := resT.Underlying().(*types.Slice)
	if !ok {
		c.Unres("utils.ParsePortUnion result is not a slice of ranges")
		return
	}
	rangeT := sl.Elem()
	// functions of the parser: ParsePortUnion and its same-package callees
	set := map[*ssa.Function]bool{}
	var order []*ssa.Function
	var add func(fn *ssa.Function)
	add = func(fn *ssa.Function) {
		if fn == nil || set[fn] || len(fn.Blocks) == 0 || fnPkg(fn) != fnPkg(parseFn) {
			return
		}
		set[fn] = true
		order = append(order, fn)
		for _, a := range fn.AnonFuncs {
			add(a)
		}
		allInstrs(fn, func(in ssa.Instruction) {
			if ci, ok := in.(ssa.CallInstruction); ok {
				add(staticCallee(ci))
			}
		})
	}
	add(parseFn)
	isSort := func(in ssa.Instruction) bool {
		ci, ok := in.(ssa.CallInstruction)
		if !ok {
			return false
		}
		f := staticCallee(ci)
		if f == nil || f.Pkg == nil && f.Origin() == nil {
			return false
		}
		g := f
		if f.Origin() != nil {
			g = f.Origin()
		}
		if g.Pkg == nil {
			return false
		}
		pp := g.Pkg.Pkg.Path()
		return pp == "sort" || pp == "slices"
	}
	var sortFn *ssa.Function
	var sortCall ssa.Instruction
	for _, fn := range order {
		allInstrs(fn, func(in ssa.Instruction) {
			if sortCall == nil && isSort(in) {
				sortFn, sortCall = fn, in
			}
		})
	}
	// functions that run only below the sort-holding function (other than parseFn itself) build merged ranges, not parsed ones
	below := map[*ssa.Function]bool{}
	if sortFn != nil && sortFn != parseFn {
		var mark func(fn *ssa.Function)
		mark = func(fn *ssa.Function) {
			if fn == nil || below[fn] || !set[fn] {
				return
			}
			below[fn] = true
			allInstrs(fn, func(in ssa.Instruction) {
				if ci, ok := in.(ssa.CallInstruction); ok {
					mark(staticCallee(ci))
				}
			})
		}
		mark(sortFn)
	}
	// accepted alternative: in-place ordering before the sort
	orderedInPlace := false
	if sortCall != nil {
		after := map[ssa.Instruction]bool{}
		for _, in := range reachFrom(sortFn, sortCall, nil, nil) {
			after[in] = true
		}
		stored := map[int]bool{}
		allInstrs(sortFn, func(in ssa.Instruction) {
			st, ok := in.(*ssa.Store)
			if !ok || after[st] {
				return
			}
			fa, ok := st.Addr.(*ssa.FieldAddr)
			if !ok {
				return
			}
			if pt, ok := fa.X.Type().Underlying().(*types.Pointer); ok && types.Identical(pt.Elem(), rangeT) {
				if _, isIdx := fa.X.(*ssa.IndexAddr); isIdx {
					stored[fa.Field] = true
				}
			}
		})
		orderedInPlace = stored[0] && stored[1]
	}

	// ---- R7a
	nBuilt := 0
	for _, fn := range order {
		if below[fn] {
			continue
		}
		c.Saw(fnName(fn))
		ord := 0
		lp := newLinProver(p, fn)
		allInstrs(fn, func(in ssa.Instruction) {
			al, ok := in.(*ssa.Alloc)
			if !ok {
				return
			}
			pt, ok := al.Type().Underlying().(*types.Pointer)
			if !ok || !types.Identical(pt.Elem(), rangeT) {
				return
			}
			var vals [2][]ssa.Value
			var at ssa.Instruction
			for _, r := range *al.Referrers() {
				fa, ok := r.(*ssa.FieldAddr)
				if !ok || fa.Field > 1 {
					continue
				}
				for _, rr := range *fa.Referrers() {
					if st, ok := rr.(*ssa.Store); ok && st.Addr == ssa.Value(fa) {
						vals[fa.Field] = append(vals[fa.Field], st.Val)
						at = st
					}
				}
			}
			if len(vals[0]) == 0 && len(vals[1]) == 0 {
				return // a copy target (`*t = *u`), not a construction
			}
			nBuilt++
			ord++
			good, why := false, ""
			switch {
			case orderedInPlace:
				good = true
			case len(vals[0]) != 1 || len(vals[1]) != 1:
				// a missing bound is the zero value
				if len(vals[0]) == 0 && len(vals[1]) == 1 {
					good = true // Start = 0
				} else {
					why = "the bounds are not each stored exactly once"
				}
			default:
				good, why = c19ordered(lp, at, vals[0][0], vals[1][0])
			}
			c.Req(good, fmt.Sprintf("C19.R7:ordered-range:%s#%d", fnName(fn), ord), r7, p.InstrPos(al), "a PortRange is built without Start <= End being established ("+why+") and the entries are not ordered in place before the sort: a reversed range reaches the sort/merge (and Ports) and loses ports")
		})
	}
	// 3 on the pinned tree (wildcard, range, single port)
	c.Floor("C19.R7:ranges-built", nBuilt, 1)

	// ---- R7b
	nLoop := 0
	allInstrs(parseFn, func(in ssa.Instruction) {
		h, ok := in.(*ssa.Phi)
		if !ok || !types.Identical(h.Type(), resT) {
			return
		}
		// loop carried: some edge is computed from h itself
		carried := false
		for _, e := range h.Edges {
			if e != ssa.Value(h) && dependsOn(e, h, depOpts{throughCalls: true}) || e == ssa.Value(h) {
				carried = true
			}
		}
		if !carried {
			return
		}
		nLoop++
		// leaves reached over φ only: h itself = an iteration that added nothing
		seen := map[*ssa.Phi]bool{}
		var walk func(ph *ssa.Phi)
		walk = func(ph *ssa.Phi) {
			if seen[ph] {
				return
			}
			seen[ph] = true
			for i, e := range ph.Edges {
				if e == ssa.Value(h) {
					if ph == h && !c19inLoop(h, ph.Block().Preds[i]) {
						continue
					}
					pred := ph.Block().Preds[i]
					// conditions controlling the skip: the branches on the dominator chain from pred up to the loop header
					dep := false
					for b := pred; b != nil && b != h.Block(); b = b.Idom() {
						if len(b.Instrs) == 0 {
							continue
						}
						if iff, ok := b.Instrs[len(b.Instrs)-1].(*ssa.If); ok {
							if dependsOn(iff.Cond, h, depOpts{throughCalls: true}) {
								dep = true
							}
						}
					}
					c.Req(!dep, "C19.R7:every-token-appended:"+fnName(parseFn), r7, p.InstrPos(pred.Instrs[len(pred.Instrs)-1]), "a path through the token loop leaves the accumulated union unchanged under a condition computed from the union accumulated so far: a range whose ends are covered by two different earlier entries (or by entries not yet merged) is dropped together with the ports between them")
					continue
				}
				if q, ok := e.(*ssa.Phi); ok {
					walk(q)
				}
			}
		}
		walk(h)
	})
	c.Floor("C19.R7:token-loops", nLoop, 1)
}

// c19inLoop: block b can reach the header block of h (b lies on a back edge path)
func c19inLoop(h *ssa.Phi, b *ssa.BasicBlock) bool {
	return h.Block().Dominates(b)
}

// c19ordered proves s <= e for the two bounds of one constructed range.
func c19ordered(lp *linProver, at ssa.Instruction, s, e ssa.Value) (bool, string) {
	// conversions to the field type are monotone once R5 has shown that the operands fit
	strip := func(v ssa.Value) ssa.Value {
		for {
			cv, ok := v.(*ssa.Convert)
			if !ok {
				return v
			}
			v = cv.X
		}
	}
	s0, e0 := strip(s), strip(e)
	if s0 == e0 {
		return true, ""
	}
	ks, okS := constInt(s0)
	ke, okE := constInt(e0)
	if okS && okE {
		if ks <= ke {
			return true, ""
		}
		return false, "constant bounds are reversed"
	}
	if okS && ks == 0 {
		return true, ""
	}
	// min(a,b) .. max(a,b)
	if cs, ok := s0.(*ssa.Call); ok && isBuiltinCall(cs, "min") {
		if ce, ok := e0.(*ssa.Call); ok && isBuiltinCall(ce, "max") && len(cs.Call.Args) == 2 && len(ce.Call.Args) == 2 {
			a, b := strip(cs.Call.Args[0]), strip(cs.Call.Args[1])
			c2, d := strip(ce.Call.Args[0]), strip(ce.Call.Args[1])
			if a == c2 && b == d || a == d && b == c2 {
				return true, ""
			}
		}
	}
	// both results of one helper call whose every return is ordered (`lo, hi := orderPair(a, b)`)
	if ts, is := tupleSource(s0); ts != nil {
		if te, ie := tupleSource(e0); te == ts && is != ie {
			if call, ok := ts.(*ssa.Call); ok {
				if f := staticCallee(call); f != nil && len(f.Blocks) > 0 && (lp == nil || lp.fn != f) {
					all, n := true, 0
					lpf := newLinProver(lp.p, f)
					allInstrs(f, func(in ssa.Instruction) {
						ret, ok := in.(*ssa.Return)
						if !ok {
							return
						}
						rs := retResults(ret)
						if is >= len(rs) || ie >= len(rs) {
							all = false
							return
						}
						n++
						if ok2, _ := c19ordered(lpf, ret, rs[is], rs[ie]); !ok2 {
							all = false
						}
					})
					if all && n > 0 {
						return true, ""
					}
				}
			}
		}
	}
	// the two φ of a guarded swap
	ps, okS2 := s0.(*ssa.Phi)
	pe, okE2 := e0.(*ssa.Phi)
	if okS2 && okE2 && ps.Block() == pe.Block() {
		all := true
		for i := range ps.Edges {
			si, ei := strip(ps.Edges[i]), strip(pe.Edges[i])
			if si == ei || c19edgeLE(ps.Block().Preds[i], ps.Block(), si, ei) {
				continue
			}
			all = false
		}
		if all {
			return true, ""
		}
	}
	// a guard dominating the construction (`if start > end { return nil }`)
	for b, child := at.Block().Idom(), at.Block(); b != nil; b, child = b.Idom(), b {
		if c19edgeLE(b, child, s0, e0) {
			return true, ""
		}
	}
	if lp != nil && isIntType(s0.Type()) && isIntType(e0.Type()) && lp.ProveLE(at, s0, e0) {
		return true, ""
	}
	return false, "Start and End are different values with no comparison ordering them on every path"
}

// c19edgeLE: the edge pred -> blk (or, while pred is a pass-through block with
// one predecessor, the edge into pred) carries a comparison of exactly s and e
// that implies s <= e.
func c19edgeLE(pred, blk *ssa.BasicBlock, s, e ssa.Value) bool {
	for depth := 0; depth < 4 && pred != nil; depth++ {
		for i, su := range pred.Succs {
			if su != blk {
				continue
			}
			cond, pol, ok := edgeFact(pred, i)
			if !ok {
				continue
			}
			// both successors the same block: no information
			if len(pred.Succs) == 2 && pred.Succs[0] == pred.Succs[1] {
				continue
			}
			bo, ok := cond.(*ssa.BinOp)
			if !ok {
				continue
			}
			X, Y := bo.X, bo.Y
			for {
				cv, ok := X.(*ssa.Convert)
				if !ok {
					break
				}
				X = cv.X
			}
			for {
				cv, ok := Y.(*ssa.Convert)
				if !ok {
					break
				}
				Y = cv.X
			}
			op := bo.Op
			if !pol {
				switch op {
				case token.GTR:
					op = token.LEQ
				case token.GEQ:
					op = token.LSS
				case token.LSS:
					op = token.GEQ
				case token.LEQ:
					op = token.GTR
				default:
					continue
				}
			}
			switch op {
			case token.LEQ, token.LSS: // X <= Y
				if X == s && Y == e {
					return true
				}
			case token.GEQ, token.GTR: // Y <= X
				if Y == s && X == e {
					return true
				}
			}
		}
		if len(pred.Preds) != 1 {
			return false
		}
		pred, blk = pred.Preds[0], pred
	}
	return false
}

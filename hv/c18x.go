package main

import (
	"go/types"

	"golang.org/x/tools/go/ssa"
)

// C18 extra rule (added after an independent seeded change was missed): on the
// CONNECT path nothing may consume bytes from the client connection except the
// transfer of the buffered bytes into the relay wrapper (R2).  The request body
// of a CONNECT is the beginning of the tunnel: reading or closing req.Body
// (Close() drains the declared body) swallows pipelined tunnel bytes.
// Structural form: in the HTTP inbound package, no call whose receiver or
// argument derives from a load of the Body field of an *http.Request is
// reachable on a path that then reaches the CONNECT relay hand-off.
func c18Extra(c *Check) {
	p := c.P
	const rule = "C18.R2b on the CONNECT path the request body is never read or closed before the hand-off to the relay: the bytes after the request head belong to the tunnel"
	relay := p.Fn(pHTTP, "(*Server).handleConnect")
	if relay == nil {
		c.Unres("app/internal/http (*Server).handleConnect")
		return
	}
	n := 0
	for _, fn := range p.RepoFns {
		if pk := fnPkg(fn); pk == nil || pk.Pkg.Path() != pHTTP {
			continue
		}
		var handoffs []ssa.Instruction
		allInstrs(fn, func(in ssa.Instruction) {
			if ci, ok := in.(ssa.CallInstruction); ok && staticCallee(ci) == relay {
				handoffs = append(handoffs, in)
			}
		})
		if len(handoffs) == 0 {
			continue
		}
		c.Saw(fnName(fn))
		isBody := func(v ssa.Value) bool {
			for d := range deps(v, depOpts{}) {
				if u, ok := d.(*ssa.UnOp); ok {
					if fa, ok := u.X.(*ssa.FieldAddr); ok {
						f := structField(fa.X.Type(), fa.Field)
						if f != nil && f.Name() == "Body" && f.Pkg() != nil && f.Pkg().Path() == "net/http" {
							return true
						}
					}
				}
			}
			return false
		}
		for _, h := range handoffs {
			n++
			bad := ""
			allInstrs(fn, func(in ssa.Instruction) {
				ci, ok := in.(ssa.CallInstruction)
				if !ok || in == h {
					return
				}
				uses := false
				cc := ci.Common()
				if cc.IsInvoke() && isBody(cc.Value) {
					uses = true
				}
				for _, a := range cc.Args {
					if isBody(a) {
						uses = true
					}
				}
				if uses && reachableAfter(in, h) {
					bad = p.InstrPos(in)
				}
			})
			c.Req(bad == "", "C18.R2b:connect-body-untouched:"+fnName(fn), rule, p.InstrPos(h), "the request body is read or closed at "+bad+" on a path that then starts the CONNECT relay: a declared body (Content-Length / chunked) is drained and the first tunnel bytes never reach the upstream")
		}
	}
	c.Floor("C18.R2b:connect-handoffs", n, 1)
}

// c18HandOverChannel (R3b, added after an independent seeded change was missed):
// the mux dispatcher's "hand the connection over or close it" rests on the
// hand-over being a rendezvous: the send on the sub-listener's accept channel
// completes only when a handler's Accept() takes the connection, otherwise the
// `closed` case of the same select closes it. With a buffered channel the send
// completes with nobody receiving; if that sub-listener is closed afterwards the
// queued connection is neither served nor closed. Structural form: every
// channel of connections stored into a sub-listener field is made with
// capacity 0.
func c18HandOverChannel(c *Check) {
	p := c.P
	const rule = "C18.R3 the mux hands a routed connection to the sub-listener through an unbuffered channel (a rendezvous with Accept), so that a connection is either taken by a handler or closed by the dispatcher's closed-case -- never parked in a queue"
	n := 0
	for _, fn := range p.RepoFns {
		if pk := fnPkg(fn); pk == nil || pk.Pkg.Path() != pMux {
			continue
		}
		allInstrs(fn, func(in ssa.Instruction) {
			st, ok := in.(*ssa.Store)
			if !ok {
				return
			}
			fa, ok := st.Addr.(*ssa.FieldAddr)
			if !ok {
				return
			}
			ch, ok := st.Val.Type().Underlying().(*types.Chan)
			if !ok {
				return
			}
			if nn := namedOf(ch.Elem()); nn == nil || nn.Obj().Name() != "Conn" {
				return
			}
			mk, ok := resolve(st.Val).(*ssa.MakeChan)
			if !ok {
				return
			}
			n++
			f := structField(fa.X.Type(), fa.Field)
			c.Req(isConstInt(mk.Size, 0), "C18.R3:hand-over-unbuffered:"+f.Name(), rule, p.InstrPos(mk), "the connection hand-over channel "+f.Name()+" is buffered: a routed connection can sit in the queue when its sub-listener is closed and is then neither accepted nor closed")
		})
	}
	if n == 0 {
		c.Notes = append(c.Notes, "C18.R3 hand-over-unbuffered: no chan net.Conn field is made in proxymux on this tree")
	}
}

package main

import (
	"fmt"
	"go/constant"
	"go/token"
	"go/types"
	"math"
	"sort"
	"strings"

	"golang.org/x/tools/go/ssa"
)

// K6 (integer part): a small sound prover for linear inequalities between SSA
// integer values, lengths and constants.
//
// A goal `L <= R` at an instruction is proved when L-R can be written as a
// non-negative integer combination of *facts* plus a constant <= 0.  Facts are
//   - the conditions of the CFG edges every entry→site path crosses (edge
//     dominators), with their polarity;
//   - definitional facts of the values involved: len/cap >= 0, len <= cap,
//     ranges of unsigned / small integer types, x&c, x%c, x>>k, min/max
//     builtins, counts returned by copy / Read / ReadFull / ReadAt, …
// φ-nodes are handled by case split over the incoming edges (depth <= 2).
// Values are treated as mathematical integers; Convert/SUB steps that could
// wrap are only looked through when the prover can show they do not.
// Assumption (stated in the evidence): sums of lengths and bounded values do
// not overflow 63 bits.

type lin struct {
	c map[ssa.Value]int64
	k int64
}

func linConst(k int64) lin { return lin{c: map[ssa.Value]int64{}, k: k} }
func linAtom(v ssa.Value) lin {
	return lin{c: map[ssa.Value]int64{v: 1}, k: 0}
}

func (a lin) clone() lin {
	o := lin{c: make(map[ssa.Value]int64, len(a.c)), k: a.k}
	for k, v := range a.c {
		o.c[k] = v
	}
	return o
}

func (a lin) addScaled(b lin, m int64) lin {
	o := a.clone()
	for k, v := range b.c {
		o.c[k] += v * m
		if o.c[k] == 0 {
			delete(o.c, k)
		}
	}
	o.k += b.k * m
	return o
}

func (a lin) sub(b lin) lin { return a.addScaled(b, -1) }
func (a lin) add(b lin) lin { return a.addScaled(b, 1) }
func (a lin) isConst() bool { return len(a.c) == 0 }

func (a lin) String() string {
	var parts []string
	for v, c := range a.c {
		parts = append(parts, fmt.Sprintf("%d*%s", c, v.Name()))
	}
	sort.Strings(parts)
	parts = append(parts, fmt.Sprint(a.k))
	return strings.Join(parts, "+")
}

// linFact states expr <= 0.
type linFact struct {
	e   lin
	why string
}

type edgeRef struct {
	b *ssa.BasicBlock
	i int
}

type linProver struct {
	p        *Prog
	fn       *ssa.Function
	edgeCut  map[edgeRef]map[*ssa.BasicBlock]bool // blocks reachable without the edge
	lenAtom  map[ssa.Value]ssa.Value              // canonical len() call per slice value
	capAtom  map[ssa.Value]ssa.Value
	loads    []*ssa.UnOp
	canonMem map[ssa.Value]ssa.Value
	intBits  int
	budget   int
	nnDepth  int
	linDepth int
	nnHyp    map[*ssa.Phi]bool // φ whose constant starts are all >= 0: "φ >= 0" may serve as induction hypothesis
	pre      []linFact // contract facts about the parameters (valid everywhere)
	liftMode bool
	lifted   []lin
	Trace    []string
}

// isParamAtom: an integer parameter of the function, or len/cap of a slice /
// string parameter (both immutable for the whole activation).
func isParamAtom(a ssa.Value) bool {
	switch x := a.(type) {
	case *ssa.Parameter:
		return isIntType(x.Type())
	case *lenMarker:
		_, ok := x.x.(*ssa.Parameter)
		return ok
	}
	return false
}

// ProveOrLift proves L <= R at `at`; failing that it looks for a precondition
// over the function's parameters only (returned as a linear form that must be
// <= 0 at every call) under which the goal follows from the local facts.
func (lp *linProver) ProveOrLift(at ssa.Instruction, L, R lin) (bool, []lin) {
	if lp.proveAt(at, L, R, 0, nil) {
		return true, nil
	}
	lp.liftMode, lp.lifted = true, nil
	defer func() { lp.liftMode = false }()
	cx := &linCtx{at: at, subst: map[ssa.Value]ssa.Value{}}
	goal := L.sub(R)
	facts := lp.gatherFacts(goal, cx)
	lp.budget = 20000
	lp.search(goal, facts, 0)
	out := lp.lifted
	lp.lifted = nil
	// weakest-looking candidates first: fewer atoms, then smaller constant
	sort.SliceStable(out, func(i, j int) bool {
		if len(out[i].c) != len(out[j].c) {
			return len(out[i].c) < len(out[j].c)
		}
		return out[i].k < out[j].k
	})
	return false, out
}

// linAxiom is a reviewed fact about library / data invariants, matched
// structurally (callee, field and type names) wherever the value occurs.
type linAxiom struct {
	Kind   string `json:"kind"`   // callret | retfield | lenfield | lencall | field
	Callee string `json:"callee"` // function / method name (callret, retfield, lencall)
	Idx    int    `json:"idx"`
	Type   string `json:"type"`  // struct type name (lenfield, field)
	Field  string `json:"field"` // field name
	Ge     *int64 `json:"ge"`
	Le     *int64 `json:"le"`
	Reason string `json:"reason"`
}

var linAxioms []linAxiom
var linAxiomUsed = map[int]bool{}

func callName(c *ssa.Call) string {
	if c.Call.IsInvoke() {
		return c.Call.Method.Name()
	}
	if f := c.Call.StaticCallee(); f != nil {
		return f.Name()
	}
	return ""
}

// axiomFacts returns the bounds the axioms give for an atom.
func (lp *linProver) axiomFacts(a ssa.Value, ge, le func(lin, string)) {
	emit := func(i int, ax linAxiom) {
		linAxiomUsed[i] = true
		if ax.Ge != nil {
			ge(linConst(*ax.Ge), "axiom: "+ax.Reason)
		}
		if ax.Le != nil {
			le(linConst(*ax.Le), "axiom: "+ax.Reason)
		}
	}
	retOf := func(v ssa.Value) (*ssa.Call, int) {
		switch x := v.(type) {
		case *ssa.Call:
			return x, 0
		case *ssa.Extract:
			if c, ok := x.Tuple.(*ssa.Call); ok {
				return c, x.Index
			}
		}
		return nil, -1
	}
	for i, ax := range linAxioms {
		switch ax.Kind {
		case "callret":
			if c, idx := retOf(a); c != nil && idx == ax.Idx && callName(c) == ax.Callee {
				emit(i, ax)
			}
		case "retfield":
			if u, ok := a.(*ssa.UnOp); ok && u.Op == token.MUL {
				if fa, ok := u.X.(*ssa.FieldAddr); ok && structField(fa.X.Type(), fa.Field).Name() == ax.Field {
					if c, idx := retOf(resolve(fa.X)); c != nil && idx == ax.Idx && callName(c) == ax.Callee {
						emit(i, ax)
					}
				}
			}
		case "field":
			if u, ok := a.(*ssa.UnOp); ok && u.Op == token.MUL {
				if fa, ok := u.X.(*ssa.FieldAddr); ok && structField(fa.X.Type(), fa.Field).Name() == ax.Field {
					if n := namedOf(fa.X.Type()); n != nil && n.Obj().Name() == ax.Type {
						emit(i, ax)
					}
				}
			}
		case "lenfield":
			if m, ok := a.(*lenMarker); ok && !m.cap {
				if u, ok := m.x.(*ssa.UnOp); ok && u.Op == token.MUL {
					if fa, ok := u.X.(*ssa.FieldAddr); ok && structField(fa.X.Type(), fa.Field).Name() == ax.Field {
						if n := namedOf(fa.X.Type()); n != nil && n.Obj().Name() == ax.Type {
							emit(i, ax)
						}
					}
				}
			}
		case "lencall":
			if m, ok := a.(*lenMarker); ok && !m.cap {
				if c, idx := retOf(m.x); c != nil && idx == ax.Idx && callName(c) == ax.Callee {
					emit(i, ax)
				}
			}
		}
	}
}

func newLinProver(p *Prog, fn *ssa.Function) *linProver {
	lp := &linProver{p: p, fn: fn, edgeCut: map[edgeRef]map[*ssa.BasicBlock]bool{}, lenAtom: map[ssa.Value]ssa.Value{}, capAtom: map[ssa.Value]ssa.Value{}, canonMem: map[ssa.Value]ssa.Value{}, intBits: 64}
	if p.Cfg.GOARCH == "386" || p.Cfg.GOARCH == "arm" {
		lp.intBits = 32
	}
	return lp
}

// ---------------------------------------------------------------------------
// edge dominators

func (lp *linProver) domEdges(b *ssa.BasicBlock) []edgeRef {
	var out []edgeRef
	for _, pb := range lp.fn.Blocks {
		if len(pb.Instrs) == 0 {
			continue
		}
		if _, ok := pb.Instrs[len(pb.Instrs)-1].(*ssa.If); !ok {
			continue
		}
		if len(pb.Succs) == 2 && pb.Succs[0] == pb.Succs[1] {
			continue
		}
		for i := range pb.Succs {
			er := edgeRef{pb, i}
			cut, ok := lp.edgeCut[er]
			if !ok {
				cut = map[*ssa.BasicBlock]bool{}
				var walk func(x *ssa.BasicBlock)
				walk = func(x *ssa.BasicBlock) {
					if cut[x] {
						return
					}
					cut[x] = true
					for j, s := range x.Succs {
						if x == pb && j == i {
							continue
						}
						walk(s)
					}
				}
				walk(lp.fn.Blocks[0])
				lp.edgeCut[er] = cut
			}
			if !cut[b] {
				out = append(out, er)
			}
		}
	}
	return out
}

// ---------------------------------------------------------------------------
// integer type ranges

func (lp *linProver) typeRange(t types.Type) (lo, hi int64, unsigned, ok bool) {
	b, isB := t.Underlying().(*types.Basic)
	if !isB || b.Info()&types.IsInteger == 0 {
		return 0, 0, false, false
	}
	switch b.Kind() {
	case types.Int8:
		return math.MinInt8, math.MaxInt8, false, true
	case types.Int16:
		return math.MinInt16, math.MaxInt16, false, true
	case types.Int32:
		return math.MinInt32, math.MaxInt32, false, true
	case types.Int64:
		return math.MinInt64, math.MaxInt64, false, true
	case types.Int:
		if lp.intBits == 32 {
			return math.MinInt32, math.MaxInt32, false, true
		}
		return math.MinInt64, math.MaxInt64, false, true
	case types.Uint8:
		return 0, math.MaxUint8, true, true
	case types.Uint16:
		return 0, math.MaxUint16, true, true
	case types.Uint32:
		return 0, math.MaxUint32, true, true
	case types.Uint64, types.Uintptr:
		return 0, math.MaxInt64, true, false // upper bound not representable: ok=false means "hi unknown"
	case types.Uint:
		if lp.intBits == 32 {
			return 0, math.MaxUint32, true, true
		}
		return 0, math.MaxInt64, true, false
	case types.UntypedInt:
		return 0, 0, false, false
	}
	return 0, 0, false, false
}

func isIntType(t types.Type) bool {
	b, ok := t.Underlying().(*types.Basic)
	return ok && b.Info()&types.IsInteger != 0
}

func isUnsigned(t types.Type) bool {
	b, ok := t.Underlying().(*types.Basic)
	return ok && b.Info()&types.IsUnsigned != 0
}

// ---------------------------------------------------------------------------
// memory: unify loads of the same location

func (lp *linProver) storesToField(f *types.Var) []*ssa.Store {
	var out []*ssa.Store
	allInstrs(lp.fn, func(in ssa.Instruction) {
		if st, ok := in.(*ssa.Store); ok {
			if fa, ok := st.Addr.(*ssa.FieldAddr); ok && structField(fa.X.Type(), fa.Field) == f {
				out = append(out, st)
			}
		}
	})
	return out
}

var fieldWritersMemo = map[*types.Var]map[*ssa.Function]bool{}

// fieldWrittenElsewhere: some repository function other than `self` stores to
// the field (or takes its address) on an object it did not just allocate.
func fieldWrittenElsewhere(p *Prog, f *types.Var, self *ssa.Function) bool {
	ws, ok := fieldWritersMemo[f]
	if !ok {
		ws = map[*ssa.Function]bool{}
		for _, fr := range fieldRefs(p.RepoFns, f) {
			if fr.Kind != "store" && fr.Kind != "addr" {
				continue
			}
			if fa, ok := fr.Addr.(*ssa.FieldAddr); ok {
				if al, ok := resolve(fa.X).(*ssa.Alloc); ok && al.Parent() == fr.Fn {
					continue // object under construction
				}
			}
			ws[fr.Fn] = true
		}
		fieldWritersMemo[f] = ws
	}
	for fn := range ws {
		if fn != self {
			return true
		}
	}
	return false
}

// between: x lies on some path a→b.
func between(a, x, b ssa.Instruction) bool {
	return reachableAfter(a, x) && reachableAfter(x, b)
}

// canon maps a load to a canonical representative: the value stored by the
// unique dominating store with no other store in between, or the first load
// of the same path with no store in between.
func (lp *linProver) canon(v ssa.Value) ssa.Value {
	v = resolve(v)
	if c, ok := lp.canonMem[v]; ok {
		return c
	}
	u, ok := v.(*ssa.UnOp)
	if !ok || u.Op != token.MUL {
		return v
	}
	if al, isAlloc := u.X.(*ssa.Alloc); isAlloc {
		// a local kept in memory (named result with defer, variable captured by address only
		// for loads/stores): the value of the one store that dominates the load with no other
		// store to the cell on any path in between
		lp.canonMem[v] = v
		var sts []*ssa.Store
		for _, ref := range *al.Referrers() {
			switch x := ref.(type) {
			case *ssa.Store:
				if x.Addr != ssa.Value(al) {
					return v // the address itself is stored somewhere
				}
				sts = append(sts, x)
			case *ssa.UnOp, *ssa.DebugRef:
			default:
				return v // address escapes (call argument, closure, field address, ...)
			}
		}
		for _, st := range sts {
			if !dominates(st, u) {
				continue
			}
			clean := true
			for _, s2 := range sts {
				if s2 != st && between(st, s2, u) {
					clean = false
				}
			}
			if clean {
				r := lp.canon(st.Val)
				lp.canonMem[v] = r
				return r
			}
		}
		return v
	}
	fa, ok := u.X.(*ssa.FieldAddr)
	if !ok {
		return v
	}
	f := structField(fa.X.Type(), fa.Field)
	stores := lp.storesToField(f)
	lp.canonMem[v] = v
	mayWriteCalls := lp.mayWriteCalls(f)
	callBetween := func(a, b ssa.Instruction) bool {
		for _, c := range mayWriteCalls {
			if between(a, c, b) {
				return true
			}
		}
		return false
	}
	// dominating store to the same path
	for _, st := range stores {
		if !samePath(st.Addr, u.X) || !dominates(st, u) {
			continue
		}
		clean := !callBetween(st, u)
		for _, s2 := range stores {
			if s2 != st && between(st, s2, u) {
				clean = false
			}
		}
		// a store in a loop can be overtaken by itself only through the same value
		if clean {
			r := lp.canon(st.Val)
			lp.canonMem[v] = r
			return r
		}
	}
	for _, l := range lp.loads {
		if l == u || !samePath(l.X, u.X) {
			continue
		}
		clean := !callBetween(l, u) && !callBetween(u, l)
		for _, st := range stores {
			if between(l, st, u) || between(u, st, l) {
				clean = false
			}
		}
		if clean {
			r := lp.canon(l)
			lp.canonMem[v] = r
			return r
		}
	}
	lp.loads = append(lp.loads, u)
	return v
}

// mayWriteCalls: the calls of lp.fn that may write field f (only relevant when
// some other function of the repository stores to it on a shared object).
func (lp *linProver) mayWriteCalls(f *types.Var) []ssa.Instruction {
	var mayWriteCalls []ssa.Instruction
	if fieldWrittenElsewhere(lp.p, f, lp.fn) {
		allInstrs(lp.fn, func(in ssa.Instruction) {
			ci, ok := in.(ssa.CallInstruction)
			if !ok {
				return
			}
			if _, isB := ci.Common().Value.(*ssa.Builtin); isB {
				return
			}
			if callee := staticCallee(ci); callee != nil && !lp.p.IsRepoFn(callee) && len(callee.AnonFuncs) == 0 {
				// library code cannot name the repository's unexported state; callbacks are the
				// exception and arrive as function-typed arguments
				hasFn := false
				for _, a := range ci.Common().Args {
					if _, isSig := a.Type().Underlying().(*types.Signature); isSig {
						hasFn = true
					}
				}
				if !hasFn {
					return
				}
			}
			mayWriteCalls = append(mayWriteCalls, in)
		})
	}
	return mayWriteCalls
}

// paramFieldLoad: v is a load `p.f` (or a conversion of one) through a pointer
// parameter p whose value is still the one the field had on entry: no store to f
// and no call that may write f can precede it inside the function.
func (lp *linProver) paramFieldLoad(v ssa.Value) (*ssa.Parameter, *types.Var, bool) {
	u, ok := v.(*ssa.UnOp)
	if !ok || u.Op != token.MUL {
		return nil, nil, false
	}
	fa, ok := u.X.(*ssa.FieldAddr)
	if !ok {
		return nil, nil, false
	}
	prm, ok := fa.X.(*ssa.Parameter)
	if !ok || prm.Parent() != lp.fn {
		return nil, nil, false
	}
	f := structField(fa.X.Type(), fa.Field)
	if f == nil {
		return nil, nil, false
	}
	for _, st := range lp.storesToField(f) {
		if reachableAfter(st, u) {
			return nil, nil, false
		}
	}
	for _, c := range lp.mayWriteCalls(f) {
		if reachableAfter(c, u) {
			return nil, nil, false
		}
	}
	return prm, f, true
}

// isLiftAtom: an atom a precondition may mention: a parameter atom, or the
// entry value (or entry length) of a field reached through a pointer parameter.
func (lp *linProver) isLiftAtom(a ssa.Value) bool {
	if isParamAtom(a) {
		return true
	}
	switch x := a.(type) {
	case *ssa.UnOp:
		if !isIntType(x.Type()) {
			return false
		}
		_, _, ok := lp.paramFieldLoad(x)
		return ok
	case *lenMarker:
		_, _, ok := lp.paramFieldLoad(x.x)
		return ok
	}
	return false
}

// ---------------------------------------------------------------------------
// decomposition

type linCtx struct {
	at    ssa.Instruction
	depth int
	subst map[ssa.Value]ssa.Value // φ case-split substitutions
	extra []linFact
}

func (lp *linProver) lenOf(x ssa.Value, cx *linCtx) lin {
	x = lp.canon(x)
	if s, ok := cx.subst[x]; ok {
		return lp.lenOf(s, cx)
	}
	switch v := x.(type) {
	case *ssa.Const:
		if v.Value != nil && v.Value.Kind() == constant.String {
			return linConst(int64(len(constant.StringVal(v.Value))))
		}
		if v.Value == nil {
			return linConst(0) // nil slice
		}
	case *ssa.MakeSlice:
		return lp.lin(v.Len, cx)
	case *ssa.Call:
		// len(append(a, b...)) = len(a) + len(b)
		if b, ok := v.Call.Value.(*ssa.Builtin); ok && b.Name() == "append" && len(v.Call.Args) == 2 {
			return lp.lenOf(v.Call.Args[0], cx).add(lp.lenOf(v.Call.Args[1], cx))
		}
		// len(bytes.Clone(x)) = len(slices.Clone(x)) = len(x)
		if f := staticCallee(v); f != nil && len(v.Call.Args) == 1 {
			if o := f.Origin(); o != nil {
				f = o
			}
			if s := f.String(); s == "bytes.Clone" || s == "slices.Clone" {
				return lp.lenOf(v.Call.Args[0], cx)
			}
		}
	case *ssa.Convert:
		// string <-> []byte keeps the length
		if isBytesOrString(v.X.Type()) && isBytesOrString(v.Type()) {
			return lp.lenOf(v.X, cx)
		}
	case *ssa.Slice:
		var lo lin = linConst(0)
		if v.Low != nil {
			lo = lp.lin(v.Low, cx)
		}
		if v.High != nil {
			return lp.lin(v.High, cx).sub(lo)
		}
		return lp.lenOfBase(v.X, cx).sub(lo)
	case *ssa.Alloc:
		if a, ok := v.Type().(*types.Pointer).Elem().Underlying().(*types.Array); ok {
			return linConst(a.Len())
		}
	}
	if pt, ok := x.Type().Underlying().(*types.Pointer); ok {
		if a, ok := pt.Elem().Underlying().(*types.Array); ok {
			return linConst(a.Len())
		}
	}
	if a, ok := x.Type().Underlying().(*types.Array); ok {
		return linConst(a.Len())
	}
	at, ok := lp.lenAtom[x]
	if !ok {
		at = &lenMarker{x: x, cap: false}
		lp.lenAtom[x] = at
	}
	return linAtom(at)
}

func (lp *linProver) lenOfBase(x ssa.Value, cx *linCtx) lin { return lp.lenOf(x, cx) }

func (lp *linProver) capOf(x ssa.Value, cx *linCtx) lin {
	x = lp.canon(x)
	if s, ok := cx.subst[x]; ok {
		return lp.capOf(s, cx)
	}
	switch v := x.(type) {
	case *ssa.MakeSlice:
		return lp.lin(v.Cap, cx)
	case *ssa.Slice:
		if _, isStr := v.X.Type().Underlying().(*types.Basic); isStr {
			return lp.lenOf(x, cx)
		}
		var lo lin = linConst(0)
		if v.Low != nil {
			lo = lp.lin(v.Low, cx)
		}
		if v.Max != nil {
			return lp.lin(v.Max, cx).sub(lo)
		}
		return lp.capOf(v.X, cx).sub(lo)
	}
	if pt, ok := x.Type().Underlying().(*types.Pointer); ok {
		if a, ok := pt.Elem().Underlying().(*types.Array); ok {
			return linConst(a.Len())
		}
	}
	if _, isStr := x.Type().Underlying().(*types.Basic); isStr {
		return lp.lenOf(x, cx)
	}
	at, ok := lp.capAtom[x]
	if !ok {
		at = &lenMarker{x: x, cap: true}
		lp.capAtom[x] = at
	}
	return linAtom(at)
}

func isBytesOrString(t types.Type) bool {
	switch u := t.Underlying().(type) {
	case *types.Basic:
		return u.Info()&types.IsString != 0
	case *types.Slice:
		b, ok := u.Elem().Underlying().(*types.Basic)
		return ok && (b.Kind() == types.Uint8)
	}
	return false
}

// lenMarker is a synthetic atom standing for len(x) / cap(x).
type lenMarker struct {
	x   ssa.Value
	cap bool
}

func (m *lenMarker) Name() string {
	if m.cap {
		return "cap(" + m.x.Name() + ")"
	}
	return "len(" + m.x.Name() + ")"
}
func (m *lenMarker) String() string                { return m.Name() }
func (m *lenMarker) Type() types.Type              { return types.Typ[types.Int] }
func (m *lenMarker) Parent() *ssa.Function         { return m.x.Parent() }
func (m *lenMarker) Referrers() *[]ssa.Instruction { return nil }
func (m *lenMarker) Pos() token.Pos                { return token.NoPos }

func (lp *linProver) lin(v ssa.Value, cx *linCtx) lin {
	// cyclic case-split substitutions (x = min(x, y) in a loop) must not recurse forever
	lp.linDepth++
	defer func() { lp.linDepth-- }()
	if lp.linDepth > 120 {
		return linAtom(v)
	}
	v = lp.canon(v)
	if s, ok := cx.subst[v]; ok {
		return lp.lin(s, cx)
	}
	switch x := v.(type) {
	case *ssa.Const:
		if x.Value != nil && x.Value.Kind() == constant.Int {
			if i, ok := constant.Int64Val(x.Value); ok {
				return linConst(i)
			}
		}
		return linAtom(v)
	case *ssa.BinOp:
		if !isIntType(x.Type()) {
			return linAtom(v)
		}
		switch x.Op {
		case token.ADD:
			return lp.lin(x.X, cx).add(lp.lin(x.Y, cx))
		case token.SUB:
			if isUnsigned(x.Type()) {
				// a-b on unsigned wraps when b > a
				if cx.depth < 3 && lp.proveAt(x, lp.lin(x.Y, cx), lp.lin(x.X, cx), cx.depth+1, cx) {
					return lp.lin(x.X, cx).sub(lp.lin(x.Y, cx))
				}
				return linAtom(v)
			}
			return lp.lin(x.X, cx).sub(lp.lin(x.Y, cx))
		case token.MUL:
			if k, ok := constInt(x.Y); ok && k >= 0 && k < 1<<20 {
				return linConst(0).addScaled(lp.lin(x.X, cx), k)
			}
			if k, ok := constInt(x.X); ok && k >= 0 && k < 1<<20 {
				return linConst(0).addScaled(lp.lin(x.Y, cx), k)
			}
		case token.SHL:
			if k, ok := constInt(x.Y); ok && k >= 0 && k < 20 {
				return linConst(0).addScaled(lp.lin(x.X, cx), 1<<uint(k))
			}
		}
		return linAtom(v)
	case *ssa.Convert:
		if !isIntType(x.Type()) || !isIntType(x.X.Type()) {
			return linAtom(v)
		}
		slo, shi, _, sok := lp.typeRange(x.X.Type())
		dlo, dhi, _, dok := lp.typeRange(x.Type())
		if sok && dok && slo >= dlo && shi <= dhi {
			return lp.lin(x.X, cx)
		}
		_, _, su, _ := lp.typeRange(x.X.Type())
		_, _, du, _ := lp.typeRange(x.Type())
		if su && du && !dok { // unsigned -> uint64
			return lp.lin(x.X, cx)
		}
		// value preserving when the operand is provably inside the destination range
		if cx.depth < 3 {
			op := lp.lin(x.X, cx)
			okHi := false
			if dok || !du {
				okHi = lp.proveAt(x, op, linConst(dhi), cx.depth+1, cx)
			} else {
				okHi = true // destination uint64: any non-negative value fits
			}
			okLo := lp.proveAt(x, linConst(dlo), op, cx.depth+1, cx)
			if okHi && okLo {
				return op
			}
		}
		return linAtom(v)
	case *ssa.ChangeType:
		return lp.lin(x.X, cx)
	case *ssa.Call:
		if b, ok := x.Call.Value.(*ssa.Builtin); ok {
			switch b.Name() {
			case "len":
				return lp.lenOf(x.Call.Args[0], cx)
			case "cap":
				return lp.capOf(x.Call.Args[0], cx)
			}
		}
	}
	return linAtom(v)
}

// ---------------------------------------------------------------------------
// facts

func (lp *linProver) condFacts(cond ssa.Value, pol bool, cx *linCtx) []linFact {
	if vf := lp.validatorFacts(cond, pol, cx); vf != nil {
		return vf
	}
	b, ok := cond.(*ssa.BinOp)
	if !ok {
		return nil
	}
	if !isIntType(b.X.Type()) || !isIntType(b.Y.Type()) {
		return nil
	}
	op := b.Op
	if !pol {
		switch op {
		case token.LSS:
			op = token.GEQ
		case token.LEQ:
			op = token.GTR
		case token.GTR:
			op = token.LEQ
		case token.GEQ:
			op = token.LSS
		case token.EQL:
			op = token.NEQ
		case token.NEQ:
			op = token.EQL
		default:
			return nil
		}
	}
	X, Y := lp.lin(b.X, cx), lp.lin(b.Y, cx)
	why := fmt.Sprintf("edge %s %s %s", b.X.Name(), op, b.Y.Name())
	switch op {
	case token.LSS: // X < Y  =>  X - Y + 1 <= 0
		return []linFact{{X.sub(Y).add(linConst(1)), why}}
	case token.LEQ:
		return []linFact{{X.sub(Y), why}}
	case token.GTR:
		return []linFact{{Y.sub(X).add(linConst(1)), why}}
	case token.GEQ:
		return []linFact{{Y.sub(X), why}}
	case token.EQL:
		return []linFact{{X.sub(Y), why}, {Y.sub(X), why}}
	case token.NEQ:
		// x != 0 on a non-negative quantity: x >= 1
		if k, ok := constInt(b.Y); ok && k == 0 && lp.nonNeg(b.X, cx) {
			return []linFact{{linConst(1).sub(X), why}}
		}
		if k, ok := constInt(b.X); ok && k == 0 && lp.nonNeg(b.Y, cx) {
			return []linFact{{linConst(1).sub(Y), why}}
		}
	}
	return nil
}

func (lp *linProver) nonNeg(v ssa.Value, cx *linCtx) bool {
	if isUnsigned(v.Type()) {
		return true
	}
	l := lp.lin(v, cx)
	if l.k < 0 {
		return false
	}
	for a, c := range l.c {
		if c < 0 {
			return false
		}
		if _, ok := a.(*lenMarker); ok {
			continue
		}
		if !isUnsigned(a.Type()) {
			return false
		}
	}
	return true
}

// DebugFacts lists the facts available for a goal at an instruction.
func (lp *linProver) DebugFacts(at ssa.Instruction, L, R lin) string {
	cx := lp.newCtx(at)
	goal := L.sub(R)
	var sb strings.Builder
	fmt.Fprintf(&sb, "goal %s <= 0\n", goal)
	for _, f := range lp.gatherFacts(goal, cx) {
		fmt.Fprintf(&sb, "  fact %s <= 0   (%s)\n", f.e, f.why)
	}
	return sb.String()
}

// provNonNeg: v >= 0 at instruction `at`, syntactically or by the prover.
func (lp *linProver) provNonNeg(at ssa.Instruction, v ssa.Value, cx *linCtx) bool {
	if lp.nonNeg(v, cx) {
		return true
	}
	if cx.depth >= 2 {
		return false
	}
	return lp.proveAt(at, linConst(0), lp.lin(v, cx), cx.depth+1, cx)
}

// atomFacts: definitional facts about one atom.
func (lp *linProver) atomFacts(a ssa.Value, cx *linCtx) []linFact {
	var out []linFact
	A := linAtom(a)
	ge := func(lo lin, why string) { out = append(out, linFact{lo.sub(A), why}) } // lo <= a
	le := func(hi lin, why string) { out = append(out, linFact{A.sub(hi), why}) } // a <= hi
	lp.axiomFacts(a, ge, le)
	if m, ok := a.(*lenMarker); ok {
		ge(linConst(0), "len>=0")
		if !m.cap {
			// len(x) <= cap(x)
			if _, isStr := m.x.Type().Underlying().(*types.Basic); !isStr {
				le(lp.capOf(m.x, cx), "len<=cap")
			}
		} else {
			// cap(x) >= len(x)
			ge(lp.lenOf(m.x, cx), "cap>=len")
		}
		// x is the result of a slicing whose bounds were not constants: covered by lenOf
		return out
	}
	if isIntType(a.Type()) {
		lo, hi, uns, ok := lp.typeRange(a.Type())
		if uns {
			ge(linConst(0), "unsigned")
		} else if ok && lo > math.MinInt64 {
			ge(linConst(lo), "type range")
		}
		if ok && hi < math.MaxInt64 {
			le(linConst(hi), "type range")
		}
	}
	switch x := a.(type) {
	case *ssa.BinOp:
		switch x.Op {
		case token.AND:
			if k, ok := constInt(x.Y); ok && k >= 0 {
				ge(linConst(0), "x&c")
				le(linConst(k), "x&c")
			} else if k, ok := constInt(x.X); ok && k >= 0 {
				ge(linConst(0), "x&c")
				le(linConst(k), "x&c")
			}
		case token.OR, token.XOR:
			// x|y and x^y of non-negative operands: 0 <= r <= x+y
			if lp.provNonNeg(x, x.X, cx) && lp.provNonNeg(x, x.Y, cx) {
				ge(linConst(0), "x|y>=0")
				le(lp.lin(x.X, cx).add(lp.lin(x.Y, cx)), "x|y<=x+y")
			}
		case token.REM:
			if k, ok := constInt(x.Y); ok && k > 0 {
				if lp.provNonNeg(x, x.X, cx) {
					ge(linConst(0), "x%c")
				}
				le(linConst(k-1), "x%c")
			} else if lp.provNonNeg(x, x.X, cx) && lp.provNonNeg(x, x.Y, cx) {
				// x % y < y for y > 0 (y == 0 panics elsewhere: division obligation)
				ge(linConst(0), "x%y")
				le(lp.lin(x.Y, cx).sub(linConst(1)), "x%y<y")
			}
		case token.SHR:
			if lp.provNonNeg(x, x.X, cx) {
				ge(linConst(0), "x>>k")
				le(lp.lin(x.X, cx), "x>>k<=x")
			}
		case token.QUO:
			if lp.provNonNeg(x, x.X, cx) {
				if k, ok := constInt(x.Y); ok && k > 0 {
					ge(linConst(0), "x/c")
					le(lp.lin(x.X, cx), "x/c<=x")
				} else if !ok && cx.depth < 2 && lp.proveAt(x, linConst(1), lp.lin(x.Y, cx), cx.depth+1, cx) {
					// x / y with x >= 0 and y >= 1
					ge(linConst(0), "x/y")
					le(lp.lin(x.X, cx), "x/y<=x")
				}
			}
		}
	case *ssa.Call:
		if b, ok := x.Call.Value.(*ssa.Builtin); ok {
			switch b.Name() {
			case "min":
				for _, arg := range x.Call.Args {
					le(lp.lin(arg, cx), "min")
				}
			case "max":
				for _, arg := range x.Call.Args {
					ge(lp.lin(arg, cx), "max")
				}
			case "copy":
				ge(linConst(0), "copy")
				le(lp.lenOf(x.Call.Args[0], cx), "copy<=len(dst)")
				le(lp.lenOf(x.Call.Args[1], cx), "copy<=len(src)")
			}
		}
		if f := staticCallee(x); f != nil && fnPkg(f) != nil {
			full := f.String()
			switch full {
			case "github.com/apernet/quic-go/quicvarint.Len":
				ge(linConst(1), "varint len")
				le(linConst(8), "varint len")
			case "math/rand.Intn", "math/rand.Int63n", "math/rand.Int31n", "math/rand/v2.IntN", "math/rand/v2.N":
				ge(linConst(0), "rand.Intn")
				le(lp.lin(x.Call.Args[0], cx).sub(linConst(1)), "rand.Intn<n")
			case "(*math/rand.Rand).Intn":
				ge(linConst(0), "rand.Intn")
				le(lp.lin(x.Call.Args[1], cx).sub(linConst(1)), "rand.Intn<n")
			case "(*bytes.Reader).Len", "(*strings.Reader).Len":
				// 0 <= r.Len() <= len(data) for r = bytes.NewReader(data) / NewBuffer(data)
				ge(linConst(0), "Reader.Len>=0")
				if len(x.Call.Args) == 1 {
					if mk, ok := resolve(x.Call.Args[0]).(*ssa.Call); ok {
						if g := staticCallee(mk); g != nil && (g.String() == "bytes.NewReader" || g.String() == "strings.NewReader") && len(mk.Call.Args) == 1 {
							le(lp.lenOf(mk.Call.Args[0], cx), "Reader.Len<=len(data)")
						}
					}
				}
			default:
				if lo, ok := calleeLowerBound(lp.p, f, 0); ok && isIntType(x.Type()) {
					ge(linConst(lo), "result of "+f.Name()+" >= "+fmt.Sprint(lo))
				}
			}
		}
	case *ssa.Convert:
		// truncation of a non-negative value to an unsigned type never grows it
		if isIntType(x.Type()) && isIntType(x.X.Type()) && isUnsigned(x.Type()) && lp.nonNeg(x.X, cx) {
			le(lp.lin(x.X, cx), "uintN(x)<=x")
		}
	case *ssa.Extract:
		if call, ok := x.Tuple.(*ssa.Call); ok && isIntType(x.Type()) {
			if f := staticCallee(call); f != nil {
				if lo, ok := calleeLowerBound(lp.p, f, x.Index); ok {
					ge(linConst(lo), "result of "+f.Name()+" >= "+fmt.Sprint(lo))
				}
				// a count returned by a repository helper that is bounded by the length of one of
				// its slice parameters on every return (a read helper handing back ReadFrom's count)
				if j, ok := calleeResultLeLenParam(lp.p, f, x.Index); ok && j < len(call.Call.Args) {
					le(lp.lenOf(call.Call.Args[j], cx), "result of "+f.Name()+" <= len(argument)")
				}
			}
		}
		// n of (n, err) := io.ReadFull(r, buf) / r.Read(buf) / ReadFrom(buf): 0 <= n <= len(buf)
		if x.Index == 0 {
			if call, ok := x.Tuple.(*ssa.Call); ok {
				var buf ssa.Value
				args := callArgs(call)
				cc := call.Common()
				name := ""
				if cc.IsInvoke() {
					name = cc.Method.Name()
				} else if f := cc.StaticCallee(); f != nil {
					name = f.Name()
				}
				switch name {
				case "Read", "ReadFrom", "ReadFromUDP", "ReadAt", "ReadMsgUDP":
					if len(args) >= 1 && isBytesOrString(args[0].Type()) {
						buf = args[0]
					}
				case "ReadFull", "ReadAtLeast":
					if len(args) >= 2 && isBytesOrString(args[1].Type()) {
						buf = args[1]
					}
				case "Write", "WriteTo":
					if len(args) >= 1 && isBytesOrString(args[0].Type()) {
						buf = args[0]
					}
				}
				if buf != nil && isIntType(x.Type()) {
					ge(linConst(0), name+" count>=0")
					le(lp.lenOf(buf, cx), name+" count<=len(buf)")
				}
			}
		}
	case *ssa.Phi:
		// induction: φ(c0, φ+k) with k >= 0 never drops below its smallest
		// constant start value (range loops start at -1)
		nn := true
		lower := int64(math.MaxInt64)
		if lp.nnHyp == nil {
			lp.nnHyp = map[*ssa.Phi]bool{}
		}
		if _, seen := lp.nnHyp[x]; !seen {
			hyp := true
			for _, e := range x.Edges {
				if k, ok := constInt(e); ok && k < 0 {
					hyp = false
				}
			}
			lp.nnHyp[x] = hyp
		}
		for _, e := range x.Edges {
			if k, ok := constInt(e); ok {
				if k < lower {
					lower = k
				}
				continue
			}
			if isUnsigned(e.Type()) {
				if 0 < lower {
					lower = 0
				}
				continue
			}
			if bo, ok := resolve(e).(*ssa.BinOp); ok && bo.Op == token.ADD {
				if (resolve(bo.X) == ssa.Value(x) && lp.incNonNeg(bo, bo.Y, x, cx)) || (resolve(bo.Y) == ssa.Value(x) && lp.incNonNeg(bo, bo.X, x, cx)) {
					continue
				}
			}
			if lp.nonNegNoPhi(e, x, cx) {
				if 0 < lower {
					lower = 0
				}
				continue
			}
			nn = false
		}
		if nn && lower != math.MaxInt64 {
			ge(linConst(lower), "induction lower bound")
		}
	}
	return out
}

func (lp *linProver) nonNegNoPhi(v ssa.Value, ph *ssa.Phi, cx *linCtx) bool {
	lp.nnDepth++
	defer func() { lp.nnDepth-- }()
	if lp.nnDepth > 8 {
		return false
	}
	if k, ok := constInt(v); ok {
		return k >= 0
	}
	if isUnsigned(v.Type()) {
		return true
	}
	r := resolve(v)
	if r == ssa.Value(ph) && lp.nnHyp[ph] {
		return true // induction hypothesis (every constant start of ph is >= 0)
	}
	if c, ok := r.(*ssa.Call); ok {
		if b, ok := c.Call.Value.(*ssa.Builtin); ok && (b.Name() == "len" || b.Name() == "copy" || b.Name() == "cap") {
			return true
		}
		if b, ok := c.Call.Value.(*ssa.Builtin); ok && (b.Name() == "min" || b.Name() == "max") && len(c.Call.Args) > 0 {
			// min of non-negatives; max with one non-negative
			for _, a := range c.Call.Args {
				nn := lp.nonNegNoPhi(a, ph, cx)
				if nn && b.Name() == "max" {
					return true
				}
				if !nn && b.Name() == "min" {
					return false
				}
			}
			return b.Name() == "min"
		}
	}
	if bo, ok := r.(*ssa.BinOp); ok && bo.Op == token.ADD && lp.nnHyp[ph] {
		if resolve(bo.X) == ssa.Value(ph) && lp.incNonNeg(bo, bo.Y, ph, cx) {
			return true
		}
		if resolve(bo.Y) == ssa.Value(ph) && lp.incNonNeg(bo, bo.X, ph, cx) {
			return true
		}
	}
	if cv, ok := r.(*ssa.Convert); ok && isUnsigned(cv.X.Type()) {
		lo, hi, _, okS := lp.typeRange(cv.X.Type())
		_, dhi, _, okD := lp.typeRange(cv.Type())
		if okS && okD && lo >= 0 && hi <= dhi {
			return true
		}
	}
	// a non-negative induction variable or clamp of non-negatives
	if ph2, ok := r.(*ssa.Phi); ok && ph2 != ph {
		for _, e := range ph2.Edges {
			if !lp.nonNegNoPhi(e, ph2, cx) {
				return false
			}
		}
		return true
	}
	if bo, ok := r.(*ssa.BinOp); ok && bo.Op == token.SUB {
		// len(x) - off with off < len(x) etc. is left to the prover
		return false
	}
	return false
}

// ---------------------------------------------------------------------------
// proving

// ProveLE proves L <= R at instruction `at`.
func (lp *linProver) ProveLE(at ssa.Instruction, L, R ssa.Value) bool {
	cx := &linCtx{at: at, subst: map[ssa.Value]ssa.Value{}}
	return lp.proveAt(at, lp.lin(L, cx), lp.lin(R, cx), 0, cx)
}

func (lp *linProver) newCtx(at ssa.Instruction) *linCtx {
	return &linCtx{at: at, subst: map[ssa.Value]ssa.Value{}}
}

func (lp *linProver) proveAt(at ssa.Instruction, L, R lin, depth int, parent *linCtx) bool {
	cx := &linCtx{at: at, depth: depth, subst: map[ssa.Value]ssa.Value{}}
	if parent != nil {
		for k, v := range parent.subst {
			cx.subst[k] = v
		}
		cx.extra = parent.extra
	}
	return lp.proveGoal(L.sub(R), cx, 0)
}

func (lp *linProver) gatherFacts(goal lin, cx *linCtx) []linFact {
	var facts []linFact
	for _, er := range lp.domEdges(cx.at.Block()) {
		cond, pol, ok := edgeFact(er.b, er.i)
		if !ok {
			continue
		}
		facts = append(facts, lp.condFacts(cond, pol, cx)...)
	}
	facts = append(facts, cx.extra...)
	facts = append(facts, lp.pre...)
	// definitional facts for all atoms that occur, to a small fixpoint
	seen := map[ssa.Value]bool{}
	for round := 0; round < 3; round++ {
		var atoms []ssa.Value
		add := func(l lin) {
			for a := range l.c {
				if !seen[a] {
					seen[a] = true
					atoms = append(atoms, a)
				}
			}
		}
		add(goal)
		for _, f := range facts {
			add(f.e)
		}
		if len(atoms) == 0 {
			break
		}
		for _, a := range atoms {
			facts = append(facts, lp.atomFacts(a, cx)...)
		}
	}
	// constructor-established length relations between sibling fields
	var lenAtoms []*lenMarker
	for a := range seen {
		if m, ok := a.(*lenMarker); ok && !m.cap {
			lenAtoms = append(lenAtoms, m)
		}
	}
	loadOf := func(m *lenMarker) (*ssa.FieldAddr, *types.Var) {
		u, ok := m.x.(*ssa.UnOp)
		if !ok || u.Op != token.MUL {
			return nil, nil
		}
		fa, ok := u.X.(*ssa.FieldAddr)
		if !ok {
			return nil, nil
		}
		return fa, structField(fa.X.Type(), fa.Field)
	}
	for _, mF := range lenAtoms {
		faF, F := loadOf(mF)
		if F == nil {
			continue
		}
		inv := fieldLenInvariant(lp.p, F)
		if inv == nil {
			continue
		}
		rhs := linConst(inv.k)
		okAll := true
		for G, coef := range inv.terms {
			found := false
			for _, mG := range lenAtoms {
				faG, g := loadOf(mG)
				if g == G && samePath(faG.X, faF.X) {
					rhs = rhs.addScaled(linAtom(mG), coef)
					found = true
					break
				}
			}
			if !found {
				okAll = false
			}
		}
		if okAll {
			e := linAtom(mF).sub(rhs)
			facts = append(facts, linFact{e, "field length invariant of " + F.Name()}, linFact{linConst(0).sub(e), "field length invariant of " + F.Name()})
		}
	}
	return facts
}

// fieldLenInv: len(o.F) = Σ coef·len(o.G) + k for sibling fields of one object,
// established where the object is built and never changed afterwards (each of
// the fields involved has exactly one store in the whole repository, into a
// freshly allocated object, and its address is never taken).
type fieldLenInv struct {
	terms map[*types.Var]int64
	k     int64
}

var fieldLenInvMemo = map[*types.Var]*fieldLenInv{}
var fieldLenInvDone = map[*types.Var]bool{}

func singleFreshStore(p *Prog, f *types.Var) *ssa.Store {
	var st *ssa.Store
	n := 0
	for _, fr := range fieldRefs(p.RepoFns, f) {
		switch fr.Kind {
		case "store":
			n++
			st, _ = fr.Instr.(*ssa.Store)
		case "addr":
			return nil
		}
	}
	if n != 1 || st == nil {
		return nil
	}
	fa, ok := st.Addr.(*ssa.FieldAddr)
	if !ok {
		return nil
	}
	if al, ok := resolve(fa.X).(*ssa.Alloc); !ok || al.Parent() != st.Parent() {
		return nil
	}
	return st
}

func fieldLenInvariant(p *Prog, F *types.Var) *fieldLenInv {
	if fieldLenInvDone[F] {
		return fieldLenInvMemo[F]
	}
	fieldLenInvDone[F] = true
	st := singleFreshStore(p, F)
	if st == nil {
		return nil
	}
	mk, ok := resolve(st.Val).(*ssa.MakeSlice)
	if !ok {
		return nil
	}
	base := resolve(st.Addr.(*ssa.FieldAddr).X)
	cp := newLinProver(p, st.Parent())
	L := cp.lin(mk.Len, cp.newCtx(st))
	inv := &fieldLenInv{terms: map[*types.Var]int64{}, k: L.k}
	owner, _ := base.Type().(*types.Pointer)
	if owner == nil {
		return nil
	}
	stc, ok := owner.Elem().Underlying().(*types.Struct)
	if !ok {
		return nil
	}
	// single-sibling form: len(F) = len(G) + k
	cx := cp.newCtx(st)
	for i := 0; i < stc.NumFields(); i++ {
		g := stc.Field(i)
		if g == F || !isBytesOrString(g.Type()) {
			continue
		}
		gs := singleFreshStore(p, g)
		if gs == nil || gs.Parent() != st.Parent() || resolve(gs.Addr.(*ssa.FieldAddr).X) != base {
			continue
		}
		d := L.sub(cp.lenOf(gs.Val, cx))
		if d.isConst() {
			inv.terms[g] = 1
			inv.k = d.k
			fieldLenInvMemo[F] = inv
			return inv
		}
	}
	return nil
}

func (lp *linProver) proveGoal(goal lin, cx *linCtx, split int) bool {
	if goal.isConst() {
		return goal.k <= 0
	}
	facts := lp.gatherFacts(goal, cx)
	lp.budget = 20000
	if lp.search(goal, facts, 0) {
		return true
	}
	// φ case split
	if split >= 2 {
		return false
	}
	var phis []*ssa.Phi
	seenPhi := map[*ssa.Phi]bool{}
	collect := func(l lin) {
		for a := range l.c {
			if ph, ok := a.(*ssa.Phi); ok && !seenPhi[ph] {
				seenPhi[ph] = true
				phis = append(phis, ph)
			}
		}
	}
	collect(goal)
	for _, ph := range phis {
		if len(ph.Edges) > 4 {
			continue
		}
		// loop-carried φ (an incoming value computed from the φ itself) cannot be
		// case-split: that would need induction
		carried := false
		for _, e := range ph.Edges {
			if resolve(e) == ssa.Value(ph) {
				continue
			}
			if _, direct := lp.lin(e, cx).c[ph]; direct {
				carried = true
			}
		}
		if carried {
			continue
		}
		all := true
		for i, e := range ph.Edges {
			if resolve(e) == ssa.Value(ph) {
				continue
			}
			pred := ph.Block().Preds[i]
			cx2 := &linCtx{at: cx.at, depth: cx.depth, subst: map[ssa.Value]ssa.Value{}}
			for k, v := range cx.subst {
				cx2.subst[k] = v
			}
			cx2.subst[ph] = e
			// facts valid on the incoming edge: edge dominators of pred + the edge itself
			var extra []linFact
			extra = append(extra, cx.extra...)
			pcx := &linCtx{at: pred.Instrs[len(pred.Instrs)-1], depth: cx.depth, subst: cx2.subst}
			for _, er := range lp.domEdges(pred) {
				if cond, pol, ok := edgeFact(er.b, er.i); ok {
					extra = append(extra, lp.condFacts(cond, pol, pcx)...)
				}
			}
			for j, s := range pred.Succs {
				if s == ph.Block() {
					if cond, pol, ok := edgeFact(pred, j); ok && len(pred.Succs) == 2 && pred.Succs[0] != pred.Succs[1] {
						extra = append(extra, lp.condFacts(cond, pol, pcx)...)
					}
				}
			}
			cx2.extra = extra
			// re-express the goal under the substitution
			g2 := lp.resubst(goal, cx2)
			if !lp.proveGoal(g2, cx2, split+1) {
				all = false
				break
			}
		}
		if all {
			return true
		}
	}
	// min/max builtins: the result equals one of the arguments; for min the
	// chosen argument is <= the others (for max: >=)
	for a := range goal.c {
		call, ok := a.(*ssa.Call)
		if !ok {
			continue
		}
		b, ok := call.Call.Value.(*ssa.Builtin)
		if !ok || (b.Name() != "min" && b.Name() != "max") || len(call.Call.Args) > 4 {
			continue
		}
		all := true
		for i, arg := range call.Call.Args {
			cx2 := &linCtx{at: cx.at, depth: cx.depth, subst: map[ssa.Value]ssa.Value{}}
			for k, v := range cx.subst {
				cx2.subst[k] = v
			}
			cx2.subst[call] = arg
			var extra []linFact
			extra = append(extra, cx.extra...)
			A := lp.lin(arg, cx2)
			for j, other := range call.Call.Args {
				if j == i {
					continue
				}
				O := lp.lin(other, cx2)
				if b.Name() == "min" {
					extra = append(extra, linFact{A.sub(O), "min picks the smallest"})
				} else {
					extra = append(extra, linFact{O.sub(A), "max picks the largest"})
				}
			}
			cx2.extra = extra
			if !lp.proveGoal(lp.resubst(goal, cx2), cx2, split+1) {
				all = false
				break
			}
		}
		if all {
			return true
		}
	}
	return false
}

// resubst rewrites a linear form after a φ substitution was added.
func (lp *linProver) resubst(l lin, cx *linCtx) lin {
	out := linConst(l.k)
	for a, c := range l.c {
		var t lin
		if m, ok := a.(*lenMarker); ok {
			if m.cap {
				t = lp.capOf(m.x, cx)
			} else {
				t = lp.lenOf(m.x, cx)
			}
		} else {
			t = lp.lin(a, cx)
		}
		out = out.addScaled(t, c)
	}
	return out
}

// search: residual must become a constant <= 0 by subtracting non-negative
// multiples of facts (each fact states e <= 0).
func (lp *linProver) search(res lin, facts []linFact, depth int) bool {
	if res.isConst() {
		return res.k <= 0
	}
	if lp.liftMode {
		// a residual over the function's own parameters only is a candidate
		// precondition (to be established by every caller)
		all := true
		for a := range res.c {
			if !lp.isLiftAtom(a) {
				all = false
			}
		}
		if all && len(lp.lifted) < 8 {
			dupl := false
			for _, x := range lp.lifted {
				if x.String() == res.String() {
					dupl = true
				}
			}
			if !dupl {
				lp.lifted = append(lp.lifted, res.clone())
			}
			// keep exploring: local guards may reduce the precondition further
		}
	}
	if depth > 7 || lp.budget <= 0 {
		return false
	}
	lp.budget--
	// pick the atom with the fewest candidate facts
	var pick ssa.Value
	best := -1
	for a, c := range res.c {
		n := 0
		for _, f := range facts {
			fc := f.e.c[a]
			if fc != 0 && (fc > 0) == (c > 0) {
				n++
			}
		}
		if n == 0 {
			if lp.liftMode && lp.isLiftAtom(a) {
				continue // may remain in the lifted precondition
			}
			return false // atom cannot be eliminated
		}
		if lp.liftMode && lp.isLiftAtom(a) {
			n += 1000 // eliminate the function's own values first
		}
		if best < 0 || n < best {
			best, pick = n, a
		}
	}
	if pick == nil {
		return false
	}
	c := res.c[pick]
	for _, f := range facts {
		fc := f.e.c[pick]
		if fc == 0 || (fc > 0) != (c > 0) {
			continue
		}
		if c%fc != 0 {
			continue
		}
		m := c / fc // positive
		if m <= 0 || m > 4 {
			continue
		}
		if lp.search(res.addScaled(f.e, -m), facts, depth+1) {
			return true
		}
	}
	return false
}

// ---------------------------------------------------------------------------
// bounds obligations of one site

// linGoal is one inequality L <= R a site needs.
type linGoal struct {
	L, R lin
	What string
}

// siteGoals lists the inequalities an index / slice instruction needs.
func (lp *linProver) siteGoals(in ssa.Instruction) []linGoal {
	cx := lp.newCtx(in)
	var out []linGoal
	add := func(a, b lin, what string) { out = append(out, linGoal{a, b, what}) }
	idxGoals := func(x, index ssa.Value) {
		idx := lp.lin(index, cx)
		add(linConst(0), idx, "index >= 0")
		add(idx.add(linConst(1)), lp.lenOf(x, cx), "index < len")
	}
	switch x := in.(type) {
	case *ssa.IndexAddr:
		idxGoals(x.X, x.Index)
	case *ssa.Index:
		idxGoals(x.X, x.Index)
	case *ssa.Lookup:
		if _, isMap := x.X.Type().Underlying().(*types.Map); !isMap {
			idxGoals(x.X, x.Index)
		}
	case *ssa.Slice:
		limit := lp.capOf(x.X, cx)
		lo := linConst(0)
		if x.Low != nil {
			lo = lp.lin(x.Low, cx)
			add(linConst(0), lo, "low >= 0")
		}
		if x.Max != nil {
			mx := lp.lin(x.Max, cx)
			add(mx, limit, "max <= cap")
			limit = mx
		}
		if x.High != nil {
			hi := lp.lin(x.High, cx)
			add(hi, limit, "high <= cap")
			add(lo, hi, "low <= high")
		} else {
			add(lo, lp.lenOf(x.X, cx), "low <= len")
		}
	case *ssa.SliceToArrayPointer:
		a := x.Type().(*types.Pointer).Elem().Underlying().(*types.Array)
		add(linConst(a.Len()), lp.lenOf(x.X, cx), "array length <= len")
	default:
		add(linConst(1), linConst(0), "unsupported site kind")
	}
	return out
}

// siteBounds proves the bounds checks of an index / slice instruction; the
// returned string names the first check that could not be proved.
func (lp *linProver) siteBounds(in ssa.Instruction) (bool, string) {
	cx := lp.newCtx(in)
	le := func(a, b lin, what string) (bool, string) {
		if lp.proveAt(in, a, b, 0, nil) {
			return true, ""
		}
		return false, what
	}
	switch x := in.(type) {
	case *ssa.IndexAddr:
		idx := lp.lin(x.Index, cx)
		if ok, w := le(linConst(0), idx, "index >= 0"); !ok {
			return false, w
		}
		return le(idx.add(linConst(1)), lp.lenOf(x.X, cx), "index < len")
	case *ssa.Index:
		idx := lp.lin(x.Index, cx)
		if ok, w := le(linConst(0), idx, "index >= 0"); !ok {
			return false, w
		}
		return le(idx.add(linConst(1)), lp.lenOf(x.X, cx), "index < len")
	case *ssa.Lookup:
		if _, isMap := x.X.Type().Underlying().(*types.Map); isMap {
			return true, ""
		}
		idx := lp.lin(x.Index, cx)
		if ok, w := le(linConst(0), idx, "index >= 0"); !ok {
			return false, w
		}
		return le(idx.add(linConst(1)), lp.lenOf(x.X, cx), "index < len")
	case *ssa.Slice:
		limit := lp.capOf(x.X, cx)
		lo := linConst(0)
		if x.Low != nil {
			lo = lp.lin(x.Low, cx)
			if ok, w := le(linConst(0), lo, "low >= 0"); !ok {
				return false, w
			}
		}
		if x.Max != nil {
			mx := lp.lin(x.Max, cx)
			if ok, w := le(mx, limit, "max <= cap"); !ok {
				return false, w
			}
			limit = mx
		}
		if x.High != nil {
			hi := lp.lin(x.High, cx)
			if ok, w := le(hi, limit, "high <= cap"); !ok {
				return false, w
			}
			return le(lo, hi, "low <= high")
		}
		return le(lo, lp.lenOf(x.X, cx), "low <= len")
	case *ssa.SliceToArrayPointer:
		a := x.Type().(*types.Pointer).Elem().Underlying().(*types.Array)
		return le(linConst(a.Len()), lp.lenOf(x.X, cx), "array length <= len")
	}
	return false, "unsupported site kind"
}

// ---------------------------------------------------------------------------
// callee summaries: a constant lower bound (1 or 0) of an integer result of a
// repository function, proved inside the callee at every return.

type calleeKey struct {
	f   *ssa.Function
	idx int
}

var calleeLBMemo = map[calleeKey]*int64{}
var calleeLBBusy = map[calleeKey]bool{}

func calleeLowerBound(p *Prog, f *ssa.Function, idx int) (int64, bool) {
	k := calleeKey{f, idx}
	if r, ok := calleeLBMemo[k]; ok {
		if r == nil {
			return 0, false
		}
		return *r, true
	}
	if calleeLBBusy[k] || len(f.Blocks) == 0 || !p.IsRepoFn(f) {
		return 0, false
	}
	res := f.Signature.Results()
	if idx >= res.Len() || !isIntType(res.At(idx).Type()) {
		calleeLBMemo[k] = nil
		return 0, false
	}
	calleeLBBusy[k] = true
	defer delete(calleeLBBusy, k)
	lp := newLinProver(p, f)
	var best *int64
	for _, lo := range []int64{1, 0} {
		all, n := true, 0
		allInstrs(f, func(in ssa.Instruction) {
			r, ok := in.(*ssa.Return)
			if !ok || !all {
				return
			}
			vals := retResults(r)
			if vals == nil {
				return // recover block
			}
			n++
			if idx >= len(vals) {
				all = false
				return
			}
			cx := lp.newCtx(r)
			if !lp.proveAt(r, linConst(lo), lp.lin(vals[idx], cx), 1, nil) {
				all = false
			}
		})
		if all && n > 0 {
			v := lo
			best = &v
			break
		}
	}
	calleeLBMemo[k] = best
	if best == nil {
		return 0, false
	}
	return *best, true
}

// ---------------------------------------------------------------------------
// contracts: "expr <= expr" over p<N>, len(p<N>), cap(p<N>) and integers

func parseContract(s string, param func(i int) ssa.Value, lp *linProver, cx *linCtx) (L, R lin, err error) {
	parts := strings.Split(s, "<=")
	if len(parts) != 2 {
		return L, R, fmt.Errorf("contract %q: want `expr <= expr`", s)
	}
	side := func(e string) (lin, error) {
		out := linConst(0)
		for _, t := range strings.Split(e, "+") {
			t = strings.TrimSpace(t)
			if t == "" {
				continue
			}
			coef := int64(1)
			if i := strings.Index(t, "*"); i > 0 {
				var c int64
				if _, err := fmt.Sscan(strings.TrimSpace(t[:i]), &c); err != nil {
					return out, fmt.Errorf("contract %q: bad coefficient in %q", s, t)
				}
				coef, t = c, strings.TrimSpace(t[i+1:])
			}
			var k int64
			if _, err := fmt.Sscan(t, &k); err == nil && !strings.HasPrefix(t, "p") {
				out = out.add(linConst(k * coef))
				continue
			}
			kind := "val"
			if strings.HasPrefix(t, "len(") && strings.HasSuffix(t, ")") {
				kind, t = "len", t[4:len(t)-1]
			} else if strings.HasPrefix(t, "cap(") && strings.HasSuffix(t, ")") {
				kind, t = "cap", t[4:len(t)-1]
			}
			var idx int
			if _, err := fmt.Sscanf(t, "p%d", &idx); err != nil {
				return out, fmt.Errorf("contract %q: bad atom %q", s, t)
			}
			v := param(idx)
			if v == nil {
				return out, fmt.Errorf("contract %q: no parameter %d", s, idx)
			}
			var term lin
			switch kind {
			case "len":
				term = lp.lenOf(v, cx)
			case "cap":
				term = lp.capOf(v, cx)
			default:
				term = lp.lin(v, cx)
			}
			out = out.addScaled(term, coef)
		}
		return out, nil
	}
	if L, err = side(parts[0]); err != nil {
		return
	}
	R, err = side(parts[1])
	return
}

// incNonNeg: the increment of an induction variable is non-negative at the add.
func (lp *linProver) incNonNeg(at *ssa.BinOp, v ssa.Value, ph *ssa.Phi, cx *linCtx) bool {
	if lp.nonNegNoPhi(v, ph, cx) {
		return true
	}
	if cx.depth >= 2 {
		return false
	}
	return lp.proveAt(at, linConst(0), lp.lin(v, cx), cx.depth+1, cx)
}

// ---------------------------------------------------------------------------
// validator helpers

var (
	validatorDepth   int
	validatorProvers = map[*ssa.Function]*linProver{}
)

// validatorFacts: the branch tests the verdict of a repository "validator"
// helper -- `if err := check(args); err != nil { return }` or `if !valid(args)
// { return }`. On the edge on which the helper returned nil (resp. the tested
// boolean), every guard over the helper's own parameters that dominates all of
// its returns with that verdict holds for the arguments of the call.
func (lp *linProver) validatorFacts(cond ssa.Value, pol bool, cx *linCtx) []linFact {
	if validatorDepth > 1 {
		return nil
	}
	var call *ssa.Call
	wantNil, boolVal := false, pol
	switch c := cond.(type) {
	case *ssa.Call:
		call = c
	case *ssa.BinOp:
		x, isNil, ok := nilTest(cond, pol)
		if !ok || !isNil {
			return nil
		}
		wantNil = true
		switch v := resolve(x).(type) {
		case *ssa.Call:
			call = v
		case *ssa.Extract:
			if cc, ok := v.Tuple.(*ssa.Call); ok {
				if sig := cc.Call.Signature(); sig != nil && v.Index == sig.Results().Len()-1 {
					call = cc
				}
			}
		}
	}
	if call == nil || call.Call.IsInvoke() {
		return nil
	}
	callee := staticCallee(call)
	if callee == nil || callee == lp.fn || len(callee.Blocks) == 0 || !lp.p.IsRepoFn(callee) {
		return nil
	}
	res := callee.Signature.Results()
	if res.Len() == 0 {
		return nil
	}
	last := res.At(res.Len() - 1).Type()
	if wantNil {
		if !types.Identical(last, types.Universe.Lookup("error").Type()) {
			return nil
		}
	} else if res.Len() != 1 || !isBoolType(last) {
		return nil
	}
	clp := validatorProvers[callee]
	if clp == nil {
		clp = newLinProver(lp.p, callee)
		validatorProvers[callee] = clp
	}
	validatorDepth++
	defer func() { validatorDepth-- }()
	var common map[string]linFact
	nRet := 0
	bail := false
	allInstrs(callee, func(in ssa.Instruction) {
		r, ok := in.(*ssa.Return)
		if !ok || bail {
			return
		}
		rr := retResults(r)
		if rr == nil {
			return
		}
		v := rr[len(rr)-1]
		if wantNil {
			if !isNilConst(v) {
				switch y := v.(type) {
				case *ssa.MakeInterface:
					return // a non-nil error
				case *ssa.Call:
					if calleeIs(y, "fmt", "Errorf") || calleeIs(y, "errors", "New") {
						return
					}
				}
				bail = true // may or may not be nil: no postcondition
				return
			}
		} else {
			k, isC := v.(*ssa.Const)
			if !isC {
				bail = true
				return
			}
			if isConstBool(k, true) != boolVal {
				return
			}
		}
		nRet++
		here := map[string]linFact{}
		ccx := clp.newCtx(r)
		for _, er := range clp.domEdges(r.Block()) {
			cnd, p2, ok := edgeFact(er.b, er.i)
			if !ok {
				continue
			}
			for _, f := range clp.condFacts(cnd, p2, ccx) {
				allParam := true
				for a := range f.e.c {
					if !isParamAtom(a) {
						allParam = false
					}
				}
				if allParam {
					here[f.e.String()] = f
				}
			}
		}
		if common == nil {
			common = here
		} else {
			for k := range common {
				if _, ok := here[k]; !ok {
					delete(common, k)
				}
			}
		}
	})
	if bail || nRet == 0 || len(common) == 0 {
		return nil
	}
	var out []linFact
	for _, f := range common {
		e := linConst(f.e.k)
		okSub := true
		for a, coef := range f.e.c {
			var prm *ssa.Parameter
			kind := "val"
			switch x := a.(type) {
			case *ssa.Parameter:
				prm = x
			case *lenMarker:
				prm, _ = x.x.(*ssa.Parameter)
				kind = "len"
				if x.cap {
					kind = "cap"
				}
			}
			idx := -1
			for i, q := range callee.Params {
				if q == prm {
					idx = i
				}
			}
			if prm == nil || idx < 0 || idx >= len(call.Call.Args) {
				okSub = false
				break
			}
			arg := call.Call.Args[idx]
			switch kind {
			case "len":
				e = e.addScaled(lp.lenOf(arg, cx), coef)
			case "cap":
				e = e.addScaled(lp.capOf(arg, cx), coef)
			default:
				e = e.addScaled(lp.lin(arg, cx), coef)
			}
		}
		if okSub {
			out = append(out, linFact{e, "verdict of " + callee.Name() + ": " + f.why})
		}
	}
	return out
}

var calleeLeLenMemo = map[calleeKey]int{}

// calleeResultLeLenParam: result idx of f is, on every return, proved <= len of
// the same slice/string parameter j (inside f, from f's own guards and facts).
// Returns j. Memoised; -1 = no such parameter.
func calleeResultLeLenParam(p *Prog, f *ssa.Function, idx int) (int, bool) {
	if f == nil || len(f.Blocks) == 0 || !p.IsRepoFn(f) {
		return -1, false
	}
	key := calleeKey{f, idx}
	if j, ok := calleeLeLenMemo[key]; ok {
		return j, j >= 0
	}
	calleeLeLenMemo[key] = -1
	if validatorDepth > 1 {
		return -1, false
	}
	validatorDepth++
	defer func() { validatorDepth-- }()
	clp := newLinProver(p, f)
	for j, prm := range f.Params {
		if !isBytesOrString(prm.Type()) {
			continue
		}
		all, n := true, 0
		allInstrs(f, func(in ssa.Instruction) {
			r, ok := in.(*ssa.Return)
			if !ok || !all {
				return
			}
			rr := retResults(r)
			if rr == nil {
				return
			}
			if idx >= len(rr) || !isIntType(rr[idx].Type()) {
				all = false
				return
			}
			n++
			cx := clp.newCtx(r)
			if !clp.proveAt(r, clp.lin(rr[idx], cx), clp.lenOf(prm, cx), 0, nil) {
				all = false
			}
		})
		if all && n > 0 {
			calleeLeLenMemo[key] = j
			return j, true
		}
	}
	return -1, false
}

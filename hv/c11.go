package main

import (
	"fmt"
	"go/constant"
	"go/token"
	"go/types"
	"math"
	"strings"

	"golang.org/x/tools/go/ssa"
)

// C11 – Brutal congestion control: range clauses (DESIGN.md §2 C11).
//
// The float clauses are decided by a small interval evaluator over SSA values
// (c11eval): constants, conversions, + - * /, builtin min/max, math.Min/Max,
// φ case split with the guard of every incoming edge, guards on dominating
// edges (through a structural congruence of pure expressions, so that two
// spellings of `a+b` are one value), the `a/(a+b)` idiom on unsigned counters,
// inlining of static repository callees (parameters are evaluated in the
// caller's context, facts of the call site included).  NaN is tracked
// separately: a negated float comparison does not exclude it.  Anything the
// evaluator cannot interpret is `opaque` and yields an UNDECIDED obligation,
// never a pass.  Integer clauses use the shared linear prover.

// ---------------------------------------------------------------------------
// intervals

type c11iv struct {
	lo, hi float64
	nan    bool   // NaN is a possible value (floats)
	opq    string // a sub-term could not be interpreted: nothing is known
}

var c11inf = math.Inf(1)

func c11empty() c11iv           { return c11iv{lo: c11inf, hi: -c11inf} }
func c11pt(x float64) c11iv     { return c11iv{lo: x, hi: x} }
func c11rng(a, b float64) c11iv { return c11iv{lo: a, hi: b} }
func c11opaque(why string) c11iv {
	return c11iv{lo: -c11inf, hi: c11inf, nan: true, opq: why}
}

func (a c11iv) empty() bool { return a.lo > a.hi && !a.nan && a.opq == "" }

func (a c11iv) hull(b c11iv) c11iv {
	r := c11iv{lo: math.Min(a.lo, b.lo), hi: math.Max(a.hi, b.hi), nan: a.nan || b.nan, opq: a.opq}
	if r.opq == "" {
		r.opq = b.opq
	}
	return r
}

func (a c11iv) within(lo, hi float64) bool {
	return a.opq == "" && !a.nan && a.lo <= a.hi && a.lo >= lo && a.hi <= hi
}
func (a c11iv) has0() bool      { return a.lo <= 0 && a.hi >= 0 }
func (a c11iv) unbounded() bool { return math.IsInf(a.lo, 0) || math.IsInf(a.hi, 0) }

func (a c11iv) String() string {
	if a.opq != "" {
		return "unknown (" + a.opq + ")"
	}
	if a.lo > a.hi {
		if a.nan {
			return "NaN"
		}
		return "no value"
	}
	s := fmt.Sprintf("[%g, %g]", a.lo, a.hi)
	if a.nan {
		s += " or NaN"
	}
	return s
}

// c11out widens integer bounds whose magnitude exceeds the exactly
// representable range so that float rounding never shrinks an interval.
func c11out(a c11iv) c11iv {
	const big = 1 << 53
	if a.lo < -big || a.lo > big {
		a.lo = math.Nextafter(a.lo, -c11inf)
	}
	if a.hi < -big || a.hi > big {
		a.hi = math.Nextafter(a.hi, c11inf)
	}
	return a
}

func c11isFloat(t types.Type) bool {
	b, ok := t.Underlying().(*types.Basic)
	return ok && b.Info()&types.IsFloat != 0
}

func c11isNum(t types.Type) bool { return c11isFloat(t) || isIntType(t) }

// c11typeTop: every value of the type (a superset for integers).
func c11typeTop(t types.Type) c11iv {
	b, ok := t.Underlying().(*types.Basic)
	if !ok {
		return c11opaque("non-numeric type " + t.String())
	}
	info := b.Info()
	switch {
	case info&types.IsFloat != 0:
		return c11iv{lo: -c11inf, hi: c11inf, nan: true}
	case info&types.IsInteger != 0:
		bits := 64
		switch b.Kind() {
		case types.Int8, types.Uint8:
			bits = 8
		case types.Int16, types.Uint16:
			bits = 16
		case types.Int32, types.Uint32:
			bits = 32
		}
		if info&types.IsUnsigned != 0 {
			return c11rng(0, math.Ldexp(1, bits))
		}
		return c11rng(-math.Ldexp(1, bits-1), math.Ldexp(1, bits-1))
	}
	return c11opaque("non-numeric type " + t.String())
}

func c11constIv(x *ssa.Const) c11iv {
	if x.Value == nil {
		return c11opaque("nil constant")
	}
	switch x.Value.Kind() {
	case constant.Int, constant.Float:
		f, _ := constant.Float64Val(constant.ToFloat(x.Value))
		r := c11pt(f)
		if isIntType(x.Type()) {
			r = c11out(r)
		}
		return r
	}
	return c11opaque("non-numeric constant")
}

// interval arithmetic ------------------------------------------------------

func c11minmax(xs ...float64) (lo, hi float64) {
	lo, hi = c11inf, -c11inf
	for _, x := range xs {
		if math.IsNaN(x) {
			continue
		}
		lo, hi = math.Min(lo, x), math.Max(hi, x)
	}
	return
}

func c11mulEnd(a, b float64) float64 {
	if a == 0 || b == 0 {
		return 0
	}
	return a * b
}

func c11arith(op token.Token, a, b c11iv, isInt bool) c11iv {
	if a.opq != "" {
		return c11opaque(a.opq)
	}
	if b.opq != "" {
		return c11opaque(b.opq)
	}
	if a.lo > a.hi || b.lo > b.hi {
		r := c11empty()
		r.nan = a.nan || b.nan
		return r
	}
	r := c11iv{nan: a.nan || b.nan}
	switch op {
	case token.ADD:
		r.lo, r.hi = a.lo+b.lo, a.hi+b.hi
		if a.unbounded() && b.unbounded() {
			r.nan = r.nan || !isInt
			r.lo, r.hi = -c11inf, c11inf
		}
	case token.SUB:
		r.lo, r.hi = a.lo-b.hi, a.hi-b.lo
		if a.unbounded() && b.unbounded() {
			r.nan = r.nan || !isInt
			r.lo, r.hi = -c11inf, c11inf
		}
	case token.MUL:
		r.lo, r.hi = c11minmax(c11mulEnd(a.lo, b.lo), c11mulEnd(a.lo, b.hi), c11mulEnd(a.hi, b.lo), c11mulEnd(a.hi, b.hi))
		if (a.has0() && b.unbounded()) || (b.has0() && a.unbounded()) {
			r.nan = r.nan || !isInt
		}
	case token.QUO:
		if b.has0() {
			// float: ±Inf, and 0/0 = NaN; integer: the division panics or is unbounded
			r.lo, r.hi = -c11inf, c11inf
			r.nan = r.nan || (!isInt && (a.has0() || a.unbounded()))
			return r
		}
		if a.unbounded() && b.unbounded() {
			r.lo, r.hi = -c11inf, c11inf
			r.nan = r.nan || !isInt
			return r
		}
		r.lo, r.hi = c11minmax(a.lo/b.lo, a.lo/b.hi, a.hi/b.lo, a.hi/b.hi)
		if isInt {
			r.lo, r.hi = math.Trunc(r.lo), math.Trunc(r.hi)
			if r.lo > 0 {
				r.lo = math.Max(0, r.lo-1) // rounding of huge operands
			}
			r.hi++
		}
	default:
		return c11opaque("operator " + op.String())
	}
	if isInt {
		r.nan = false
		r = c11out(r)
	}
	return r
}

// ---------------------------------------------------------------------------
// evaluation frames (a callee inlined at a call site sees the caller's facts)

type c11frame struct {
	fn     *ssa.Function
	site   *ssa.Call
	parent *c11frame
}

func (f *c11frame) has(fn *ssa.Function) bool {
	for ; f != nil; f = f.parent {
		if f.fn == fn {
			return true
		}
	}
	return false
}

func (f *c11frame) depth() int {
	n := 0
	for ; f != nil; f = f.parent {
		n++
	}
	return n
}

type c11fv struct {
	v ssa.Value
	f *c11frame
}

type c11fk struct {
	site   *ssa.Call
	parent *c11frame
}

type c11eval struct {
	p      *Prog
	env    map[*types.Var]c11iv // invariants of struct fields (loads through any pointer)
	lps    map[*ssa.Function]*linProver
	busy   map[c11fv]bool
	frames map[c11fk]*c11frame
	steps  int
	ratios map[*ssa.BinOp]float64 // recognised a/(a+b): smallest proven value of the denominator
}

func c11newEval(p *Prog, env map[*types.Var]c11iv) *c11eval {
	return &c11eval{p: p, env: env, lps: map[*ssa.Function]*linProver{}, busy: map[c11fv]bool{}, frames: map[c11fk]*c11frame{}, ratios: map[*ssa.BinOp]float64{}}
}

func (e *c11eval) domEdges(fn *ssa.Function, b *ssa.BasicBlock) []edgeRef {
	lp := e.lps[fn]
	if lp == nil {
		lp = newLinProver(e.p, fn)
		e.lps[fn] = lp
	}
	return lp.domEdges(b)
}

func c11paramIndex(fn *ssa.Function, p *ssa.Parameter) int {
	for i, q := range fn.Params {
		if q == p {
			return i
		}
	}
	return -1
}

// c11cellValue: the value held by a non-escaping local cell at a load (single
// store that dominates the load, no other kind of use).
func c11cellValue(a *ssa.Alloc, load *ssa.UnOp) ssa.Value {
	var st *ssa.Store
	for _, r := range *a.Referrers() {
		switch u := r.(type) {
		case *ssa.Store:
			if u.Addr != ssa.Value(a) || st != nil {
				return nil
			}
			st = u
		case *ssa.UnOp:
			if u.Op != token.MUL {
				return nil
			}
		case *ssa.DebugRef:
		default:
			return nil
		}
	}
	if st == nil || !dominates(st, load) {
		return nil
	}
	return st.Val
}

// norm looks through value-preserving wrappers and maps a parameter of an
// inlined callee to the argument in the caller's frame.
func (e *c11eval) norm(v ssa.Value, f *c11frame) (ssa.Value, *c11frame) {
	for i := 0; i < 32; i++ {
		switch x := v.(type) {
		case *ssa.ChangeType:
			v = x.X
			continue
		case *ssa.Parameter:
			if f != nil && f.parent != nil && f.site != nil {
				if k := c11paramIndex(f.fn, x); k >= 0 && k < len(f.site.Call.Args) {
					v, f = f.site.Call.Args[k], f.parent
					continue
				}
			}
		case *ssa.UnOp:
			if x.Op == token.MUL {
				if a, ok := x.X.(*ssa.Alloc); ok {
					if s := c11cellValue(a, x); s != nil {
						v = s
						continue
					}
				}
			}
		}
		break
	}
	return v, f
}

// same: structural congruence of pure expressions.
func (e *c11eval) same(a ssa.Value, fa *c11frame, b ssa.Value, fb *c11frame, d int) bool {
	a, fa = e.norm(a, fa)
	b, fb = e.norm(b, fb)
	if a == b && fa == fb {
		return true
	}
	if d > 6 {
		return false
	}
	switch x := a.(type) {
	case *ssa.Const:
		y, ok := b.(*ssa.Const)
		if !ok || x.Value == nil || y.Value == nil || !types.Identical(x.Type(), y.Type()) {
			return false
		}
		if x.Value.Kind() != y.Value.Kind() {
			return false
		}
		switch x.Value.Kind() {
		case constant.Int, constant.Float:
			return constant.Compare(x.Value, token.EQL, y.Value)
		}
		return false
	case *ssa.BinOp:
		y, ok := b.(*ssa.BinOp)
		if !ok || x.Op != y.Op || !types.Identical(x.Type(), y.Type()) {
			return false
		}
		switch x.Op {
		case token.ADD, token.SUB, token.MUL, token.QUO:
		default:
			return false
		}
		if !c11isNum(x.Type()) {
			return false
		}
		if e.same(x.X, fa, y.X, fb, d+1) && e.same(x.Y, fa, y.Y, fb, d+1) {
			return true
		}
		if x.Op == token.ADD || x.Op == token.MUL {
			return e.same(x.X, fa, y.Y, fb, d+1) && e.same(x.Y, fa, y.X, fb, d+1)
		}
	case *ssa.Convert:
		y, ok := b.(*ssa.Convert)
		return ok && types.Identical(x.Type(), y.Type()) && types.Identical(x.X.Type(), y.X.Type()) && e.same(x.X, fa, y.X, fb, d+1)
	}
	return false
}

func c11unknown(v ssa.Value) c11iv {
	if isIntType(v.Type()) {
		return c11typeTop(v.Type())
	}
	return c11opaque("uninterpreted value " + v.Name() + " (" + strings.TrimPrefix(fmt.Sprintf("%T", v), "*ssa.") + ")")
}

// at: the interval of v (a value of frame f) at the entry of block blk.
func (e *c11eval) at(v ssa.Value, f *c11frame, blk *ssa.BasicBlock) c11iv {
	e.steps++
	if e.steps > 200000 {
		return c11opaque("evaluation budget exhausted")
	}
	if !c11isNum(v.Type()) {
		return c11opaque("non-numeric value " + v.Name())
	}
	var r c11iv
	switch x := v.(type) {
	case *ssa.Parameter:
		if f.parent != nil && f.site != nil {
			if k := c11paramIndex(f.fn, x); k >= 0 && k < len(f.site.Call.Args) {
				return e.at(f.site.Call.Args[k], f.parent, f.site.Block())
			}
		}
		r = c11typeTop(x.Type())
	case *ssa.Const:
		return c11constIv(x)
	case *ssa.ChangeType:
		return e.at(x.X, f, blk)
	case *ssa.Convert:
		r = e.convert(x, f, blk)
	case *ssa.BinOp:
		r = e.binop(x, f, blk)
	case *ssa.UnOp:
		r = e.unop(x, f, blk)
	case *ssa.Phi:
		r = e.phi(x, f)
	case *ssa.Call:
		r = e.call(x, f, blk)
	default:
		r = c11unknown(v)
	}
	return e.refine(r, v, f, blk)
}

func (e *c11eval) convert(x *ssa.Convert, f *c11frame, blk *ssa.BasicBlock) c11iv {
	src := e.at(x.X, f, blk)
	if src.opq != "" {
		return src
	}
	st, dt := x.X.Type(), x.Type()
	sb, _ := st.Underlying().(*types.Basic)
	db, _ := dt.Underlying().(*types.Basic)
	if sb == nil || db == nil || sb.Kind() == types.Float32 || db.Kind() == types.Float32 {
		return c11unknown(x)
	}
	switch {
	case c11isFloat(st) && c11isFloat(dt):
		return src
	case isIntType(st) && c11isFloat(dt):
		src.nan = false
		return src // rounding is monotone
	case c11isFloat(st) && isIntType(dt):
		top := c11typeTop(dt)
		if src.lo > src.hi && !src.nan {
			return c11empty()
		}
		// only defined when the truncated value is representable
		if src.nan || src.lo <= -math.Ldexp(1, 63) || src.hi >= math.Ldexp(1, 63) {
			return top
		}
		r := c11rng(math.Trunc(src.lo), math.Trunc(src.hi))
		if r.lo < top.lo || r.hi > top.hi {
			return top
		}
		return r
	case isIntType(st) && isIntType(dt):
		top := c11typeTop(dt)
		if src.lo > src.hi {
			return c11empty()
		}
		// the superset bound 2^n of the source must not be mistaken for a fit
		if src.lo < top.lo || src.hi >= top.hi {
			return top
		}
		return src
	}
	return c11unknown(x)
}

func (e *c11eval) unop(x *ssa.UnOp, f *c11frame, blk *ssa.BasicBlock) c11iv {
	switch x.Op {
	case token.SUB:
		a := e.at(x.X, f, blk)
		if a.opq != "" {
			return a
		}
		return c11iv{lo: -a.hi, hi: -a.lo, nan: a.nan}
	case token.MUL:
		switch a := x.X.(type) {
		case *ssa.FieldAddr:
			if iv, ok := e.env[structField(a.X.Type(), a.Field)]; ok {
				return iv
			}
		case *ssa.Alloc:
			if s := c11cellValue(a, x); s != nil {
				return e.at(s, f, blk)
			}
		}
		if isIntType(x.Type()) {
			return c11typeTop(x.Type())
		}
		return c11opaque("load of " + accessPath(x).String() + " (no invariant known)")
	}
	return c11unknown(x)
}

func (e *c11eval) nary(isMax bool, args []ssa.Value, f *c11frame, blk *ssa.BasicBlock) c11iv {
	var r c11iv
	for i, a := range args {
		iv := e.at(a, f, blk)
		if iv.opq != "" {
			return iv
		}
		if i == 0 {
			r = iv
			continue
		}
		r.nan = r.nan || iv.nan // min/max propagate NaN
		if isMax {
			r.lo, r.hi = math.Max(r.lo, iv.lo), math.Max(r.hi, iv.hi)
		} else {
			r.lo, r.hi = math.Min(r.lo, iv.lo), math.Min(r.hi, iv.hi)
		}
	}
	return r
}

func (e *c11eval) frame(callee *ssa.Function, site *ssa.Call, parent *c11frame) *c11frame {
	k := c11fk{site, parent}
	if fr := e.frames[k]; fr != nil {
		return fr
	}
	fr := &c11frame{fn: callee, site: site, parent: parent}
	e.frames[k] = fr
	return fr
}

func (e *c11eval) call(x *ssa.Call, f *c11frame, blk *ssa.BasicBlock) c11iv {
	if b, ok := x.Call.Value.(*ssa.Builtin); ok {
		switch b.Name() {
		case "min":
			return e.nary(false, x.Call.Args, f, blk)
		case "max":
			return e.nary(true, x.Call.Args, f, blk)
		}
		return c11unknown(x)
	}
	callee := x.Call.StaticCallee()
	if callee == nil {
		return c11unknown(x)
	}
	switch callee.String() {
	case "math.Max":
		return e.nary(true, x.Call.Args, f, blk)
	case "math.Min":
		return e.nary(false, x.Call.Args, f, blk)
	}
	pk := fnPkg(callee)
	if pk == nil || !isRepoPath(pk.Pkg.Path()) || len(callee.Blocks) == 0 || f.has(callee) || f.depth() >= 4 || callee.Signature.Results().Len() != 1 {
		return c11unknown(x)
	}
	nf := e.frame(callee, x, f)
	res := c11empty()
	n := 0
	for _, b := range callee.Blocks {
		for _, in := range b.Instrs {
			r, ok := in.(*ssa.Return)
			if !ok {
				continue
			}
			vals := retResults(r)
			if len(vals) != 1 {
				continue
			}
			n++
			res = res.hull(e.at(vals[0], nf, r.Block()))
		}
	}
	if n == 0 {
		return c11unknown(x)
	}
	return res
}

func (e *c11eval) phi(x *ssa.Phi, f *c11frame) c11iv {
	k := c11fv{x, f}
	if e.busy[k] {
		// loop-carried: integers keep their type range, floats are not bounded here
		if isIntType(x.Type()) {
			return c11typeTop(x.Type())
		}
		return c11opaque("loop-carried float " + x.Name())
	}
	e.busy[k] = true
	defer delete(e.busy, k)
	res := c11empty()
	for i, ed := range x.Edges {
		pred := x.Block().Preds[i]
		iv := e.at(ed, f, pred)
		// the incoming edge itself
		if len(pred.Succs) == 2 && pred.Succs[0] != pred.Succs[1] {
			for j, s := range pred.Succs {
				if s == x.Block() {
					if cond, pol, ok := edgeFact(pred, j); ok {
						iv = e.applyFact(iv, ed, f, cond, pol, f, pred)
					}
				}
			}
		}
		res = res.hull(iv)
	}
	return res
}

func (e *c11eval) binop(x *ssa.BinOp, f *c11frame, blk *ssa.BasicBlock) c11iv {
	isInt := isIntType(x.Type())
	switch x.Op {
	case token.ADD, token.SUB, token.MUL, token.QUO:
	default:
		return c11unknown(x)
	}
	a, b := e.at(x.X, f, blk), e.at(x.Y, f, blk)
	r := c11arith(x.Op, a, b, isInt)
	if r.opq != "" {
		return r
	}
	if isInt {
		top := c11typeTop(x.Type())
		if r.lo <= r.hi && (r.lo < top.lo || r.hi > top.hi) {
			return top // may wrap
		}
		return r
	}
	// float64(a) / float64(a+b) over unsigned counters: a <= a+b, rounding is monotone
	if x.Op == token.QUO && b.lo > 0 && r.lo <= r.hi {
		nx, fx := e.norm(x.X, f)
		ny, fy := e.norm(x.Y, f)
		cx, ok1 := nx.(*ssa.Convert)
		cy, ok2 := ny.(*ssa.Convert)
		if ok1 && ok2 && isIntType(cx.X.Type()) && isIntType(cy.X.Type()) {
			den, fd := e.norm(cy.X, fy)
			if s, ok := den.(*ssa.BinOp); ok && s.Op == token.ADD && isUnsigned(s.Type()) && isUnsigned(cx.X.Type()) {
				if e.same(s.X, fd, cx.X, fx, 0) || e.same(s.Y, fd, cx.X, fx, 0) {
					r.hi = math.Min(r.hi, 1)
					if old, seen := e.ratios[x]; !seen || b.lo < old {
						e.ratios[x] = b.lo
					}
				}
			}
		}
	}
	return r
}

// refine intersects iv with what the guards dominating blk (and, for inlined
// callees, the guards dominating the call sites up the frame chain) say about v.
func (e *c11eval) refine(iv c11iv, v ssa.Value, f *c11frame, blk *ssa.BasicBlock) c11iv {
	if iv.opq != "" {
		return iv
	}
	g, b := f, blk
	for g != nil && b != nil {
		for _, er := range e.domEdges(g.fn, b) {
			if cond, pol, ok := edgeFact(er.b, er.i); ok {
				iv = e.applyFact(iv, v, f, cond, pol, g, er.b)
			}
		}
		if g.site == nil {
			break
		}
		b, g = g.site.Block(), g.parent
	}
	return iv
}

func c11flip(op token.Token) token.Token {
	switch op {
	case token.LSS:
		return token.GTR
	case token.LEQ:
		return token.GEQ
	case token.GTR:
		return token.LSS
	case token.GEQ:
		return token.LEQ
	}
	return op
}

func c11negate(op token.Token) token.Token {
	switch op {
	case token.LSS:
		return token.GEQ
	case token.LEQ:
		return token.GTR
	case token.GTR:
		return token.LEQ
	case token.GEQ:
		return token.LSS
	case token.EQL:
		return token.NEQ
	case token.NEQ:
		return token.EQL
	}
	return token.ILLEGAL
}

// applyFact: cond (a value of frame g, branch in block gb) is known to be pol.
func (e *c11eval) applyFact(iv c11iv, v ssa.Value, f *c11frame, cond ssa.Value, pol bool, g *c11frame, gb *ssa.BasicBlock) c11iv {
	bo, ok := cond.(*ssa.BinOp)
	if !ok {
		return iv
	}
	op := bo.Op
	switch op {
	case token.LSS, token.LEQ, token.GTR, token.GEQ, token.EQL, token.NEQ:
	default:
		return iv
	}
	if !c11isNum(bo.X.Type()) {
		return iv
	}
	var other ssa.Value
	switch {
	case e.same(bo.X, g, v, f, 0):
		other = bo.Y
	case e.same(bo.Y, g, v, f, 0):
		other, op = bo.X, c11flip(op)
	default:
		return iv
	}
	o := e.at(other, g, gb)
	if o.opq != "" || o.lo > o.hi {
		return iv
	}
	isInt := isIntType(v.Type())
	holds := pol // the comparison as written evaluated to true
	if !pol {
		op = c11negate(op)
	}
	// a float comparison that evaluated to false says nothing when NaN is involved
	ordered := holds && bo.Op != token.NEQ
	if bo.Op == token.NEQ && !pol {
		ordered = true // x == y
	}
	if !isInt && !ordered && o.nan {
		return iv
	}
	one := 0.0
	if isInt {
		one = 1
	}
	switch op {
	case token.LSS:
		iv.hi = math.Min(iv.hi, o.hi-one)
	case token.LEQ:
		iv.hi = math.Min(iv.hi, o.hi)
	case token.GTR:
		iv.lo = math.Max(iv.lo, o.lo+one)
	case token.GEQ:
		iv.lo = math.Max(iv.lo, o.lo)
	case token.EQL:
		iv.lo, iv.hi = math.Max(iv.lo, o.lo), math.Min(iv.hi, o.hi)
	case token.NEQ:
		if isInt && o.lo == o.hi {
			if iv.lo == o.lo {
				iv.lo++
			}
			if iv.hi == o.lo {
				iv.hi--
			}
		}
	}
	if !isInt && ordered {
		iv.nan = false
	}
	if iv.lo > iv.hi {
		n := iv.nan
		iv = c11empty()
		iv.nan = n
	}
	return iv
}

// ---------------------------------------------------------------------------
// static callers (for evaluating a helper in the context of its call sites)

type c11cg struct {
	p       *Prog
	callers map[*ssa.Function][]*ssa.Call
	taken   map[*ssa.Function]bool // used as a value / go / defer: contexts unknown
}

func c11buildCG(p *Prog, extra []*ssa.Function) *c11cg {
	g := &c11cg{p: p, callers: map[*ssa.Function][]*ssa.Call{}, taken: map[*ssa.Function]bool{}}
	markValue := func(fn *ssa.Function) {
		g.taken[fn] = true
		if fn.Synthetic != "" { // bound-method wrappers and thunks call the method
			allInstrs(fn, func(in ssa.Instruction) {
				if ci, ok := in.(ssa.CallInstruction); ok {
					if c := ci.Common().StaticCallee(); c != nil {
						g.taken[c] = true
					}
				}
			})
		}
	}
	fns := append(append([]*ssa.Function{}, p.RepoFns...), extra...)
	for _, fn := range fns {
		allInstrs(fn, func(in ssa.Instruction) {
			var calleeSlot *ssa.Value
			if ci, ok := in.(ssa.CallInstruction); ok {
				cc := ci.Common()
				calleeSlot = &cc.Value
				if c := cc.StaticCallee(); c != nil {
					if call, ok := in.(*ssa.Call); ok {
						g.callers[c] = append(g.callers[c], call)
					} else {
						g.taken[c] = true
					}
				}
			}
			for _, op := range in.Operands(nil) {
				if op == calleeSlot || *op == nil {
					continue
				}
				if fv, ok := (*op).(*ssa.Function); ok {
					markValue(fv)
				}
			}
		})
	}
	return g
}

// closed: every invocation of fn is one of the static call sites found.
func (g *c11cg) closed(fn *ssa.Function) bool {
	if fn == nil || g.taken[fn] || len(g.callers[fn]) == 0 || fn.Parent() != nil {
		return false
	}
	obj, _ := fn.Object().(*types.Func)
	if obj == nil || obj.Exported() {
		return false
	}
	if fn.Signature.Recv() != nil && obj.Pkg() != nil {
		// an unexported method may still be reachable through an interface of its package
		sc := obj.Pkg().Scope()
		for _, n := range sc.Names() {
			tn, ok := sc.Lookup(n).(*types.TypeName)
			if !ok {
				continue
			}
			if it, ok := tn.Type().Underlying().(*types.Interface); ok {
				for i := 0; i < it.NumMethods(); i++ {
					if it.Method(i).Name() == obj.Name() {
						return false
					}
				}
			}
		}
	}
	return true
}

// contexts: the frames in which a value of fn has to be evaluated.
func (g *c11cg) contexts(e *c11eval, fn *ssa.Function, depth int, seen map[*ssa.Function]bool) []*c11frame {
	if depth < 3 && g.closed(fn) && !seen[fn] {
		seen[fn] = true
		defer delete(seen, fn)
		var out []*c11frame
		for _, site := range g.callers[fn] {
			for _, pf := range g.contexts(e, site.Parent(), depth+1, seen) {
				out = append(out, e.frame(fn, site, pf))
			}
		}
		if len(out) > 0 {
			return out
		}
	}
	return []*c11frame{{fn: fn}}
}

// valueAt evaluates v at instruction `at` of its function under every context.
func (g *c11cg) valueAt(e *c11eval, v ssa.Value, at ssa.Instruction) c11iv {
	res := c11empty()
	for _, fr := range g.contexts(e, at.Parent(), 0, map[*ssa.Function]bool{}) {
		res = res.hull(e.at(v, fr, at.Block()))
	}
	return res
}

// ---------------------------------------------------------------------------
// anchors

type c11anch struct {
	bs      *types.Named // the Brutal sender (implementation of congestion.CongestionControl in the brutal package)
	bsPtr   types.Type
	fAck    *types.Var // its float64 loss-compensation factor
	fPacer  *types.Var // its pacer
	fDis    *types.Var // "compensation disabled" flag
	fMDS    *types.Var // its datagram size
	pacerT  *types.Named
	fpMDS   *types.Var // pacer datagram size
	fpBals  *types.Var // pacer budget at the last send
	fpBW    *types.Var // pacer bandwidth callback
	m       map[string]*ssa.Function
	pWake   *ssa.Function
	pBudget *ssa.Function
	pSent   *ssa.Function
	pSetMDS *ssa.Function
	fns     []*ssa.Function // repo functions + the brutal package initialiser
}

func c11structOf(t types.Type) *types.Struct {
	if p, ok := t.Underlying().(*types.Pointer); ok {
		t = p.Elem()
	}
	st, _ := t.Underlying().(*types.Struct)
	return st
}

// c11freshBase: addr is a field address of an object allocated in this very function.
func c11freshBase(fa *ssa.FieldAddr) *ssa.Alloc {
	a, _ := resolve(fa.X).(*ssa.Alloc)
	if a == nil || c11structOf(a.Type()) == nil {
		return nil
	}
	return a
}

// c11recvCall: call is `recv.<fld>.M(...)` with recv the receiver of fn; returns M.
func c11recvCall(fn *ssa.Function, call *ssa.Call, fld *types.Var) *ssa.Function {
	callee := call.Call.StaticCallee()
	if callee == nil || callee.Signature.Recv() == nil || len(call.Call.Args) == 0 || len(fn.Params) == 0 {
		return nil
	}
	ap := accessPath(call.Call.Args[0])
	if ap.Root != ssa.Value(fn.Params[0]) || len(ap.Fields) != 1 || ap.Fields[0] != fld {
		return nil
	}
	return callee
}

// c11recvLoads: loads of recv.<path> in fn.
func c11recvLoads(fn *ssa.Function, path ...*types.Var) []ssa.Value {
	var out []ssa.Value
	if len(fn.Params) == 0 {
		return nil
	}
	allInstrs(fn, func(in ssa.Instruction) {
		u, ok := in.(*ssa.UnOp)
		if !ok || u.Op != token.MUL {
			return
		}
		if _, ok := u.X.(*ssa.FieldAddr); !ok {
			return
		}
		ap := accessPath(u)
		if ap.Root != ssa.Value(fn.Params[0]) || len(ap.Fields) != len(path) {
			return
		}
		for i := range path {
			if ap.Fields[i] != path[i] {
				return
			}
		}
		out = append(out, u)
	})
	return out
}

// c11paramStoredField: the field of the receiver into which fn stores its parameter idx.
func c11paramStoredField(fn *ssa.Function, idx int) *types.Var {
	var out *types.Var
	if fn == nil || idx >= len(fn.Params) {
		return nil
	}
	allInstrs(fn, func(in ssa.Instruction) {
		st, ok := in.(*ssa.Store)
		if !ok {
			return
		}
		fa, ok := st.Addr.(*ssa.FieldAddr)
		if !ok {
			return
		}
		v, _ := (&c11eval{}).norm(st.Val, nil)
		if v == ssa.Value(fn.Params[idx]) && accessPath(fa.X).Root == ssa.Value(fn.Params[0]) {
			out = structField(fa.X.Type(), fa.Field)
		}
	})
	return out
}

func c11resolve(c *Check) *c11anch {
	p := c.P
	a := &c11anch{m: map[string]*ssa.Function{}}
	ccI := p.Named(pQUIC+"/congestion", "CongestionControl")
	if ccI == nil {
		c.Unres("interface quic-go/congestion.CongestionControl")
		return nil
	}
	iface, _ := ccI.Underlying().(*types.Interface)
	if iface == nil {
		c.Unres("quic-go/congestion.CongestionControl is not an interface")
		return nil
	}
	for _, t := range p.Implementations(iface) {
		n := namedOf(t)
		if n == nil || n.Obj().Pkg() == nil || n.Obj().Pkg().Path() != pBrutal {
			continue
		}
		if a.bs != nil {
			c.Unres("more than one CongestionControl implementation in " + pBrutal)
			return nil
		}
		a.bs, a.bsPtr = n, types.NewPointer(n)
	}
	if a.bs == nil {
		c.Unres("CongestionControl implementation in " + pBrutal)
		return nil
	}
	st := c11structOf(a.bs)
	if st == nil {
		c.Unres("Brutal sender is not a struct")
		return nil
	}
	nFloat, nPacer := 0, 0
	for i := 0; i < st.NumFields(); i++ {
		f := st.Field(i)
		if b, ok := f.Type().Underlying().(*types.Basic); ok && b.Kind() == types.Float64 {
			a.fAck = f
			nFloat++
		}
		if pt, ok := f.Type().(*types.Pointer); ok {
			if n := namedOf(pt.Elem()); n != nil && n.Obj().Pkg() != nil && n.Obj().Pkg().Path() == pCommon && c11structOf(n) != nil {
				a.fPacer, a.pacerT = f, n
				nPacer++
			}
		}
	}
	if nFloat != 1 {
		c.Unres(fmt.Sprintf("the float64 compensation-factor field of %s (found %d float64 fields)", a.bs.Obj().Name(), nFloat))
		return nil
	}
	if nPacer != 1 {
		c.Unres(fmt.Sprintf("the pacer field of %s (found %d)", a.bs.Obj().Name(), nPacer))
		return nil
	}
	for _, name := range []string{"TimeUntilSend", "HasPacingBudget", "GetCongestionWindow", "OnPacketSent", "SetMaxDatagramSize"} {
		fn := p.MethodOf(a.bsPtr, name)
		if fn == nil || len(fn.Blocks) == 0 {
			c.Unres("method " + name + " of the Brutal sender")
			return nil
		}
		a.m[name] = fn
		c.Saw(fnName(fn))
	}
	a.fns = append([]*ssa.Function{}, p.RepoFns...)
	if sp := p.ssaPkg[pBrutal]; sp != nil {
		if ini := sp.Func("init"); ini != nil {
			a.fns = append(a.fns, ini)
		}
	}
	// pacer methods by delegation (name as a fallback so that a broken delegation is reported as such)
	pm := func(bsMethod, fallback string) *ssa.Function {
		var out *ssa.Function
		allInstrs(a.m[bsMethod], func(in ssa.Instruction) {
			if call, ok := in.(*ssa.Call); ok && out == nil {
				if cal := c11recvCall(a.m[bsMethod], call, a.fPacer); cal != nil {
					out = cal
				}
			}
		})
		if out == nil {
			out = p.MethodOf(types.NewPointer(a.pacerT), fallback)
		}
		if out != nil {
			c.Saw(fnName(out))
		}
		return out
	}
	a.pWake = pm("TimeUntilSend", "TimeUntilSend")
	a.pBudget = pm("HasPacingBudget", "Budget")
	a.pSent = pm("OnPacketSent", "SentPacket")
	a.pSetMDS = pm("SetMaxDatagramSize", "SetMaxDatagramSize")
	if a.pWake == nil || a.pBudget == nil || a.pSent == nil || a.pSetMDS == nil {
		c.Unres("pacer methods (wake-up time, budget, consume, datagram size) of " + a.pacerT.Obj().Name())
		return nil
	}
	// fields by role
	a.fMDS = c11paramStoredField(a.m["SetMaxDatagramSize"], 1)
	if a.fMDS == nil {
		a.fMDS = p.Field(pBrutal, a.bs.Obj().Name(), "maxDatagramSize")
	}
	a.fpMDS = c11paramStoredField(a.pSetMDS, 1)
	if a.fpMDS == nil {
		a.fpMDS = p.Field(pCommon, a.pacerT.Obj().Name(), "maxDatagramSize")
	}
	if a.fMDS == nil || a.fpMDS == nil {
		c.Unres("datagram-size fields of sender and pacer")
		return nil
	}
	pst := c11structOf(a.pacerT)
	for i := 0; i < pst.NumFields(); i++ {
		if _, ok := pst.Field(i).Type().Underlying().(*types.Signature); ok {
			if a.fpBW != nil {
				c.Unres("more than one callback field in the pacer")
				return nil
			}
			a.fpBW = pst.Field(i)
		}
	}
	// budget field: the field of the datagram-size type stored by the consume function
	cand := map[*types.Var]bool{}
	allInstrs(a.pSent, func(in ssa.Instruction) {
		if st, ok := in.(*ssa.Store); ok {
			if fa, ok := st.Addr.(*ssa.FieldAddr); ok {
				f := structField(fa.X.Type(), fa.Field)
				if f != nil && f != a.fpMDS && types.Identical(f.Type(), a.fpMDS.Type()) {
					cand[f] = true
				}
			}
		}
	})
	if len(cand) == 1 {
		for f := range cand {
			a.fpBals = f
		}
	} else {
		a.fpBals = p.Field(pCommon, a.pacerT.Obj().Name(), "budgetAtLastSent")
	}
	if a.fpBals == nil || a.fpBW == nil {
		c.Unres("budget / bandwidth-callback fields of the pacer")
		return nil
	}
	// "disabled" flag: the bool field initialised from a parameter of the allocating function
	for _, fr := range c11boolFields(a, st) {
		for _, r := range fieldRefs(a.fns, fr) {
			if r.Kind != "store" {
				continue
			}
			if fa, ok := r.Addr.(*ssa.FieldAddr); ok && c11freshBase(fa) != nil {
				if _, isParam := resolve(r.Val).(*ssa.Parameter); isParam {
					a.fDis = fr
				}
			}
		}
	}
	if a.fDis == nil {
		c.Unres("the loss-compensation switch (bool field of the sender set from a constructor parameter)")
		return nil
	}
	return a
}

func c11boolFields(a *c11anch, st *types.Struct) []*types.Var {
	var out []*types.Var
	for i := 0; i < st.NumFields(); i++ {
		if b, ok := st.Field(i).Type().Underlying().(*types.Basic); ok && b.Kind() == types.Bool {
			out = append(out, st.Field(i))
		}
	}
	return out
}

// ---------------------------------------------------------------------------
// the check

const (
	c11minAck     = 0.8 // statement: "the loss-compensation factor always lies in [0.8, 1]"
	c11minSamples = 50  // statement: "when at least 50 samples exist"
	c11slots      = 5   // statement: "over roughly the last five seconds"
)

func init() {
	register(&propDef{
		ID:        "C11",
		Run:       checkC11,
		Technique: "static analysis: interval evaluation of float/integer SSA values with edge-guard refinement, NaN tracking and call-site contexts; linear prover for integer clauses; field-store census (go/ssa)",
		Explanation: "Decides the range clauses of the Brutal sender for all paths: " +
			"R1 every store to the loss-compensation factor stores a non-NaN value in [0.8, 1] (constants, the acked/(acked+lost) quotient over unsigned counters behind a `samples >= 50` edge, clamp/min/max forms), the floor is exactly 0.8 and the sample threshold exactly 50, a fresh sender is initialised before it escapes, every value other than 1 is stored only on the `compensation enabled` edge, the sampling array has 5 one-second slots; " +
			"R2 every return of GetCongestionWindow is >= the sender's current datagram size (or a constant no datagram can exceed); " +
			"R3 the bandwidth callback handed to the pacer returns >= 1 byte/s: bps/ackRate with ackRate in the R1 range and bps stored only from a constructor argument that every call site proves > 0; " +
			"R4 pacer typestate: the budget field is only stored >= 0, Budget() is bounded by a value independent of elapsed time, the pacer announces 'send now' (zero time) only when budget >= datagram size, HasPacingBudget is exactly `Budget(now) >= datagram size`, the two datagram-size thresholds are initialised equal and updated together, TimeUntilSend/OnPacketSent delegate to the pacer with the packet's own send time and size.",
		NotDecided: []string{
			"bytes released over an interval <= burst + rate/0.8 x interval (numeric rate conformance)",
			"'waiting until the announced time yields budget for a full datagram' (ceil-division arithmetic over 63-bit products)",
			"the five-second sampling window semantics (slot rotation, ageing) beyond the slot count",
			"that the quotient's operands are the acked / lost counters (identity of the counters)",
			"relation of the pacer bandwidth to bps beyond 'positive' (upper bound bps/0.8 up to float rounding)",
		},
		Assumptions: []string{
			"packet counters do not wrap 64 bits (a <= a+b for the unsigned ack/loss sums)",
			"the configured rate is below 2^53 bytes/s (statement: up to tens of Gbit/s), so ByteCount(uint64), float64(ByteCount) and ByteCount(float64) conversions are value preserving",
			"quic-go never announces a datagram size above congestion.MaxPacketBufferSize (constant window fallback)",
			"struct fields of the sender and pacer are only written through the field stores enumerated (no unsafe / reflection)",
		},
	})
}

func checkC11(c *Check) {
	a := c11resolve(c)
	if a == nil {
		return
	}
	g := c11buildCG(c.P, a.fns[len(c.P.RepoFns):])
	// field stores are the only writers: no whole-object overwrite of a sender or pacer
	for _, fn := range a.fns {
		allInstrs(fn, func(in ssa.Instruction) {
			if st, ok := in.(*ssa.Store); ok {
				if _, local := st.Addr.(*ssa.Alloc); local {
					return // spilled copy, not a sender/pacer reachable by other code
				}
				if t := st.Val.Type(); types.Identical(t, a.bs) || types.Identical(t, a.pacerT) {
					c.Undecided("C11.R1:whole-object-store:"+fnName(fn), "C11 field-store census", c.P.InstrPos(st), "a whole "+t.String()+" value is stored through a pointer; the per-field store census does not see this write")
				}
			}
		})
	}
	ackHull := c11R1(c, a, g)
	c11R2(c, a)
	c11R3(c, a, g, ackHull)
	c11R4(c, a, g)
	c11Extra(c)
}

func c11ivKey(iv c11iv) string {
	if iv.opq == "" && !iv.nan && iv.lo == iv.hi {
		return fmt.Sprintf("=%g", iv.lo)
	}
	return "computed"
}

// c11enabledInCtx: along the call chain ctx every path to `at` crosses the false
// edge of the receiver's "compensation disabled" flag, the receiver being handed
// down unchanged.
func c11enabledInCtx(a *c11anch, at ssa.Instruction, ctx *c11frame) bool {
	for fr := ctx; fr != nil; fr = fr.parent {
		fn := fr.fn
		if len(fn.Params) == 0 {
			return false
		}
		pred := func(cond ssa.Value, pol bool) bool {
			if pol || !isLoadOfField(cond, a.fDis) {
				return false
			}
			ap := accessPath(cond)
			return ap.Root == ssa.Value(fn.Params[0]) && len(ap.Fields) == 1
		}
		if guardedBy(at, pred) {
			return true
		}
		if fr.site == nil || fr.parent == nil || len(fr.site.Call.Args) == 0 || len(fr.parent.fn.Params) == 0 {
			return false
		}
		ap := accessPath(fr.site.Call.Args[0])
		if ap.Root != ssa.Value(fr.parent.fn.Params[0]) || len(ap.Fields) != 0 {
			return false
		}
		at = fr.site
	}
	return false
}

// c11initBeforeEscape: the fresh object al has `fld` stored before any use that
// lets the object be seen by other code.
func c11initBeforeEscape(al *ssa.Alloc, fld *types.Var) (dead bool, ok bool, where ssa.Instruction) {
	aliases := []ssa.Value{al}
	var escapes []ssa.Instruction
	var inits []*ssa.Store
	seenCell := map[*ssa.Alloc]bool{}
	live := false
	for i := 0; i < len(aliases); i++ {
		v := aliases[i]
		refs := v.Referrers()
		if refs == nil {
			continue
		}
		for _, r := range *refs {
			switch u := r.(type) {
			case *ssa.DebugRef:
			case *ssa.FieldAddr:
				live = true
				if structField(u.X.Type(), u.Field) == fld {
					for _, rr := range *u.Referrers() {
						if st, ok := rr.(*ssa.Store); ok && st.Addr == ssa.Value(u) {
							inits = append(inits, st)
						}
					}
				}
			case *ssa.MakeInterface, *ssa.ChangeInterface:
				if rf := u.(ssa.Value).Referrers(); rf != nil && len(*rf) > 0 {
					live = true
					escapes = append(escapes, r)
				}
			case *ssa.Store:
				live = true
				cell, isCell := u.Addr.(*ssa.Alloc)
				if u.Val == v && isCell && cell.Parent() == al.Parent() {
					if !seenCell[cell] {
						seenCell[cell] = true
						for _, cr := range *cell.Referrers() {
							switch cu := cr.(type) {
							case *ssa.Store, *ssa.DebugRef:
							case *ssa.UnOp:
								if cu.Op == token.MUL {
									aliases = append(aliases, cu)
								} else {
									escapes = append(escapes, cr)
								}
							default:
								escapes = append(escapes, cr)
							}
						}
					}
				} else {
					escapes = append(escapes, r)
				}
			default:
				live = true
				escapes = append(escapes, r)
			}
		}
	}
	if !live {
		return true, true, nil
	}
	for _, s := range inits {
		all := true
		for _, esc := range escapes {
			if !dominates(s, esc) {
				all = false
				where = esc
				break
			}
		}
		if all {
			return false, true, nil
		}
	}
	if where == nil && len(escapes) > 0 {
		where = escapes[0]
	}
	return false, false, where
}

func c11R1(c *Check, a *c11anch, g *c11cg) c11iv {
	p := c.P
	const r1 = "C11.R1 every store to the Brutal loss-compensation factor is a non-NaN value in [0.8, 1]; floor exactly 0.8, sample threshold exactly 50, 1 whenever compensation is disabled, fresh senders initialised"
	e := c11newEval(p, map[*types.Var]c11iv{a.fAck: c11rng(c11minAck, 1)}) // inductive hypothesis for loads of the factor
	hull := c11empty()
	nStores := 0
	count := map[string]int{}
	allInRange := true
	for _, fr := range fieldRefs(a.fns, a.fAck) {
		switch fr.Kind {
		case "addr":
			c.Bad("C11.R1:alias:"+fnName(fr.Fn), r1, p.InstrPos(fr.Instr), "the address of the compensation factor escapes; writes through the alias cannot be bounded")
			allInRange = false
		case "store":
			c.Saw(fnName(fr.Fn))
			fa, _ := fr.Addr.(*ssa.FieldAddr)
			fresh := fa != nil && c11freshBase(fa) != nil
			iv := c11empty()
			enabledOK := true
			for _, ctx := range g.contexts(e, fr.Fn, 0, map[*ssa.Function]bool{}) {
				nStores++ // one instance per store and calling context
				civ := e.at(fr.Val, ctx, fr.Instr.Block())
				iv = iv.hull(civ)
				// compensation disabled => 1: any other value needs the `enabled` edge somewhere along the call chain
				if !fresh && !civ.within(1, 1) && !c11enabledInCtx(a, fr.Instr, ctx) {
					enabledOK = false
				}
			}
			hull = hull.hull(iv)
			d := fnName(fr.Fn) + ":" + c11ivKey(iv)
			count[d]++
			key := "C11.R1:store:" + d
			if count[d] > 1 {
				key += fmt.Sprintf("#%d", count[d])
			}
			pos := p.InstrPos(fr.Instr)
			switch {
			case iv.opq != "":
				allInRange = false
				c.Undecided(key, r1, pos, "cannot bound the stored value: "+iv.opq)
			case iv.within(c11minAck, 1):
				c.OK(key, r1, pos)
			default:
				allInRange = false
				c.Bad(key, r1, pos, fmt.Sprintf("stores a value in %s to %s.%s; the factor must stay within [%g, 1] (pacer bandwidth = bps/factor, window = 2*bps*rtt/factor)", iv, a.bs.Obj().Name(), a.fAck.Name(), c11minAck))
			}
			if !fresh && !iv.within(1, 1) {
				c.Req(enabledOK, key+":enabled-only", r1, pos,
					"a value other than 1 is stored on a path that has not crossed the false edge of "+a.fDis.Name()+": with loss compensation disabled the factor must be 1")
			}
		}
	}
	c.Floor("C11.R1:store", nStores, 3)
	// the switch is immutable after construction
	for _, fr := range fieldRefs(a.fns, a.fDis) {
		if fr.Kind == "load" {
			continue
		}
		fa, _ := fr.Addr.(*ssa.FieldAddr)
		fresh := fr.Kind == "store" && fa != nil && c11freshBase(fa) != nil
		c.Req(fresh, "C11.R1:switch-immutable:"+fnName(fr.Fn), r1, p.InstrPos(fr.Instr), a.fDis.Name()+" is written (or its address taken) after construction: the `enabled` edge no longer implies the mode")
	}
	// fresh senders
	nAlloc := 0
	zeroInit := false
	for _, fn := range a.fns {
		allInstrs(fn, func(in ssa.Instruction) {
			al, ok := in.(*ssa.Alloc)
			if !ok {
				return
			}
			pt, ok := al.Type().(*types.Pointer)
			if !ok || !types.Identical(pt.Elem(), a.bs) {
				return
			}
			dead, good, where := c11initBeforeEscape(al, a.fAck)
			if dead {
				return
			}
			nAlloc++
			det := "a new sender leaves " + fnName(fn) + " with the factor still 0 (division by zero in bandwidth and window)"
			if where != nil {
				det += "; first use before the initialising store: " + p.InstrPos(where)
			}
			if !c.Req(good, "C11.R1:init:"+fnName(fn), r1, p.InstrPos(al), det) {
				zeroInit = true
			}
		})
	}
	c.Floor("C11.R1:init", nAlloc, 1)
	// constants of the statement, by role
	if allInRange && hull.lo <= hull.hi {
		c.Req(hull.lo == c11minAck, "C11.R1:floor-value", r1, "", fmt.Sprintf("the smallest value ever stored is %g, the statement clamps the factor at exactly %g", hull.lo, c11minAck))
	}
	nRatio := 0
	for _, b := range a.fnsBlocksOrder(e) {
		nRatio++
		lo := e.ratios[b]
		c.Req(lo == c11minSamples, "C11.R1:min-samples:"+fnName(b.Parent()), r1, p.InstrPos(b),
			fmt.Sprintf("the acked/(acked+lost) quotient is used from %g samples on; the statement says at least %d (1 otherwise)", lo, c11minSamples))
	}
	c.Floor("C11.R1:min-samples", nRatio, 1)
	// sampling slots
	nArr := 0
	st := c11structOf(a.bs)
	for i := 0; i < st.NumFields(); i++ {
		if arr, ok := st.Field(i).Type().Underlying().(*types.Array); ok {
			if _, isStruct := arr.Elem().Underlying().(*types.Struct); isStruct {
				nArr++
				c.Req(arr.Len() == c11slots, "C11.R1:slots:"+st.Field(i).Name(), r1, p.Pos(st.Field(i).Pos()),
					fmt.Sprintf("%d one-second sampling slots; the statement samples roughly the last %d seconds", arr.Len(), c11slots))
			}
		}
	}
	c.Floor("C11.R1:slots", nArr, 1)
	if zeroInit {
		hull = hull.hull(c11pt(0))
	}
	return hull
}

// fnsBlocksOrder: the recognised quotients in a deterministic order.
func (a *c11anch) fnsBlocksOrder(e *c11eval) []*ssa.BinOp {
	var out []*ssa.BinOp
	for _, fn := range a.fns {
		allInstrs(fn, func(in ssa.Instruction) {
			if b, ok := in.(*ssa.BinOp); ok {
				if _, ok := e.ratios[b]; ok {
					out = append(out, b)
				}
			}
		})
	}
	return out
}

// ---------------------------------------------------------------------------
// R2 window floor

func c11R2(c *Check, a *c11anch) {
	p := c.P
	const r2 = "C11.R2 every return of the Brutal GetCongestionWindow is >= the sender's current datagram size, or a constant no datagram can exceed"
	fn := a.m["GetCongestionWindow"]
	maxBufC := p.Const(pQUIC+"/congestion", "MaxPacketBufferSize")
	if maxBufC == nil {
		c.Unres("constant quic-go/congestion.MaxPacketBufferSize")
		return
	}
	maxBuf, _ := constant.Int64Val(constant.ToInt(maxBufC.Val()))
	lp := newLinProver(p, fn)
	loads := c11recvLoads(fn, a.fMDS)
	n := 0
	allInstrs(fn, func(in ssa.Instruction) {
		r, ok := in.(*ssa.Return)
		if !ok {
			return
		}
		vals := retResults(r)
		if len(vals) != 1 {
			return
		}
		n++
		key := fmt.Sprintf("C11.R2:return:%s#%d", fnName(fn), n)
		ok, why := c11atLeastDatagram(lp, vals[0], r, nil, loads, maxBuf, 0)
		if why == "" {
			why = "the returned window is not proved >= receiver." + a.fMDS.Name() + " (clamp / max against the current datagram size missing): with a small rate x RTT the window drops below one datagram and CanSend never admits a full packet"
		}
		c.Req(ok, key, r2, p.InstrPos(r), why)
	})
	c.Floor("C11.R2:return", n, 1)
}

// c11atLeastDatagram: v >= one of the loads of the datagram size (or a constant
// >= the largest datagram), splitting a phi over its incoming edges.
func c11atLeastDatagram(lp *linProver, v ssa.Value, at ssa.Instruction, extra []linFact, loads []ssa.Value, maxBuf int64, depth int) (bool, string) {
	if k, isC := constInt(v); isC {
		if k >= maxBuf {
			return true, ""
		}
		return false, fmt.Sprintf("constant window %d is below the largest datagram (%d): the sender stalls once the path MTU exceeds it", k, maxBuf)
	}
	for _, l := range loads {
		cx := lp.newCtx(at)
		if lp.proveAt(at, lp.lin(l, cx), lp.lin(v, cx), 0, &linCtx{subst: map[ssa.Value]ssa.Value{}, extra: extra}) {
			return true, ""
		}
	}
	ph, ok := resolve(v).(*ssa.Phi)
	if !ok || depth > 2 {
		return false, ""
	}
	for i, ed := range ph.Edges {
		pred := ph.Block().Preds[i]
		last := pred.Instrs[len(pred.Instrs)-1]
		ex := append([]linFact{}, extra...)
		if len(pred.Succs) == 2 && pred.Succs[0] != pred.Succs[1] {
			for j, s := range pred.Succs {
				if s == ph.Block() {
					if cond, pol, ok := edgeFact(pred, j); ok {
						ex = append(ex, lp.condFacts(cond, pol, lp.newCtx(last))...)
					}
				}
			}
		}
		if ok, why := c11atLeastDatagram(lp, ed, last, ex, loads, maxBuf, depth+1); !ok {
			return false, why
		}
	}
	return true, ""
}

// ---------------------------------------------------------------------------
// R3 pacer bandwidth > 0

var c11rateMax = math.Ldexp(1, 53)

type c11r3 struct {
	c      *Check
	a      *c11anch
	g      *c11cg
	guards int
	busy   map[*ssa.Function]bool
}

const c11r3text = "C11.R3 the bandwidth callback of the Brutal pacer returns >= 1 byte/s: bps/factor with the factor in the R1 range and bps > 0 established at every constructor call site"

func c11internal(fn *ssa.Function) bool {
	pk := fnPkg(fn)
	if pk == nil {
		return false
	}
	if strings.Contains(pk.Pkg.Path(), "/internal/") {
		return true
	}
	obj, _ := fn.Object().(*types.Func)
	return obj != nil && !obj.Exported()
}

// paramPositive: parameter idx of fn is >= 1 at every call.
func (r *c11r3) paramPositive(fn *ssa.Function, idx, depth int) bool {
	p := r.c.P
	if r.g.taken[fn] || len(r.g.callers[fn]) == 0 || !c11internal(fn) || r.busy[fn] || depth > 3 {
		r.c.Bad("C11.R3:rate-positive:callers:"+fnName(fn), c11r3text, p.Pos(fn.Pos()), "the callers of "+fnName(fn)+" cannot be enumerated (used as a value, exported outside internal/, or recursive): the rate argument is not known to be positive")
		return false
	}
	r.busy[fn] = true
	defer delete(r.busy, fn)
	all := true
	for _, site := range r.g.callers[fn] {
		caller := site.Parent()
		r.c.Saw(fnName(caller))
		if idx >= len(site.Call.Args) {
			all = false
			continue
		}
		arg := site.Call.Args[idx]
		key := "C11.R3:rate-positive:" + fnName(caller) + "→" + fnName(fn)
		lp := newLinProver(p, caller)
		cx := lp.newCtx(site)
		if lp.proveAt(site, linConst(1), lp.lin(arg, cx), 0, nil) {
			r.guards++
			r.c.OK(key, c11r3text, p.InstrPos(site))
			continue
		}
		base := resolve(arg)
		for {
			cv, ok := base.(*ssa.Convert)
			if !ok || !isIntType(cv.Type()) || !isIntType(cv.X.Type()) {
				break
			}
			base = resolve(cv.X)
		}
		if pa, ok := base.(*ssa.Parameter); ok {
			if k := c11paramIndex(caller, pa); k >= 0 {
				if r.paramPositive(caller, k, depth+1) {
					r.c.OK(key, c11r3text, p.InstrPos(site))
				} else {
					all = false
				}
				continue
			}
		}
		all = false
		r.c.Bad(key, c11r3text, p.InstrPos(site), "the rate passed to "+fnName(fn)+" is not behind a `> 0` edge: a rate of 0 makes the pacer divide by a zero bandwidth")
	}
	return all
}

// fieldInv: the invariant interval of an integer field of the sender.
func (r *c11r3) fieldInv(fld *types.Var) c11iv {
	p := r.c.P
	res := c11empty()
	e := c11newEval(p, nil)
	n := 0
	for _, fr := range fieldRefs(r.a.fns, fld) {
		switch fr.Kind {
		case "addr":
			return c11typeTop(fld.Type())
		case "store":
			n++
			base := resolve(fr.Val)
			for {
				cv, ok := base.(*ssa.Convert)
				if !ok || !isIntType(cv.Type()) || !isIntType(cv.X.Type()) {
					break
				}
				base = resolve(cv.X)
			}
			if pa, ok := base.(*ssa.Parameter); ok {
				if k := c11paramIndex(fr.Fn, pa); k >= 0 {
					if r.paramPositive(fr.Fn, k, 0) {
						res = res.hull(c11rng(1, c11rateMax)) // upper bound: stated assumption
					} else {
						res = res.hull(c11typeTop(fld.Type()))
					}
					continue
				}
			}
			res = res.hull(r.g.valueAt(e, fr.Val, fr.Instr))
		}
	}
	// zero value of a fresh object that escapes before the field is set
	for _, fn := range r.a.fns {
		allInstrs(fn, func(in ssa.Instruction) {
			if al, ok := in.(*ssa.Alloc); ok {
				if pt, ok := al.Type().(*types.Pointer); ok && types.Identical(pt.Elem(), r.a.bs) {
					if dead, good, _ := c11initBeforeEscape(al, fld); !dead && !good {
						res = res.hull(c11pt(0))
					}
				}
			}
		})
	}
	if n == 0 {
		res = res.hull(c11pt(0))
	}
	return res
}

func c11R3(c *Check, a *c11anch, g *c11cg, ackHull c11iv) {
	p := c.P
	r := &c11r3{c: c, a: a, g: g, busy: map[*ssa.Function]bool{}}
	if ackHull.lo > ackHull.hi && ackHull.opq == "" {
		ackHull = c11typeTop(a.fAck.Type())
	}
	nBW := 0
	for _, fn := range a.fns {
		if pk := fnPkg(fn); pk == nil || pk.Pkg.Path() != pBrutal {
			continue
		}
		allInstrs(fn, func(in ssa.Instruction) {
			call, ok := in.(*ssa.Call)
			if !ok {
				return
			}
			callee := call.Call.StaticCallee()
			if callee == nil || callee.Signature.Results().Len() != 1 {
				return
			}
			if pt, ok := callee.Signature.Results().At(0).Type().(*types.Pointer); !ok || !types.Identical(pt.Elem(), a.pacerT) {
				return
			}
			for _, arg := range call.Call.Args {
				if _, isFn := arg.Type().Underlying().(*types.Signature); !isFn {
					continue
				}
				var bw *ssa.Function
				switch x := resolve(arg).(type) {
				case *ssa.MakeClosure:
					bw, _ = x.Fn.(*ssa.Function)
				case *ssa.Function:
					bw = x
				}
				nBW++
				key := "C11.R3:bandwidth:" + fnName(fn)
				if bw == nil || len(bw.Blocks) == 0 {
					c.Undecided(key, c11r3text, p.InstrPos(call), "the bandwidth callback is not a function literal or method value")
					continue
				}
				c.Saw(fnName(bw))
				// invariants of the sender fields the callback reads
				env := map[*types.Var]c11iv{a.fAck: ackHull}
				scan := []*ssa.Function{bw}
				if bw.Synthetic != "" {
					allInstrs(bw, func(in ssa.Instruction) {
						if ci, ok := in.(ssa.CallInstruction); ok {
							if cal := ci.Common().StaticCallee(); cal != nil && len(cal.Blocks) > 0 {
								scan = append(scan, cal)
							}
						}
					})
				}
				bst := c11structOf(a.bs)
				for _, sf := range scan {
					allInstrs(sf, func(in ssa.Instruction) {
						u, ok := in.(*ssa.UnOp)
						if !ok || u.Op != token.MUL {
							return
						}
						fa, ok := u.X.(*ssa.FieldAddr)
						if !ok || c11structOf(fa.X.Type()) != bst {
							return
						}
						fld := structField(fa.X.Type(), fa.Field)
						if _, done := env[fld]; done || !isIntType(fld.Type()) {
							return
						}
						env[fld] = r.fieldInv(fld)
					})
				}
				e := c11newEval(p, env)
				res := c11empty()
				nRet := 0
				allInstrs(bw, func(in ssa.Instruction) {
					if ret, ok := in.(*ssa.Return); ok {
						if vals := retResults(ret); len(vals) == 1 {
							nRet++
							res = res.hull(e.at(vals[0], &c11frame{fn: bw}, ret.Block()))
						}
					}
				})
				var envs []string
				for f, iv := range env {
					envs = append(envs, f.Name()+" in "+iv.String())
				}
				switch {
				case nRet == 0 || res.opq != "":
					c.Undecided(key, c11r3text, p.Pos(bw.Pos()), "cannot bound the callback's result: "+res.String())
				case !res.nan && res.lo >= 1 && res.lo <= res.hi:
					c.OK(key, c11r3text, p.Pos(bw.Pos()))
				default:
					c.Bad(key, c11r3text, p.Pos(bw.Pos()), fmt.Sprintf("the bandwidth handed to the pacer lies in %s (with %s): a bandwidth <= 0 is a zero divisor in the pacer's wake-up computation and never refills the budget", res, strings.Join(c11sorted(envs), ", ")))
				}
			}
		})
	}
	c.Floor("C11.R3:bandwidth", nBW, 1)
	c.Floor("C11.R3:rate-positive", r.guards, 2)
}

func c11sorted(s []string) []string {
	out := append([]string{}, s...)
	for i := 1; i < len(out); i++ {
		for j := i; j > 0 && out[j] < out[j-1]; j-- {
			out[j], out[j-1] = out[j-1], out[j]
		}
	}
	return out
}

// ---------------------------------------------------------------------------
// R4 pacer typestate

const c11r4text = "C11.R4 pacer typestate: budget stored >= 0; Budget() bounded independently of elapsed time; zero wake-up time only with budget >= datagram size; HasPacingBudget <=> Budget(now) >= datagram size; both datagram-size thresholds equal and updated together; TimeUntilSend / OnPacketSent delegate to the pacer"

// c11iff proves that the bool value v at instruction `at` equals (T <= X).
type c11iff struct {
	lp   *linProver
	x, t ssa.Value
}

func (k *c11iff) check(v ssa.Value, neg bool, at ssa.Instruction, extra []linFact, depth int) bool {
	v0, pol := stripNot(v, !neg)
	cx := k.lp.newCtx(at)
	X, T := k.lp.lin(k.x, cx), k.lp.lin(k.t, cx)
	with := func(fs []linFact) *linCtx {
		return &linCtx{subst: map[ssa.Value]ssa.Value{}, extra: append(append([]linFact{}, extra...), fs...)}
	}
	isTrue := func(fs []linFact) bool { return k.lp.proveAt(at, T, X, 0, with(fs)) }
	isFalse := func(fs []linFact) bool { return k.lp.proveAt(at, X.add(linConst(1)), T, 0, with(fs)) }
	switch x := v0.(type) {
	case *ssa.Const:
		if x.Value == nil || x.Value.Kind() != constant.Bool {
			return false
		}
		if constant.BoolVal(x.Value) == pol {
			return isTrue(nil)
		}
		return isFalse(nil)
	case *ssa.BinOp:
		ft, ff := k.lp.condFacts(x, pol, cx), k.lp.condFacts(x, !pol, cx)
		if ft == nil || ff == nil {
			return false
		}
		return isTrue(ft) && isFalse(ff)
	case *ssa.Phi:
		if depth > 2 {
			return false
		}
		for i, ed := range x.Edges {
			pred := x.Block().Preds[i]
			var ex []linFact
			ex = append(ex, extra...)
			if len(pred.Succs) == 2 && pred.Succs[0] != pred.Succs[1] {
				for j, s := range pred.Succs {
					if s == x.Block() {
						if cond, p2, ok := edgeFact(pred, j); ok {
							ex = append(ex, k.lp.condFacts(cond, p2, k.lp.newCtx(pred.Instrs[len(pred.Instrs)-1]))...)
						}
					}
				}
			}
			if !k.check(ed, !pol, pred.Instrs[len(pred.Instrs)-1], ex, depth+1) {
				return false
			}
		}
		return true
	}
	return false
}

// c11readsFields: fn (or a static callee) loads one of the fields.
func c11readsFields(fn *ssa.Function, fields map[*types.Var]bool, seen map[*ssa.Function]bool) bool {
	if fn == nil || seen[fn] {
		return false
	}
	seen[fn] = true
	found := false
	allInstrs(fn, func(in ssa.Instruction) {
		switch x := in.(type) {
		case *ssa.FieldAddr:
			if fields[structField(x.X.Type(), x.Field)] {
				found = true
			}
		case *ssa.Field:
			if fields[structField(x.X.Type(), x.Field)] {
				found = true
			}
		case ssa.CallInstruction:
			if cal := x.Common().StaticCallee(); cal != nil && c11readsFields(cal, fields, seen) {
				found = true
			}
		}
	})
	return found
}

func c11R4(c *Check, a *c11anch, g *c11cg) {
	p := c.P
	pacer := a.pacerT.Obj().Name()

	// (a) the budget is never stored negative (a negative budget is read as an overflow and refilled to the full burst)
	nSt := 0
	cnt := map[string]int{}
	for _, fr := range fieldRefs(a.fns, a.fpBals) {
		switch fr.Kind {
		case "addr":
			c.Bad("C11.R4:budget-alias:"+fnName(fr.Fn), c11r4text, p.InstrPos(fr.Instr), "address of "+pacer+"."+a.fpBals.Name()+" escapes")
		case "store":
			nSt++
			c.Saw(fnName(fr.Fn))
			cnt[fnName(fr.Fn)]++
			key := fmt.Sprintf("C11.R4:budget-store:%s#%d", fnName(fr.Fn), cnt[fnName(fr.Fn)])
			lp := newLinProver(p, fr.Fn)
			cx := lp.newCtx(fr.Instr)
			c.Req(lp.proveAt(fr.Instr, linConst(0), lp.lin(fr.Val, cx), 0, nil), key, c11r4text, p.InstrPos(fr.Instr),
				"the value stored to "+pacer+"."+a.fpBals.Name()+" is not proved >= 0: Budget() treats a negative sum as an overflow and returns the full burst, so an oversized packet is followed by an unpaced burst")
		}
	}
	c.Floor("C11.R4:budget-store", nSt, 2)

	// (b) Budget() is bounded by a value that does not depend on elapsed time
	state := map[*types.Var]bool{}
	allInstrs(a.pSent, func(in ssa.Instruction) {
		if st, ok := in.(*ssa.Store); ok {
			if fa, ok := st.Addr.(*ssa.FieldAddr); ok && c11structOf(fa.X.Type()) == c11structOf(a.pacerT) {
				state[structField(fa.X.Type(), fa.Field)] = true
			}
		}
	})
	state[a.fpBals] = true
	{
		fn := a.pBudget
		timeDep := func(v ssa.Value) bool {
			for d := range deps(v, depOpts{throughCalls: true}) {
				switch x := d.(type) {
				case *ssa.Parameter:
					if c11paramIndex(fn, x) > 0 {
						return true
					}
				case *ssa.FieldAddr:
					if state[structField(x.X.Type(), x.Field)] {
						return true
					}
				case *ssa.Field:
					if state[structField(x.X.Type(), x.Field)] {
						return true
					}
				case *ssa.Call:
					if cal := x.Call.StaticCallee(); cal != nil && c11readsFields(cal, state, map[*ssa.Function]bool{}) {
						return true
					}
				}
			}
			return false
		}
		var caps []ssa.Value
		allInstrs(fn, func(in ssa.Instruction) {
			if v, ok := in.(ssa.Value); ok && isIntType(v.Type()) && types.Identical(v.Type(), fn.Signature.Results().At(0).Type()) && !timeDep(v) {
				caps = append(caps, v)
			}
		})
		lp := newLinProver(p, fn)
		n := 0
		allInstrs(fn, func(in ssa.Instruction) {
			r, ok := in.(*ssa.Return)
			if !ok {
				return
			}
			vals := retResults(r)
			if len(vals) != 1 {
				return
			}
			n++
			proved := false
			if _, isC := constInt(vals[0]); isC {
				proved = true
			}
			for _, b := range caps {
				if proved {
					break
				}
				if bi, ok := b.(ssa.Instruction); ok && !dominates(bi, r) {
					continue
				}
				cx := lp.newCtx(r)
				proved = lp.proveAt(r, lp.lin(vals[0], cx), lp.lin(b, cx), 0, nil)
			}
			c.Req(proved, fmt.Sprintf("C11.R4:burst-cap:%s#%d", fnName(fn), n), c11r4text, p.InstrPos(r),
				"the returned budget is not bounded by any value independent of the elapsed time / last-send state: after an idle gap the pacer releases an unbounded burst")
		})
		c.Floor("C11.R4:burst-cap", n, 1)
	}

	// (c) "send now" only with budget for a full datagram
	{
		fn := a.pWake
		lp := newLinProver(p, fn)
		bal, mds := c11recvLoads(fn, a.fpBals), c11recvLoads(fn, a.fpMDS)
		n := 0
		allInstrs(fn, func(in ssa.Instruction) {
			r, ok := in.(*ssa.Return)
			if !ok {
				return
			}
			vals := retResults(r)
			if len(vals) != 1 || !isConstInt(vals[0], 0) {
				return
			}
			n++
			proved := false
			for _, b := range bal {
				for _, m := range mds {
					cx := lp.newCtx(r)
					if !proved && lp.proveAt(r, lp.lin(m, cx), lp.lin(b, cx), 0, nil) {
						proved = true
					}
				}
			}
			c.Req(proved, fmt.Sprintf("C11.R4:wake-zero:%s#%d", fnName(fn), n), c11r4text, p.InstrPos(r),
				"the pacer answers 'send immediately' (zero time) on a path where "+a.fpBals.Name()+" >= "+a.fpMDS.Name()+" is not established: HasPacingBudget is false there, so quic-go re-arms an immediate deadline and spins")
		})
		c.Floor("C11.R4:wake-zero", n, 1)
	}

	// (d) HasPacingBudget <=> Budget(now) >= datagram size
	{
		fn := a.m["HasPacingBudget"]
		lp := newLinProver(p, fn)
		var budgets []ssa.Value
		allInstrs(fn, func(in ssa.Instruction) {
			if call, ok := in.(*ssa.Call); ok && c11recvCall(fn, call, a.fPacer) == a.pBudget && len(call.Call.Args) == 2 && len(fn.Params) == 2 && call.Call.Args[1] == ssa.Value(fn.Params[1]) {
				budgets = append(budgets, call)
			}
		})
		mds := c11recvLoads(fn, a.fMDS)
		n := 0
		allInstrs(fn, func(in ssa.Instruction) {
			r, ok := in.(*ssa.Return)
			if !ok {
				return
			}
			vals := retResults(r)
			if len(vals) != 1 {
				return
			}
			n++
			proved := false
			for _, b := range budgets {
				for _, m := range mds {
					if !proved {
						proved = (&c11iff{lp: lp, x: b, t: m}).check(vals[0], false, r, nil, 0)
					}
				}
			}
			c.Req(proved, fmt.Sprintf("C11.R4:has-budget:%s#%d", fnName(fn), n), c11r4text, p.InstrPos(r),
				"the result is not equivalent to `"+pacer+".Budget(now) >= receiver."+a.fMDS.Name()+"`: a stricter test disagrees with the pacer's zero wake-up time (busy loop), a weaker one sends without budget for a datagram (debt is forgiven, rate bound lost)")
		})
		c.Floor("C11.R4:has-budget", n, 1)
	}

	// (e) the two thresholds are one value
	{
		initConst := func(fld *types.Var, owner *types.Named) (vals []int64, pos string) {
			for _, fr := range fieldRefs(a.fns, fld) {
				if fr.Kind != "store" {
					continue
				}
				fa, _ := fr.Addr.(*ssa.FieldAddr)
				if fa == nil || c11freshBase(fa) == nil {
					continue
				}
				pos = p.InstrPos(fr.Instr)
				if k, ok := constInt(fr.Val); ok {
					vals = append(vals, k)
				} else {
					vals = append(vals, -1)
				}
			}
			return
		}
		v1, pos1 := initConst(a.fMDS, a.bs)
		v2, _ := initConst(a.fpMDS, a.pacerT)
		same := len(v1) > 0 && len(v2) > 0
		for _, x := range v1 {
			for _, y := range v2 {
				if x != y || x <= 0 {
					same = false
				}
			}
		}
		c.Req(same, "C11.R4:threshold-sync:init", c11r4text, pos1, fmt.Sprintf("initial datagram sizes of sender %v and pacer %v differ or are not positive constants: HasPacingBudget and the pacer's wake-up time use different thresholds", v1, v2))
		// updates
		n := 0
		for _, fn := range a.fns {
			if len(fn.Params) == 0 || !types.Identical(fn.Params[0].Type(), a.bsPtr) {
				// stores to the sender's threshold outside its methods
				for _, fr := range fieldRefs([]*ssa.Function{fn}, a.fMDS) {
					fa, _ := fr.Addr.(*ssa.FieldAddr)
					if fr.Kind == "addr" || (fr.Kind == "store" && (fa == nil || c11freshBase(fa) == nil)) {
						c.Bad("C11.R4:threshold-sync:"+fnName(fn), c11r4text, p.InstrPos(fr.Instr), "the sender's datagram size is written outside its own methods, apart from the pacer's")
					}
				}
				continue
			}
			var stores []*ssa.Store
			for _, fr := range fieldRefs([]*ssa.Function{fn}, a.fMDS) {
				if st, ok := fr.Instr.(*ssa.Store); ok && fr.Kind == "store" {
					if fa, _ := fr.Addr.(*ssa.FieldAddr); fa != nil && c11freshBase(fa) == nil {
						stores = append(stores, st)
					}
				}
			}
			var sets []*ssa.Call
			allInstrs(fn, func(in ssa.Instruction) {
				if call, ok := in.(*ssa.Call); ok && c11recvCall(fn, call, a.fPacer) == a.pSetMDS {
					sets = append(sets, call)
				}
			})
			if len(stores) == 0 && len(sets) == 0 {
				continue
			}
			n++
			ok := len(stores) > 0 && len(sets) > 0
			for _, st := range stores {
				for _, call := range sets {
					if len(call.Call.Args) != 2 || !sameValue(call.Call.Args[1], st.Val) {
						ok = false
					}
				}
			}
			if ok {
				// neither can be skipped on the way to a return
				isSet := func(in ssa.Instruction) bool {
					cl, isCall := in.(*ssa.Call)
					return isCall && c11recvCall(fn, cl, a.fPacer) == a.pSetMDS
				}
				isStore := func(in ssa.Instruction) bool {
					for _, st := range stores {
						if in == ssa.Instruction(st) {
							return true
						}
					}
					return false
				}
				ok = len(exitsReachableAvoiding(fn, nil, isSet)) == 0 && len(exitsReachableAvoiding(fn, nil, isStore)) == 0
			}
			pos := p.Pos(fn.Pos())
			c.Req(ok, "C11.R4:threshold-sync:"+fnName(fn), c11r4text, pos,
				"the sender's "+a.fMDS.Name()+" and the pacer's "+a.fpMDS.Name()+" are not updated together with the same value on every path: after an MTU change HasPacingBudget and the pacer's wake-up time disagree")
		}
		c.Floor("C11.R4:threshold-sync", n, 1)
		// the pacer's threshold is only written by its constructor and setter
		for _, fr := range fieldRefs(a.fns, a.fpMDS) {
			if fr.Kind == "load" {
				continue
			}
			fa, _ := fr.Addr.(*ssa.FieldAddr)
			fine := fr.Kind == "store" && fa != nil && (c11freshBase(fa) != nil || fr.Fn == a.pSetMDS)
			if !fine {
				c.Bad("C11.R4:threshold-sync:pacer-writer:"+fnName(fr.Fn), c11r4text, p.InstrPos(fr.Instr), "the pacer's datagram size is written outside its constructor and setter")
			}
		}
		// all calls of the setter come from the sender methods checked above (or other congestion controllers)
	}

	// (f) delegation
	{
		fn := a.m["TimeUntilSend"]
		n, ok := 0, true
		allInstrs(fn, func(in ssa.Instruction) {
			r, isR := in.(*ssa.Return)
			if !isR {
				return
			}
			vals := retResults(r)
			if len(vals) != 1 {
				return
			}
			n++
			call, isCall := resolve(vals[0]).(*ssa.Call)
			if !isCall || c11recvCall(fn, call, a.fPacer) != a.pWake {
				ok = false
			}
		})
		c.Req(ok && n > 0, "C11.R4:delegate:"+fnName(fn), c11r4text, p.Pos(fn.Pos()), "a return of TimeUntilSend is not the pacer's wake-up time: the send loop is no longer paced (or never woken)")
	}
	{
		fn := a.m["OnPacketSent"]
		isGood := func(in ssa.Instruction) bool {
			call, ok := in.(*ssa.Call)
			if !ok || c11recvCall(fn, call, a.fPacer) != a.pSent || len(call.Call.Args) != 3 || len(fn.Params) != 6 {
				return false
			}
			// interface order: sentTime, bytesInFlight, packetNumber, bytes, isRetransmittable
			return call.Call.Args[1] == ssa.Value(fn.Params[1]) && call.Call.Args[2] == ssa.Value(fn.Params[4])
		}
		ok := len(exitsReachableAvoiding(fn, nil, isGood)) == 0
		c.Req(ok, "C11.R4:consume:"+fnName(fn), c11r4text, p.Pos(fn.Pos()), "a path through OnPacketSent does not charge the pacer with this packet's send time and size (`pacer."+a.pSent.Name()+"(sentTime, bytes)`): the budget is not consumed by what was sent")
	}
}

package main

import (
	"go/types"

	"golang.org/x/tools/go/ssa"
)

// C07 extra rule (added after an independent seeded change was missed): session
// isolation also needs every piece of *mutable per-session helper state* the
// entry points to (the defragmenter, the activity clock, …) to be allocated
// freshly for each entry.  Structural form: every field of the session entry
// whose type is a pointer to a struct declared in this repository is stored,
// everywhere, only a value freshly allocated in the storing function (a
// composite literal / new) or returned by a repository constructor that
// returns a fresh allocation on every path.  A shared instance (taken from the
// manager, a parameter or a package variable) lets one session's fragments or
// timestamps leak into another.
func c07Extra(c *Check) {
	p := c.P
	const rule = "C07.R5 every pointer-to-struct helper object held by a session entry (defragmenter, activity clock) is allocated freshly per entry: sessions share no mutable reassembly / timing state"
	entry := p.Named(pServer, "udpSessionEntry")
	if entry == nil {
		c.Unres("core/server.udpSessionEntry")
		return
	}
	st, ok := entry.Underlying().(*types.Struct)
	if !ok {
		c.Unres("core/server.udpSessionEntry is not a struct")
		return
	}
	var srvFns []*ssa.Function
	for _, fn := range p.RepoFns {
		if pk := fnPkg(fn); pk != nil && pk.Pkg.Path() == pServer {
			srvFns = append(srvFns, fn)
		}
	}
	n := 0
	for i := 0; i < st.NumFields(); i++ {
		f := st.Field(i)
		if sl, isSlice := f.Type().Underlying().(*types.Slice); isSlice {
			// a scratch buffer kept on the entry (serialisation / receive space): it is written on every
			// reply, so it must be this entry's own allocation, never one handed down from the manager
			if b, isB := sl.Elem().Underlying().(*types.Basic); isB && b.Kind() == types.Byte {
				for _, fr := range fieldRefs(srvFns, f) {
					if fr.Kind != "store" {
						continue
					}
					n++
					c.Req(isNilConst(fr.Val) || c07freshValue(p, fr.Val, fr.Fn, 0), "C07.R5:fresh-per-session:"+f.Name()+":"+fnName(fr.Fn), rule, p.InstrPos(fr.Instr),
						"byte buffer "+f.Name()+" of the session entry is not allocated for this entry (shared between sessions): two sessions replying at the same time overwrite each other's serialised datagram, so bytes read from one session's socket leave under another session's ID")
				}
			}
			continue
		}
		pt, ok := f.Type().(*types.Pointer)
		if !ok {
			continue
		}
		nt, ok := pt.Elem().(*types.Named)
		if !ok || nt.Obj().Pkg() == nil || !isRepoPath(nt.Obj().Pkg().Path()) {
			continue
		}
		if _, isStruct := nt.Underlying().(*types.Struct); !isStruct {
			continue
		}
		for _, fr := range fieldRefs(srvFns, f) {
			if fr.Kind != "store" {
				continue
			}
			n++
			c.Req(c07freshValue(p, fr.Val, fr.Fn, 0), "C07.R5:fresh-per-session:"+f.Name()+":"+fnName(fr.Fn), rule, p.InstrPos(fr.Instr),
				"field "+f.Name()+" of the session entry receives an object that is not allocated for this entry (shared between sessions): state of one session's datagrams leaks into another")
		}
	}
	c.Floor("C07.R5:fresh-per-session", n, 1)
}

// c07AtomicFlag: when the session's closed flag is an atomic.Bool instead of a
// bool under connLock, close-exactly-once needs an atomic *claim*: every Close()
// of the session socket must be behind the true-edge of closed.CompareAndSwap(false, true)
// or behind the false-edge of a closed.Load() executed while connLock is held.
// A lock-free Load() followed by Lock()+Store(true) lets two closers through.
func c07AtomicFlag(c *Check) {
	p := c.P
	fClosed := p.Field(pServer, "udpSessionEntry", "closed")
	fConn := p.Field(pServer, "udpSessionEntry", "conn")
	fLock := p.Field(pServer, "udpSessionEntry", "connLock")
	if fClosed == nil || fConn == nil {
		return // the main rules report unresolved anchors
	}
	nt := namedOf(fClosed.Type())
	if nt == nil || nt.Obj().Pkg() == nil || nt.Obj().Pkg().Path() != "sync/atomic" {
		return // plain bool: decided by R1/R2 of the main check
	}
	const rule = "C07.R2 close exactly once: with an atomic closed flag every Close() of the session socket is behind a successful CompareAndSwap(false, true) claim, or behind a Load() == false made while connLock is held"
	la := p.Locks()
	isFlagCall := func(v ssa.Value, method string) *ssa.Call {
		call, ok := resolve(v).(*ssa.Call)
		if !ok {
			return nil
		}
		g := staticCallee(call)
		if g == nil || g.Name() != method || len(call.Call.Args) == 0 {
			return nil
		}
		if fa, ok := call.Call.Args[0].(*ssa.FieldAddr); ok && structField(fa.X.Type(), fa.Field) == fClosed {
			return call
		}
		return nil
	}
	n := 0
	for _, fn := range p.RepoFns {
		if pk := fnPkg(fn); pk == nil || pk.Pkg.Path() != pServer {
			continue
		}
		for _, ci := range callsIn(fn, func(ci ssa.CallInstruction) bool {
			recv, ok := methodCallNamed(ci, "Close")
			return ok && isLoadOfField(recv, fConn)
		}) {
			n++
			in := ci.(ssa.Instruction)
			claimed := guardedBy(in, func(cond ssa.Value, pol bool) bool {
				if call := isFlagCall(cond, "CompareAndSwap"); call != nil && pol {
					return len(call.Call.Args) == 3 && isConstBool(call.Call.Args[1], false) && isConstBool(call.Call.Args[2], true)
				}
				if call := isFlagCall(cond, "Load"); call != nil && !pol {
					return fLock != nil && la.Holds(call, fLock, lockW)
				}
				return false
			})
			c.Req(claimed, "C07.R2:atomic-claim:"+fnName(fn), rule, p.InstrPos(in), "the session socket is closed on a path that did not claim the atomic closed flag (CompareAndSwap) nor re-check it under connLock: two overlapping closers both close the socket and both run the exit function")
		}
	}
	c.Floor("C07.R2:atomic-close-sites", n, 1)
}

// c07freshValue: v is a fresh allocation made in fn, or the result of a
// repository function that returns a fresh allocation on every path.
func c07freshValue(p *Prog, v ssa.Value, fn *ssa.Function, depth int) bool {
	v = resolve(v)
	switch x := v.(type) {
	case *ssa.Alloc:
		return x.Heap && x.Parent() == fn
	case *ssa.MakeSlice:
		return x.Parent() == fn
	case *ssa.Slice:
		// make([]T, const) is lowered to `new [N]T` + a full slice
		if al, ok := x.X.(*ssa.Alloc); ok && al.Comment == "makeslice" && al.Parent() == fn {
			return true
		}
		return false
	case *ssa.Parameter:
		// handed in by the caller: fresh if every (visible) call site passes a fresh value
		if depth > 2 || x.Parent() != fn {
			return false
		}
		sites, ok := visibleCallSites(p, fn)
		if !ok || len(sites) == 0 {
			return false
		}
		idx := -1
		for i, q := range fn.Params {
			if q == x {
				idx = i
			}
		}
		for _, site := range sites {
			arg := c03ArgAt(site, idx)
			if arg == nil || !c07freshValue(p, arg, site.Parent(), depth+1) {
				return false
			}
		}
		return true
	case *ssa.Call:
		g := staticCallee(x)
		if g == nil || !p.IsRepoFn(g) || depth > 2 {
			return false
		}
		ok, n := true, 0
		allInstrs(g, func(in ssa.Instruction) {
			if r, isRet := in.(*ssa.Return); isRet {
				res := retResults(r)
				if len(res) == 0 || !c07freshValue(p, res[0], g, depth+1) {
					ok = false
				}
				n++
			}
		})
		return ok && n > 0
	}
	return false
}

// c07ClockLossless (added after an independent seeded change was missed): the
// activity clock hands back the instant it was given.  The sweep compares
// now - Last with the idle timeout, so a Set that stores a rounding of its
// argument (Unix seconds, Truncate, Round, ...) makes a session look idle for up
// to the rounding unit longer than it was and a session with traffic is swept.
// Structural form: no value that flows from Set's time argument into the stored
// cell passes through a narrowing method of time.Time.
func c07ClockLossless(c *Check) {
	p := c.P
	const rule = "C07.R10 the activity clock is lossless: AtomicTime.Set stores the instant it is given, never a rounding of it (Unix, UnixMilli, UnixMicro, Truncate, Round, ...), so `now - Last > idleTimeout` is not true early"
	setFn := p.Fn(pUtils, "(*AtomicTime).Set")
	if setFn == nil || len(setFn.Blocks) == 0 || len(setFn.Params) < 2 {
		return // anchors are reported by the main check
	}
	c.Saw(fnName(setFn))
	arg := setFn.Params[1]
	n := 0
	allInstrs(setFn, func(in ssa.Instruction) {
		var vals []ssa.Value
		switch y := in.(type) {
		case ssa.CallInstruction:
			vals = callArgs(y)
		case *ssa.Store:
			vals = []ssa.Value{y.Val}
		default:
			return
		}
		for _, v := range vals {
			d := deps(v, depOpts{throughCalls: true})
			if !d[arg] {
				continue
			}
			n++
			bad := ""
			for dv := range d {
				call, ok := dv.(*ssa.Call)
				if !ok {
					continue
				}
				f := staticCallee(call)
				if f == nil || f.Pkg == nil || f.Pkg.Pkg.Path() != "time" || f.Signature.Recv() == nil {
					continue
				}
				switch f.Name() {
				case "UnixNano", "UTC", "Local", "In":
				default:
					if !deps(call, depOpts{throughCalls: true})[arg] {
						continue
					}
					if bad == "" || f.Name() < bad {
						bad = f.Name()
					}
				}
			}
			c.Req(bad == "", "C07.R10:clock-lossless:"+fnName(setFn), rule, p.InstrPos(in), "the value kept by the activity clock is computed from its argument through time.Time."+bad+": the stored instant is rounded, the sweeper overestimates the idle time and closes a session that still has traffic")
		}
	})
	c.Floor("C07.R10:clock-lossless", n, 1)
}

package main

import (
	"fmt"
	"go/token"
	"go/types"
	"sort"
	"strings"

	"golang.org/x/tools/go/ssa"
)

func init() {
	register(&propDef{
		ID:        "C06",
		Run:       checkC06,
		Technique: "static analysis: edge-guard reachability and must-pass on the CFG of the logging copy loop, SSA value identity between the Read result and the Write operand, endpoint-role propagation through call sites and closure bindings, ownership (acquire->Close on all exits), channel send/receive census (go/ssa)",
		Explanation: "Decides, for every path of the code, the structural necessary conditions of the TCP relay: " +
			"R1 in the logging copy loop (resolved by role: the core/server function that calls Read, Write and a func(uint) bool parameter; the callback and the Write may live in a chunk helper the loop hands buf[0:nr] and the callback to, which is then decided on its own CFG together with the hand-over and the veto signal it returns) no path leads from a Read to a Write without crossing the true-edge of the log callback invoked with that Read's byte count, and nothing is written (nor the loop continued) on a path that left the callback without its true-edge; " +
			"R2 the Write operand is buf[0:nr] with buf the slice handed to that Read and nr its result, the buffer is not stored into between the two, a chunk with nr>0 is either vetoed or written before the loop reads again or returns (no tail drop when Read returns data together with an error), and is written at most once; " +
			"R3 the callback of the copy whose source is the outbound connection reports LogTraffic(id,0,n), the one whose source is the client stream LogTraffic(id,n,0), n being the callback's parameter and id the authenticated id of this connection; a chunk is reported at most once; every two-way relay copies client->remote and remote->client exactly once each; " +
			"R5 the connection returned by Outbound.TCP reaches Close on every path, the client stream is closed on every exit of the request handler, and the stream wrapper's Close performs CancelRead and a graceful Close (never CancelWrite); " +
			"R6 on the dial-error edge nothing touches a target connection, a non-hooked request is answered WriteTCPResponse(stream,false,…) before the stream is closed, the ok response is sent only behind the dial-success (or hook) edge and always before the relay starts; on the client both the eager and the lazy response path return DialError carrying the message read from the response on the refused edge; " +
			"R7 the bytes the request hook consumed are written, whole and once, to the target behind the dial-success edge and before either relay starts, and nothing else is written to the target by the handler; " +
			"R8 each relay direction sends its copy's outcome on a channel whose capacity plus the receives that every path performs covers the number of senders, and the relay returns the first received outcome. " +
			"(A refused LogTraffic report closing the QUIC connection is decided by C15.R5; the sniffer side of the replay by C17.R3.)",
		NotDecided: []string{
			"in-order prefix delivery under every chunking and close order, 'the whole stream when the sender finishes first', the <= one-chunk accounting gap (quic-go stream semantics and scheduling)",
			"that the refused report closes the QUIC connection (C15.R5) and that the sniffer hands back exactly the consumed bytes (C17.R3)",
			"UDP accounting direction in udpIOImpl (outside this property's statement)",
			"short writes: dst.Write returning n < len without an error",
		},
		Assumptions: []string{
			"io.Reader/io.Writer contracts: Read fills buf[0:n]; Write neither modifies nor retains its argument; io.Copy copies src to dst faithfully",
			"quic-go: Stream.Close is a graceful FIN, CancelWrite aborts the send side, Read may return n>0 together with io.EOF",
			"endpoint roles: the handler parameter passed to ReadTCPRequest is the client stream, result #0 of Outbound.TCP is the target",
		},
	})
}

// ---------------------------------------------------------------------------
// small local helpers

// c06norm strips negations and comparisons with boolean constants.
func c06norm(cond ssa.Value, pol bool) (ssa.Value, bool) {
	for i := 0; i < 8; i++ {
		cond, pol = stripNot(cond, pol)
		b, ok := cond.(*ssa.BinOp)
		if !ok || (b.Op != token.EQL && b.Op != token.NEQ) {
			return cond, pol
		}
		var other ssa.Value
		var k bool
		switch {
		case isConstBool(b.Y, true):
			other, k = b.X, true
		case isConstBool(b.Y, false):
			other, k = b.X, false
		case isConstBool(b.X, true):
			other, k = b.Y, true
		case isConstBool(b.X, false):
			other, k = b.Y, false
		default:
			return cond, pol
		}
		if (b.Op == token.EQL) != k {
			pol = !pol
		}
		cond = other
	}
	return cond, pol
}

// c06conv looks through numeric conversions.
func c06conv(v ssa.Value) ssa.Value {
	for i := 0; i < 8; i++ {
		v = resolve(v)
		cv, ok := v.(*ssa.Convert)
		if !ok {
			return v
		}
		v = cv.X
	}
	return v
}

// c06res is resolve that also follows variables captured by nested closures
// (a free variable bound to the enclosing closure's free variable).
func c06res(v ssa.Value) ssa.Value {
	for i := 0; i < 16; i++ {
		v = resolve(v)
		u, ok := v.(*ssa.UnOp)
		if !ok || u.Op != token.MUL {
			return v
		}
		fv, ok := u.X.(*ssa.FreeVar)
		if !ok {
			return v
		}
		var b ssa.Value = fv
		for j := 0; j < 8; j++ {
			f, isFV := b.(*ssa.FreeVar)
			if !isFV {
				break
			}
			b = freeVarBinding(f)
		}
		al, ok := b.(*ssa.Alloc)
		if !ok {
			return v
		}
		s := singleStore(al)
		if s == nil {
			return v
		}
		v = s
	}
	return v
}

// c06unwrap looks through interface wrapping and type assertions.
func c06unwrap(v ssa.Value) ssa.Value {
	for i := 0; i < 8; i++ {
		v = c06res(v)
		ta, ok := v.(*ssa.TypeAssert)
		if !ok {
			return v
		}
		v = ta.X
	}
	return v
}

// c06origins: the values v may stand for, looking through phis.
func c06origins(v ssa.Value) []ssa.Value {
	var out []ssa.Value
	seen := map[ssa.Value]bool{}
	var walk func(v ssa.Value, d int)
	walk = func(v ssa.Value, d int) {
		v = resolve(v)
		if seen[v] || d > 8 {
			return
		}
		seen[v] = true
		if ph, ok := v.(*ssa.Phi); ok {
			for _, e := range ph.Edges {
				walk(e, d+1)
			}
			return
		}
		out = append(out, v)
	}
	walk(v, 0)
	return out
}

// c06origin is a value v may stand for; ret is the Return of a helper it was
// handed back by (nil: v lives in the function the query started in).
type c06origin struct {
	v   ssa.Value
	ret *ssa.Return
}

// c06originsX is c06origins that also looks through the results of static
// calls of repository helpers (one or two levels): `a, b := h.helper(...)`
// stands for whatever helper's returns hand back at that result index.
func c06originsX(p *Prog, v ssa.Value) []c06origin {
	var out []c06origin
	type key struct {
		v   ssa.Value
		ret *ssa.Return
	}
	seen := map[key]bool{}
	var walk func(v ssa.Value, ret *ssa.Return, d, calls int)
	walk = func(v ssa.Value, ret *ssa.Return, d, calls int) {
		v = resolve(v)
		if seen[key{v, ret}] || d > 12 {
			return
		}
		seen[key{v, ret}] = true
		if ph, ok := v.(*ssa.Phi); ok {
			for _, e := range ph.Edges {
				walk(e, ret, d+1, calls)
			}
			return
		}
		var call *ssa.Call
		idx := 0
		switch x := v.(type) {
		case *ssa.Extract:
			call, _ = x.Tuple.(*ssa.Call)
			idx = x.Index
		case *ssa.Call:
			call = x
		}
		if call != nil && calls < 2 {
			g := staticCallee(call)
			if g != nil && len(g.Blocks) > 0 && p.IsRepoFn(g) && idx < g.Signature.Results().Len() {
				n := 0
				var sub []func()
				complete := true
				allInstrs(g, func(in ssa.Instruction) {
					r, ok := in.(*ssa.Return)
					if !ok || g.Recover == r.Block() {
						return
					}
					rs := retResults(r)
					if idx >= len(rs) || rs[idx] == nil {
						complete = false
						return
					}
					n++
					rv := rs[idx]
					sub = append(sub, func() { walk(rv, r, d+1, calls+1) })
				})
				if complete && n > 0 {
					for _, f := range sub {
						f()
					}
					return
				}
			}
		}
		out = append(out, c06origin{v, ret})
	}
	walk(v, nil, 0, 0)
	return out
}

// c06helpersOf: fn and the repository functions of its package it calls
// statically, up to two levels down.
func c06helpersOf(p *Prog, fn *ssa.Function) []*ssa.Function {
	out := []*ssa.Function{fn}
	seen := map[*ssa.Function]bool{fn: true}
	frontier := []*ssa.Function{fn}
	for depth := 0; depth < 2; depth++ {
		var next []*ssa.Function
		for _, f := range frontier {
			allInstrs(f, func(in ssa.Instruction) {
				ci, ok := in.(ssa.CallInstruction)
				if !ok {
					return
				}
				g := staticCallee(ci)
				if g == nil || seen[g] || len(g.Blocks) == 0 || !p.IsRepoFn(g) || fnPkg(g) != fnPkg(fn) {
					return
				}
				seen[g] = true
				out = append(out, g)
				next = append(next, g)
			})
		}
		frontier = next
	}
	return out
}

// c06walk collects the instructions reachable from the start of block b, not
// continuing past stop instructions (included) and not crossing edgeStop edges.
func c06walk(b *ssa.BasicBlock, stop func(ssa.Instruction) bool, edgeStop EdgePred) []ssa.Instruction {
	var out []ssa.Instruction
	seen := map[*ssa.BasicBlock]bool{}
	var walk func(b *ssa.BasicBlock)
	walk = func(b *ssa.BasicBlock) {
		if seen[b] {
			return
		}
		seen[b] = true
		for _, in := range b.Instrs {
			out = append(out, in)
			if stop != nil && stop(in) {
				return
			}
		}
		for i, s := range b.Succs {
			if edgeStop != nil {
				if c, pol, ok := edgeFact(b, i); ok && edgeStop(c, pol) {
					continue
				}
			}
			walk(s)
		}
	}
	walk(b)
	return out
}

func c06edgeTargets(fn *ssa.Function, pred EdgePred) []*ssa.BasicBlock {
	var out []*ssa.BasicBlock
	for _, b := range fn.Blocks {
		for i, s := range b.Succs {
			if c, pol, ok := edgeFact(b, i); ok && pred(c, pol) {
				out = append(out, s)
			}
		}
	}
	return out
}

func c06isByteSlice(t types.Type) bool {
	sl, ok := t.Underlying().(*types.Slice)
	if !ok {
		return false
	}
	b, ok := sl.Elem().Underlying().(*types.Basic)
	return ok && b.Kind() == types.Byte
}

// c06ioCall matches a call of a method `name` with the io.Reader/io.Writer
// shape ([]byte) (int, error); returns receiver and buffer operand.
func c06ioCall(in ssa.Instruction, name string) (ci ssa.CallInstruction, recv, buf ssa.Value, ok bool) {
	call, isCall := in.(ssa.CallInstruction)
	if !isCall {
		return nil, nil, nil, false
	}
	if _, isGo := in.(*ssa.Go); isGo {
		return nil, nil, nil, false
	}
	r, named := methodCallNamed(call, name)
	if !named {
		return nil, nil, nil, false
	}
	var sig *types.Signature
	cc := call.Common()
	if cc.IsInvoke() {
		sig, _ = cc.Method.Type().(*types.Signature)
	} else if f := cc.StaticCallee(); f != nil {
		sig = f.Signature
	}
	if sig == nil || sig.Params().Len() != 1 || sig.Results().Len() != 2 || !c06isByteSlice(sig.Params().At(0).Type()) {
		return nil, nil, nil, false
	}
	if b, isB := sig.Results().At(0).Type().Underlying().(*types.Basic); !isB || b.Kind() != types.Int {
		return nil, nil, nil, false
	}
	args := callArgs(call)
	if len(args) != 1 {
		return nil, nil, nil, false
	}
	return call, r, args[0], true
}

// c06leq0Edge: the edge (cond, pol) implies x <= 0 for a value accepted by isX.
func c06leq0Edge(cond ssa.Value, pol bool, isX func(ssa.Value) bool) bool {
	b, ok := cond.(*ssa.BinOp)
	if !ok {
		return false
	}
	op := b.Op
	var k int64
	switch {
	case isX(b.X):
		kk, isC := constInt(b.Y)
		if !isC {
			return false
		}
		k = kk
	case isX(b.Y):
		kk, isC := constInt(b.X)
		if !isC {
			return false
		}
		k = kk
		switch op { // k op X  ==  X op' k
		case token.LSS:
			op = token.GTR
		case token.LEQ:
			op = token.GEQ
		case token.GTR:
			op = token.LSS
		case token.GEQ:
			op = token.LEQ
		}
	default:
		return false
	}
	if !pol {
		switch op {
		case token.GTR:
			op = token.LEQ
		case token.GEQ:
			op = token.LSS
		case token.LSS:
			op = token.GEQ
		case token.LEQ:
			op = token.GTR
		case token.EQL:
			op = token.NEQ
		case token.NEQ:
			op = token.EQL
		default:
			return false
		}
	}
	switch op {
	case token.LEQ, token.EQL:
		return k <= 0
	case token.LSS:
		return k <= 1
	}
	return false
}

// c06base strips prefix re-slicings x[0:...] / x[:...].
func c06base(v ssa.Value) ssa.Value {
	for i := 0; i < 8; i++ {
		v = resolve(v)
		sl, ok := v.(*ssa.Slice)
		if !ok || !(sl.Low == nil || isConstInt(sl.Low, 0)) {
			return v
		}
		v = sl.X
	}
	return v
}

func c06root(fn *ssa.Function) *ssa.Function {
	for fn.Parent() != nil {
		fn = fn.Parent()
	}
	return fn
}

// c06hasSend: fn or one of its function literals sends on a channel.
func c06hasSend(fn *ssa.Function) bool {
	has := false
	for _, f := range withAnon(fn) {
		allInstrs(f, func(in ssa.Instruction) {
			if _, ok := in.(*ssa.Send); ok {
				has = true
			}
		})
	}
	return has
}

func c06inLoop(in ssa.Instruction) bool { return reachableAfter(in, in) }

func c06has(ins []ssa.Instruction, pred func(ssa.Instruction) bool) ssa.Instruction {
	for _, in := range ins {
		if pred(in) {
			return in
		}
	}
	return nil
}

func c06isReturn(in ssa.Instruction) bool { _, ok := in.(*ssa.Return); return ok }

// c06closesVal: the instruction closes a value accepted by isVal: a (deferred)
// Close call on it, or a call of a repository helper / closure that closes the
// corresponding parameter / captured variable on every path.
func c06closesVal(p *Prog, in ssa.Instruction, isVal func(ssa.Value) bool, depth int) bool {
	ci, ok := in.(ssa.CallInstruction)
	if !ok {
		return false
	}
	if _, isGo := in.(*ssa.Go); isGo {
		return false
	}
	if recv, ok := methodCallNamed(ci, "Close"); ok && isVal(recv) {
		return true
	}
	if depth >= 2 {
		return false
	}
	callee := staticCallee(ci)
	if callee == nil || len(callee.Blocks) == 0 || !p.IsRepoFn(callee) {
		return false
	}
	args := ci.Common().Args
	inner := func(v ssa.Value) bool {
		if isVal(v) {
			return true
		}
		rv := c06unwrap(v)
		for i, prm := range callee.Params {
			if rv == ssa.Value(prm) && i < len(args) && isVal(args[i]) {
				return true
			}
		}
		return false
	}
	touches := false
	for _, a := range args {
		if isVal(a) {
			touches = true
		}
	}
	if !touches && callee.Parent() == nil {
		return false
	}
	n := 0
	allInstrs(callee, func(x ssa.Instruction) {
		if c06closesVal(p, x, inner, depth+1) {
			n++
		}
	})
	if n == 0 {
		return false
	}
	return len(exitsReachableAvoiding(callee, nil, func(x ssa.Instruction) bool { return c06closesVal(p, x, inner, depth+1) })) == 0
}

// ---------------------------------------------------------------------------
// the logging copy loop (R1, R2, part of R3)

type c06loop struct {
	fn      *ssa.Function
	cb      *ssa.Parameter
	cbIdx   int
	cbCalls []*ssa.Call
	reads   []ssa.CallInstruction
	writes  []ssa.CallInstruction
	dstIdx  int
	srcIdx  int
	// split shape: the callback and the Write live in a chunk helper that the
	// loop calls once per Read (`forward(dst, buf[:nr], log)`)
	helpers []*c06helper
	hcalls  map[ssa.Instruction]bool
}

// c06helper is a function the loop hands its callback parameter to and that
// asks the callback and performs the Write on behalf of the loop.
type c06helper struct {
	fn      *ssa.Function
	call    *ssa.Call      // the call site in the loop function
	cb      *ssa.Parameter // the helper's callback parameter
	cbCalls []*ssa.Call
	writes  []ssa.CallInstruction
}

func c06paramIndex(fn *ssa.Function, v ssa.Value) int {
	v = c06unwrap(v)
	for i, p := range fn.Params {
		if ssa.Value(p) == v {
			return i
		}
	}
	return -1
}

func c06isLogCallbackType(t types.Type) bool {
	sig, ok := t.Underlying().(*types.Signature)
	if !ok || sig.Params().Len() != 1 || sig.Results().Len() != 1 {
		return false
	}
	pb, ok := sig.Params().At(0).Type().Underlying().(*types.Basic)
	if !ok || pb.Info()&types.IsInteger == 0 {
		return false
	}
	return types.Identical(sig.Results().At(0).Type().Underlying(), types.Typ[types.Bool])
}

func c06findLoops(c *Check, srvFns []*ssa.Function) []*c06loop {
	var out []*c06loop
	var partial []*c06loop
	adopted := map[*ssa.Function]bool{}
	for _, fn := range srvFns {
		for i, prm := range fn.Params {
			if !c06isLogCallbackType(prm.Type()) {
				continue
			}
			l := &c06loop{fn: fn, cb: prm, cbIdx: i, dstIdx: -1, srcIdx: -1, hcalls: map[ssa.Instruction]bool{}}
			allInstrs(fn, func(in ssa.Instruction) {
				if call, ok := in.(*ssa.Call); ok && !call.Call.IsInvoke() && resolve(call.Call.Value) == ssa.Value(prm) {
					l.cbCalls = append(l.cbCalls, call)
				}
				if ci, recv, _, ok := c06ioCall(in, "Read"); ok {
					l.reads = append(l.reads, ci)
					if k := c06paramIndex(fn, recv); k >= 0 {
						l.srcIdx = k
					}
				}
				if ci, recv, _, ok := c06ioCall(in, "Write"); ok {
					l.writes = append(l.writes, ci)
					if k := c06paramIndex(fn, recv); k >= 0 {
						l.dstIdx = k
					}
				}
			})
			if len(l.cbCalls) == 0 {
				// split shape: the callback parameter is handed to a chunk helper
				if len(l.reads) == 0 || len(l.writes) > 0 {
					continue
				}
				allInstrs(fn, func(in ssa.Instruction) {
					call, ok := in.(*ssa.Call)
					if !ok {
						return
					}
					g := staticCallee(call)
					if g == nil || g == fn || len(g.Blocks) == 0 || !c.P.IsRepoFn(g) {
						return
					}
					for j, a := range call.Call.Args {
						if resolve(a) != ssa.Value(prm) || j >= len(g.Params) || !c06isLogCallbackType(g.Params[j].Type()) {
							continue
						}
						h := &c06helper{fn: g, call: call, cb: g.Params[j]}
						nReads := 0
						allInstrs(g, func(x ssa.Instruction) {
							if cc, ok := x.(*ssa.Call); ok && !cc.Call.IsInvoke() && resolve(cc.Call.Value) == ssa.Value(h.cb) {
								h.cbCalls = append(h.cbCalls, cc)
							}
							if _, _, _, ok := c06ioCall(x, "Read"); ok {
								nReads++
							}
							if ci, recv, _, ok := c06ioCall(x, "Write"); ok {
								h.writes = append(h.writes, ci)
								if k := c06paramIndex(g, recv); k >= 0 && k < len(call.Call.Args) {
									if kk := c06paramIndex(fn, call.Call.Args[k]); kk >= 0 {
										l.dstIdx = kk
									}
								}
							}
						})
						if len(h.cbCalls) == 0 || len(h.writes) == 0 || nReads > 0 {
							continue
						}
						l.helpers = append(l.helpers, h)
						l.hcalls[call] = true
						adopted[g] = true
					}
				})
				if len(l.helpers) > 0 {
					out = append(out, l)
				}
				continue
			}
			if len(l.reads) == 0 || len(l.writes) == 0 {
				partial = append(partial, l)
				continue
			}
			out = append(out, l)
		}
	}
	for _, l := range partial {
		if adopted[l.fn] {
			continue // a chunk helper of a loop: decided together with that loop
		}
		c.Undecided("C06.R1:"+fnName(l.fn)+":shape", "C06.R1 the logging copy loop reads, asks the callback and writes in one function (or in the loop plus one chunk helper)", c.P.Pos(l.fn.Pos()),
			"a function invokes a func(uint) bool callback parameter but does not contain both the Read and the Write, and is not a chunk helper called by a reading loop: the copy loop is split in a way this check does not follow")
	}
	return out
}

type c06readInfo struct {
	call ssa.CallInstruction
	n    ssa.Value
	buf  ssa.Value
}

func c06checkLoop(c *Check, l *c06loop) {
	p := c.P
	fn := l.fn
	name := fnName(fn)
	c.Saw(name)
	const r1 = "C06.R1 in the logging copy loop every Write is reachable from the Read that produced its bytes only across the true-edge of the log callback invoked with that Read's count; a path that left the callback without its true-edge neither writes nor continues the loop"
	const r2 = "C06.R2 the Write operand is buf[0:nr] of the Read on the same buf in that iteration; the buffer is not stored into between Read and Write; a chunk with nr>0 is vetoed or written before the next Read / return; a chunk is written at most once"
	const r3 = "C06.R3 a chunk is reported to the log callback at most once per Read"

	// (a call of a chunk helper both asks the callback and writes)
	isCb := func(in ssa.Instruction) bool {
		if l.hcalls[in] {
			return true
		}
		call, ok := in.(*ssa.Call)
		return ok && !call.Call.IsInvoke() && resolve(call.Call.Value) == ssa.Value(l.cb)
	}
	isRead := func(in ssa.Instruction) bool { _, _, _, ok := c06ioCall(in, "Read"); return ok }
	isWrite := func(in ssa.Instruction) bool {
		if l.hcalls[in] {
			return true
		}
		_, _, _, ok := c06ioCall(in, "Write")
		return ok
	}
	// approve(n, only): true-edge of a callback call (only != nil: of that call) whose argument is n (n == nil: any)
	approve := func(n ssa.Value, only *ssa.Call) EdgePred {
		return func(cond ssa.Value, pol bool) bool {
			v, q := c06norm(cond, pol)
			if !q {
				return false
			}
			call, ok := resolve(v).(*ssa.Call)
			if !ok || !isCb(call) {
				return false
			}
			if only != nil && call != only {
				return false
			}
			if n != nil && (len(call.Call.Args) != 1 || c06conv(call.Call.Args[0]) != n) {
				return false
			}
			return true
		}
	}
	ord := func(m map[string]int, k string) string {
		m[k]++
		if m[k] > 1 {
			return fmt.Sprintf("%s#%d", k, m[k])
		}
		return k
	}
	seq := map[string]int{}

	type readInfo = c06readInfo
	var reads []readInfo
	for _, r := range l.reads {
		_, _, buf, _ := c06ioCall(r, "Read")
		var n ssa.Value
		if v := r.Value(); v != nil {
			n = extractOf(v, 0)
		}
		reads = append(reads, readInfo{r, n, buf})
	}

	// ---- per Write: data identity (R2) and approval (R1)
	for _, w := range l.writes {
		_, _, wbuf, _ := c06ioCall(w, "Write")
		kw := ord(seq, "Write")
		var match *readInfo
		detail := "the Write operand is not a slice expression"
		if sl, ok := resolve(wbuf).(*ssa.Slice); ok {
			detail = "the Write operand is not buf[0:nr] with nr the count returned by the Read into the same buf"
			if (sl.Low == nil || isConstInt(sl.Low, 0)) && sl.Max == nil && sl.High != nil {
				for i := range reads {
					ri := &reads[i]
					if ri.n != nil && resolve(sl.High) == ri.n && c06base(sl.X) == c06base(ri.buf) {
						match = ri
					}
				}
			}
		}
		c.Req(match != nil, "C06.R2:"+name+":"+kw+":data", r2, p.InstrPos(w), detail+" (bytes other than the ones just read are forwarded, or not all of them)")
		cands := reads
		if match != nil {
			cands = []readInfo{*match}
		}
		bad := ""
		for _, ri := range cands {
			if ri.n == nil {
				bad = "the Read's count is discarded"
				continue
			}
			if c06has(reachFrom(fn, ri.call, nil, approve(ri.n, nil)), func(in ssa.Instruction) bool { return in == ssa.Instruction(w) }) != nil {
				bad = "a path leads from the Read at " + p.InstrPos(ri.call) + " to this Write without crossing the true-edge of log(<that Read's count>)"
			}
		}
		c.Req(bad == "", "C06.R1:"+name+":"+kw+":approved", r1, p.InstrPos(w), bad+" (a chunk is forwarded before / without the logger's approval)")
		// at most once
		again := c06has(reachFrom(fn, w, isRead, nil), isWrite)
		c.Req(again == nil, "C06.R2:"+name+":"+kw+":once", r2, p.InstrPos(w), "after this Write another Write is reachable before the next Read (a chunk may be forwarded twice)")
	}

	// ---- per callback call: veto path (R1), at most once (R3), forwarded after approval (R2)
	for _, cb := range l.cbCalls {
		kc := ord(seq, "log")
		refused := reachFrom(fn, cb, nil, approve(nil, cb))
		bad := ""
		if in := c06has(refused, isWrite); in != nil {
			bad = "a Write at " + p.InstrPos(in) + " is reachable from the log callback without crossing its true-edge (a vetoed or unjudged chunk is forwarded)"
		} else if in := c06has(refused, isRead); in != nil {
			bad = "the loop reads again at " + p.InstrPos(in) + " after the log callback refused (the veto does not end this direction)"
		}
		c.Req(bad == "", "C06.R1:"+name+":"+kc+":veto-forwards-nothing", r1, p.InstrPos(cb), bad)
		again := c06has(reachFrom(fn, cb, isRead, nil), isCb)
		c.Req(again == nil, "C06.R3:"+name+":"+kc+":once", r3, p.InstrPos(cb), "after this report another log callback call is reachable before the next Read (a chunk may be counted twice)")
		// the argument is some Read's count
		argOK := false
		if len(cb.Call.Args) == 1 {
			for _, ri := range reads {
				if ri.n != nil && c06conv(cb.Call.Args[0]) == ri.n {
					argOK = true
				}
			}
		}
		c.Req(argOK, "C06.R3:"+name+":"+kc+":amount", r3, p.InstrPos(cb), "the amount reported to the log callback is not the byte count returned by the Read")
		// approved chunk is written before the next Read / return
		lost := ""
		for _, tb := range c06edgeTargets(fn, approve(nil, cb)) {
			reached := c06walk(tb, isWrite, nil)
			if in := c06has(reached, func(in ssa.Instruction) bool { return c06isReturn(in) || isRead(in) }); in != nil {
				lost = p.InstrPos(in)
			}
		}
		c.Req(lost == "", "C06.R2:"+name+":"+kc+":approved-is-written", r2, p.InstrPos(cb), "after the log callback approved a chunk a path reaches "+lost+" (next Read / return) without writing it")
	}

	// ---- split shape: the chunk helper(s)
	for _, h := range l.helpers {
		c06checkHelper(c, l, h, reads, isRead, isWrite, func(k string) string { return ord(seq, k) })
	}

	// ---- per Read: nothing dropped (R2), buffer untouched (R2)
	for _, ri := range reads {
		kr := ord(seq, "Read")
		if ri.n == nil {
			c.Bad("C06.R2:"+name+":"+kr+":no-drop", r2, p.InstrPos(ri.call), "the byte count of the Read is discarded")
			continue
		}
		n := ri.n
		leq0 := func(cond ssa.Value, pol bool) bool {
			return c06leq0Edge(cond, pol, func(v ssa.Value) bool { return resolve(v) == n })
		}
		reached := reachFrom(fn, ri.call, func(in ssa.Instruction) bool { return isCb(in) || isWrite(in) }, leq0)
		in := c06has(reached, func(in ssa.Instruction) bool { return c06isReturn(in) || isRead(in) })
		where := ""
		if in != nil {
			where = p.InstrPos(in)
		}
		c.Req(in == nil, "C06.R2:"+name+":"+kr+":no-drop", r2, p.InstrPos(ri.call),
			"a path leads from the Read to "+where+" (return / next Read) without the nr<=0 edge and without handing the chunk to the log callback: bytes read together with an error (the tail before EOF) are dropped")

		// buffer untouched between this Read and the Write
		derived := map[ssa.Value]bool{}
		var work []ssa.Value
		add := func(v ssa.Value) {
			if v != nil && !derived[v] {
				derived[v] = true
				work = append(work, v)
			}
		}
		add(c06base(ri.buf))
		add(resolve(ri.buf))
		between := map[ssa.Instruction]bool{}
		for _, x := range reachFrom(fn, ri.call, isWrite, nil) {
			between[x] = true
		}
		bad, und := "", ""
		for len(work) > 0 {
			v := work[len(work)-1]
			work = work[:len(work)-1]
			refs := v.Referrers()
			if refs == nil {
				continue
			}
			for _, u := range *refs {
				switch x := u.(type) {
				case *ssa.Slice:
					if x.X == v {
						add(x)
					}
				case *ssa.Phi:
					add(x)
				case *ssa.IndexAddr:
					for _, uu := range *x.Referrers() {
						if st, ok := uu.(*ssa.Store); ok && st.Addr == ssa.Value(x) {
							if between[st] {
								bad = "a store into the copy buffer at " + p.InstrPos(st) + " lies between the Read and the Write"
							}
						} else if _, isLoad := uu.(*ssa.UnOp); !isLoad {
							if _, isDbg := uu.(*ssa.DebugRef); !isDbg && between[uu] {
								und = "an element address of the copy buffer is used at " + p.InstrPos(uu)
							}
						}
					}
				case ssa.CallInstruction:
					if isRead(x) || isWrite(x) || isBuiltinCall(x, "len") || isBuiltinCall(x, "cap") {
						continue
					}
					if isBuiltinCall(x, "copy") {
						if derived[resolve(x.Common().Args[0])] || x.Common().Args[0] == v {
							if between[x] {
								bad = "copy() into the copy buffer at " + p.InstrPos(x) + " lies between the Read and the Write"
							}
						}
						continue
					}
					if between[x] {
						und = "the copy buffer is passed to a call at " + p.InstrPos(x) + " between the Read and the Write"
					}
				case *ssa.Store:
					if x.Val == v && between[x] {
						und = "the copy buffer is stored at " + p.InstrPos(x) + " between the Read and the Write"
					}
				case *ssa.DebugRef, *ssa.UnOp, *ssa.BinOp:
				case *ssa.MakeInterface, *ssa.ChangeType, *ssa.Convert:
					if in, ok := u.(ssa.Instruction); ok && between[in] {
						und = "the copy buffer is converted at " + p.InstrPos(in) + " between the Read and the Write"
					}
				}
			}
		}
		// the buffer is not handed away (returned to a pool, stored) while the loop still uses it
		{
			base := c06base(ri.buf)
			owners := map[ssa.Value]bool{}
			if u, ok := base.(*ssa.UnOp); ok && u.Op == token.MUL {
				owners[resolve(u.X)] = true
			}
			usesBuf := func(in ssa.Instruction) bool {
				if l.hcalls[in] {
					return true
				}
				if _, _, b, ok := c06ioCall(in, "Read"); ok && c06base(b) == base {
					return true
				}
				if _, _, b, ok := c06ioCall(in, "Write"); ok && c06base(b) == base {
					return true
				}
				return false
			}
			early := ""
			allInstrs(fn, func(in ssa.Instruction) {
				call, ok := in.(*ssa.Call)
				if !ok || usesBuf(in) {
					return
				}
				if _, isBuiltin := call.Call.Value.(*ssa.Builtin); isBuiltin {
					return
				}
				for _, a := range call.Call.Args {
					if owners[resolve(a)] && c06has(reachFrom(fn, in, nil, nil), usesBuf) != nil {
						early = p.InstrPos(in)
					}
				}
			})
			c.Req(early == "", "C06.R2:"+name+":"+kr+":buffer-owned", r2, p.InstrPos(ri.call), "the copy buffer (or the pointer it was taken from) is passed to a call at "+early+" after which the loop still reads into / writes from it: another relay may receive the same pooled buffer and the forwarded bytes are altered")
		}
		key := "C06.R2:" + name + ":" + kr + ":buffer-untouched"
		switch {
		case bad != "":
			c.Bad(key, r2, p.InstrPos(ri.call), bad+" (the forwarded bytes are altered)")
		case und != "":
			c.Undecided(key, r2, p.InstrPos(ri.call), und+"; whether it is modified there is not analysed")
		default:
			c.OK(key, r2, p.InstrPos(ri.call))
		}
	}
	nW, nC := len(l.writes), len(l.cbCalls)
	for _, h := range l.helpers {
		nW += len(h.writes)
		nC += len(h.cbCalls)
	}
	c.Floor("C06.R1:"+name+":writes", nW, 1)
	c.Floor("C06.R1:"+name+":callback-calls", nC, 1)
	c.Floor("C06.R2:"+name+":reads", len(l.reads), 1)
}

// ---------------------------------------------------------------------------
// handler anchors and endpoint roles

type c06env struct {
	c       *Check
	p       *Prog
	srvFns  []*ssa.Function
	sites   map[*ssa.Function][]ssa.CallInstruction // static call/go/defer sites per callee
	H       *ssa.Function
	dial    *ssa.Call
	client  *ssa.Parameter
	remote  ssa.Value
	dialErr ssa.Value
	loops   map[*ssa.Function]*c06loop
	authID  *types.Var
}

// role: "client" | "remote" | "".
func (e *c06env) role(v ssa.Value, depth int) string {
	if v == nil || depth > 5 {
		return ""
	}
	v = c06unwrap(v)
	if v == ssa.Value(e.client) {
		return "client"
	}
	if e.remote != nil && v == e.remote {
		return "remote"
	}
	switch x := v.(type) {
	case *ssa.Phi:
		r := ""
		for i, ed := range x.Edges {
			q := e.role(ed, depth+1)
			if i > 0 && q != r {
				return ""
			}
			r = q
		}
		return r
	case *ssa.Parameter:
		fn := x.Parent()
		idx := -1
		for i, p := range fn.Params {
			if p == x {
				idx = i
			}
		}
		ss := e.sites[fn]
		if idx < 0 || len(ss) == 0 {
			return ""
		}
		r := ""
		for i, s := range ss {
			args := s.Common().Args
			if idx >= len(args) {
				return ""
			}
			q := e.role(args[idx], depth+1)
			if i > 0 && q != r {
				return ""
			}
			r = q
		}
		return r
	}
	return ""
}

// idOK: v is the authenticated id of this connection (a load of the handler's
// identity field), possibly passed down through parameters.
func (e *c06env) idOK(v ssa.Value, depth int) bool {
	if depth > 5 {
		return false
	}
	v = c06res(v)
	if e.authID != nil && isLoadOfField(v, e.authID) {
		ap := accessPath(v)
		_, isParam := ap.Root.(*ssa.Parameter)
		return isParam && len(ap.Fields) == 1
	}
	if x, ok := v.(*ssa.Parameter); ok {
		fn := x.Parent()
		idx := -1
		for i, p := range fn.Params {
			if p == x {
				idx = i
			}
		}
		ss := e.sites[fn]
		if idx < 0 || len(ss) == 0 {
			return false
		}
		for _, s := range ss {
			args := s.Common().Args
			if idx >= len(args) || !e.idOK(args[idx], depth+1) {
				return false
			}
		}
		return true
	}
	return false
}

type c06site struct {
	call   ssa.CallInstruction
	loop   *c06loop
	dst    ssa.Value
	src    ssa.Value
	cb     ssa.Value
	rd, rs string
}

// expand resolves the endpoint roles of a copy site.  When the operands are
// parameters of a helper (closure) that is started once per direction, the
// site is instantiated per call site of the helper (context sensitivity of
// depth <= 3), so that `pipe := func(dst, src) {...}; go pipe(a, b); go pipe(b, a)`
// yields two directions.
func (e *c06env) expand(s *c06site, depth int) []*c06site {
	s.rd, s.rs = e.role(s.dst, 0), e.role(s.src, 0)
	if (s.rd != "" && s.rs != "") || depth >= 3 {
		return []*c06site{s}
	}
	F := s.call.Parent()
	if depth > 0 {
		// operands were substituted: they live in the caller of the helper
		F = nil
		for _, v := range []ssa.Value{s.dst, s.src} {
			if prm, ok := c06unwrap(v).(*ssa.Parameter); ok {
				F = prm.Parent()
			}
		}
	}
	if F == nil || len(e.sites[F]) < 2 {
		return []*c06site{s}
	}
	sub := func(v ssa.Value, cs ssa.CallInstruction) ssa.Value {
		if v == nil {
			return nil
		}
		if prm, ok := c06unwrap(v).(*ssa.Parameter); ok && prm.Parent() == F {
			for i, q := range F.Params {
				if q == prm && i < len(cs.Common().Args) {
					return cs.Common().Args[i]
				}
			}
		}
		return v
	}
	isParam := func(v ssa.Value) bool {
		prm, ok := c06unwrap(v).(*ssa.Parameter)
		return ok && prm.Parent() == F
	}
	if !isParam(s.dst) && !isParam(s.src) {
		return []*c06site{s}
	}
	var out []*c06site
	for _, cs := range e.sites[F] {
		ns := &c06site{call: s.call, loop: s.loop, dst: sub(s.dst, cs), src: sub(s.src, cs), cb: sub(s.cb, cs)}
		out = append(out, e.expand(ns, depth+1)...)
	}
	return out
}

// mult: how many times fn's body is started within root (number of static
// call / go sites, multiplied along the chain); -1 when it cannot be counted.
func (e *c06env) mult(fn, root *ssa.Function, depth int) int {
	if fn == root {
		return 1
	}
	if depth > 4 || len(e.sites[fn]) == 0 {
		return -1
	}
	n := 0
	for _, cs := range e.sites[fn] {
		if c06inLoop(cs) {
			return -1
		}
		m := e.mult(cs.Parent(), root, depth+1)
		if m < 0 {
			return -1
		}
		n += m
	}
	return n
}

func (s *c06site) outcome() ssa.Value {
	v := s.call.Value()
	if v == nil {
		return nil
	}
	if s.loop != nil {
		return v
	}
	return extractOf(v, 1)
}

func checkC06(c *Check) {
	c06Extra(c)
	c06GracefulClose(c)
	p := c.P
	var srvFns []*ssa.Function
	for _, fn := range p.RepoFns {
		if pk := fnPkg(fn); pk != nil && pk.Pkg.Path() == pServer {
			srvFns = append(srvFns, fn)
		}
	}
	// ---- the logging copy loop
	loops := c06findLoops(c, srvFns)
	if len(loops) == 0 {
		c.Unres("core/server: the logging copy loop (function calling Read, Write and a func(uint) bool parameter)")
	}
	e := &c06env{c: c, p: p, srvFns: srvFns, sites: map[*ssa.Function][]ssa.CallInstruction{}, loops: map[*ssa.Function]*c06loop{}}
	for _, l := range loops {
		c06checkLoop(c, l)
		e.loops[l.fn] = l
	}
	for _, fn := range srvFns {
		allInstrs(fn, func(in ssa.Instruction) {
			if ci, ok := in.(ssa.CallInstruction); ok {
				if f := staticCallee(ci); f != nil {
					e.sites[f] = append(e.sites[f], ci)
				}
			}
		})
	}

	// ---- the TCP request handler, by role: the function invoking Outbound.TCP
	outT := p.Named(pServer, "Outbound")
	hookT := p.Named(pServer, "RequestHook")
	tlT := p.Named(pServer, "TrafficLogger")
	if outT == nil || hookT == nil || tlT == nil {
		c.Unres("core/server interfaces Outbound / RequestHook / TrafficLogger")
		return
	}
	for _, fn := range srvFns {
		allInstrs(fn, func(in ssa.Instruction) {
			call, ok := in.(*ssa.Call)
			if ok && invokeIs(call, "TCP") && types.Identical(call.Call.Value.Type(), outT) {
				if e.dial != nil && e.dial != call {
					c.Undecided("C06:handler:several-dials", "C06 one TCP dial site", p.InstrPos(call), "more than one Outbound.TCP call site in core/server")
				}
				e.dial = call
				e.H = fn
			}
		})
	}
	if e.dial == nil {
		c.Unres("core/server: the function invoking Outbound.TCP (TCP request handler)")
		return
	}
	H := e.H
	hname := fnName(H)
	c.Saw(hname)
	e.remote = extractOf(e.dial, 0)
	e.dialErr = extractOf(e.dial, 1)
	if e.remote == nil || e.dialErr == nil {
		c.Bad("C06.R6:"+hname+":dial-results", "C06.R6 the dial's connection and error are both used", p.InstrPos(e.dial), "the connection or the error returned by Outbound.TCP is discarded")
		return
	}
	allInstrs(H, func(in ssa.Instruction) {
		call, ok := in.(*ssa.Call)
		if ok && calleeIs(call, pProtocol, "ReadTCPRequest") && len(call.Call.Args) == 1 {
			if prm, ok := c06unwrap(call.Call.Args[0]).(*ssa.Parameter); ok {
				e.client = prm
			}
		}
	})
	if e.client == nil {
		c.Unres("the client stream: parameter of " + hname + " handed to protocol.ReadTCPRequest")
		return
	}
	if a := c.serverAnchors(); a.ok && a.authID != nil {
		allInstrs(a.serveHTTP, func(in ssa.Instruction) {
			if st, ok := in.(*ssa.Store); ok && resolve(st.Val) == a.authID {
				if fa, ok := st.Addr.(*ssa.FieldAddr); ok {
					e.authID = structField(fa.X.Type(), fa.Field)
				}
			}
			// the id handed to a helper that stores its parameter into a field of the handler
			if call, ok := in.(*ssa.Call); ok {
				if g := staticCallee(call); g != nil && p.IsRepoFn(g) {
					for i, arg := range call.Call.Args {
						if resolve(arg) != a.authID || i >= len(g.Params) {
							continue
						}
						allInstrs(g, func(x ssa.Instruction) {
							if st, ok := x.(*ssa.Store); ok && resolve(st.Val) == ssa.Value(g.Params[i]) {
								if fa, ok := st.Addr.(*ssa.FieldAddr); ok && namedOf(fa.X.Type()) == a.H {
									e.authID = structField(fa.X.Type(), fa.Field)
								}
							}
						})
					}
				}
			}
		})
	}
	if e.authID == nil {
		c.Unres("the handler field holding the authenticator's id")
	}

	isClient := func(v ssa.Value) bool { return c06unwrap(v) == ssa.Value(e.client) }
	isRemote := func(v ssa.Value) bool { return c06unwrap(v) == e.remote }
	dialOK := func(cond ssa.Value, pol bool) bool {
		x, isNil, ok := nilTest(cond, pol)
		return ok && isNil && resolve(x) == e.dialErr
	}
	dialFail := func(cond ssa.Value, pol bool) bool {
		x, isNil, ok := nilTest(cond, pol)
		return ok && !isNil && resolve(x) == e.dialErr
	}
	// hook anchors
	// (the hook may be consulted in the handler itself or in a helper it calls)
	hookChecks := map[ssa.Value]bool{}
	var hookTCPs []*ssa.Call
	hookFns := c06helpersOf(p, H)
	for _, f := range hookFns {
		allInstrs(f, func(in ssa.Instruction) {
			call, ok := in.(*ssa.Call)
			if !ok || !call.Call.IsInvoke() || !types.Identical(call.Call.Value.Type(), hookT) {
				return
			}
			switch call.Call.Method.Name() {
			case "Check":
				hookChecks[call] = true
				c.Saw(fnName(f))
			case "TCP":
				hookTCPs = append(hookTCPs, call)
				c.Saw(fnName(f))
			}
		})
	}
	// hookedVal: v == true implies that RequestHook.Check was called and returned
	// true.  v may be the Check call, a φ of it with false, or the result of a
	// helper whose every return hands back such a value (a literal `true` being
	// accepted on a return that lies behind the helper's own hooked edge).
	var hookedVal func(v ssa.Value, depth int) bool
	hookedAt := func(depth int) EdgePred {
		return func(cond ssa.Value, pol bool) bool {
			if len(hookChecks) == 0 {
				return false
			}
			v, q := c06norm(cond, pol)
			if !q {
				return false
			}
			return hookedVal(v, depth)
		}
	}
	hookedVal = func(v ssa.Value, depth int) bool {
		has := false
		for _, o := range c06originsX(p, v) {
			switch {
			case hookChecks[o.v]:
				has = true
			case isConstBool(o.v, false):
			case isConstBool(o.v, true) && o.ret != nil && depth < 2 && guardedBy(o.ret, hookedAt(depth+1)):
				has = true
			default:
				return false
			}
		}
		return has
	}
	hookedTrue := hookedAt(0)

	// ---- copy sites with endpoint roles
	var sites []*c06site
	var untraced []string
	for _, fn := range srvFns {
		allInstrs(fn, func(in ssa.Instruction) {
			ci, ok := in.(ssa.CallInstruction)
			if !ok {
				return
			}
			callee := staticCallee(ci)
			if callee == nil {
				return
			}
			args := ci.Common().Args
			var s *c06site
			if l := e.loops[callee]; l != nil {
				if l.dstIdx < 0 || l.srcIdx < 0 || l.dstIdx >= len(args) || l.srcIdx >= len(args) {
					c.Undecided("C06.R3:"+fnName(fn)+":copy-site", "C06.R3 direction of accounting", p.InstrPos(in), "the copy loop's reader/writer are not its parameters; endpoint roles cannot be traced")
					return
				}
				s = &c06site{call: ci, loop: l, dst: args[l.dstIdx], src: args[l.srcIdx], cb: args[l.cbIdx]}
			} else if (calleeIs(ci, "io", "Copy") || calleeIs(ci, "io", "CopyBuffer")) && len(args) >= 2 {
				s = &c06site{call: ci, dst: args[0], src: args[1]}
			} else {
				return
			}
			for _, x := range e.expand(s, 0) {
				if x.rd == "" && x.rs == "" && x.loop == nil {
					untraced = append(untraced, p.InstrPos(in)) // an io.Copy unrelated to the relay, or a relay shape this check cannot follow
					continue
				}
				sites = append(sites, x)
			}
		})
	}
	const r3 = "C06.R3 the copy whose source is the outbound connection reports LogTraffic(id,0,n), the copy whose source is the client stream LogTraffic(id,n,0), with n the callback's parameter and id this connection's authenticated id; each relay copies client->remote and remote->client exactly once"
	byRoot := map[*ssa.Function][]*c06site{}
	var roots []*ssa.Function
	nLogSites := 0
	for _, s := range sites {
		fn := s.call.Parent()
		root := c06root(fn)
		if byRoot[root] == nil {
			roots = append(roots, root)
		}
		byRoot[root] = append(byRoot[root], s)
		c.Saw(fnName(fn))
		if s.rd == "" || s.rs == "" {
			c.Undecided("C06.R3:"+fnName(root)+":roles", r3, p.InstrPos(s.call), "cannot trace both operands of a relay copy to the client stream / the outbound connection")
			continue
		}
		if s.loop == nil {
			continue
		}
		nLogSites++
		dir := s.rs + "→" + s.rd
		base := "C06.R3:" + fnName(root) + ":" + dir
		if s.rd == s.rs {
			continue // reported by the directions obligation
		}
		var cbFn *ssa.Function
		switch x := c06res(s.cb).(type) {
		case *ssa.MakeClosure:
			cbFn, _ = x.Fn.(*ssa.Function)
		case *ssa.Function:
			cbFn = x
		}
		if cbFn == nil || len(cbFn.Params) == 0 {
			c.Undecided(base+":accounting", r3, p.InstrPos(s.call), "the log callback is not a function literal / named function")
			continue
		}
		c.Saw(fnName(cbFn))
		n := ssa.Value(cbFn.Params[len(cbFn.Params)-1])
		var reps []ssa.CallInstruction
		allInstrs(cbFn, func(in ssa.Instruction) {
			if ci, ok := in.(ssa.CallInstruction); ok && invokeIs(ci, "LogTraffic") && types.Identical(ci.Common().Value.Type(), tlT) {
				reps = append(reps, ci)
			}
		})
		if len(reps) == 0 {
			delegates := false
			allInstrs(cbFn, func(in ssa.Instruction) {
				if ci, ok := in.(ssa.CallInstruction); ok {
					if f := staticCallee(ci); f == nil || (p.IsRepoFn(f) && len(f.Blocks) > 0) {
						if _, isBuiltin := ci.Common().Value.(*ssa.Builtin); !isBuiltin && !ci.Common().IsInvoke() {
							delegates = true
						}
					}
				}
			})
			if delegates {
				c.Undecided(base+":accounting", r3, p.Pos(cbFn.Pos()), "the log callback of the "+dir+" copy does not call LogTraffic itself but delegates to other functions, which this check does not follow")
			} else {
				c.Bad(base+":accounting", r3, p.Pos(cbFn.Pos()), "the log callback of the "+dir+" copy never calls TrafficLogger.LogTraffic")
			}
			continue
		}
		okDir, okID := true, true
		var at ssa.Instruction
		for _, rep := range reps {
			a := rep.Common().Args
			if len(a) != 3 {
				okDir = false
				continue
			}
			tx, rx := a[1], a[2]
			var good bool
			if s.rs == "remote" {
				good = isConstInt(tx, 0) && c06conv(rx) == n
			} else {
				good = c06conv(tx) == n && isConstInt(rx, 0)
			}
			if !good {
				okDir = false
				at = rep
			}
			if !e.idOK(a[0], 0) {
				okID = false
				at = rep
			}
		}
		pos := p.Pos(cbFn.Pos())
		if at != nil {
			pos = p.InstrPos(at)
		}
		want := "LogTraffic(id, n, 0) (tx: server to remote)"
		if s.rs == "remote" {
			want = "LogTraffic(id, 0, n) (rx: remote to server)"
		}
		c.Req(okDir, base+":accounting", r3, pos, "the callback of the copy reading from the "+s.rs+" side must report "+want+" with n its own parameter; it reports the bytes on the other side or another amount")
		c.Req(okID, base+":id", r3, pos, "the id handed to LogTraffic is not the authenticated id of this connection")
	}
	c.Floor("C06.R3:logging-copy-sites", nLogSites, 2)
	sort.Slice(roots, func(i, j int) bool { return fnName(roots[i]) < fnName(roots[j]) })
	for _, root := range roots {
		var dirs []string
		und := false
		for _, s := range byRoot[root] {
			if s.rd == "" || s.rs == "" {
				und = true
			}
			dirs = append(dirs, s.rs+"→"+s.rd)
		}
		if und {
			continue
		}
		sort.Strings(dirs)
		got := strings.Join(dirs, ", ")
		c.Req(got == "client→remote, remote→client", "C06.R3:"+fnName(root)+":both-directions", r3, p.Pos(root.Pos()), "the relay must copy client→remote and remote→client exactly once each; it copies: "+got)
	}
	if len(roots) < 2 && len(untraced) > 0 {
		c.Undecided("C06.R3:relays:untraced", r3, untraced[0], "a copy in core/server whose operands cannot be traced to the client stream / the outbound connection (relay shape not understood): "+strings.Join(untraced, ", "))
	} else {
		c.Floor("C06.R3:relays", len(roots), 2)
	}

	// ---- R8 first finished direction ends the relay
	const r8 = "C06.R8 every direction sends its copy's outcome on a channel whose capacity plus the receives performed on every path covers the number of senders (no direction blocks forever); the relay returns the first received outcome"
	nR8 := 0
	for _, root := range roots {
		rname := fnName(root)
		siteOf := map[*ssa.Function][]*c06site{}
		for _, s := range byRoot[root] {
			siteOf[s.call.Parent()] = append(siteOf[s.call.Parent()], s)
		}
		type chanInfo struct {
			mc    *ssa.MakeChan
			sends []*ssa.Send
		}
		chans := map[*ssa.MakeChan]*chanInfo{}
		var order []*ssa.MakeChan
		und := ""
		// K: the function that collects the directions (creates the channel,
		// starts the senders, receives).  Normally the relay itself; when the
		// relay has no send of its own it may hand its directions as function
		// values to one helper (`return firstResult(func() error {copy…}, …)`),
		// which is then analysed in the relay's place; kc is that call.
		K := root
		var kc *ssa.Call
		if !c06hasSend(root) {
			var cands []ssa.CallInstruction
			for _, fn := range withAnon(root) {
				allInstrs(fn, func(in ssa.Instruction) {
					ci, ok := in.(ssa.CallInstruction)
					if !ok {
						return
					}
					g := staticCallee(ci)
					if g != nil && c06root(g) != root && p.IsRepoFn(g) && len(g.Blocks) > 0 && e.loops[g] == nil && c06hasSend(g) {
						cands = append(cands, ci)
					}
				})
			}
			if len(cands) == 1 && cands[0].Parent() == root {
				if call, ok := cands[0].(*ssa.Call); ok && !c06inLoop(call) {
					K, kc = staticCallee(call), call
					c.Saw(fnName(K))
				}
			}
		}
		// c06dirOf: the direction (closure of the relay) whose result the
		// collector's send s reports: s sends the result of calling one of K's
		// function parameters, bound at kc to a function literal of the relay.
		c06dirOf := func(s *ssa.Send) *ssa.Function {
			if kc == nil {
				return nil
			}
			call, ok := resolve(s.X).(*ssa.Call)
			if !ok || call.Call.IsInvoke() {
				return nil
			}
			idx := c06paramIndex(K, call.Call.Value)
			if idx < 0 || idx >= len(kc.Call.Args) {
				return nil
			}
			var g *ssa.Function
			switch x := c06res(kc.Call.Args[idx]).(type) {
			case *ssa.MakeClosure:
				g, _ = x.Fn.(*ssa.Function)
			case *ssa.Function:
				g = x
			}
			return g
		}
		for _, fn := range withAnon(K) {
			allInstrs(fn, func(in ssa.Instruction) {
				switch x := in.(type) {
				case *ssa.Send:
					mc, ok := c06res(x.Chan).(*ssa.MakeChan)
					if !ok || c06root(mc.Parent()) != K {
						und = "a send at " + p.InstrPos(x) + " goes to a channel that is not created in " + fnName(K)
						return
					}
					if chans[mc] == nil {
						chans[mc] = &chanInfo{mc: mc}
						order = append(order, mc)
					}
					chans[mc].sends = append(chans[mc].sends, x)
				case *ssa.Select:
					und = "select statement at " + p.InstrPos(x)
				}
			})
		}
		if len(order) == 0 {
			c.Undecided("C06.R8:"+rname+":shape", r8, p.Pos(root.Pos()), "the relay does not collect its directions through a channel created in the same function; this rule only understands that shape")
			continue
		}
		if und != "" {
			c.Undecided("C06.R8:"+rname+":shape", r8, p.Pos(root.Pos()), und)
			continue
		}
		nR8++
		for ci, mc := range order {
			info := chans[mc]
			suffix := ""
			if ci > 0 {
				suffix = fmt.Sprintf("#%d", ci+1)
			}
			size, isConst := int64(0), true
			if mc.Size != nil {
				size, isConst = constInt(mc.Size)
			}
			loopy := ""
			nSenders := 0
			for _, s := range info.sends {
				if c06inLoop(s) {
					loopy = p.InstrPos(s)
				}
				// how often the sending function is started (goroutines / calls)
				m := e.mult(s.Parent(), K, 0)
				if m < 0 {
					loopy = p.InstrPos(s) + " (its function is started in a loop or through a value)"
				} else {
					nSenders += m
				}
			}
			// receives in the root that every return is dominated by
			var rets []*ssa.Return
			allInstrs(K, func(in ssa.Instruction) {
				if r, ok := in.(*ssa.Return); ok && K.Recover != r.Block() {
					rets = append(rets, r)
				}
			})
			must := 0
			var recvs []*ssa.UnOp
			allInstrs(K, func(in ssa.Instruction) {
				u, ok := in.(*ssa.UnOp)
				if !ok || u.Op != token.ARROW || c06res(u.X) != ssa.Value(mc) {
					return
				}
				recvs = append(recvs, u)
				if c06inLoop(u) {
					return
				}
				all := len(rets) > 0
				for _, r := range rets {
					if !dominates(u, r) {
						all = false
					}
				}
				if all {
					must++
				}
			})
			key := "C06.R8:" + rname + ":capacity" + suffix
			switch {
			case !isConst:
				c.Undecided(key, r8, p.InstrPos(mc), "channel capacity is not a constant")
			case loopy != "":
				c.Undecided(key, r8, p.InstrPos(mc), "a sender runs in a loop at "+loopy)
			default:
				c.Req(size+int64(must) >= int64(nSenders), key, r8, p.InstrPos(mc),
					fmt.Sprintf("%d senders, capacity %d, %d receive(s) on every path: the direction that finishes last blocks forever on its send (goroutine and both connections' buffers leak per proxied connection)", nSenders, size, must))
			}
			// each send reports the outcome of a copy site of its function
			badSend := ""
			dirSent := map[*ssa.Function]bool{}
			for _, s := range info.sends {
				ok := false
				for _, cs := range siteOf[s.Parent()] {
					if o := cs.outcome(); o != nil && resolve(s.X) == o {
						ok = true
					}
				}
				if g := c06dirOf(s); !ok && g != nil && len(siteOf[g]) > 0 {
					// the collector sends what the direction's function literal
					// returns: every return of it must hand back its copy's outcome
					ok = true
					nr := 0
					allInstrs(g, func(in ssa.Instruction) {
						r, isRet := in.(*ssa.Return)
						if !isRet || g.Recover == r.Block() {
							return
						}
						nr++
						rs := retResults(r)
						good := false
						if len(rs) > 0 {
							for _, cs := range siteOf[g] {
								if o := cs.outcome(); o != nil && resolve(rs[len(rs)-1]) == o {
									good = true
								}
							}
						}
						if !good {
							ok = false
						}
					})
					if nr == 0 {
						ok = false
					}
					if ok {
						dirSent[g] = true
					}
				}
				if !ok {
					badSend = p.InstrPos(s)
				}
			}
			if kc != nil && badSend == "" {
				for g, ss := range siteOf {
					if g != root && !dirSent[g] && badSend == "" {
						badSend = p.InstrPos(ss[0].call) + " (the copy's function is not among those whose result " + fnName(K) + " sends)"
					}
				}
			}
			c.Req(badSend == "", "C06.R8:"+rname+":reports-outcome"+suffix, r8, p.InstrPos(mc), "the value sent at "+badSend+" is not the result of that direction's copy (an error / the disconnect sentinel of that direction is lost)")
			// the relay returns a received value
			if root.Signature.Results().Len() == 0 || K.Signature.Results().Len() == 0 {
				c.Undecided("C06.R8:"+rname+":returns-first"+suffix, r8, p.Pos(root.Pos()), "the relay has no result; how the outcome reaches the caller is not analysed")
			} else {
				badRet := ""
				if kc != nil {
					// the relay hands back what the collector returned
					allInstrs(root, func(in ssa.Instruction) {
						r, isRet := in.(*ssa.Return)
						if !isRet || root.Recover == r.Block() {
							return
						}
						rs := retResults(r)
						if len(rs) == 0 {
							badRet = p.InstrPos(r)
							return
						}
						last := resolve(rs[len(rs)-1])
						if ex, isEx := last.(*ssa.Extract); isEx && ex.Tuple == ssa.Value(kc) && ex.Index == K.Signature.Results().Len()-1 {
							return
						}
						if last != ssa.Value(kc) {
							badRet = p.InstrPos(r)
						}
					})
				}
				for _, r := range rets {
					rs := retResults(r)
					last := resolve(rs[len(rs)-1])
					u, ok := last.(*ssa.UnOp)
					if !ok || u.Op != token.ARROW || c06res(u.X) != ssa.Value(mc) || u.CommaOk {
						badRet = p.InstrPos(r)
					}
				}
				c.Req(badRet == "" && len(rets) > 0, "C06.R8:"+rname+":returns-first"+suffix, r8, p.Pos(root.Pos()), "the return at "+badRet+" does not hand back an outcome received from the directions' channel (the disconnect sentinel cannot reach the caller)")
			}
			_ = recvs
		}
	}
	if !(len(roots) < 2 && len(untraced) > 0) {
		c.Floor("C06.R8:relays", nR8, 2)
	}

	// ---- relay starts inside the handler
	relayFns := map[*ssa.Function]bool{}
	for _, s := range sites {
		if s.rd != "" || s.rs != "" {
			relayFns[s.call.Parent()] = true
		}
	}
	for changed := true; changed; {
		changed = false
		for f := range relayFns {
			if f == H {
				continue
			}
			// a function literal holding a relay copy makes the function that
			// creates it a relay function, however the literal gets started
			// (go statement, or handed to a helper as a value)
			if g := f.Parent(); g != nil && !relayFns[g] {
				relayFns[g] = true
				changed = true
			}
			for _, st := range e.sites[f] {
				if g := st.Parent(); !relayFns[g] {
					relayFns[g] = true
					changed = true
				}
			}
		}
	}
	isRelayStart := func(in ssa.Instruction) bool {
		ci, ok := in.(ssa.CallInstruction)
		if !ok || in.Parent() != H {
			return false
		}
		for _, s := range sites {
			if s.call == ci {
				return true
			}
		}
		f := staticCallee(ci)
		return f != nil && f != H && relayFns[f]
	}
	var starts []ssa.Instruction
	allInstrs(H, func(in ssa.Instruction) {
		if isRelayStart(in) {
			starts = append(starts, in)
		}
	})
	if len(starts) == 0 {
		c.Unres("relay call sites in " + hname)
		return
	}
	closesClient := func(in ssa.Instruction) bool { return c06closesVal(p, in, isClient, 0) }

	// ---- R3 (cont.) with a traffic logger configured the relay is the logging one
	{
		loggingFns := map[*ssa.Function]bool{}
		for _, s := range sites {
			if s.loop != nil {
				loggingFns[s.call.Parent()] = true
			}
		}
		for changed := true; changed; {
			changed = false
			for f := range loggingFns {
				if f == H {
					continue
				}
				if g := f.Parent(); g != nil && !loggingFns[g] {
					loggingFns[g] = true
					changed = true
				}
				for _, st := range e.sites[f] {
					if g := st.Parent(); !loggingFns[g] {
						loggingFns[g] = true
						changed = true
					}
				}
			}
		}
		noLogger := func(cond ssa.Value, pol bool) bool {
			x, isNil, ok := nilTest(cond, pol)
			return ok && isNil && types.Identical(x.Type(), tlT)
		}
		unlogged := func(cond ssa.Value, pol bool) bool { return noLogger(cond, pol) || hookedTrue(cond, pol) }
		nFast := 0
		for _, st := range starts {
			ci := st.(ssa.CallInstruction)
			logging := false
			for _, s := range sites {
				if s.call == ci && s.loop != nil {
					logging = true
				}
			}
			if f := staticCallee(ci); f != nil && f != H && loggingFns[f] {
				logging = true
			}
			if logging {
				continue
			}
			nFast++
			key := "C06.R3:" + hname + ":unlogged-relay-only-without-logger"
			if nFast > 1 {
				key = fmt.Sprintf("%s#%d", key, nFast)
			}
			c.Req(guardedBy(st, unlogged), key, r3, p.InstrPos(st), "the relay that reports nothing to the traffic logger is reachable for a non-hooked request although a TrafficLogger is configured (its bytes are never accounted)")
		}
	}

	// ---- R5 both ends closed
	const r5 = "C06.R5 the connection returned by Outbound.TCP reaches Close on every path; the client stream is closed on every exit of the request handler; the stream wrapper's Close performs CancelRead and a graceful Close"
	{
		leaks := leakPaths(e.dial, 0, 1)
		detail := ""
		for _, l := range leaks {
			detail += " " + p.InstrPos(l)
		}
		c.Req(len(leaks) == 0, "C06.R5:"+hname+":target-closed", r5, p.InstrPos(e.dial), "the target connection is neither closed nor handed over on the path(s) returning at:"+detail)
		exits := exitsReachableAvoiding(H, nil, closesClient)
		detail = ""
		for _, x := range exits {
			detail += " " + p.InstrPos(x)
		}
		c.Req(len(exits) == 0, "C06.R5:"+hname+":stream-closed", r5, p.Pos(H.Pos()), "the handler returns without closing the client stream at:"+detail)
		closeM := p.MethodOf(e.client.Type(), "Close")
		if closeM == nil || len(closeM.Blocks) == 0 || !p.IsRepoFn(closeM) {
			c.Unres("Close method of the client stream type " + e.client.Type().String())
		} else {
			c.Saw(fnName(closeM))
			wrapped := func(name string) func(ssa.Instruction) bool {
				return func(in ssa.Instruction) bool {
					ci, ok := in.(ssa.CallInstruction)
					if !ok {
						return false
					}
					if _, isGo := in.(*ssa.Go); isGo {
						return false
					}
					recv, ok := methodCallNamed(ci, name)
					if !ok {
						return false
					}
					ap := accessPath(recv)
					return ap.Root == ssa.Value(closeM.Params[0]) && len(ap.Fields) == 1
				}
			}
			cname := fnName(closeM)
			ex := exitsReachableAvoiding(closeM, nil, wrapped("Close"))
			c.Req(len(ex) == 0, "C06.R5:"+cname+":graceful-fin", r5, p.Pos(closeM.Pos()), "a path through the stream wrapper's Close does not call Close on the wrapped stream (no FIN: the peer never sees the end of the relayed data)")
			ex = exitsReachableAvoiding(closeM, nil, wrapped("CancelRead"))
			c.Req(len(ex) == 0, "C06.R5:"+cname+":cancels-read", r5, p.Pos(closeM.Pos()), "a path through the stream wrapper's Close does not CancelRead the wrapped stream (the receive side stays open until the peer finishes)")
			var cw ssa.Instruction
			allInstrs(closeM, func(in ssa.Instruction) {
				if wrapped("CancelWrite")(in) {
					cw = in
				}
			})
			c.Req(cw == nil, "C06.R5:"+cname+":no-abort", r5, p.InstrPos(cw), "the stream wrapper's Close aborts the send side (CancelWrite): bytes written but not yet delivered are discarded")
		}
	}

	// ---- R6 dial failure relays nothing
	const r6 = "C06.R6 on the dial-error edge nothing touches a target connection and a non-hooked request is answered WriteTCPResponse(stream,false,…) before the stream is closed; ok responses are sent only behind the dial-success or hook edge and before the relay; the client returns DialError{the message read} on the refused edge of both response paths"
	isResp := func(in ssa.Instruction, want bool) bool {
		call, ok := in.(*ssa.Call)
		if !ok || !calleeIs(call, pProtocol, "WriteTCPResponse") || len(call.Call.Args) != 3 {
			return false
		}
		return isClient(call.Call.Args[0]) && isConstBool(call.Call.Args[1], want)
	}
	{
		failTargets := c06edgeTargets(H, dialFail)
		if len(failTargets) == 0 {
			c.Bad("C06.R6:"+hname+":fail-response", r6, p.InstrPos(e.dial), "the error returned by Outbound.TCP is never tested: a failed dial proceeds to the relay")
		} else {
			bad := ""
			nResp := 0
			// a plain Close() call on the stream (a deferred one runs after the response)
			directClose := func(in ssa.Instruction) bool {
				call, ok := in.(*ssa.Call)
				if !ok {
					return false
				}
				recv, ok := methodCallNamed(call, "Close")
				return ok && isClient(recv)
			}
			// a helper / closure that is handed (or captures and closes) the stream:
			// whether it responds before closing is not followed
			delegated := func(in ssa.Instruction) bool {
				call, ok := in.(*ssa.Call)
				if !ok || directClose(in) || calleeIs(call, pProtocol, "WriteTCPResponse") {
					return false
				}
				if c06closesVal(p, in, isClient, 0) {
					return true
				}
				f := staticCallee(call)
				if f == nil || !p.IsRepoFn(f) || len(f.Blocks) == 0 {
					return false
				}
				for _, a := range call.Call.Args {
					if isClient(a) {
						return true
					}
				}
				return false
			}
			und := ""
			for _, tb := range failTargets {
				reached := c06walk(tb, func(in ssa.Instruction) bool { return isResp(in, false) || directClose(in) || delegated(in) }, hookedTrue)
				for _, in := range reached {
					switch {
					case isResp(in, false):
						nResp++
					case directClose(in):
						bad = "the stream is closed at " + p.InstrPos(in) + " before the failure response is written"
					case delegated(in):
						und = p.InstrPos(in)
					case c06isReturn(in):
						bad = "a non-hooked request returns at " + p.InstrPos(in) + " without WriteTCPResponse(stream, false, …)"
					}
				}
			}
			dyn := ""
			allInstrs(H, func(in ssa.Instruction) {
				if call, ok := in.(*ssa.Call); ok && calleeIs(call, pProtocol, "WriteTCPResponse") && len(call.Call.Args) == 3 && constOf(call.Call.Args[1]) == nil {
					dyn = p.InstrPos(in)
				}
			})
			if und != "" && bad == "" {
				c.Undecided("C06.R6:"+hname+":fail-response", r6, p.InstrPos(e.dial), "on the dial-error edge the stream is handed to a helper at "+und+" before a failure response is seen; helpers are not followed")
			} else if dyn != "" && (bad != "" || nResp == 0) {
				c.Undecided("C06.R6:"+hname+":fail-response", r6, p.InstrPos(e.dial), "the response at "+dyn+" is written with a computed ok flag; which verdict it carries on the dial-error edge is not analysed")
			} else {
				c.Req(bad == "" && nResp > 0, "C06.R6:"+hname+":fail-response", r6, p.InstrPos(e.dial), "on the dial-error edge "+bad+" (the client does not receive the dial error)")
			}
			// nothing touches a target connection, no relay
			touch := ""
			for _, tb := range failTargets {
				for _, in := range c06walk(tb, nil, nil) {
					if isRelayStart(in) {
						touch = "the relay is started at " + p.InstrPos(in)
					}
					if ci, ok := in.(ssa.CallInstruction); ok {
						cc := ci.Common()
						if cc.IsInvoke() && isRemote(cc.Value) {
							touch = "the (nil) target connection is used at " + p.InstrPos(in)
						}
					}
				}
			}
			c.Req(touch == "", "C06.R6:"+hname+":fail-relays-nothing", r6, p.InstrPos(e.dial), "on the dial-error edge "+touch)
		}
		// ok responses
		nOK := 0
		allInstrs(H, func(in ssa.Instruction) {
			if !isResp(in, true) {
				return
			}
			nOK++
			key := "C06.R6:" + hname + ":ok-response"
			if nOK > 1 {
				key = fmt.Sprintf("%s#%d", key, nOK)
			}
			good := guardedBy(in, dialOK) || guardedBy(in, hookedTrue)
			c.Req(good, key, r6, p.InstrPos(in), "an ok response is written on a path that crossed neither the dial-success edge nor the hook edge (the client is told 'connected' before / without a successful dial)")
		})
		// ok responses written by a helper of the handler (e.g. the extracted hook handling)
		for _, g := range hookFns {
			if g == H {
				continue
			}
			nG := 0
			allInstrs(g, func(in ssa.Instruction) {
				call, ok := in.(*ssa.Call)
				if !ok || !calleeIs(call, pProtocol, "WriteTCPResponse") || len(call.Call.Args) != 3 {
					return
				}
				if e.role(call.Call.Args[0], 0) != "client" || !isConstBool(call.Call.Args[1], true) {
					return
				}
				nG++
				nOK++
				c.Saw(fnName(g))
				key := "C06.R6:" + fnName(g) + ":ok-response"
				if nG > 1 {
					key = fmt.Sprintf("%s#%d", key, nG)
				}
				good := guardedBy(in, hookedTrue)
				if !good && len(e.sites[g]) > 0 {
					good = true
					for _, cs := range e.sites[g] {
						if cs.Parent() != H || !(guardedBy(cs, dialOK) || guardedBy(cs, hookedTrue)) {
							good = false
						}
					}
				}
				c.Req(good, key, r6, p.InstrPos(in), "an ok response is written by a helper of the handler on a path that crossed neither the hook edge nor (at its call sites) the dial-success edge (the client is told 'connected' before / without a successful dial)")
			})
		}
		c.Floor("C06.R6:"+hname+":ok-response", nOK, 1)
		early := ""
		for _, tb := range c06edgeTargets(H, dialOK) {
			reached := c06walk(tb, func(in ssa.Instruction) bool { return isResp(in, true) }, hookedTrue)
			if in := c06has(reached, isRelayStart); in != nil {
				early = p.InstrPos(in)
			}
		}
		c.Req(early == "", "C06.R6:"+hname+":ok-response-before-relay", r6, p.InstrPos(e.dial), "for a non-hooked request the relay starts at "+early+" without the ok response having been written (the client would parse relayed bytes as the response)")
	}
	// client side
	{
		nSites := 0
		for _, fn := range p.RepoFns {
			if pk := fnPkg(fn); pk == nil || pk.Pkg.Path() != pClient {
				continue
			}
			allInstrs(fn, func(in ssa.Instruction) {
				call, ok := in.(*ssa.Call)
				if !ok || !calleeIs(call, pProtocol, "ReadTCPResponse") {
					return
				}
				nSites++
				c.Saw(fnName(fn))
				key := "C06.R6:client:" + fnName(fn) + ":refused-is-DialError"
				okv, msg, errv := extractOf(call, 0), extractOf(call, 1), extractOf(call, 2)
				if okv == nil || msg == nil {
					c.Bad(key, r6, p.InstrPos(call), "the verdict or the message of the server's response is discarded")
					return
				}
				stop := func(cond ssa.Value, pol bool) bool {
					if v, q := c06norm(cond, pol); q && resolve(v) == okv {
						return true
					}
					if errv != nil {
						if x, isNil, ok := nilTest(cond, pol); ok && !isNil && resolve(x) == errv {
							return true
						}
					}
					return false
				}
				bad := ""
				nRet := 0
				for _, x := range reachFrom(fn, call, nil, stop) {
					r, ok := x.(*ssa.Return)
					if !ok {
						continue
					}
					nRet++
					rs := retResults(r)
					if len(rs) == 0 {
						bad = p.InstrPos(r)
						continue
					}
					last := rs[len(rs)-1]
					good := false
					if mi, ok := c06asMakeInterface(last); ok {
						if nn := namedOf(mi.X.Type()); nn != nil && nn.Obj().Name() == "DialError" && nn.Obj().Pkg() != nil && nn.Obj().Pkg().Path() == modCore+"/errors" {
							good = dependsOn(last, msg, depOpts{})
						}
					}
					if !good {
						bad = p.InstrPos(r)
					}
				}
				c.Req(bad == "" && nRet > 0, key, r6, p.InstrPos(call), "on the refused edge of the server's response the return at "+bad+" is not DialError{Message: <message read from the response>}")
			})
		}
		c.Floor("C06.R6:client:response-sites", nSites, 2)
	}

	// ---- R7 replay bytes precede the relay
	const r7 = "C06.R7 the bytes consumed by the request hook are written, whole and once, to the target behind the dial-success edge and before either relay starts; the handler writes nothing else to the target"
	if len(hookTCPs) == 0 {
		c.Unres("RequestHook.TCP call in " + hname + " or a helper it calls")
	} else {
		hookTCP := hookTCPs[0]
		hookBytesSet := map[ssa.Value]bool{}
		var hookBytes ssa.Value
		for _, ht := range hookTCPs {
			if hb := extractOf(ht, 0); hb != nil {
				hookBytesSet[hb] = true
				hookBytes = hb
			}
		}
		// the hook's bytes, possibly handed back to the handler by the helper that ran the hook
		isP := func(v ssa.Value) bool {
			if hookBytes == nil {
				return false
			}
			has := false
			for _, o := range c06originsX(p, v) {
				switch {
				case hookBytesSet[o.v]:
					has = true
				case isNilConst(o.v):
				default:
					return false
				}
			}
			return has
		}
		type replay struct {
			in   ssa.Instruction
			data ssa.Value
		}
		var replays []replay
		inject := ""
		partial := ""
		allInstrs(H, func(in ssa.Instruction) {
			if _, recv, buf, ok := c06ioCall(in, "Write"); ok && isRemote(recv) {
				if isP(buf) {
					replays = append(replays, replay{in, buf})
				} else {
					for hb := range hookBytesSet {
						if derivedFrom(buf, hb) {
							partial = p.InstrPos(in)
						}
					}
					inject = p.InstrPos(in)
				}
				return
			}
			// helper: f(remote, putback) that always writes putback to remote
			call, ok := in.(*ssa.Call)
			if !ok || isRelayStart(in) {
				return
			}
			g := staticCallee(call)
			if g == nil || len(g.Blocks) == 0 || !p.IsRepoFn(g) {
				return
			}
			ri, pi := -1, -1
			for i, a := range call.Call.Args {
				if isRemote(a) {
					ri = i
				}
				if isP(a) {
					pi = i
				}
			}
			if ri < 0 || pi < 0 || ri >= len(g.Params) || pi >= len(g.Params) {
				return
			}
			isW := func(x ssa.Instruction) bool {
				_, recv, buf, ok := c06ioCall(x, "Write")
				return ok && c06unwrap(recv) == ssa.Value(g.Params[ri]) && resolve(buf) == ssa.Value(g.Params[pi])
			}
			empty := func(cond ssa.Value, pol bool) bool {
				return c06leq0Edge(cond, pol, func(v ssa.Value) bool {
					lc, ok := resolve(v).(*ssa.Call)
					return ok && isBuiltinCall(lc, "len") && resolve(lc.Call.Args[0]) == ssa.Value(g.Params[pi])
				})
			}
			if c06has(c06walk(g.Blocks[0], isW, empty), c06isReturn) == nil {
				replays = append(replays, replay{in, call.Call.Args[pi]})
			}
		})
		if hookBytes == nil || len(replays) == 0 {
			what := "the bytes returned by RequestHook.TCP are never written to the target connection"
			if partial != "" {
				what = "only a part / a transformation of the bytes returned by RequestHook.TCP is written to the target at " + partial
			}
			c.Bad("C06.R7:"+hname+":replay-written", r7, p.InstrPos(hookTCP), what+" (the request bytes the hook consumed are lost)")
		} else {
			c.OK("C06.R7:"+hname+":replay-written", r7, p.InstrPos(replays[0].in))
			isReplay := func(in ssa.Instruction) bool {
				for _, r := range replays {
					if r.in == in {
						return true
					}
				}
				return false
			}
			empty := func(cond ssa.Value, pol bool) bool {
				return c06leq0Edge(cond, pol, func(v ssa.Value) bool {
					lc, ok := resolve(v).(*ssa.Call)
					if !ok || !isBuiltinCall(lc, "len") {
						return false
					}
					for _, r := range replays {
						if resolve(lc.Call.Args[0]) == resolve(r.data) {
							return true
						}
					}
					return false
				})
			}
			first := c06has(reachFrom(H, nil, isReplay, empty), isRelayStart)
			where := ""
			if first != nil {
				where = p.InstrPos(first)
			}
			c.Req(first == nil, "C06.R7:"+hname+":replay-before-relay", r7, p.InstrPos(replays[0].in), "the relay at "+where+" can start on a path where non-empty hook bytes have not been written to the target yet (the target sees the stream without / after its beginning)")
			for i, r := range replays {
				sfx := ""
				if i > 0 {
					sfx = fmt.Sprintf("#%d", i+1)
				}
				c.Req(guardedBy(r.in, dialOK), "C06.R7:"+hname+":replay-after-dial-ok"+sfx, r7, p.InstrPos(r.in), "the replay is reachable without crossing the dial-success edge")
				again := c06has(reachFrom(H, r.in, nil, nil), isReplay)
				c.Req(again == nil, "C06.R7:"+hname+":replay-once"+sfx, r7, p.InstrPos(r.in), "after the replay another replay write is reachable (the consumed bytes are duplicated)")
			}
		}
		c.Req(inject == "", "C06.R7:"+hname+":no-injection", r7, p.Pos(H.Pos()), "the handler writes bytes other than the hook's replay to the target connection at "+inject)
		c.Floor("C06.R7:"+hname+":replay-sites", len(replays), 1)
	}
}

// c06asMakeInterface: v seen through resolve is a MakeInterface (resolve
// itself strips it, so look at v directly first).
func c06asMakeInterface(v ssa.Value) (*ssa.MakeInterface, bool) {
	for i := 0; i < 8; i++ {
		switch x := v.(type) {
		case *ssa.MakeInterface:
			return x, true
		case *ssa.ChangeInterface:
			v = x.X
		case *ssa.ChangeType:
			v = x.X
		default:
			return nil, false
		}
	}
	return nil, false
}

// ---------------------------------------------------------------------------
// split shape of the logging copy loop: `for { nr := src.Read(buf); if nr > 0 { if err := forward(dst, buf[:nr], log); err != nil { return err } } … }`
// The helper is decided on its own CFG (approval before the Write, veto writes
// nothing, reported amount, written once); the loop function is decided with
// the helper call standing for "callback + Write", plus the link between the
// two: the helper's chunk is buf[0:nr] of the Read, and after a veto the helper
// hands back a signal behind which the loop neither reads nor forwards again.
func c06checkHelper(c *Check, l *c06loop, h *c06helper, reads []c06readInfo, isRead, isWriteF func(ssa.Instruction) bool, ord func(string) string) {
	p := c.P
	fn, g := l.fn, h.fn
	name := fnName(fn)
	c.Saw(fnName(g))
	const r1 = "C06.R1 in the logging copy loop every Write is reachable from the Read that produced its bytes only across the true-edge of the log callback invoked with that Read's count; a path that left the callback without its true-edge neither writes nor continues the loop"
	const r2 = "C06.R2 the Write operand is buf[0:nr] of the Read on the same buf in that iteration; the buffer is not stored into between Read and Write; a chunk with nr>0 is vetoed or written before the next Read / return; a chunk is written at most once"
	const r3 = "C06.R3 a chunk is reported to the log callback at most once per Read"

	args := h.call.Call.Args
	isCbG := func(in ssa.Instruction) bool {
		call, ok := in.(*ssa.Call)
		return ok && !call.Call.IsInvoke() && resolve(call.Call.Value) == ssa.Value(h.cb)
	}
	isWriteG := func(in ssa.Instruction) bool { _, _, _, ok := c06ioCall(in, "Write"); return ok }
	argOf := func(prm *ssa.Parameter) ssa.Value {
		for i, q := range g.Params {
			if q == prm && i < len(args) {
				return args[i]
			}
		}
		return nil
	}
	lowZero := func(sl *ssa.Slice) bool { return sl.Low == nil || isConstInt(sl.Low, 0) }
	// chunk parameters: []byte parameters bound to buf[0:nr] of a Read
	chunkOf := map[*ssa.Parameter]*c06readInfo{}
	for i, q := range g.Params {
		if i >= len(args) || !c06isByteSlice(q.Type()) {
			continue
		}
		sl, ok := resolve(args[i]).(*ssa.Slice)
		if !ok || !lowZero(sl) || sl.Max != nil || sl.High == nil {
			continue
		}
		for k := range reads {
			ri := &reads[k]
			if ri.n != nil && resolve(sl.High) == ri.n && c06base(sl.X) == c06base(ri.buf) {
				chunkOf[q] = ri
			}
		}
	}
	// amountOf: the Read whose count a value of the helper stands for:
	// len(chunk), or an integer parameter bound to nr
	amountOf := func(v ssa.Value) *c06readInfo {
		v = c06conv(v)
		if call, ok := v.(*ssa.Call); ok && isBuiltinCall(call, "len") && len(call.Call.Args) == 1 {
			if prm, ok := resolve(call.Call.Args[0]).(*ssa.Parameter); ok {
				return chunkOf[prm]
			}
			return nil
		}
		if prm, ok := v.(*ssa.Parameter); ok && prm.Parent() == g {
			if a := argOf(prm); a != nil {
				for k := range reads {
					if reads[k].n != nil && c06conv(a) == reads[k].n {
						return &reads[k]
					}
				}
			}
		}
		return nil
	}
	approve := func(ri *c06readInfo, only *ssa.Call) EdgePred {
		return func(cond ssa.Value, pol bool) bool {
			v, q := c06norm(cond, pol)
			if !q {
				return false
			}
			call, ok := resolve(v).(*ssa.Call)
			if !ok || !isCbG(call) {
				return false
			}
			if only != nil && call != only {
				return false
			}
			if ri != nil && (len(call.Call.Args) != 1 || amountOf(call.Call.Args[0]) != ri) {
				return false
			}
			return true
		}
	}

	// ---- the helper's result that tells the loop to go on
	sigIdx, sigBool := -1, false
	res := g.Signature.Results()
	for i := 0; i < res.Len(); i++ {
		t := res.At(i).Type()
		if types.Identical(t, types.Universe.Lookup("error").Type()) {
			sigIdx, sigBool = i, false
		} else if b, ok := t.Underlying().(*types.Basic); ok && b.Kind() == types.Bool && sigIdx < 0 {
			sigIdx, sigBool = i, true
		}
	}
	var hres ssa.Value
	if sigIdx >= 0 {
		if res.Len() == 1 {
			hres = h.call
		} else {
			hres = extractOf(h.call, sigIdx)
		}
	}
	goOn := func(cond ssa.Value, pol bool) bool { // the edge on which the helper reported "forwarded"
		if hres == nil {
			return false
		}
		if sigBool {
			v, q := c06norm(cond, pol)
			return q && resolve(v) == hres
		}
		x, isNil, ok := nilTest(cond, pol)
		return ok && isNil && resolve(x) == hres
	}

	// ---- per Write of the helper
	for _, w := range h.writes {
		_, _, wbuf, _ := c06ioCall(w, "Write")
		kw := ord("Write")
		var match *c06readInfo
		wv := resolve(wbuf)
		if sl, ok := wv.(*ssa.Slice); ok && lowZero(sl) && sl.Max == nil {
			if sl.High == nil {
				wv = resolve(sl.X)
			} else if prm, ok := c06base(sl.X).(*ssa.Parameter); ok {
				if ri := amountOf(sl.High); ri != nil {
					if chunkOf[prm] == ri {
						match = ri
					} else if a := argOf(prm); a != nil && c06base(a) == c06base(ri.buf) {
						match = ri
					}
				}
			}
		}
		if prm, ok := wv.(*ssa.Parameter); ok && match == nil {
			match = chunkOf[prm]
		}
		c.Req(match != nil, "C06.R2:"+name+":"+kw+":data", r2, p.InstrPos(w), "the operand of the Write in the chunk helper is not the chunk buf[0:nr] handed over by the loop, with nr the count returned by the Read into the same buf (bytes other than the ones just read are forwarded, or not all of them)")
		c.Req(guardedBy(w, approve(match, nil)), "C06.R1:"+name+":"+kw+":approved", r1, p.InstrPos(w), "a path leads from the entry of the chunk helper to this Write without crossing the true-edge of log(<the chunk's length>) (a chunk is forwarded before / without the logger's approval)")
		again := c06has(reachFrom(g, w, nil, nil), isWriteG)
		c.Req(again == nil, "C06.R2:"+name+":"+kw+":once", r2, p.InstrPos(w), "after this Write another Write is reachable in the chunk helper (a chunk may be forwarded twice)")
	}
	// the loop hands every chunk over at most once
	{
		kh := ord("forward")
		again := c06has(reachFrom(fn, h.call, isRead, nil), isWriteF)
		c.Req(again == nil, "C06.R2:"+name+":"+kh+":once", r2, p.InstrPos(h.call), "after the chunk was handed to the chunk helper another forwarding call / Write is reachable before the next Read (a chunk may be forwarded or counted twice)")
	}

	// ---- per callback call of the helper
	for _, cb := range h.cbCalls {
		kc := ord("log")
		refused := reachFrom(g, cb, nil, approve(nil, cb))
		bad, und := "", ""
		if in := c06has(refused, isWriteG); in != nil {
			bad = "a Write at " + p.InstrPos(in) + " is reachable from the log callback without crossing its true-edge (a vetoed or unjudged chunk is forwarded)"
		} else if sigIdx < 0 {
			und = "the chunk helper has no error / bool result; how a veto ends the loop is not analysed"
		} else {
			// the veto must come back as a signal behind which the loop stops
			for _, in := range refused {
				r, ok := in.(*ssa.Return)
				if !ok {
					continue
				}
				rs := retResults(r)
				if sigIdx >= len(rs) || rs[sigIdx] == nil {
					und = "the result returned at " + p.InstrPos(r) + " after a veto cannot be determined"
					continue
				}
				for _, o := range c06origins(rs[sigIdx]) {
					switch {
					case sigBool && isConstBool(o, false):
					case sigBool && isConstBool(o, true):
						bad = "the chunk helper returns true at " + p.InstrPos(r) + " after the log callback refused (the veto does not end this direction)"
					case sigBool:
						und = "the verdict returned at " + p.InstrPos(r) + " after a veto is computed"
					case isNilConst(o):
						bad = "the chunk helper returns a nil error at " + p.InstrPos(r) + " after the log callback refused (the veto does not end this direction)"
					case c06nonNilErr(o):
					default:
						und = "whether the error returned at " + p.InstrPos(r) + " after a veto is non-nil is not analysed"
					}
				}
			}
			if bad == "" {
				stopped := reachFrom(fn, h.call, nil, goOn)
				if in := c06has(stopped, isWriteF); in != nil {
					bad = "in the loop a Write / forwarding call at " + p.InstrPos(in) + " is reachable from the chunk helper's call without crossing the edge on which it reported success (a vetoed chunk is forwarded)"
				} else if in := c06has(stopped, isRead); in != nil {
					bad = "the loop reads again at " + p.InstrPos(in) + " without testing the chunk helper's result (the veto does not end this direction)"
				}
			}
		}
		key := "C06.R1:" + name + ":" + kc + ":veto-forwards-nothing"
		switch {
		case bad != "":
			c.Bad(key, r1, p.InstrPos(cb), bad)
		case und != "":
			c.Undecided(key, r1, p.InstrPos(cb), und)
		default:
			c.OK(key, r1, p.InstrPos(cb))
		}
		again := c06has(reachFrom(g, cb, nil, nil), isCbG)
		c.Req(again == nil, "C06.R3:"+name+":"+kc+":once", r3, p.InstrPos(cb), "after this report another log callback call is reachable in the chunk helper (a chunk may be counted twice)")
		c.Req(len(cb.Call.Args) == 1 && amountOf(cb.Call.Args[0]) != nil, "C06.R3:"+name+":"+kc+":amount", r3, p.InstrPos(cb), "the amount reported to the log callback is not the length of the chunk handed over by the loop (the byte count returned by the Read)")
		lost := ""
		for _, tb := range c06edgeTargets(g, approve(nil, cb)) {
			reached := c06walk(tb, isWriteG, nil)
			if in := c06has(reached, c06isReturn); in != nil {
				lost = p.InstrPos(in)
			}
		}
		c.Req(lost == "", "C06.R2:"+name+":"+kc+":approved-is-written", r2, p.InstrPos(cb), "after the log callback approved a chunk a path reaches the return at "+lost+" without writing it")
	}
	// every chunk handed over is judged: no exit of the helper before the callback
	{
		var ex []ssa.Instruction
		for _, in := range exitsReachableAvoiding(g, nil, isCbG) {
			if g.Recover == nil || in.Block() != g.Recover {
				ex = append(ex, in)
			}
		}
		where := ""
		if len(ex) > 0 {
			where = p.InstrPos(ex[0])
		}
		c.Req(len(ex) == 0, "C06.R2:"+name+":"+fnName(g)+":no-drop", r2, p.Pos(g.Pos()), "the chunk helper can return at "+where+" without handing the chunk to the log callback: bytes read are dropped")
	}
	// the chunk is not modified inside the helper before it is written
	{
		bad, und := "", ""
		derived := map[ssa.Value]bool{}
		var work []ssa.Value
		add := func(v ssa.Value) {
			if v != nil && !derived[v] {
				derived[v] = true
				work = append(work, v)
			}
		}
		for _, q := range g.Params {
			if c06isByteSlice(q.Type()) {
				add(q)
			}
		}
		for len(work) > 0 {
			v := work[len(work)-1]
			work = work[:len(work)-1]
			refs := v.Referrers()
			if refs == nil {
				continue
			}
			for _, u := range *refs {
				switch x := u.(type) {
				case *ssa.Slice:
					if x.X == v {
						add(x)
					}
				case *ssa.Phi:
					add(x)
				case *ssa.IndexAddr:
					for _, uu := range *x.Referrers() {
						if st, ok := uu.(*ssa.Store); ok && st.Addr == ssa.Value(x) {
							bad = "a store into the chunk at " + p.InstrPos(st) + " in the chunk helper"
						} else if _, isLoad := uu.(*ssa.UnOp); !isLoad {
							if _, isDbg := uu.(*ssa.DebugRef); !isDbg {
								und = "an element address of the chunk is used at " + p.InstrPos(uu)
							}
						}
					}
				case ssa.CallInstruction:
					if isWriteG(x) || isBuiltinCall(x, "len") || isBuiltinCall(x, "cap") {
						continue
					}
					if isBuiltinCall(x, "copy") {
						if derived[resolve(x.Common().Args[0])] || x.Common().Args[0] == v {
							bad = "copy() into the chunk at " + p.InstrPos(x) + " in the chunk helper"
						}
						continue
					}
					und = "the chunk is passed to a call at " + p.InstrPos(x) + " in the chunk helper"
				case *ssa.Store:
					if x.Val == v {
						und = "the chunk is stored at " + p.InstrPos(x) + " in the chunk helper"
					}
				case *ssa.DebugRef, *ssa.UnOp, *ssa.BinOp:
				case *ssa.MakeInterface, *ssa.ChangeType, *ssa.Convert:
					if in, ok := u.(ssa.Instruction); ok {
						und = "the chunk is converted at " + p.InstrPos(in) + " in the chunk helper"
					}
				}
			}
		}
		key := "C06.R2:" + name + ":" + fnName(g) + ":buffer-untouched"
		switch {
		case bad != "":
			c.Bad(key, r2, p.Pos(g.Pos()), bad+" (the forwarded bytes are altered)")
		case und != "":
			c.Undecided(key, r2, p.Pos(g.Pos()), und+"; whether it is modified there is not analysed")
		default:
			c.OK(key, r2, p.Pos(g.Pos()))
		}
	}
}

// c06nonNilErr: an error value that is not nil by construction: a package-level
// sentinel (errors.New at package initialisation is assumed), a concrete value
// boxed into the interface, or the result of errors.New / fmt.Errorf / errors.Join-free constructors.
func c06nonNilErr(v ssa.Value) bool {
	v = resolve(v)
	switch x := v.(type) {
	case *ssa.UnOp:
		if x.Op == token.MUL {
			_, isGlobal := x.X.(*ssa.Global)
			return isGlobal
		}
	case *ssa.MakeInterface:
		return true
	case *ssa.Call:
		return calleeIs(x, "errors", "New") || calleeIs(x, "fmt", "Errorf")
	}
	return false
}

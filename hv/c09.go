package main

import (
	"fmt"
	"go/constant"
	"go/token"
	"go/types"
	"sort"
	"strings"

	"golang.org/x/tools/go/ssa"
)

// ===========================================================================
// C09 - ACL decisions are first-match and independent of lookup history.
//
// Local kits (all prefixed c09):
//   * c09fn    per-function context: control dependence, reaching definitions
//              of non-escaping local variables (field-wise for structs)
//   * tokens   value identity: the set of canonical definitions a value may
//              carry at the point it is read (looks through local copies)
//   * sources  K9 dependence: which parameters / parameter fields / object
//              fields a value is computed from, interprocedural through
//              summaries of repository callees and of interface implementations,
//              including control dependence for function results
// ===========================================================================

// ---------------------------------------------------------------------------
// per-function context

type c09cell struct {
	a   *ssa.Alloc
	fld int // -1: the whole (non-struct) variable
}

type c09state map[c09cell]map[ssa.Instruction]bool

func (s c09state) clone() c09state {
	o := c09state{}
	for k, v := range s {
		m := make(map[ssa.Instruction]bool, len(v))
		for d := range v {
			m[d] = true
		}
		o[k] = m
	}
	return o
}

// mergeInto adds src into dst; reports whether dst changed.
func (s c09state) mergeInto(dst c09state) bool {
	ch := false
	for k, v := range s {
		m := dst[k]
		if m == nil {
			m = map[ssa.Instruction]bool{}
			dst[k] = m
		}
		for d := range v {
			if !m[d] {
				m[d] = true
				ch = true
			}
		}
	}
	return ch
}

type c09fn struct {
	an      *c09an
	fn      *ssa.Function
	tracked map[*ssa.Alloc]bool          // non-escaping local variables
	nfields map[*ssa.Alloc]int           // struct field count (0: not a struct)
	effects map[ssa.Instruction][]c09eff // instruction -> definitions it performs
	global  *c09view
	cd      map[*ssa.BasicBlock][]*ssa.BasicBlock
}

type c09eff struct {
	cell c09cell
	weak bool // may-definition (does not kill)
}

// c09view is a reaching-definitions solution over (a region of) the CFG.
type c09view struct {
	f        *c09fn
	in       map[*ssa.BasicBlock]c09state
	from, to *ssa.BasicBlock // entry edge of a region view
	cut      func(a, b *ssa.BasicBlock) bool
}

type c09an struct {
	p        *Prog
	fns      map[*ssa.Function]*c09fn
	sumMemo  map[string]c09set
	sumBusy  map[string]bool
	roMemo   map[*ssa.Function]map[int]bool
	implMemo map[string][]*ssa.Function
}

func c09new(p *Prog) *c09an {
	return &c09an{p: p, fns: map[*ssa.Function]*c09fn{}, sumMemo: map[string]c09set{}, sumBusy: map[string]bool{}, roMemo: map[*ssa.Function]map[int]bool{}, implMemo: map[string][]*ssa.Function{}}
}

func c09structOf(t types.Type) *types.Struct {
	if t == nil {
		return nil
	}
	st, _ := t.Underlying().(*types.Struct)
	return st
}

func c09elem(t types.Type) types.Type {
	if p, ok := t.Underlying().(*types.Pointer); ok {
		return p.Elem()
	}
	return nil
}

// paramReadOnly: the callee never stores through (or leaks) its pointer
// parameter idx: the parameter is only used as the base of field loads.
func (an *c09an) paramReadOnly(callee *ssa.Function, idx int) bool {
	if callee == nil || len(callee.Blocks) == 0 || idx >= len(callee.Params) {
		return false
	}
	if m := an.roMemo[callee]; m != nil {
		if v, ok := m[idx]; ok {
			return v
		}
	} else {
		an.roMemo[callee] = map[int]bool{}
	}
	an.roMemo[callee][idx] = true // optimistic for recursion
	ok := true
	var useOK func(v ssa.Value, depth int) bool
	useOK = func(v ssa.Value, depth int) bool {
		refs := v.Referrers()
		if refs == nil {
			return true
		}
		for _, r := range *refs {
			switch u := r.(type) {
			case *ssa.DebugRef:
			case *ssa.UnOp:
				if u.Op != token.MUL {
					return false
				}
			case *ssa.FieldAddr:
				if u.X != v || depth > 3 || !useOK(u, depth+1) {
					return false
				}
			case *ssa.BinOp:
				// nil comparison
			case *ssa.Call:
				cal := staticCallee(u)
				found := false
				for i, a := range u.Call.Args {
					if a == v {
						found = true
						if cal == nil || !an.paramReadOnly(cal, i) {
							return false
						}
					}
				}
				if !found {
					return false
				}
			default:
				return false
			}
		}
		return true
	}
	ok = useOK(callee.Params[idx], 0)
	an.roMemo[callee][idx] = ok
	return ok
}

func (an *c09an) ctx(fn *ssa.Function) *c09fn {
	if f := an.fns[fn]; f != nil {
		return f
	}
	f := &c09fn{an: an, fn: fn, tracked: map[*ssa.Alloc]bool{}, nfields: map[*ssa.Alloc]int{}, effects: map[ssa.Instruction][]c09eff{}}
	an.fns[fn] = f
	// classify local variables
	allInstrs(fn, func(in ssa.Instruction) {
		a, ok := in.(*ssa.Alloc)
		if !ok {
			return
		}
		n := 0
		if st := c09structOf(c09elem(a.Type())); st != nil {
			n = st.NumFields()
		}
		if _, isArr := c09elem(a.Type()).Underlying().(*types.Array); isArr {
			return // arrays are handled flow-insensitively by the dependence walk
		}
		type pend struct {
			in  ssa.Instruction
			eff c09eff
		}
		var effs []pend
		all := func(in ssa.Instruction, weak bool) {
			if n == 0 {
				effs = append(effs, pend{in, c09eff{c09cell{a, -1}, weak}})
				return
			}
			for i := 0; i < n; i++ {
				effs = append(effs, pend{in, c09eff{c09cell{a, i}, weak}})
			}
		}
		okAll := true
		all(a, false) // zero initialisation
		for _, r := range *a.Referrers() {
			switch u := r.(type) {
			case *ssa.DebugRef:
			case *ssa.Store:
				if u.Val == ssa.Value(a) {
					okAll = false
				} else {
					all(u, false)
				}
			case *ssa.UnOp:
				if u.Op != token.MUL {
					okAll = false
				}
			case *ssa.FieldAddr:
				if n == 0 || u.X != ssa.Value(a) {
					okAll = false
					break
				}
				for _, rr := range *u.Referrers() {
					switch uu := rr.(type) {
					case *ssa.DebugRef:
					case *ssa.Store:
						if uu.Val == ssa.Value(u) {
							okAll = false
						} else {
							effs = append(effs, pend{uu, c09eff{c09cell{a, u.Field}, false}})
						}
					case *ssa.UnOp:
						if uu.Op != token.MUL {
							okAll = false
						}
					case *ssa.Call:
						// address of one field handed to a callee: may-definition of that field
						effs = append(effs, pend{uu, c09eff{c09cell{a, u.Field}, true}})
					default:
						okAll = false
					}
				}
			case *ssa.Call:
				cal := staticCallee(u)
				ro := true
				for i, arg := range u.Call.Args {
					if arg == ssa.Value(a) && !(cal != nil && an.paramReadOnly(cal, i)) {
						ro = false
					}
				}
				if u.Call.IsInvoke() && u.Call.Value == ssa.Value(a) {
					ro = false
				}
				if !ro {
					all(u, true)
				}
			default:
				okAll = false
			}
		}
		if !okAll {
			return
		}
		f.tracked[a] = true
		f.nfields[a] = n
		for _, e := range effs {
			f.effects[e.in] = append(f.effects[e.in], e.eff)
		}
	})
	f.global = f.solve(nil, nil, nil)
	f.cd = c09controlDeps(fn)
	return f
}

func (f *c09fn) transfer(st c09state, in ssa.Instruction) {
	for _, e := range f.effects[in] {
		if e.weak {
			m := st[e.cell]
			if m == nil {
				m = map[ssa.Instruction]bool{}
				st[e.cell] = m
			}
			m[in] = true
		} else {
			st[e.cell] = map[ssa.Instruction]bool{in: true}
		}
	}
}

// solve computes reaching definitions.  With from==nil the whole function is
// solved from its entry.  Otherwise only paths that take the edge from->to are
// considered (the state on that edge comes from the global solution).  Edges
// for which cut returns true are never followed.
func (f *c09fn) solve(from, to *ssa.BasicBlock, cut func(a, b *ssa.BasicBlock) bool) *c09view {
	v := &c09view{f: f, in: map[*ssa.BasicBlock]c09state{}, from: from, to: to, cut: cut}
	if len(f.fn.Blocks) == 0 {
		return v
	}
	var work []*ssa.BasicBlock
	if from == nil {
		v.in[f.fn.Blocks[0]] = c09state{}
		work = append(work, f.fn.Blocks[0])
	} else {
		st := f.global.stateAtEnd(from)
		v.in[to] = st
		work = append(work, to)
	}
	for len(work) > 0 {
		b := work[0]
		work = work[1:]
		st := v.in[b].clone()
		for _, in := range b.Instrs {
			f.transfer(st, in)
		}
		for _, s := range b.Succs {
			if cut != nil && cut(b, s) {
				continue
			}
			dst, seen := v.in[s]
			if !seen {
				dst = c09state{}
				v.in[s] = dst
			}
			if st.mergeInto(dst) || !seen {
				work = append(work, s)
			}
		}
	}
	return v
}

func (v *c09view) stateAtEnd(b *ssa.BasicBlock) c09state {
	st := v.in[b].clone()
	for _, in := range b.Instrs {
		v.f.transfer(st, in)
	}
	return st
}

func (v *c09view) has(b *ssa.BasicBlock) bool { _, ok := v.in[b]; return ok }

// defsAt: the definitions of cell that reach instruction `at` (in this view;
// instructions outside the view's region fall back to the global solution).
func (v *c09view) defsAt(at ssa.Instruction, cell c09cell) []ssa.Instruction {
	b := at.Block()
	in, ok := v.in[b]
	if !ok {
		if v != v.f.global {
			return v.f.global.defsAt(at, cell)
		}
		return nil
	}
	cur := map[ssa.Instruction]bool{}
	for d := range in[cell] {
		cur[d] = true
	}
	for _, x := range b.Instrs {
		if x == at {
			break
		}
		for _, e := range v.f.effects[x] {
			if e.cell == cell {
				if !e.weak {
					cur = map[ssa.Instruction]bool{}
				}
				cur[x] = true
			}
		}
	}
	var out []ssa.Instruction
	for d := range cur {
		out = append(out, d)
	}
	sort.Slice(out, func(i, j int) bool { return c09instrName(out[i]) < c09instrName(out[j]) })
	return out
}

func c09instrName(in ssa.Instruction) string {
	if v, ok := in.(ssa.Value); ok {
		return v.Name()
	}
	return fmt.Sprintf("b%d.%d", in.Block().Index, instrIndex(in))
}

// cellOfAddr maps an address operand to a tracked cell.
func (f *c09fn) cellOfAddr(addr ssa.Value) (c09cell, bool) {
	switch x := addr.(type) {
	case *ssa.Alloc:
		if f.tracked[x] && f.nfields[x] == 0 {
			return c09cell{x, -1}, true
		}
	case *ssa.FieldAddr:
		if a, ok := x.X.(*ssa.Alloc); ok && f.tracked[a] && f.nfields[a] > 0 {
			return c09cell{a, x.Field}, true
		}
	}
	return c09cell{}, false
}

// trackedStruct: v is the address of a tracked struct variable.
func (f *c09fn) trackedStruct(addr ssa.Value) *ssa.Alloc {
	if a, ok := addr.(*ssa.Alloc); ok && f.tracked[a] && f.nfields[a] > 0 {
		return a
	}
	return nil
}

// ---------------------------------------------------------------------------
// control dependence (post-dominator based)

func c09controlDeps(fn *ssa.Function) map[*ssa.BasicBlock][]*ssa.BasicBlock {
	n := len(fn.Blocks)
	pdom := make([]map[int]bool, n)
	full := func() map[int]bool {
		m := make(map[int]bool, n)
		for i := 0; i < n; i++ {
			m[i] = true
		}
		return m
	}
	for i, b := range fn.Blocks {
		if len(b.Succs) == 0 {
			pdom[i] = map[int]bool{i: true}
		} else {
			pdom[i] = full()
		}
	}
	for changed := true; changed; {
		changed = false
		for i := n - 1; i >= 0; i-- {
			b := fn.Blocks[i]
			if len(b.Succs) == 0 {
				continue
			}
			nw := map[int]bool{}
			for k := range pdom[b.Succs[0].Index] {
				all := true
				for _, s := range b.Succs[1:] {
					if !pdom[s.Index][k] {
						all = false
						break
					}
				}
				if all {
					nw[k] = true
				}
			}
			nw[i] = true
			if len(nw) != len(pdom[i]) {
				pdom[i] = nw
				changed = true
			}
		}
	}
	cd := map[*ssa.BasicBlock][]*ssa.BasicBlock{}
	for _, b := range fn.Blocks {
		if len(b.Succs) < 2 || b.Succs[0] == b.Succs[1] {
			continue
		}
		seen := map[int]bool{}
		for _, s := range b.Succs {
			for x := range pdom[s.Index] {
				if seen[x] {
					continue
				}
				if x == b.Index || !pdom[b.Index][x] {
					seen[x] = true
					cd[fn.Blocks[x]] = append(cd[fn.Blocks[x]], b)
				}
			}
		}
	}
	return cd
}

func c09cond(b *ssa.BasicBlock) ssa.Value {
	if len(b.Instrs) == 0 {
		return nil
	}
	if iff, ok := b.Instrs[len(b.Instrs)-1].(*ssa.If); ok {
		return iff.Cond
	}
	return nil
}

// ---------------------------------------------------------------------------
// tokens: canonical identity of values

type c09set map[string]bool

func (s c09set) add(o c09set) {
	for k := range o {
		s[k] = true
	}
}

func (s c09set) list() []string {
	var out []string
	for k := range s {
		out = append(out, k)
	}
	sort.Strings(out)
	return out
}

func (s c09set) String() string { return "{" + strings.Join(s.list(), ", ") + "}" }

func c09eq(a, b c09set) bool {
	if len(a) != len(b) {
		return false
	}
	for k := range a {
		if !b[k] {
			return false
		}
	}
	return true
}

func c09one(s string) c09set { return c09set{s: true} }

func c09fieldName(t types.Type, idx int) string {
	if p, ok := t.Underlying().(*types.Pointer); ok {
		t = p.Elem()
	}
	if st := c09structOf(t); st != nil && idx < st.NumFields() {
		return st.Field(idx).Name()
	}
	return fmt.Sprintf("#%d", idx)
}

func c09through(v ssa.Value) ssa.Value {
	for {
		switch x := v.(type) {
		case *ssa.ChangeType:
			v = x.X
		case *ssa.MakeInterface:
			v = x.X
		case *ssa.ChangeInterface:
			v = x.X
		default:
			return v
		}
	}
}

func c09isZeroConst(v ssa.Value) bool {
	c, ok := v.(*ssa.Const)
	if !ok {
		return false
	}
	if c.Value == nil {
		return true
	}
	switch c.Value.Kind() {
	case constant.Int, constant.Float:
		return constant.Sign(c.Value) == 0
	case constant.String:
		return constant.StringVal(c.Value) == ""
	case constant.Bool:
		return !constant.BoolVal(c.Value)
	}
	return false
}

// copyOf: the tracked struct variable a is written exactly once, as a whole,
// with a value loaded from another address (a local copy of an element).
func (f *c09fn) copyOf(a *ssa.Alloc) ssa.Value {
	if !f.tracked[a] {
		return nil
	}
	var src ssa.Value
	n := 0
	for in, effs := range f.effects {
		for _, e := range effs {
			if e.cell.a != a {
				continue
			}
			if in == ssa.Instruction(a) {
				continue
			}
			st, ok := in.(*ssa.Store)
			if !ok || st.Addr != ssa.Value(a) || e.weak {
				return nil
			}
			if e.cell.fld <= 0 {
				n++
				if u, ok := st.Val.(*ssa.UnOp); ok && u.Op == token.MUL {
					src = u.X
				} else {
					return nil
				}
			}
		}
	}
	if n == 1 {
		return src
	}
	return nil
}

// addrKey: canonical name of an address.
func (v *c09view) addrKey(addr ssa.Value, depth int) string {
	if depth > 24 {
		return addr.Name()
	}
	switch x := addr.(type) {
	case *ssa.Alloc:
		if src := v.f.copyOf(x); src != nil {
			return v.addrKey(src, depth+1)
		}
		return "var:" + x.Name()
	case *ssa.IndexAddr:
		return "elt(" + v.valKey(x.X, depth+1) + "," + v.valKey(x.Index, depth+1) + ")"
	case *ssa.FieldAddr:
		return v.addrKey(x.X, depth+1) + "." + c09fieldName(x.X.Type(), x.Field)
	case *ssa.Parameter:
		return x.Name()
	}
	return v.valKey(addr, depth+1)
}

// valKey: canonical single name of a value (used for slices and indices).
func (v *c09view) valKey(val ssa.Value, depth int) string {
	val = c09through(val)
	if depth > 24 {
		return val.Name()
	}
	switch x := val.(type) {
	case *ssa.Const:
		if c09isZeroConst(x) {
			return "zero"
		}
		return "const:" + x.Value.ExactString()
	case *ssa.Parameter:
		return x.Name()
	case *ssa.UnOp:
		if x.Op == token.MUL {
			if cell, ok := v.f.cellOfAddr(x.X); ok {
				if ds := v.defsAt(x, cell); len(ds) == 1 {
					if st, ok := ds[0].(*ssa.Store); ok && st.Addr == x.X {
						return v.valKey(st.Val, depth+1)
					}
				}
				return "load:" + x.Name()
			}
			return "*" + v.addrKey(x.X, depth+1)
		}
	}
	return c09vname(val)
}

// c09vname: printable unique name of an SSA value (calls show their callee).
func c09vname(val ssa.Value) string {
	if call, ok := val.(*ssa.Call); ok {
		if cal := staticCallee(call); cal != nil {
			return cal.Name() + "()#" + val.Name()
		}
		if call.Call.IsInvoke() {
			return call.Call.Method.Name() + "()#" + val.Name()
		}
	}
	if e, ok := val.(*ssa.Extract); ok {
		return fmt.Sprintf("%s.%d", c09vname(e.Tuple), e.Index)
	}
	return "v:" + val.Name()
}

// tokens: the set of canonical definitions a scalar value may carry.
func (v *c09view) tokens(val ssa.Value) c09set {
	return v.tok(val, -1, map[ssa.Value]bool{}, 0)
}

// tokensField: the same for field fld of a struct-typed value.
func (v *c09view) tokensField(val ssa.Value, fld int) c09set {
	return v.tok(val, fld, map[ssa.Value]bool{}, 0)
}

func (v *c09view) defTokens(at ssa.Instruction, cell c09cell, seen map[ssa.Value]bool, depth int) c09set {
	out := c09set{}
	for _, d := range v.defsAt(at, cell) {
		switch s := d.(type) {
		case *ssa.Alloc:
			out["zero"] = true
		case *ssa.Store:
			if s.Addr == ssa.Value(cell.a) && cell.fld >= 0 {
				out.add(v.tok(s.Val, cell.fld, seen, depth+1))
			} else {
				out.add(v.tok(s.Val, -1, seen, depth+1))
			}
		default:
			out["effect:"+c09instrName(d)] = true
		}
	}
	return out
}

// tok: fld<0: tokens of the scalar val; fld>=0: tokens of val.<fld>.
func (v *c09view) tok(val ssa.Value, fld int, seen map[ssa.Value]bool, depth int) c09set {
	val = c09through(val)
	sfx := ""
	if fld >= 0 {
		sfx = "." + c09fieldName(val.Type(), fld)
	}
	if depth > 32 {
		return c09one(c09vname(val) + sfx)
	}
	switch x := val.(type) {
	case *ssa.Const:
		if c09isZeroConst(x) {
			return c09one("zero")
		}
		return c09one("const:" + x.Value.ExactString() + sfx)
	case *ssa.Parameter:
		return c09one(x.Name() + sfx)
	case *ssa.Field:
		if fld < 0 {
			return v.tok(x.X, x.Field, seen, depth+1)
		}
	case *ssa.Phi:
		if seen[x] {
			return c09set{}
		}
		seen[x] = true
		out := c09set{}
		for i, e := range x.Edges {
			if pb := x.Block().Preds[i]; v != v.f.global && v.has(x.Block()) && !v.has(pb) && !(pb == v.from && x.Block() == v.to) {
				continue // edge not taken in this region
			} else if v.cut != nil && v.cut(pb, x.Block()) {
				continue
			}
			out.add(v.tok(e, fld, seen, depth+1))
		}
		return out
	case *ssa.UnOp:
		if x.Op != token.MUL {
			break
		}
		if fld < 0 {
			if cell, ok := v.f.cellOfAddr(x.X); ok {
				return v.defTokens(x, cell, seen, depth)
			}
			return c09one("*" + v.addrKey(x.X, 0))
		}
		if a := v.f.trackedStruct(x.X); a != nil {
			if src := v.f.copyOf(a); src != nil {
				return c09one("*" + v.addrKey(src, 0) + sfx)
			}
			return v.defTokens(x, c09cell{a, fld}, seen, depth)
		}
		// a struct loaded from a field of a tracked struct variable etc.
		if cell, ok := v.f.cellOfAddr(x.X); ok {
			out := c09set{}
			for _, d := range v.defsAt(x, cell) {
				switch s := d.(type) {
				case *ssa.Alloc:
					out["zero"] = true
				case *ssa.Store:
					if s.Addr == ssa.Value(cell.a) {
						out["v:"+x.Name()+sfx] = true
					} else {
						out.add(v.tok(s.Val, fld, seen, depth+1))
					}
				default:
					out["effect:"+c09instrName(d)] = true
				}
			}
			return out
		}
		return c09one("*" + v.addrKey(x.X, 0) + sfx)
	}
	return c09one(c09vname(val) + sfx)
}

// ---------------------------------------------------------------------------
// sources: K9 dependence
//
// A source is one of
//   p<k>          parameter k of the function (scalar, or a pointer used whole)
//   p<k>.<field>  one field of a struct-typed parameter (or of *param)
//   m:<T>.<field> a field of an object that is not a local variable
//   ?             something the walk does not model

type c09walk struct {
	an       *c09an
	f        *c09fn
	v        *c09view
	ctrl     bool
	busy     map[string]bool
	ctrlMemo map[*ssa.BasicBlock]c09set
	// boundary recorder: the first values of type recType met on the way back
	recType  types.Type
	rec      func(fld int, toks c09set)
	recDepth int
}

func (an *c09an) walker(f *c09fn, v *c09view, ctrl bool) *c09walk {
	return &c09walk{an: an, f: f, v: v, ctrl: ctrl, busy: map[string]bool{}, ctrlMemo: map[*ssa.BasicBlock]c09set{}}
}

func c09typeName(t types.Type) string {
	t = types.Unalias(t)
	if p, ok := t.Underlying().(*types.Pointer); ok {
		if _, named := t.(*types.Named); !named {
			t = types.Unalias(p.Elem())
		}
	}
	if n, ok := t.(*types.Named); ok {
		return n.Obj().Name()
	}
	return t.String()
}

func c09paramIndex(fn *ssa.Function, p *ssa.Parameter) int {
	for i, q := range fn.Params {
		if q == p {
			return i
		}
	}
	return -1
}

func (w *c09walk) isRec(t types.Type) bool {
	return w.rec != nil && w.recType != nil && w.recDepth == 0 && types.Identical(t, w.recType)
}

func (w *c09walk) ctrlOf(b *ssa.BasicBlock) c09set {
	if !w.ctrl {
		return c09set{}
	}
	if s, ok := w.ctrlMemo[b]; ok {
		return s
	}
	out := c09set{}
	w.ctrlMemo[b] = out // cycle: partial result
	for _, c := range w.f.cd[b] {
		if cond := c09cond(c); cond != nil {
			out.add(w.src(cond, -1))
		}
		out.add(w.ctrlOf(c))
	}
	return out
}

// flowInsensitive: everything ever stored into a local variable that is not
// tracked (arrays of varargs, escaping variables).
func (w *c09walk) flowInsensitive(a *ssa.Alloc, fld int) c09set {
	out := c09set{}
	key := fmt.Sprintf("fi:%s:%d", a.Name(), fld)
	if w.busy[key] {
		return out
	}
	w.busy[key] = true
	defer delete(w.busy, key)
	for _, r := range *a.Referrers() {
		switch u := r.(type) {
		case *ssa.Store:
			if u.Addr == ssa.Value(a) {
				out.add(w.src(u.Val, fld))
			}
		case *ssa.FieldAddr:
			if fld >= 0 && u.Field != fld {
				continue
			}
			for _, rr := range *u.Referrers() {
				if st, ok := rr.(*ssa.Store); ok && st.Addr == ssa.Value(u) {
					out.add(w.src(st.Val, -1))
				}
			}
		case *ssa.IndexAddr:
			for _, rr := range *u.Referrers() {
				if st, ok := rr.(*ssa.Store); ok && st.Addr == ssa.Value(u) {
					out.add(w.src(st.Val, -1))
				}
			}
		case *ssa.Call:
			if !w.f.tracked[a] {
				out["?"] = true
			}
		}
	}
	return out
}

func (w *c09walk) defSrc(at ssa.Instruction, cell c09cell, sub int) c09set {
	out := c09set{}
	for _, d := range w.v.defsAt(at, cell) {
		switch s := d.(type) {
		case *ssa.Alloc:
		case *ssa.Store:
			if s.Addr == ssa.Value(cell.a) && cell.fld >= 0 {
				out.add(w.src(s.Val, cell.fld))
			} else {
				out.add(w.src(s.Val, sub))
			}
		case *ssa.Call:
			for _, a := range s.Call.Args {
				if a != ssa.Value(cell.a) {
					out.add(w.src(a, -1))
				}
			}
			out["?"] = true
		default:
			out["?"] = true
		}
	}
	return out
}

// memSrc: sources of a value loaded from an address that is not a tracked
// local variable.
func (w *c09walk) memSrc(addr ssa.Value) c09set {
	out := c09set{}
	switch x := addr.(type) {
	case *ssa.FieldAddr:
		fname := c09fieldName(x.X.Type(), x.Field)
		out["m:"+c09typeName(x.X.Type())+"."+fname] = true
		base := c09through(x.X)
		switch y := base.(type) {
		case *ssa.Parameter:
			out[fmt.Sprintf("p%d.%s", c09paramIndex(w.f.fn, y), fname)] = true
		case *ssa.Alloc:
			out.add(w.flowInsensitive(y, x.Field))
		default:
			out.add(w.src(base, -1))
		}
	case *ssa.IndexAddr:
		if a, ok := x.X.(*ssa.Alloc); ok {
			out.add(w.flowInsensitive(a, -1))
		} else {
			out.add(w.src(x.X, -1))
		}
		out.add(w.src(x.Index, -1))
	case *ssa.Alloc:
		out.add(w.flowInsensitive(x, -1))
	case *ssa.Global:
	default:
		out.add(w.src(addr, -1))
	}
	return out
}

// src: the sources of val (fld<0) or of val.<fld> (fld>=0).
func (w *c09walk) src(val ssa.Value, fld int) c09set {
	val = c09through(val)
	out := c09set{}
	if val == nil {
		return out
	}
	key := fmt.Sprintf("%s/%d", val.Name(), fld)
	switch val.(type) {
	case *ssa.Const, *ssa.Global, *ssa.Function, *ssa.Builtin:
		return out
	case *ssa.Parameter, *ssa.FreeVar:
	default:
		if w.busy[key] {
			return out
		}
		w.busy[key] = true
		defer delete(w.busy, key)
	}
	// boundary recording
	if w.isRec(val.Type()) {
		if st := c09structOf(val.Type()); st != nil {
			if fld >= 0 {
				w.rec(fld, w.v.tokensField(val, fld))
			} else {
				for i := 0; i < st.NumFields(); i++ {
					w.rec(i, w.v.tokensField(val, i))
				}
			}
		}
		w.recDepth++
		defer func() { w.recDepth-- }()
	}
	switch x := val.(type) {
	case *ssa.Parameter:
		k := c09paramIndex(w.f.fn, x)
		if st := c09structOf(x.Type()); st != nil {
			if fld >= 0 {
				out[fmt.Sprintf("p%d.%s", k, st.Field(fld).Name())] = true
			} else {
				for i := 0; i < st.NumFields(); i++ {
					out[fmt.Sprintf("p%d.%s", k, st.Field(i).Name())] = true
				}
			}
		} else {
			out[fmt.Sprintf("p%d", k)] = true
		}
	case *ssa.FreeVar:
		out["?"] = true
	case *ssa.Phi:
		for i, e := range x.Edges {
			out.add(w.src(e, fld))
			out.add(w.ctrlOf(x.Block().Preds[i]))
		}
	case *ssa.Field:
		out.add(w.src(x.X, x.Field))
	case *ssa.UnOp:
		if x.Op != token.MUL {
			out.add(w.src(x.X, -1))
			break
		}
		addr := x.X
		// reading one field of a record-typed object through its address
		if fa, ok := addr.(*ssa.FieldAddr); ok && fld < 0 && w.rec != nil && w.recDepth == 0 && w.recType != nil {
			if et := c09elem(fa.X.Type()); et != nil && types.Identical(et, w.recType) {
				w.rec(fa.Field, w.v.tokens(x))
				w.recDepth++
				defer func() { w.recDepth-- }()
			}
		}
		if a := w.f.trackedStruct(addr); a != nil {
			if fld >= 0 {
				out.add(w.defSrc(x, c09cell{a, fld}, -1))
			} else {
				for i := 0; i < w.f.nfields[a]; i++ {
					out.add(w.defSrc(x, c09cell{a, i}, -1))
				}
			}
			break
		}
		if cell, ok := w.f.cellOfAddr(addr); ok {
			out.add(w.defSrc(x, cell, fld))
			break
		}
		if fld >= 0 {
			out["m:"+c09typeName(val.Type())+"."+c09fieldName(val.Type(), fld)] = true
		}
		out.add(w.memSrc(addr))
	case *ssa.Alloc:
		out.add(w.flowInsensitive(x, fld))
	case *ssa.Call:
		out.add(w.callSrc(x, 0, fld))
	case *ssa.Extract:
		if call, ok := x.Tuple.(*ssa.Call); ok {
			out.add(w.callSrc(call, x.Index, fld))
		} else {
			out.add(w.src(x.Tuple, -1))
		}
	case *ssa.MakeClosure:
		out["?"] = true
		for _, b := range x.Bindings {
			out.add(w.src(b, -1))
		}
	default:
		if in, ok := val.(ssa.Instruction); ok {
			for _, op := range in.Operands(nil) {
				if *op != nil {
					out.add(w.src(*op, -1))
				}
			}
		} else {
			out["?"] = true
		}
	}
	return out
}

// impls: repository implementations of the invoked interface method.
func (an *c09an) impls(cc *ssa.CallCommon) []*ssa.Function {
	if !cc.IsInvoke() {
		return nil
	}
	key := cc.Value.Type().String() + "." + cc.Method.Name()
	if v, ok := an.implMemo[key]; ok {
		return v
	}
	var out []*ssa.Function
	if iface, ok := cc.Value.Type().Underlying().(*types.Interface); ok {
		for _, T := range an.p.Implementations(iface) {
			fn := an.p.MethodOf(T, cc.Method.Name())
			if fn != nil && len(fn.Blocks) > 0 && an.p.IsRepoFn(fn) {
				out = append(out, fn)
			}
		}
	}
	an.implMemo[key] = out
	return out
}

func (w *c09walk) callSrc(call *ssa.Call, res, fld int) c09set {
	out := c09set{}
	cc := call.Common()
	type target struct {
		fn   *ssa.Function
		args []ssa.Value
	}
	var targets []target
	if cal := staticCallee(call); cal != nil {
		if len(cal.Blocks) > 0 && fnPkg(cal) != nil && isRepoPath(fnPkg(cal).Pkg.Path()) {
			targets = append(targets, target{cal, cc.Args})
		}
	} else if cc.IsInvoke() {
		for _, fn := range w.an.impls(cc) {
			targets = append(targets, target{fn, append([]ssa.Value{cc.Value}, cc.Args...)})
		}
	}
	if len(targets) == 0 {
		for _, a := range cc.Args {
			out.add(w.src(a, -1))
		}
		switch cc.Value.(type) {
		case *ssa.Function, *ssa.Builtin:
		default:
			if cc.Value != nil {
				out.add(w.src(cc.Value, -1))
			}
		}
		return out
	}
	for _, t := range targets {
		out.add(w.mapSrc(w.an.summary(t.fn, res, fld), t.args))
	}
	return out
}

// mapSrc translates sources stated in terms of a callee's parameters into the
// sources of the actual arguments (in terms of w's function); other sources
// are kept.
func (w *c09walk) mapSrc(sum c09set, args []ssa.Value) c09set {
	out := c09set{}
	for s := range sum {
		if !strings.HasPrefix(s, "p") {
			out[s] = true
			continue
		}
		name := ""
		num := s[1:]
		if i := strings.Index(s, "."); i > 0 {
			num, name = s[1:i], s[i+1:]
		}
		k := 0
		fmt.Sscanf(num, "%d", &k)
		if k >= len(args) {
			out["?"] = true
			continue
		}
		arg := args[k]
		if name != "" {
			if st := c09structOf(c09through(arg).Type()); st != nil {
				idx := -1
				for i := 0; i < st.NumFields(); i++ {
					if st.Field(i).Name() == name {
						idx = i
					}
				}
				if idx >= 0 {
					out.add(w.src(arg, idx))
					continue
				}
			}
		}
		out.add(w.src(arg, -1))
	}
	return out
}

// summary: sources (in terms of fn's own parameters) of result #res (field fld
// of it when fld>=0), including the branch conditions the result is control
// dependent on.
func (an *c09an) summary(fn *ssa.Function, res, fld int) c09set {
	key := fmt.Sprintf("%s#%d#%d", fn.String(), res, fld)
	if s, ok := an.sumMemo[key]; ok {
		return s
	}
	if an.sumBusy[key] {
		return c09set{}
	}
	an.sumBusy[key] = true
	defer delete(an.sumBusy, key)
	f := an.ctx(fn)
	w := an.walker(f, f.global, true)
	out := c09set{}
	allInstrs(fn, func(in ssa.Instruction) {
		r, ok := in.(*ssa.Return)
		if !ok {
			return
		}
		rs := retResults(r)
		if rs == nil || res >= len(rs) {
			return
		}
		out.add(w.src(rs[res], fld))
		out.add(w.ctrlOf(r.Block()))
	})
	an.sumMemo[key] = out
	return out
}

// pretty: render sources with parameter names of fn.
func c09pretty(fn *ssa.Function, s string) string {
	if !strings.HasPrefix(s, "p") {
		return s
	}
	num, rest := s[1:], ""
	if i := strings.Index(s, "."); i > 0 {
		num, rest = s[1:i], s[i:]
	}
	k := -1
	fmt.Sscanf(num, "%d", &k)
	if k >= 0 && k < len(fn.Params) {
		return fn.Params[k].Name() + rest
	}
	return s
}

func c09isParamSrc(s string) bool { return strings.HasPrefix(s, "p") }

// ---------------------------------------------------------------------------
// anchors

func c09short(fn *ssa.Function) string {
	name := fn.Name()
	if i := strings.Index(name, "["); i > 0 {
		name = name[:i]
	}
	if fn.Signature.Recv() != nil {
		return c09typeName(fn.Signature.Recv().Type()) + "." + name
	}
	return name
}

func c09isLRU(t types.Type) bool {
	n := namedOf(types.Unalias(t))
	if n == nil || n.Obj().Pkg() == nil {
		return false
	}
	return strings.Contains(n.Obj().Pkg().Path(), "golang-lru")
}

// c09cacheOp: the call is a method call on the LRU cache; returns its name.
func c09cacheOp(ci ssa.CallInstruction) (string, bool) {
	cal := staticCallee(ci)
	if cal == nil || cal.Signature.Recv() == nil || !c09isLRU(cal.Signature.Recv().Type()) {
		return "", false
	}
	name := cal.Name()
	if i := strings.Index(name, "["); i > 0 {
		name = name[:i]
	}
	return name, true
}

type c09site struct {
	label string
	call  *ssa.Call
	key   ssa.Value
	val   ssa.Value // Add only
}

// c09uniqueField: the only field of struct st whose type is identical to t.
func c09uniqueField(st *types.Struct, t types.Type) int {
	idx := -1
	for i := 0; i < st.NumFields(); i++ {
		if types.Identical(st.Field(i).Type(), t) {
			if idx >= 0 {
				return -1
			}
			idx = i
		}
	}
	return idx
}

func c09blocksFrom(start *ssa.BasicBlock, cut func(a, b *ssa.BasicBlock) bool) map[*ssa.BasicBlock]bool {
	seen := map[*ssa.BasicBlock]bool{}
	var walk func(b *ssa.BasicBlock)
	walk = func(b *ssa.BasicBlock) {
		if seen[b] {
			return
		}
		seen[b] = true
		for _, s := range b.Succs {
			if cut != nil && cut(b, s) {
				continue
			}
			walk(s)
		}
	}
	walk(start)
	return seen
}

func c09returnsIn(blocks map[*ssa.BasicBlock]bool, fn *ssa.Function) []*ssa.Return {
	var out []*ssa.Return
	for _, b := range fn.Blocks {
		if !blocks[b] || fn.Recover == b || len(b.Instrs) == 0 {
			continue
		}
		if r, ok := b.Instrs[len(b.Instrs)-1].(*ssa.Return); ok {
			out = append(out, r)
		}
	}
	return out
}

// c09edges lists the CFG edges on which pred holds.
func c09edges(fn *ssa.Function, pred EdgePred) [][2]*ssa.BasicBlock {
	var out [][2]*ssa.BasicBlock
	for _, b := range fn.Blocks {
		if len(b.Succs) == 2 && b.Succs[0] == b.Succs[1] {
			continue
		}
		for i, s := range b.Succs {
			if c, pol, ok := edgeFact(b, i); ok && pred(c, pol) {
				out = append(out, [2]*ssa.BasicBlock{b, s})
			}
		}
	}
	return out
}

func init() {
	register(&propDef{
		ID:        "C09",
		Run:       checkC09,
		Technique: "static analysis: field-sensitive interprocedural dependence (data + control) for cache-key completeness and predicate inputs, reaching definitions of local variables for value identity (cached = returned = matched rule), CFG region analysis of the scan loop, edge-guard reachability in the engine (go/ssa)",
		Explanation: "R1 cache-key completeness: every parameter / HostInfo field the per-rule predicate's result depends on (through every hostMatcher implementation) flows into the key of Cache.Get and of every Cache.Add; each Add uses field-for-field the key value Get used, on the same cache; the host value the scan matches against is the one the key was built from (or computed from it), so the decision is a function of the key; " +
			"R2 the value added to the cache is field-for-field the value returned after that Add, and the hit path returns the fields of the cached entry; " +
			"R3 the scan indexes the receiver's rule slice from element 0 upwards by 1 while index < len; after the predicate's true edge the predicate is not evaluated again; every return after that edge yields the matched element's outbound and hijack address; every return that crossed neither the hit edge nor a match edge yields the zero result; " +
			"R4 the engine returns the matched outbound only over the `ob != nil` edge and its default field only over the `ob == nil` edge; it writes to the request only over the `hijackIP != nil` edge, with values derived from the hijack address, and on that edge every path to a return rewrites both the host string and the resolve info; " +
			"R5 the per-rule predicate's result depends (data or control) on every criterion field of the rule struct (protocol, both port bounds, host matcher), on its protocol and port parameters and on every HostInfo field any matcher reads, and the scan passes its own parameters to it. " +
			"The scan may live in one helper the lookup calls (R1/R3/R5 then map the helper's parameters to the arguments of that call): the helper returns the decision (struct or tuple; every return of the lookup after the call hands that result on), or the address of the matched rule / nil (the lookup reads the rule's fields over the `!= nil` edge and yields zero otherwise), or is the slow path that also performs the Adds (under its key parameter, unchanged, which must be the key Get used).",
		NotDecided: []string{
			"matcher semantics: suffix dot boundary, wildcard, CIDR, GeoIP/GeoSite, port-range off-by-one, case folding and trailing-dot normalisation (value-level behaviour)",
			"injectivity of the key formatting (HostInfo.String) and LRU library correctness",
			"whether a miss is cached at all (not caching is invisible); whether the key is built before or after host-name normalisation (both are history independent as long as the scan sees a function of the keyed value)",
			"that Compile stores the rules in file order",
		},
		Assumptions: []string{
			"the rule slice is not modified while Match runs (a local copy of an element equals the element)",
			"a repository callee that only reads through a pointer parameter does not change the pointed-to local variable",
			"a repository helper the engine hands the request to performs its request writes at the call site (one level of helper is followed)",
		},
	})
}

func checkC09(c *Check) {
	c09Extra(c)
	p := c.P
	an := c09new(p)
	hostInfoT := p.Named(pACL, "HostInfo")
	hostMatcherT := p.Named(pACL, "hostMatcher")
	if hostInfoT == nil || hostMatcherT == nil || c09structOf(hostInfoT) == nil {
		c.Unres("acl.HostInfo / acl.hostMatcher")
		return
	}
	hostSt := c09structOf(hostInfoT)
	hmIface, ok := hostMatcherT.Underlying().(*types.Interface)
	if !ok {
		c.Unres("acl.hostMatcher is not an interface")
		return
	}

	// ---- the HostInfo fields any matcher's verdict depends on
	mAll := map[string]bool{}
	nImpl := 0
	for _, T := range p.Implementations(hmIface) {
		for i := 0; i < hmIface.NumMethods(); i++ {
			fn := p.MethodOf(T, hmIface.Method(i).Name())
			if fn == nil || len(fn.Blocks) == 0 || !p.IsRepoFn(fn) {
				continue
			}
			nImpl++
			c.Saw(fnName(fn))
			for s := range an.summary(fn, 0, -1) {
				if s == "?" {
					c.Undecided("C09.R5:matcher:"+c09short(fn), "C09.R5 the inputs of every hostMatcher implementation are enumerable", p.Pos(fn.Pos()), "the dependence walk met a construct it does not model")
				}
				for k, prm := range fn.Params {
					if types.Identical(prm.Type(), hostInfoT) && strings.HasPrefix(s, fmt.Sprintf("p%d.", k)) {
						mAll[s[strings.Index(s, ".")+1:]] = true
					}
				}
			}
		}
	}
	c.Floor("C09.R5:hostMatcher-implementations", nImpl, 6)
	c.Floor("C09.R5:HostInfo-fields-read-by-matchers", len(mAll), 3)

	// ---- the rule-set lookup function(s): methods taking a HostInfo whose receiver owns an LRU cache
	var setFns []*ssa.Function
	for _, fn := range p.RepoFns {
		if pk := fnPkg(fn); pk == nil || pk.Pkg.Path() != pACL || fn.Signature.Recv() == nil || len(fn.Blocks) == 0 {
			continue
		}
		st := c09structOf(c09elem(fn.Signature.Recv().Type()))
		if st == nil {
			continue
		}
		hasCache, hasHost := false, false
		for i := 0; i < st.NumFields(); i++ {
			if c09isLRU(st.Field(i).Type()) {
				hasCache = true
			}
		}
		for _, prm := range fn.Params[1:] {
			if types.Identical(prm.Type(), hostInfoT) {
				hasHost = true
			}
		}
		// a method of the same shape without any cache operation is a helper of
		// the lookup (e.g. the extracted scan): it is analysed through its caller
		// (a method that only adds to the cache is the slow path of a lookup)
		if hasCache && hasHost && c09hasCacheOp(fn, "Get", "Peek") {
			setFns = append(setFns, fn)
		}
	}
	if len(setFns) == 0 {
		c.Unres("acl: the lookup method (HostInfo parameter, receiver owning an LRU cache) - no instantiation of compiledRuleSetImpl.Match found")
		return
	}
	for _, fn := range setFns {
		c09checkSet(c, an, fn, hostInfoT, hostSt, mAll)
	}
	c09checkEngine(c, an, setFns)
}

const (
	c09r1 = "C09.R1 every input the per-rule predicate depends on flows into the key of Cache.Get and of every Cache.Add; Add uses the key Get used; the scan sees the host value the key was built from"
	c09r2 = "C09.R2 the value added to the cache is the value returned after that Add; a hit returns the fields of the cached entry"
	c09r3 = "C09.R3 forward scan over the rule slice from element 0; the first predicate hit ends the scan and returns that element's outbound and hijack address; no hit returns the zero result"
	c09r4 = "C09.R4 the engine returns the matched outbound only when non-nil and its default only when nil; the request is rewritten only with, and always with, a non-nil hijack address"
	c09r5 = "C09.R5 the per-rule predicate depends on every criterion field of the rule, on protocol, port and every HostInfo field a matcher reads; the scan passes its own parameters"
)

func c09intConst(v ssa.Value) (int64, bool) {
	c, ok := v.(*ssa.Const)
	if !ok || c.Value == nil || c.Value.Kind() != constant.Int {
		return 0, false
	}
	return constant.Int64Val(c.Value)
}

// c09eltOf: addr is (a local copy of) an element of a slice.
func c09eltOf(f *c09fn, addr ssa.Value) *ssa.IndexAddr {
	for i := 0; i < 8; i++ {
		switch x := addr.(type) {
		case *ssa.IndexAddr:
			return x
		case *ssa.UnOp:
			// a slice of pointers: the element itself is the address
			if ia, ok := x.X.(*ssa.IndexAddr); ok && x.Op == token.MUL {
				return ia
			}
			return nil
		case *ssa.Alloc:
			src := f.copyOf(x)
			if src == nil {
				return nil
			}
			addr = src
		default:
			return nil
		}
	}
	return nil
}

// c09hasCacheOp: fn itself calls a method of the LRU cache (one of names; any
// method when no name is given).
func c09hasCacheOp(fn *ssa.Function, names ...string) bool {
	found := false
	allInstrs(fn, func(in ssa.Instruction) {
		if ci, ok := in.(ssa.CallInstruction); ok {
			if op, ok := c09cacheOp(ci); ok {
				if len(names) == 0 {
					found = true
				}
				for _, n := range names {
					if n == op {
						found = true
					}
				}
			}
		}
	})
	return found
}

// c09predCalls: the calls in fn of a per-rule predicate (repository method
// with a HostInfo parameter and a single bool result).
func c09predCalls(p *Prog, fn *ssa.Function, hostInfoT types.Type) []*ssa.Call {
	var out []*ssa.Call
	allInstrs(fn, func(in ssa.Instruction) {
		call, ok := in.(*ssa.Call)
		if !ok {
			return
		}
		cal := staticCallee(call)
		if cal == nil || len(cal.Blocks) == 0 || !p.IsRepoFn(cal) || cal.Signature.Recv() == nil {
			return
		}
		rs := cal.Signature.Results()
		if rs.Len() != 1 || !types.Identical(rs.At(0).Type().Underlying(), types.Typ[types.Bool]) {
			return
		}
		for _, prm := range cal.Params {
			if types.Identical(prm.Type(), hostInfoT) {
				out = append(out, call)
				return
			}
		}
	})
	return out
}

// c09slot: where the scan helper's result carries one result of the lookup:
// result #res of the helper, or field fld of it when the result is a struct.
type c09slot struct{ res, fld int }

// c09slotVal: the value in the caller that holds result #res of call.
func c09slotVal(call *ssa.Call, res int) ssa.Value {
	if _, ok := call.Type().(*types.Tuple); ok {
		return extractOf(call, res)
	}
	return call
}

func c09checkSet(c *Check, an *c09an, fn *ssa.Function, hostInfoT *types.Named, hostSt *types.Struct, mAll map[string]bool) {
	p := c.P
	f := an.ctx(fn)
	gv := f.global
	name := c09short(fn)
	c.Saw(fnName(fn))

	// ---- cache operations
	var get *c09site
	var adds []*c09site
	cacheOK := true
	cacheOps := func(in *ssa.Function, helper bool) {
		allInstrs(in, func(in ssa.Instruction) {
			ci, ok := in.(ssa.CallInstruction)
			if !ok {
				return
			}
			op, ok := c09cacheOp(ci)
			if !ok {
				return
			}
			call, isCall := in.(*ssa.Call)
			args := ci.Common().Args
			switch {
			case !helper && isCall && (op == "Get" || op == "Peek") && len(args) == 2 && get == nil:
				get = &c09site{label: op, call: call, key: args[1]}
			case isCall && op == "Add" && len(args) == 3:
				adds = append(adds, &c09site{call: call, key: args[1], val: args[2]})
			default:
				cacheOK = false
				c.Undecided("C09.R1:"+name+":cache-op:"+op, c09r1, p.InstrPos(in), "cache operation "+op+" is not modelled (only one Get/Peek in the lookup and Add calls are)")
			}
		})
	}
	cacheOps(fn, false)
	if get == nil {
		c.Unres("acl " + name + ": Cache.Get call site")
		return
	}
	if !cacheOK {
		return
	}

	// ---- the per-rule predicate call: in the lookup itself, or in a helper the
	// lookup calls (the scan extracted into a function of its own).  sf/fs/sv are
	// the function that contains the scan; scanCall is its call site in fn (nil:
	// the scan is inline).
	// af/afc/av: the function that performs the Adds (fn, or the helper when it
	// is the slow path that scans and stores).
	sf, fs, sv := fn, f, gv
	af, afc, av := fn, f, gv
	var scanCall *ssa.Call
	preds := c09predCalls(p, fn, hostInfoT)
	if len(preds) == 0 {
		nHelpers := 0
		allInstrs(fn, func(in ssa.Instruction) {
			call, ok := in.(*ssa.Call)
			if !ok {
				return
			}
			cal := staticCallee(call)
			if cal == nil || cal == fn || len(cal.Blocks) == 0 || !p.IsRepoFn(cal) {
				return
			}
			if pk := fnPkg(cal); pk == nil || pk.Pkg.Path() != pACL {
				return
			}
			if ps := c09predCalls(p, cal, hostInfoT); len(ps) > 0 {
				nHelpers++
				scanCall, preds = call, ps
			}
		})
		if nHelpers != 1 {
			c.Unres(fmt.Sprintf("acl %s: exactly one per-rule predicate call (method, HostInfo parameter, bool result) in the lookup or in one helper it calls, found %d helpers with one", name, nHelpers))
			return
		}
		sf = staticCallee(scanCall)
		fs = an.ctx(sf)
		sv = fs.global
		c.Saw(fnName(sf))
		if c09hasCacheOp(sf) {
			// the helper is the slow path: it scans and stores the decision itself
			if len(adds) > 0 {
				c.Undecided("C09.R1:"+name+":scan-helper", c09r1, p.InstrPos(scanCall), "both the lookup and the helper that scans the rules add to the cache (not modelled)")
				return
			}
			cacheOps(sf, true)
			if !cacheOK {
				return
			}
			af, afc, av = sf, fs, sv
		}
	}
	if len(adds) == 0 {
		c.Unres("acl " + name + ": Cache.Add call site (in the lookup or in the helper that scans the rules)")
		return
	}
	if len(preds) != 1 {
		c.Unres(fmt.Sprintf("acl %s: exactly one per-rule predicate call (method, HostInfo parameter, bool result), found %d", name, len(preds)))
		return
	}
	pred := preds[0]
	sname := c09short(sf)
	predFn := staticCallee(pred)
	predName := c09short(predFn)
	c.Saw(fnName(predFn))
	isPredTrue := func(cond ssa.Value, pol bool) bool { return pol && c09through(cond) == ssa.Value(pred) }
	trueEdges := c09edges(sf, isPredTrue)
	if len(trueEdges) == 0 {
		c.Unres("acl " + sname + ": the branch on the predicate's result")
		return
	}
	var hScan ssa.Value
	for k, prm := range predFn.Params {
		if types.Identical(prm.Type(), hostInfoT) && k < len(pred.Call.Args) {
			hScan = pred.Call.Args[k]
		}
	}
	okv := extractOf(get.call, 1)
	getVal := extractOf(get.call, 0)
	if okv == nil || getVal == nil {
		c.Unres("acl " + name + ": both results of Cache." + get.label)
		return
	}
	isHit := func(cond ssa.Value, pol bool) bool { return pol && c09through(cond) == okv }

	// labels of the Add sites
	used := map[string]int{}
	for _, a := range adds {
		l := "Add(no-match)"
		if af != sf {
			l = "Add" // the scan's outcome is one value: the lookup does not distinguish the cases
		} else if guardedBy(a.call, isPredTrue) {
			l = "Add(match)"
		}
		used[l]++
		if used[l] > 1 {
			l = fmt.Sprintf("%s#%d", l, used[l])
		}
		a.label = l
	}

	// ---- R5 (scan side) and R1: inputs of the decision vs. components of the key
	w := an.walker(f, gv, false)
	var inputs c09set
	if scanCall == nil {
		inputs = w.src(pred, -1)
	} else {
		// what the predicate call depends on inside the helper, restated in terms
		// of the lookup through the arguments of the helper call
		inputs = w.mapSrc(an.walker(fs, sv, false).src(pred, -1), scanCall.Call.Args)
	}
	var need []string
	for k, prm := range fn.Params {
		if k == 0 {
			continue
		}
		if types.Identical(prm.Type(), hostInfoT) {
			for _, fl := range sortedKeys(mAll) {
				need = append(need, fmt.Sprintf("p%d.%s", k, fl))
			}
		} else {
			need = append(need, fmt.Sprintf("p%d", k))
		}
	}
	for _, s := range need {
		c.Req(inputs[s], "C09.R5:"+name+":scan-passes:"+c09pretty(fn, s), c09r5, p.InstrPos(pred),
			"the predicate call in the scan does not receive "+c09pretty(fn, s)+" of the lookup (the decision ignores it)")
	}
	c.Floor("C09.R5:scan-passes", len(need), 5)
	var comps []string
	for _, s := range inputs.list() {
		if c09isParamSrc(s) && !strings.HasPrefix(s, "p0") {
			comps = append(comps, s)
		}
	}
	for _, site := range append([]*c09site{get}, adds...) {
		ks := an.walker(f, gv, false).src(site.key, -1)
		if site != get && af != fn {
			ks = an.walker(f, gv, false).mapSrc(an.walker(afc, av, false).src(site.key, -1), scanCall.Call.Args)
		}
		for _, s := range comps {
			c.Req(ks[s], "C09.R1:"+name+":"+site.label+":key-includes:"+c09pretty(fn, s), c09r1, p.InstrPos(site.call),
				"the decision depends on "+c09pretty(fn, s)+" but the key passed to Cache."+site.label+" does not: two lookups differing only in it share one cache entry")
		}
	}
	c.Floor("C09.R1:key-components", len(comps), 5)
	// must-dependence: when a field of the key is assigned on several paths (or
	// from a φ), every alternative must carry all the components the field is
	// credited with above – otherwise some lookups use a key that ignores them
	if ld, ok := get.key.(*ssa.UnOp); ok {
		if keyAlloc, ok := ld.X.(*ssa.Alloc); ok {
			byField := map[int][]ssa.Value{}
			allInstrs(fn, func(in ssa.Instruction) {
				st, ok := in.(*ssa.Store)
				if !ok {
					return
				}
				fa, ok := st.Addr.(*ssa.FieldAddr)
				if !ok || fa.X != ssa.Value(keyAlloc) {
					return
				}
				vals := []ssa.Value{st.Val}
				if ph, ok := st.Val.(*ssa.Phi); ok {
					vals = ph.Edges
				}
				byField[fa.Field] = append(byField[fa.Field], vals...)
			})
			for fi, vals := range byField {
				if len(vals) < 2 {
					continue
				}
				union := map[string]bool{}
				per := make([]map[string]bool, len(vals))
				for i, v := range vals {
					per[i] = map[string]bool{}
					for s := range an.walker(f, gv, false).src(v, -1) {
						per[i][s] = true
						union[s] = true
					}
				}
				fname := structField(keyAlloc.Type(), fi).Name()
				for i := range vals {
					for _, s := range comps {
						if union[s] && !per[i][s] {
							c.Bad(fmt.Sprintf("C09.R1:%s:key-field-%s:alternative#%d-includes:%s", name, fname, i+1, c09pretty(fn, s)), c09r1, p.InstrPos(get.call),
								"one of the alternative values assigned to key field "+fname+" does not depend on "+c09pretty(fn, s)+" although the decision does: on that path two lookups differing only in it share one cache entry")
						}
					}
				}
			}
		}
	}

	// ---- R1: Add uses the key (and the cache) Get used
	keySt := c09structOf(get.key.Type())
	for _, a := range adds {
		good, detail := true, ""
		// aKey / ca: the Add's key and cache as the lookup sees them.  With the Adds
		// in the slow-path helper the key must be one of the helper's parameters,
		// unchanged; the lookup's argument for it stands in
		aKey := a.key
		ca := gv.valKey(a.call.Call.Args[0], 0)
		if af != fn {
			aKey = nil
			ca = av.valKey(a.call.Call.Args[0], 0)
			for k, prm := range af.Params {
				if k >= len(scanCall.Call.Args) {
					break
				}
				if types.Identical(prm.Type(), get.key.Type()) {
					same := true
					if keySt != nil {
						for i := 0; i < keySt.NumFields(); i++ {
							if !c09eq(av.tokensField(a.key, i), c09one(prm.Name()+"."+keySt.Field(i).Name())) {
								same = false
							}
						}
					} else if !c09eq(av.tokens(a.key), c09one(prm.Name())) {
						same = false
					}
					if same {
						aKey = scanCall.Call.Args[k]
					}
				}
				if pre := "*" + prm.Name() + "."; strings.HasPrefix(ca, pre) {
					ca = "*" + gv.valKey(scanCall.Call.Args[k], 0) + "." + ca[len(pre):]
				}
			}
			if aKey == nil {
				c.Undecided("C09.R1:"+name+":"+a.label+":same-key-as-"+get.label, c09r1, p.InstrPos(a.call),
					"the key "+c09short(af)+" adds under is not one of its parameters passed on unchanged")
				continue
			}
		}
		if keySt != nil {
			for i := 0; i < keySt.NumFields(); i++ {
				ta, tg := gv.tokensField(aKey, i), gv.tokensField(get.key, i)
				if !c09eq(ta, tg) {
					good = false
					detail += fmt.Sprintf(" key.%s is %s at Add but %s at %s;", keySt.Field(i).Name(), ta, tg, get.label)
				}
			}
		} else if ta, tg := gv.tokens(aKey), gv.tokens(get.key); !c09eq(ta, tg) {
			good = false
			detail = fmt.Sprintf(" key is %s at Add but %s at %s;", ta, tg, get.label)
		}
		if cg := gv.valKey(get.call.Call.Args[0], 0); ca != cg {
			good = false
			detail += " Add goes to " + ca + " but the lookup reads " + cg + ";"
		}
		c.Req(good, "C09.R1:"+name+":"+a.label+":same-key-as-"+get.label, c09r1, p.InstrPos(a.call),
			"the decision is stored under a key other than the one looked up:"+detail)
	}

	// ---- R1: the scan sees the host value the key was built from (or a function of it)
	if hScan == nil {
		c.Undecided("C09.R1:"+name+":scan-sees-keyed-host", c09r1, p.InstrPos(pred), "the predicate does not take the HostInfo by value")
	} else {
		recordIn := func(f *c09fn, gv *c09view, val ssa.Value, fld int) map[int]c09set {
			leaves := map[int]c09set{}
			rw := an.walker(f, gv, false)
			rw.recType = hostInfoT
			rw.rec = func(i int, t c09set) {
				if leaves[i] == nil {
					leaves[i] = c09set{}
				}
				leaves[i].add(t)
			}
			rw.src(val, fld)
			return leaves
		}
		record := func(val ssa.Value, fld int) map[int]c09set { return recordIn(f, gv, val, fld) }
		keyLeaves := record(get.key, -1)
		for i := 0; i < hostSt.NumFields(); i++ {
			fl := hostSt.Field(i).Name()
			if !mAll[fl] {
				continue
			}
			tk := keyLeaves[i]
			if tk == nil {
				continue // reported by key-includes
			}
			// hv: the value in the lookup whose field i the scan matches against
			hv := hScan
			if scanCall != nil {
				// inside the helper the scanned field must be (computed from) the same
				// field of one of the helper's HostInfo parameters; the argument the
				// lookup passes for that parameter is then what the scan sees
				org := sv.tokensField(hScan, i)
				if u, ok := c09through(hScan).(*ssa.UnOp); ok && u.Op == token.MUL {
					if a := fs.trackedStruct(u.X); a != nil && fs.copyOf(a) == nil {
						org = c09set{}
						for _, d := range sv.defsAt(u, c09cell{a, i}) {
							st, ok := d.(*ssa.Store)
							if !ok {
								org["effect:"+c09instrName(d)] = true
								continue
							}
							sub := -1
							if st.Addr == ssa.Value(a) {
								sub = i
							}
							if lv := recordIn(fs, sv, st.Val, sub)[i]; lv != nil {
								org.add(lv)
							} else {
								org["v:"+c09instrName(d)] = true
							}
						}
					}
				}
				hv = nil
				for k, prm := range sf.Params {
					if types.Identical(prm.Type(), hostInfoT) && k < len(scanCall.Call.Args) && c09eq(org, c09one(prm.Name()+"."+fl)) {
						hv = scanCall.Call.Args[k]
					}
				}
				if hv == nil {
					c.Undecided("C09.R1:"+name+":scan-sees-keyed-host:"+fl, c09r1, p.InstrPos(pred),
						fmt.Sprintf("inside %s the scan matches against host.%s = %s, which is not traced to one HostInfo parameter of the helper", sname, fl, org))
					continue
				}
			}
			ts := gv.tokensField(hv, i)
			good := c09eq(ts, tk)
			if !good {
				// accepted: the scanned value is computed from the keyed value
				if u, ok := c09through(hv).(*ssa.UnOp); ok && u.Op == token.MUL {
					if a := f.trackedStruct(u.X); a != nil {
						defs := gv.defsAt(u, c09cell{a, i})
						good = len(defs) > 0
						for _, d := range defs {
							st, ok := d.(*ssa.Store)
							if !ok {
								good = false
								break
							}
							sub := -1
							if st.Addr == ssa.Value(a) {
								sub = i
							}
							if lv := record(st.Val, sub)[i]; lv == nil || !c09eq(lv, tk) {
								good = false
							}
						}
					}
				}
			}
			c.Req(good, "C09.R1:"+name+":scan-sees-keyed-host:"+fl, c09r1, p.InstrPos(pred),
				fmt.Sprintf("the scan matches against host.%s = %s but the key was built from %s: the decision is not a function of the key, so a cached entry can answer a lookup that would decide differently", fl, ts, tk))
		}
	}

	// ---- field correspondences: result i <-> field of the cached value <-> field of the rule
	res := fn.Signature.Results()
	valSt := c09structOf(adds[0].val.Type())
	ruleT := predFn.Signature.Recv().Type()
	ruleSt := c09structOf(ruleT)
	if ruleSt == nil {
		ruleSt = c09structOf(c09elem(ruleT))
	}
	if valSt == nil || ruleSt == nil || res.Len() == 0 {
		c.Unres("acl " + name + ": struct types of the cached value and of the rule")
		return
	}
	valFld := make([]int, res.Len())
	ruleFld := make([]int, res.Len())
	for i := 0; i < res.Len(); i++ {
		valFld[i] = c09uniqueField(valSt, res.At(i).Type())
		ruleFld[i] = c09uniqueField(ruleSt, res.At(i).Type())
		if valFld[i] < 0 || ruleFld[i] < 0 {
			c.Unres(fmt.Sprintf("acl %s: result #%d has no unique counterpart field in the cached value / rule struct", name, i))
			return
		}
	}

	// ---- with a scan helper: where its result carries each result of the lookup
	// ptrMode: the helper returns the address of the matched rule (nil: none);
	// the lookup branches on it and reads the rule's fields itself.
	ptrMode := false
	if scanCall != nil {
		ruleElemT := ruleT
		if et := c09elem(ruleT); et != nil {
			ruleElemT = et
		}
		if et := c09elem(scanCall.Type()); et != nil && types.Identical(et, ruleElemT) {
			ptrMode = true
			if af != fn {
				c.Undecided("C09.R3:"+name+":scan-helper-result", c09r3, p.InstrPos(scanCall), "a helper that returns the matched rule and also adds to the cache is not modelled")
				return
			}
		}
	}
	var slots []c09slot
	if scanCall != nil && !ptrMode {
		var rts []types.Type
		if tup, ok := scanCall.Type().(*types.Tuple); ok {
			for j := 0; j < tup.Len(); j++ {
				rts = append(rts, tup.At(j).Type())
			}
		} else {
			rts = []types.Type{scanCall.Type()}
		}
		usedRes := map[int]bool{}
		for i := 0; i < res.Len(); i++ {
			var cands []c09slot
			for j, rt := range rts {
				if types.Identical(rt, res.At(i).Type()) {
					cands = append(cands, c09slot{j, -1})
				} else if st := c09structOf(rt); st != nil {
					if fi := c09uniqueField(st, res.At(i).Type()); fi >= 0 {
						cands = append(cands, c09slot{j, fi})
					}
				}
			}
			if len(cands) != 1 || c09slotVal(scanCall, cands[0].res) == nil {
				c.Undecided("C09.R3:"+name+":scan-helper-result", c09r3, p.InstrPos(scanCall),
					fmt.Sprintf("result #%d of the lookup has no unique counterpart in the result of %s", i, sname))
				return
			}
			slots = append(slots, cands[0])
			usedRes[cands[0].res] = true
		}
		if len(usedRes) != len(rts) {
			c.Undecided("C09.R3:"+name+":scan-helper-result", c09r3, p.InstrPos(scanCall),
				"the scan helper "+sname+" has results besides the outbound and the hijack address (a found flag, an index): not modelled")
			return
		}
	}
	// scanTok: tokens of the lookup's result #i among the values rs a scan-function return hands back
	scanTok := func(v *c09view, rs []ssa.Value, i int) c09set {
		if scanCall == nil {
			if i < len(rs) {
				return v.tokens(rs[i])
			}
			return c09set{}
		}
		sl := slots[i]
		if sl.res >= len(rs) {
			return c09set{}
		}
		if sl.fld < 0 {
			return v.tokens(rs[sl.res])
		}
		return v.tokensField(rs[sl.res], sl.fld)
	}

	// ---- R2 cached = returned
	for _, a := range adds {
		if !types.Identical(a.val.Type(), adds[0].val.Type()) {
			continue
		}
		var rets []*ssa.Return
		for _, in := range reachFrom(af, a.call, nil, nil) {
			if r, ok := in.(*ssa.Return); ok && af.Recover != r.Block() {
				rets = append(rets, r)
			}
		}
		for i := 0; i < res.Len(); i++ {
			good, detail := len(rets) > 0, "no return follows the Add"
			tv := av.tokensField(a.val, valFld[i])
			for _, r := range rets {
				rs := retResults(r)
				if rs == nil || (af == fn && i >= len(rs)) {
					continue
				}
				tr := c09set{}
				if af == fn {
					tr = gv.tokens(rs[i])
				} else {
					tr = scanTok(av, rs, i) // the helper's result, which the lookup hands on (R3 returns-scan-result)
				}
				if !c09eq(tr, tv) {
					good = false
					detail = fmt.Sprintf("the entry stores %s but the call returns %s (%s): a later hit answers differently from this evaluation", tv, tr, p.InstrPos(r))
				}
			}
			c.Req(good, "C09.R2:"+name+":"+a.label+":cached-equals-returned:"+valSt.Field(valFld[i]).Name(), c09r2, p.InstrPos(a.call), detail)
		}
	}
	nHit := 0
	for _, r := range c09returnsIn(c09blocksFrom(fn.Blocks[0], nil), fn) {
		if !guardedBy(r, isHit) {
			continue
		}
		nHit++
		rs := retResults(r)
		for i := 0; i < res.Len() && i < len(rs); i++ {
			want := gv.tokensField(getVal, valFld[i])
			got := gv.tokens(rs[i])
			c.Req(c09eq(got, want), "C09.R2:"+name+":hit-returns-cached:"+valSt.Field(valFld[i]).Name(), c09r2, p.InstrPos(r),
				fmt.Sprintf("on a cache hit result #%d is %s, not the cached entry's %s", i, got, want))
		}
	}
	c.Floor("C09.R2:hit-return", nHit, 1)

	// ---- R3 scan shape
	recvArg := pred.Call.Args[0]
	var eltAddr ssa.Value = recvArg
	if c09elem(recvArg.Type()) == nil {
		eltAddr = nil
		if u, ok := c09through(recvArg).(*ssa.UnOp); ok && u.Op == token.MUL {
			eltAddr = u.X
		}
	}
	var ia *ssa.IndexAddr
	if eltAddr != nil {
		ia = c09eltOf(fs, eltAddr)
	}
	orderKey := "C09.R3:" + name + ":scan-order"
	if ia == nil {
		c.Undecided(orderKey, c09r3, p.InstrPos(pred), "the predicate's receiver is not (a copy of) an indexed element of a slice")
	} else {
		c09checkOrder(c, fs, sf, pred, ia, orderKey, f, scanCall)
	}
	// the first hit ends the scan
	again := false
	for _, e := range trueEdges {
		if c09blocksFrom(e[1], nil)[pred.Block()] {
			again = true
		}
	}
	c.Req(!again, "C09.R3:"+name+":first-match-stops-scan", c09r3, p.InstrPos(pred),
		"after the predicate returned true the scan can evaluate the predicate again (a later rule can override the first match)")
	// returns after the match edge yield the matched element's fields
	nMatchRet := 0
	if eltAddr != nil {
		for _, e := range trueEdges {
			rv := fs.solve(e[0], e[1], nil)
			for _, r := range c09returnsIn(c09blocksFrom(e[1], nil), sf) {
				nMatchRet++
				rs := retResults(r)
				if ptrMode {
					good := len(rs) == 1
					if good {
						got, want := rv.addrKey(rs[0], 0), sv.addrKey(eltAddr, 0)
						if _, isConst := rs[0].(*ssa.Const); isConst || got != want {
							good = false
						}
					}
					c.Req(good, "C09.R3:"+name+":match-returns-matched-rule:address", c09r3, p.InstrPos(r),
						"after a match the helper does not return the address of the rule the predicate accepted")
					continue
				}
				for i := 0; i < res.Len() && (scanCall != nil || i < len(rs)); i++ {
					fl := ruleSt.Field(ruleFld[i]).Name()
					want := c09one("*" + sv.addrKey(eltAddr, 0) + "." + fl)
					got := scanTok(rv, rs, i)
					c.Req(c09eq(got, want), "C09.R3:"+name+":match-returns-matched-rule:"+fl, c09r3, p.InstrPos(r),
						fmt.Sprintf("after a match result #%d is %s, not the matched rule's %s %s", i, got, fl, want))
				}
			}
		}
	}
	c.Floor("C09.R3:match-return", nMatchRet, 1)
	// no hit and no match: zero result
	cutSet := map[[2]*ssa.BasicBlock]bool{}
	for _, e := range append(c09edges(fn, isHit), trueEdges...) {
		cutSet[e] = true
	}
	cut := func(a, b *ssa.BasicBlock) bool { return cutSet[[2]*ssa.BasicBlock{a, b}] }
	if ptrMode {
		// the lookup side: over the `helper result != nil` edge the returns yield
		// the fields of the rule the helper points to; without that edge (and
		// without a hit) the zero result
		isFound := func(cond ssa.Value, pol bool) bool {
			x, isNil, ok := nilTest(cond, pol)
			return ok && !isNil && c09through(x) == ssa.Value(scanCall)
		}
		foundEdges := c09edges(fn, isFound)
		if len(foundEdges) == 0 {
			c.Undecided("C09.R3:"+name+":scan-helper-result", c09r3, p.InstrPos(scanCall), "no branch on `"+sname+"(...) != nil` found in the lookup")
			return
		}
		for _, e := range foundEdges {
			rv := f.solve(e[0], e[1], nil)
			for _, r := range c09returnsIn(c09blocksFrom(e[1], nil), fn) {
				rs := retResults(r)
				for i := 0; i < res.Len() && i < len(rs); i++ {
					fl := ruleSt.Field(ruleFld[i]).Name()
					want := c09one("*" + gv.addrKey(scanCall, 0) + "." + fl)
					got := rv.tokens(rs[i])
					c.Req(c09eq(got, want), fmt.Sprintf("C09.R3:%s:returns-scan-result:%d", name, i), c09r3, p.InstrPos(r),
						fmt.Sprintf("after the helper found a rule result #%d is %s, not that rule's %s %s", i, got, fl, want))
				}
			}
		}
		lcut := map[[2]*ssa.BasicBlock]bool{}
		for _, e := range append(c09edges(fn, isHit), foundEdges...) {
			lcut[e] = true
		}
		lcutf := func(a, b *ssa.BasicBlock) bool { return lcut[[2]*ssa.BasicBlock{a, b}] }
		lv := f.solve(nil, nil, lcutf)
		for _, r := range c09returnsIn(c09blocksFrom(fn.Blocks[0], lcutf), fn) {
			rs := retResults(r)
			for i := 0; i < res.Len() && i < len(rs); i++ {
				got := lv.tokens(rs[i])
				c.Req(c09eq(got, c09one("zero")), fmt.Sprintf("C09.R3:%s:no-match-returns-zero:%d", name, i), c09r3, p.InstrPos(r),
					fmt.Sprintf("when no rule matches result #%d is %s instead of the zero value (the engine would not fall back to the default outbound)", i, got))
			}
		}
	} else if scanCall != nil {
		// the lookup side: a return the helper call dominates yields the helper's
		// result; a return that is reached without the helper call (and without a
		// hit) yields the zero result
		lv := f.solve(nil, nil, cut)
		afterScan := map[ssa.Instruction]bool{}
		for _, in := range reachFrom(fn, scanCall, nil, nil) {
			afterScan[in] = true
		}
		for _, r := range c09returnsIn(c09blocksFrom(fn.Blocks[0], cut), fn) {
			rs := retResults(r)
			for i := 0; i < res.Len() && i < len(rs); i++ {
				key := fmt.Sprintf("C09.R3:%s:returns-scan-result:%d", name, i)
				got := lv.tokens(rs[i])
				switch {
				case dominates(scanCall, r):
					var want c09set
					if sl := slots[i]; sl.fld < 0 {
						want = gv.tokens(c09slotVal(scanCall, sl.res))
					} else {
						want = gv.tokensField(c09slotVal(scanCall, sl.res), sl.fld)
					}
					c.Req(c09eq(got, want), key, c09r3, p.InstrPos(r),
						fmt.Sprintf("after the scan result #%d is %s, not the scan's outcome %s", i, got, want))
				case !afterScan[r]:
					c.Req(c09eq(got, c09one("zero")), key, c09r3, p.InstrPos(r),
						fmt.Sprintf("without a cache hit and without scanning the rules result #%d is %s instead of the zero value", i, got))
				default:
					c.Undecided(key, c09r3, p.InstrPos(r), "a return is reached both with and without the scan helper's call")
				}
			}
		}
	}
	mv := fs.solve(nil, nil, cut)
	nMiss := 0
	for _, r := range c09returnsIn(c09blocksFrom(sf.Blocks[0], cut), sf) {
		nMiss++
		rs := retResults(r)
		if ptrMode {
			c.Req(len(rs) == 1 && isNilConst(rs[0]), "C09.R3:"+name+":no-match-returns-nil-rule", c09r3, p.InstrPos(r),
				"when no rule matches the helper returns a rule instead of nil")
			continue
		}
		for i := 0; i < res.Len() && (scanCall != nil || i < len(rs)); i++ {
			got := scanTok(mv, rs, i)
			c.Req(c09eq(got, c09one("zero")), fmt.Sprintf("C09.R3:%s:no-match-returns-zero:%d", name, i), c09r3, p.InstrPos(r),
				fmt.Sprintf("when no rule matches result #%d is %s instead of the zero value (the engine would not fall back to the default outbound)", i, got))
		}
	}
	c.Floor("C09.R3:no-match-return", nMiss, 1)

	// ---- R5 the predicate consults every criterion
	sum := an.summary(predFn, 0, -1)
	nCrit := 0
	for i := 0; i < ruleSt.NumFields(); i++ {
		isResult := false
		for j := 0; j < res.Len(); j++ {
			if ruleFld[j] == i {
				isResult = true
			}
		}
		if isResult {
			continue
		}
		nCrit++
		fl := ruleSt.Field(i).Name()
		c.Req(sum["m:"+c09typeName(ruleT)+"."+fl] || sum["p0."+fl], "C09.R5:"+predName+":consults:"+fl, c09r5, p.Pos(predFn.Pos()),
			"the predicate's result does not depend on the rule's "+fl+" (the criterion is compiled but never applied)")
	}
	c.Floor("C09.R5:criteria", nCrit, 4)
	nPrm := 0
	for k, prm := range predFn.Params {
		if k == 0 {
			continue
		}
		var want []string
		if types.Identical(prm.Type(), hostInfoT) {
			for _, fl := range sortedKeys(mAll) {
				want = append(want, fmt.Sprintf("p%d.%s", k, fl))
			}
		} else {
			want = append(want, fmt.Sprintf("p%d", k))
		}
		for _, s := range want {
			nPrm++
			c.Req(sum[s], "C09.R5:"+predName+":depends-on:"+c09pretty(predFn, s), c09r5, p.Pos(predFn.Pos()),
				"the predicate's result does not depend on "+c09pretty(predFn, s))
		}
	}
	c.Floor("C09.R5:predicate-inputs", nPrm, 5)
}

// c09checkOrder: the scan indexes the receiver's slice 0,1,2,... while index < len.
// With a scan helper (scanCall != nil: its call in the lookup outer) the slice
// is a field of the lookup's receiver handed to the helper, or a parameter of
// the helper that receives such a field.
func c09checkOrder(c *Check, f *c09fn, fn *ssa.Function, pred *ssa.Call, ia *ssa.IndexAddr, key string, outer *c09fn, scanCall *ssa.Call) {
	p := c.P
	gv := f.global
	pos := p.InstrPos(pred)
	sl := gv.valKey(ia.X, 0)
	isRecvField := func(sl, recv string) bool {
		pre := "*" + recv + "."
		return strings.HasPrefix(sl, pre) && !strings.ContainsAny(sl[len(pre):], ".(*:")
	}
	if scanCall == nil {
		if !isRecvField(sl, fn.Params[0].Name()) {
			c.Undecided(key, c09r3, pos, "the scanned slice "+sl+" is not a field of the receiver")
			return
		}
	} else {
		okOwner := false
		recv := outer.fn.Params[0].Name()
		for k, prm := range fn.Params {
			if k >= len(scanCall.Call.Args) {
				break
			}
			arg := outer.global.valKey(scanCall.Call.Args[k], 0)
			if c09through(ia.X) == ssa.Value(prm) && isRecvField(arg, recv) {
				okOwner = true // the helper is handed the receiver's rule slice
			}
			if isRecvField(sl, prm.Name()) && arg == recv {
				okOwner = true // the helper is handed the receiver and scans its field
			}
		}
		if !okOwner {
			c.Undecided(key, c09r3, pos, "the slice "+sl+" scanned in the helper is not traced to a field of the lookup's receiver")
			return
		}
	}
	idx := ia.Index
	base, off := idx, int64(0)
	if b, ok := idx.(*ssa.BinOp); ok && b.Op == token.ADD {
		if k, ok := c09intConst(b.Y); ok {
			base, off = b.X, k
		} else if k, ok := c09intConst(b.X); ok {
			base, off = b.Y, k
		}
	}
	phi, ok := base.(*ssa.Phi)
	if !ok || len(phi.Edges) < 2 {
		c.Undecided(key, c09r3, pos, "the index of the scanned element is not a simple induction variable")
		return
	}
	// one initial value, every other incoming edge carries the same stepped value
	var init, next ssa.Value
	simple := true
	for _, e := range phi.Edges {
		if b, ok := e.(*ssa.BinOp); ok && b.X == ssa.Value(phi) {
			if next != nil && next != e {
				simple = false
			}
			next = e
		} else {
			if init != nil && init != e {
				simple = false
			}
			init = e
		}
	}
	if !simple || init == nil || next == nil {
		c.Undecided(key, c09r3, pos, "the index of the scanned element is not a simple induction variable")
		return
	}
	step, stepOK := int64(0), false
	if b, ok := next.(*ssa.BinOp); ok && b.X == ssa.Value(phi) {
		if k, ok := c09intConst(b.Y); ok {
			switch b.Op {
			case token.ADD:
				step, stepOK = k, true
			case token.SUB:
				step, stepOK = -k, true
			}
		}
	}
	if !stepOK {
		c.Undecided(key, c09r3, pos, "the step of the scan index is not a constant")
		return
	}
	if step < 0 {
		c.Bad(key, c09r3, pos, "the scan walks the rule slice backwards (the last matching rule wins instead of the first)")
		return
	}
	if step != 1 {
		c.Bad(key, c09r3, pos, fmt.Sprintf("the scan advances by %d (rules are skipped)", step))
		return
	}
	k0, ok := c09intConst(init)
	if init == nil || !ok {
		c.Undecided(key, c09r3, pos, "the initial scan index is not a constant")
		return
	}
	if k0+off != 0 {
		c.Bad(key, c09r3, pos, fmt.Sprintf("the scan starts at element %d, not at the first rule", k0+off))
		return
	}
	// bound: the predicate is evaluated only while idx < len(slice)
	isLen := func(v ssa.Value) (int64, bool) {
		d := int64(0)
		if b, ok := v.(*ssa.BinOp); ok && (b.Op == token.SUB || b.Op == token.ADD) {
			if k, ok := c09intConst(b.Y); ok {
				v = b.X
				d = k
				if b.Op == token.SUB {
					d = -k
				}
			}
		}
		call, ok := v.(*ssa.Call)
		if !ok || !isBuiltinCall(call, "len") || len(call.Call.Args) != 1 || gv.valKey(call.Call.Args[0], 0) != sl {
			return 0, false
		}
		return d, true
	}
	verdict := "" // "", "ok", or a defect description
	bound := func(cond ssa.Value, pol bool) bool {
		b, ok := cond.(*ssa.BinOp)
		if !ok {
			return false
		}
		x, y, op := b.X, b.Y, b.Op
		if y == idx {
			x, y = y, x
			switch op {
			case token.LSS:
				op = token.GTR
			case token.GTR:
				op = token.LSS
			case token.LEQ:
				op = token.GEQ
			case token.GEQ:
				op = token.LEQ
			}
		}
		if x != idx {
			return false
		}
		d, ok := isLen(y)
		if !ok {
			return false
		}
		if !pol {
			switch op {
			case token.LSS:
				op = token.GEQ
			case token.GEQ:
				op = token.LSS
			case token.LEQ:
				op = token.GTR
			case token.GTR:
				op = token.LEQ
			case token.EQL:
				op = token.NEQ
			case token.NEQ:
				op = token.EQL
			}
		}
		// normalise to idx < len + d
		switch op {
		case token.LSS, token.NEQ:
		case token.LEQ:
			d++
		default:
			return false
		}
		if d == 0 {
			verdict = "ok"
		} else if verdict == "" {
			verdict = fmt.Sprintf("the scan runs while index < len(rules)%+d", d)
		}
		return d == 0
	}
	guarded := guardedBy(pred, bound)
	switch {
	case guarded:
		c.OK(key, c09r3, pos)
	case verdict != "" && verdict != "ok":
		c.Bad(key, c09r3, pos, verdict+" (a rule is never examined or the index overruns)")
	default:
		c.Undecided(key, c09r3, pos, "no `index < len(rules)` guard recognised before the predicate call")
	}
}

// c09checkEngine: R4 - every caller of the lookup in extras/outbounds.
func c09checkEngine(c *Check, an *c09an, setFns []*ssa.Function) {
	p := c.P
	isSet := map[*ssa.Function]bool{}
	for _, f := range setFns {
		isSet[f] = true
	}
	ifaceT := p.Named(pACL, "CompiledRuleSet")
	nSites := 0
	for _, fn := range p.RepoFns {
		if pk := fnPkg(fn); pk == nil || pk.Pkg.Path() != pOutbounds {
			continue
		}
		for _, ci := range callsIn(fn, func(ci ssa.CallInstruction) bool {
			cc := ci.Common()
			if cc.IsInvoke() {
				n := namedOf(types.Unalias(cc.Value.Type()))
				return ifaceT != nil && n != nil && n.Origin() == ifaceT && cc.Signature().Results().Len() == 2
			}
			cal := staticCallee(ci)
			return cal != nil && isSet[cal]
		}) {
			call, ok := ci.(*ssa.Call)
			if !ok {
				continue
			}
			nSites++
			c.Saw(fnName(fn))
			c09checkEngineSite(c, an, fn, call)
		}
	}
	if nSites == 0 {
		c.Unres("extras/outbounds: a call of acl.CompiledRuleSet.Match")
	}
}

func c09checkEngineSite(c *Check, an *c09an, fn *ssa.Function, call *ssa.Call) {
	p := c.P
	name := c09short(fn)
	ob, hij := extractOf(call, 0), extractOf(call, 1)
	if ob == nil || hij == nil || fn.Signature.Results().Len() != 1 || fn.Signature.Recv() == nil {
		c.Unres("extras/outbounds " + name + ": both results of the lookup are used and one outbound is returned")
		return
	}
	nilEdge := func(target ssa.Value, wantNil bool) EdgePred {
		return func(cond ssa.Value, pol bool) bool {
			x, isNil, ok := nilTest(cond, pol)
			return ok && isNil == wantNil && c09through(resolve(x)) == target
		}
	}
	obNil, obSet, hijNonNil := nilEdge(ob, true), nilEdge(ob, false), nilEdge(hij, false)
	// `len(hijackIP) > 0` is as good as `hijackIP != nil`
	hijSet := func(cond ssa.Value, pol bool) bool {
		if hijNonNil(cond, pol) {
			return true
		}
		b, ok := cond.(*ssa.BinOp)
		if !ok {
			return false
		}
		x, y, op := b.X, b.Y, b.Op
		if isConstInt(x, 0) {
			x, y = y, x
			switch op {
			case token.LSS:
				op = token.GTR
			case token.GTR:
				op = token.LSS
			}
		}
		call, ok := x.(*ssa.Call)
		if !ok || !isBuiltinCall(call, "len") || !isConstInt(y, 0) || c09through(resolve(call.Call.Args[0])) != hij {
			return false
		}
		return (pol && (op == token.GTR || op == token.NEQ)) || (!pol && op == token.EQL)
	}
	resT := fn.Signature.Results().At(0).Type()
	recv := fn.Params[0]
	isDefault := func(v ssa.Value) (string, bool) {
		u, ok := c09through(resolve(v)).(*ssa.UnOp)
		if !ok || u.Op != token.MUL {
			return "", false
		}
		fa, ok := u.X.(*ssa.FieldAddr)
		if !ok || c09through(fa.X) != ssa.Value(recv) || !types.Identical(u.Type(), resT) {
			return "", false
		}
		return c09fieldName(fa.X.Type(), fa.Field), true
	}
	// (a) what is returned
	nOb, nDef := 0, 0
	allInstrs(fn, func(in ssa.Instruction) {
		r, ok := in.(*ssa.Return)
		if !ok || fn.Recover == r.Block() {
			return
		}
		rs := retResults(r)
		if len(rs) != 1 {
			return
		}
		type src struct {
			v        ssa.Value
			from, to *ssa.BasicBlock
		}
		var srcs []src
		if ph, ok := rs[0].(*ssa.Phi); ok {
			for i, e := range ph.Edges {
				srcs = append(srcs, src{e, ph.Block().Preds[i], ph.Block()})
			}
		} else {
			srcs = []src{{rs[0], r.Block(), nil}}
		}
		for _, s := range srcs {
			if c09through(resolve(s.v)) == ob {
				nOb++
				c.Req(srcGuarded(s.from, s.to, obSet), "C09.R4:"+name+":returns-match-only-if-non-nil", c09r4, p.InstrPos(r),
					"the lookup's outbound is returned on a path where it may be nil (no rule matched): the caller dereferences nil instead of using the default outbound")
			} else if fl, ok := isDefault(s.v); ok {
				nDef++
				c.Req(srcGuarded(s.from, s.to, obNil), "C09.R4:"+name+":default-only-on-no-match:"+fl, c09r4, p.InstrPos(r),
					"the engine's "+fl+" outbound is returned on a path where a rule matched")
			} else {
				c.Undecided("C09.R4:"+name+":return-source", c09r4, p.InstrPos(r), "the returned outbound is neither the lookup's result nor a field of the engine")
			}
		}
	})
	c.Floor("C09.R4:returns-match", nOb, 1)
	c.Floor("C09.R4:returns-default", nDef, 1)
	// (b) writes to the request (directly, or in a helper the request is handed to)
	type wr struct {
		in      ssa.Instruction
		fld     string
		derived bool
	}
	var writes []wr
	reqWrites := func(f *ssa.Function, prm *ssa.Parameter, emit func(st *ssa.Store, fld string)) {
		allInstrs(f, func(in ssa.Instruction) {
			st, ok := in.(*ssa.Store)
			if !ok {
				return
			}
			ap := accessPath(st.Addr)
			if r, ok := ap.Root.(*ssa.Parameter); ok && r == prm && len(ap.Fields) > 0 {
				emit(st, ap.Fields[0].Name())
			}
		})
	}
	for _, prm := range fn.Params[1:] {
		if c09elem(prm.Type()) == nil {
			continue
		}
		reqWrites(fn, prm, func(st *ssa.Store, fld string) {
			writes = append(writes, wr{st, fld, dependsOn(st.Val, hij, depOpts{throughCalls: true})})
		})
		for _, ci := range callsIn(fn, func(ci ssa.CallInstruction) bool { return true }) {
			cal := staticCallee(ci)
			hc, isCall := ci.(*ssa.Call)
			if cal == nil || !isCall || len(cal.Blocks) == 0 || !p.IsRepoFn(cal) {
				continue
			}
			for j, arg := range ci.Common().Args {
				if c09through(resolve(arg)) != ssa.Value(prm) || j >= len(cal.Params) {
					continue
				}
				c.Saw(fnName(cal))
				reqWrites(cal, cal.Params[j], func(st *ssa.Store, fld string) {
					derived := false
					for h, a2 := range ci.Common().Args {
						if c09through(resolve(a2)) == hij && h < len(cal.Params) && dependsOn(st.Val, cal.Params[h], depOpts{throughCalls: true}) {
							derived = true
						}
					}
					writes = append(writes, wr{hc, fld, derived})
				})
			}
		}
	}
	perFld := map[string]int{}
	for _, w := range writes {
		perFld[w.fld]++
		key := fmt.Sprintf("C09.R4:%s:rewrite-only-with-hijack:%s", name, w.fld)
		if perFld[w.fld] > 1 {
			key += fmt.Sprintf("#%d", perFld[w.fld])
		}
		good := guardedBy(w.in, hijSet)
		detail := "the request's " + w.fld + " is overwritten on a path where the hijack address may be nil"
		if good && !w.derived {
			good = false
			detail = "the value written to the request's " + w.fld + " is not derived from the hijack address"
		}
		c.Req(good, key, c09r4, p.InstrPos(w.in), detail)
	}
	c.Floor("C09.R4:request-writes", len(writes), 2)
	// (c) on the hijack edge every path to a return rewrites each of these fields
	edges := c09edges(fn, hijSet)
	for _, fl := range sortedKeys(perFld) {
		good := len(edges) > 0
		where := p.InstrPos(call)
		for _, e := range edges {
			// forward search from the edge target, stopping at a write of fl
			seen := map[*ssa.BasicBlock]bool{}
			var walk func(b *ssa.BasicBlock)
			walk = func(b *ssa.BasicBlock) {
				if seen[b] {
					return
				}
				seen[b] = true
				for _, in := range b.Instrs {
					for _, w := range writes {
						if w.in == in && w.fld == fl {
							return
						}
					}
					if r, ok := in.(*ssa.Return); ok {
						good = false
						where = p.InstrPos(r)
					}
				}
				for _, s := range b.Succs {
					walk(s)
				}
			}
			walk(e[1])
		}
		c.Req(good, "C09.R4:"+name+":hijack-applied:"+fl, c09r4, where,
			"with a non-nil hijack address a path returns without rewriting the request's "+fl+" (the connection goes to the original destination)")
	}
}

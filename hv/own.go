package main

import (
	"go/token"
	"go/types"

	"golang.org/x/tools/go/ssa"
)

// K5 ownership helpers.

// isLoadOfField: v is a load of `field` (last path element).
func isLoadOfField(v ssa.Value, field *types.Var) bool {
	v = resolve(v)
	switch x := v.(type) {
	case *ssa.UnOp:
		if x.Op != token.MUL {
			return false
		}
		if fa, ok := x.X.(*ssa.FieldAddr); ok {
			return structField(fa.X.Type(), fa.Field) == field
		}
	case *ssa.Field:
		return structField(x.X.Type(), x.Field) == field
	}
	return false
}

// nilTest decomposes `x == nil` / `x != nil`: returns x and whether the
// condition being `pol` means x is nil.
func nilTest(cond ssa.Value, pol bool) (ssa.Value, bool, bool) {
	b, ok := cond.(*ssa.BinOp)
	if !ok || (b.Op != token.EQL && b.Op != token.NEQ) {
		return nil, false, false
	}
	var x ssa.Value
	switch {
	case isNilConst(b.Y):
		x = b.X
	case isNilConst(b.X):
		x = b.Y
	default:
		return nil, false, false
	}
	isNil := (b.Op == token.EQL) == pol
	return x, isNil, true
}

// isCloseOf: instruction is a call `recv.Close()` (any arity) with recv
// accepted by pred.
func isCloseOf(in ssa.Instruction, pred func(ssa.Value) bool) bool {
	c, ok := in.(ssa.CallInstruction)
	if !ok {
		return false
	}
	if _, isGo := in.(*ssa.Go); isGo {
		return false
	}
	recv, ok := methodCallNamed(c, "Close")
	if !ok {
		return false
	}
	return pred(recv)
}

// overwriteOK implements the overwrite rule for an owning field: on every
// entry→store path the old value was found nil, closed, or moved into another
// owning field (moveTo).
func overwriteOK(st *ssa.Store, field *types.Var, moveTo []*types.Var) (bool, string) {
	fn := st.Parent()
	fa, ok := st.Addr.(*ssa.FieldAddr)
	if !ok {
		return false, "store does not go through a field address"
	}
	// fresh object: nothing to overwrite
	if al, ok := resolve(fa.X).(*ssa.Alloc); ok && al.Parent() == fn {
		return true, ""
	}
	// values known equal to the old value by a guarding equality edge
	equal := map[ssa.Value]bool{}
	for _, b := range fn.Blocks {
		for i := range b.Succs {
			cond, pol, ok := edgeFact(b, i)
			if !ok {
				continue
			}
			bo, ok := cond.(*ssa.BinOp)
			if !ok || !((bo.Op == token.EQL && pol) || (bo.Op == token.NEQ && !pol)) {
				continue
			}
			var other ssa.Value
			if isLoadOfField(bo.X, field) {
				other = bo.Y
			} else if isLoadOfField(bo.Y, field) {
				other = bo.X
			} else {
				continue
			}
			c0, p0 := cond, pol
			if guardedBy(st, func(c ssa.Value, p bool) bool { return c == c0 && p == p0 }) {
				equal[resolve(other)] = true
			}
		}
	}
	isOld := func(v ssa.Value) bool {
		return isLoadOfField(v, field) || equal[resolve(v)]
	}
	stop := func(in ssa.Instruction) bool {
		if isCloseOf(in, isOld) {
			return true
		}
		// move into another owning field
		if s2, ok := in.(*ssa.Store); ok && s2 != st {
			if fa2, ok := s2.Addr.(*ssa.FieldAddr); ok {
				f2 := structField(fa2.X.Type(), fa2.Field)
				for _, m := range moveTo {
					if f2 == m && isOld(s2.Val) {
						return true
					}
				}
			}
		}
		return false
	}
	nilEdge := func(cond ssa.Value, pol bool) bool {
		x, isNil, ok := nilTest(cond, pol)
		return ok && isNil && isLoadOfField(x, field)
	}
	for _, in := range reachFrom(fn, nil, stop, nilEdge) {
		if in == st {
			return false, "a path reaches the store with the previous value neither nil, closed nor moved"
		}
	}
	return true, ""
}

// leakPaths: from the acquiring call `acq` (whose result #idx is the resource)
// find function exits reachable without releasing (Close on the resource),
// storing it into a field, returning it, or crossing the acquire-failed edge.
func leakPaths(acq *ssa.Call, idx int, errIdx int) []ssa.Instruction {
	fn := acq.Parent()
	var res, errv ssa.Value
	if idx < 0 {
		res = acq
	} else {
		res = extractOf(acq, idx)
	}
	if errIdx >= 0 {
		errv = extractOf(acq, errIdx)
	}
	if res == nil {
		return nil
	}
	isRes := func(v ssa.Value) bool { return resolve(v) == res || derivedFromNoCall(v, res) }
	stop := func(in ssa.Instruction) bool {
		if isCloseOf(in, isRes) {
			return true
		}
		// cleanup helper: a closure that closes the captured resource, or a
		// function closing the parameter the resource is passed as
		if ci, ok := in.(ssa.CallInstruction); ok {
			if _, isGo := in.(*ssa.Go); !isGo {
				if callee := staticCallee(ci); callee != nil && len(callee.Blocks) > 0 {
					closes := false
					allInstrs(callee, func(x ssa.Instruction) {
						if isCloseOf(x, func(v ssa.Value) bool {
							if isRes(v) {
								return true // through a free variable
							}
							for i, prm := range callee.Params {
								if resolve(v) == ssa.Value(prm) && i < len(ci.Common().Args) && isRes(ci.Common().Args[i]) {
									return true
								}
							}
							return false
						}) {
							closes = true
						}
					})
					if closes {
						return true
					}
				}
			}
		}
		switch x := in.(type) {
		case *ssa.Store:
			if _, ok := x.Addr.(*ssa.FieldAddr); ok && isRes(x.Val) {
				// stored in a field of an object the function received (receiver,
				// parameter) = ownership transferred; a struct built locally
				// (e.g. &quic.Transport{Conn: pktConn}) does not take ownership
				if _, isParam := accessPath(x.Addr).Root.(*ssa.Parameter); isParam {
					return true
				}
			}
		case *ssa.Return:
			for _, r := range x.Results {
				if isRes(r) {
					return true
				}
			}
		case *ssa.Defer:
			if recv, ok := methodCallNamed(x, "Close"); ok && isRes(recv) {
				return true
			}
		}
		return false
	}
	failEdge := func(cond ssa.Value, pol bool) bool {
		if errv == nil {
			return false
		}
		x, isNil, ok := nilTest(cond, pol)
		return ok && !isNil && resolve(x) == errv
	}
	var leaks []ssa.Instruction
	for _, in := range reachFrom(fn, acq, stop, failEdge) {
		if r, ok := in.(*ssa.Return); ok && !stop(r) {
			leaks = append(leaks, r)
		}
	}
	return leaks
}

// derivedFromNoCall: v is res seen through conversions / interface wrapping /
// a composite literal field (e.g. &quic.Transport{Conn: pktConn} is not the
// resource itself, so only value-preserving steps count).
func derivedFromNoCall(v, res ssa.Value) bool {
	for i := 0; i < 16; i++ {
		v = resolve(v)
		if v == res {
			return true
		}
		switch x := v.(type) {
		case *ssa.TypeAssert:
			v = x.X
		case *ssa.Phi:
			for _, e := range x.Edges {
				if derivedFromNoCall(e, res) && i < 4 {
					return true
				}
			}
			return false
		default:
			return false
		}
	}
	return false
}

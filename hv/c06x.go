package main

import (
	"fmt"
	"go/token"

	"golang.org/x/tools/go/ssa"
)

// C06 extra rule (added after an independent seeded change was only UNDECIDED):
// a relay buffer taken from a sync.Pool must not go back to the pool while a
// goroutine that was handed the buffer may still be running.  Structural form:
// if function F obtains a value from (*sync.Pool).Get, returns it with Put (also
// when deferred) and starts goroutines that capture the value, then F must wait
// for every one of those goroutines (one channel receive per goroutine on the
// way to each return, or a WaitGroup.Wait).  Otherwise the pool hands the buffer
// to another relay while this one still forwards from it: bytes of one
// connection are injected into another ("nothing injected" clause of C06).
func c06Extra(c *Check) {
	p := c.P
	const rule = "C06.R2b a pooled relay buffer is returned to the pool only after every goroutine that was handed the buffer has finished (the function that Puts it waits for all of them)"
	n := 0
	for _, fn := range p.RepoFns {
		if pk := fnPkg(fn); pk == nil || pk.Pkg.Path() != pServer {
			continue
		}
		var gets []ssa.Value
		allInstrs(fn, func(in ssa.Instruction) {
			if call, ok := in.(*ssa.Call); ok && calleeIs(call, "sync", "(*Pool).Get") {
				gets = append(gets, call)
			}
		})
		if len(gets) == 0 {
			continue
		}
		n++
		derives := func(v ssa.Value) bool {
			ds := deps(v, depOpts{throughCalls: true})
			for _, g := range gets {
				if ds[g] {
					return true
				}
			}
			return false
		}
		puts := 0
		allInstrs(fn, func(in ssa.Instruction) {
			ci, ok := in.(ssa.CallInstruction)
			if !ok || !calleeIs(ci, "sync", "(*Pool).Put") {
				return
			}
			args := ci.Common().Args
			if len(args) == 2 && derives(args[1]) {
				puts++
			}
		})
		// goroutines started here that capture a pooled value
		capturing := 0
		allInstrs(fn, func(in ssa.Instruction) {
			g, ok := in.(*ssa.Go)
			if !ok {
				return
			}
			cap := false
			for _, a := range g.Call.Args {
				if derives(a) {
					cap = true
				}
			}
			if mc, ok := g.Call.Value.(*ssa.MakeClosure); ok {
				for _, b := range mc.Bindings {
					if derives(b) {
						cap = true
					}
					// captured variable cell holding the value
					if al, ok := b.(*ssa.Alloc); ok {
						for _, r := range *al.Referrers() {
							if st, ok := r.(*ssa.Store); ok && st.Addr == ssa.Value(al) && derives(st.Val) {
								cap = true
							}
						}
					}
				}
			}
			if cap {
				capturing++
			}
		})
		key := "C06.R2b:" + fnName(fn)
		if puts == 0 || capturing == 0 {
			c.OK(key, rule, p.Pos(fn.Pos()))
			continue
		}
		// waits: channel receives (outside loops they count once) and WaitGroup.Wait
		recvs, waits := 0, 0
		allInstrs(fn, func(in ssa.Instruction) {
			if u, ok := in.(*ssa.UnOp); ok && u.Op == token.ARROW {
				recvs++
			}
			if call, ok := in.(*ssa.Call); ok && calleeIs(call, "sync", "(*WaitGroup).Wait") {
				waits++
			}
		})
		c.Req(waits > 0 || recvs >= capturing, key, rule, p.Pos(fn.Pos()),
			fmt.Sprintf("%s returns a pooled buffer to the pool (Put) after waiting for %d of the %d goroutines it handed the buffer to: the pool can give the buffer to another relay while a direction of this one is still writing from it", fnName(fn), recvs, capturing))
	}
	c.Floor("C06.R2b:pool-users", n, 1)
}

// C06 extra rule (added after an independent seeded change was missed): the
// client's stream wrapper must end the upload gracefully. Bytes the application
// wrote before Close() are only guaranteed to arrive when Close() sends FIN:
// every path through (*tcpConn).Close calls Close() on the wrapped stream and
// none resets the send side (CancelWrite), which lets quic-go drop data that is
// still queued -- also for a connection whose response has not been read yet
// (fast-open, write-only clients).
func c06GracefulClose(c *Check) {
	p := c.P
	const rule = "C06.R9 the client stream wrapper's Close() always closes the wrapped stream gracefully (FIN) and never resets its send side: bytes written before Close() are not discarded"
	closeFn := p.Fn(pClient, "(*tcpConn).Close")
	if closeFn == nil {
		c.Unres("core/client (*tcpConn).Close")
		return
	}
	c.Saw(fnName(closeFn))
	isStreamCall := func(in ssa.Instruction, name string) bool {
		ci, ok := in.(ssa.CallInstruction)
		if !ok {
			return false
		}
		recv, ok := methodCallNamed(ci, name)
		if !ok {
			return false
		}
		u, isLoad := resolve(recv).(*ssa.UnOp)
		if !isLoad {
			return false
		}
		_, isFld := u.X.(*ssa.FieldAddr)
		return isFld
	}
	exits := exitsReachableAvoiding(closeFn, nil, func(in ssa.Instruction) bool { return isStreamCall(in, "Close") })
	pos := p.Pos(closeFn.Pos())
	if len(exits) > 0 {
		pos = p.InstrPos(exits[0])
	}
	c.Req(len(exits) == 0, "C06.R9:close-sends-fin", rule, pos, "a path through (*tcpConn).Close returns without closing the wrapped stream: the peer never sees the end of the upload")
	reset := ""
	allInstrs(closeFn, func(in ssa.Instruction) {
		if isStreamCall(in, "CancelWrite") {
			reset = p.InstrPos(in)
		}
	})
	c.Req(reset == "", "C06.R9:close-never-resets-send-side", rule, reset, "(*tcpConn).Close resets the send side of the stream (CancelWrite): data the application wrote just before closing is dropped instead of delivered")
}
